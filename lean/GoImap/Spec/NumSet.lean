/-
  Specification side of C15, written from RFC 3501/9051 `sequence-set`, not from the Go code.
-/
import GoImap.Model.NumSet
namespace GoImap.NumSetSpec
open GoImap.NumSet

/-- what one insertion denotes: members among the positive numbers, and whether "*" is in it -/
inductive Op where
  | num (q : Nat)
  | range (a b : Nat)
  | set (t : List Range)
deriving Repr

/-- membership of `q ≥ 1` in the seq-range `a:b` (either order, 0 = "*") -/
def memRange (a b q : Nat) : Bool :=
  if a = 0 && b = 0 then false
  else if a = 0 then b ≤ q
  else if b = 0 then a ≤ q
  else (min a b ≤ q && q ≤ max a b)

def starRange (a b : Nat) : Bool := a = 0 || b = 0

def Op.mem : Op → Nat → Bool
  | .num n, q => n ≠ 0 && n = q
  | .range a b, q => memRange a b q
  | .set t, q => t.any fun r => memRange r.start r.stop q

def Op.star : Op → Bool
  | .num n => n = 0
  | .range a b => starRange a b
  | .set t => t.any fun r => starRange r.start r.stop

def memOps (ops : List Op) (q : Nat) : Bool := ops.any fun o => o.mem q
def starOps (ops : List Op) : Bool := ops.any Op.star

/-- a static element `n` or `n:m` with `n ≤ m` -/
def Range.isStatic (r : Range) : Bool := r.start ≠ 0 && r.stop ≠ 0 && r.start ≤ r.stop

/-- canonical form: static ranges sorted, disjoint and non-adjacent; at most one dynamic
    element (`n:*` or `*`) and it is last; every element below 2^32 -/
def canonicalFrom (lo : Nat) : List Range → Bool
  | [] => true
  | [r] =>
    (r.start < W && r.stop < W) &&
    ((r.start = 0 && r.stop = 0) ||
     (r.start ≠ 0 && r.stop = 0 && lo < r.start) ||
     (Range.isStatic r && lo < r.start))
  | r :: rest => Range.isStatic r && r.stop < W && lo < r.start && canonicalFrom (r.stop + 1) rest

def canonical (s : List Range) : Bool := canonicalFrom 0 s

/-! RFC grammar:  sequence-set = (seq-number / seq-range) ["," sequence-set]
    seq-range = seq-number ":" seq-number ; seq-number = nz-number / "*"
    nz-number = digit-nz *DIGIT  (a non-zero unsigned 32-bit integer) -/

def nzNumber (cs : List Char) : Option Nat :=
  match cs with
  | [] => none
  | c :: rest =>
    if '1' ≤ c && c ≤ '9' && rest.all (fun d => '0' ≤ d && d ≤ '9') then
      let v := (c :: rest).foldl (fun n d => n * 10 + (d.toNat - 48)) 0
      if v < 4294967296 then some v else none
    else none

def seqNumber (cs : List Char) : Option Nat :=
  if cs = ['*'] then some 0 else nzNumber cs

/-- items of the text; `none` if the text is not a `sequence-set` -/
def seqItem (cs : List Char) : Option (Nat × Nat) :=
  match splitOn ':' cs with
  | [a] => (seqNumber a).map fun n => (n, n)
  | [a, b] =>
    match seqNumber a, seqNumber b with
    | some x, some y => some (x, y)
    | _, _ => none
  | _ => none

def seqSetText (t : List Char) : Option (List (Nat × Nat)) :=
  (splitOn ',' t).mapM seqItem

def memText (items : List (Nat × Nat)) (q : Nat) : Bool :=
  items.any fun (a, b) => if a = b then a ≠ 0 && a = q else memRange a b q

def starText (items : List (Nat × Nat)) : Bool := items.any fun (a, b) => a = 0 || b = 0

/-- ascending enumeration of a static canonical set -/
def enumerate (s : List Range) : List Nat :=
  s.flatMap fun r => List.range' r.start (r.stop + 1 - r.start)

end GoImap.NumSetSpec
