/-
  Specification side of C02: what a client API call MEANS for the server-side session, computed
  from the caller's arguments alone — no wire, no printer, no parser.

  `sem cfg c` is the list of session calls that must be made for the client call `c`, in canonical
  form; `canon` is the canonical form of a call, applied to what the session actually received
  before comparing.  The canonicalisations are exactly the documented ones:

    * INBOX is case-insensitive (RFC 9051 §5.1);
    * the system flags and the registered keywords are case-insensitive (canonical spelling);
      likewise the special-use attributes of CREATE;
    * a number set is the set of numbers it denotes ("*" = the largest number in use): order,
      overlap and adjacency of its ranges and the order of a range's two bounds do not matter;
    * search dates carry only the calendar day (the time of day and the zone are disregarded);
      `ON d` is `SINCE d BEFORE d+1` — a since/before pair is never anything else than its two days;
    * the five address/subject header keys of SEARCH (BCC, CC, FROM, SUBJECT, TO) are case-insensitive
      (canonical: Title case);
    * FETCH items form a set (BODY and BODYSTRUCTURE are one item with a flag), STATUS items and
      SEARCH return options are sets; a UID FETCH implies the UID item; a SEARCH without any of
      MIN/MAX/ALL/COUNT means ALL (RFC 4731 §3.1);
    * LIST with an empty pattern is the hierarchy-delimiter query: no pattern is delivered;
    * a SELECT issued while a mailbox is selected first unselects it (RFC 9051 §6.3.2);
    * MOVE to a server without the MOVE capability is COPY + STORE +FLAGS.SILENT (\Deleted) +
      EXPUNGE (UID EXPUNGE of the same set with UIDPLUS) (RFC 6851 §1);
    * the APPEND date is an instant in whole seconds (the zone it is written in is presentation).

  `InDomain cfg c` delimits where the property demands delivery: the arguments are expressible in
  IMAP (`expressible`), the feature is one the server advertises (`advertised`) and every string
  fits the server's 4096-byte limit for buffered literals (`withinLimits`).
-/
import GoImap.Model.CmdGrammar
namespace GoImap.CmdSpec
open GoImap.CmdGrammar

/-! ### number sets as sets -/

def W : Nat := 4294967296

/-- a range as an interval of ℕ ∪ {*}, with * = W above every number -/
def interval (r : NumSet.Range) : Nat × Nat :=
  let a := if r.start = 0 then W else r.start
  let b := if r.stop = 0 then W else r.stop
  (min a b, max a b)

def insertIv (iv : Nat × Nat) : List (Nat × Nat) → List (Nat × Nat)
  | [] => [iv]
  | x :: xs => if iv.1 ≤ x.1 then iv :: x :: xs else x :: insertIv iv xs

/-- put an interval in front of a list of disjoint, non-adjacent, ascending intervals that start at or
    after it, absorbing the ones it overlaps or touches -/
def absorb (x : Nat × Nat) : List (Nat × Nat) → List (Nat × Nat)
  | [] => [x]
  | y :: r => if y.1 ≤ x.2 + 1 then absorb (x.1, max x.2 y.2) r else x :: y :: r

/-- merge overlapping or adjacent intervals of a list sorted by lower bound -/
def mergeIv (l : List (Nat × Nat)) : List (Nat × Nat) := l.foldr absorb []

def ofInterval (iv : Nat × Nat) : NumSet.Range :=
  if iv.1 = W then ⟨0, 0⟩ else if iv.2 = W then ⟨iv.1, 0⟩ else ⟨iv.1, iv.2⟩

/-- the normal form of a set: disjoint, non-adjacent, ascending intervals -/
def normSet (rs : NumSet.Set) : NumSet.Set :=
  (mergeIv ((rs.map interval).foldr insertIv [])).map ofInterval

def canonNSet : NSet → NSet
  | .searchRes => .searchRes
  | .set rs => .set (normSet rs)

/-! ### canonical form of a call -/

def canonMailbox (m : List Nat) : List Nat := if isInbox m then inboxStr else m

/-- the five SEARCH keys that name a header field -/
def canonHeaderKey (k : Str) : Str := if addrKeys.contains (upper k) then titleCase k else k

def dayOnly (d : Date) : Date := { day := d.day, inst := d.day }

def canonFlat (f : Flat) : Flat :=
  { f with
    seqSets := f.seqSets.map canonNSet
    uidSets := f.uidSets.map canonNSet
    since := dayOnly f.since
    before := dayOnly f.before
    sentSince := dayOnly f.sentSince
    sentBefore := dayOnly f.sentBefore
    header := f.header.map fun kv => (canonHeaderKey kv.1, kv.2)
    flags := f.flags.map canonFlag
    notFlags := f.notFlags.map canonFlag }

mutual
  def canonCrit : Crit → Crit
    | .mk f nots ors => .mk (canonFlat f) (canonNots nots) (canonOrs ors)
  def canonNots : CritList → CritList
    | .nil => .nil
    | .cons c t => .cons (canonCrit c) (canonNots t)
  def canonOrs : OrList → OrList
    | .nil => .nil
    | .cons a b t => .cons (canonCrit a) (canonCrit b) (canonOrs t)
end

/-- RFC 4731: no result option ⇒ ALL -/
def canonSearchOpts (o : Option SearchOpts) : Option SearchOpts :=
  let o := o.getD {}
  some (if !o.min && !o.max && !o.all && !o.count then { o with all := true } else o)

def canon : Cmd → Cmd
  | .login u p => .login u p
  | .select m ro => .select (canonMailbox m) ro
  | .create m use => .create (canonMailbox m) (use.map canonAttr)
  | .delete m => .delete (canonMailbox m)
  | .rename m n => .rename (canonMailbox m) (canonMailbox n)
  | .subscribe m => .subscribe (canonMailbox m)
  | .unsubscribe m => .unsubscribe (canonMailbox m)
  | .list ref pats o => .list (canonMailbox ref) ((pats.filter (· ≠ [])).map canonMailbox) o
  | .status m o => .status (canonMailbox m) o
  | .append m flags t p => .append (canonMailbox m) (flags.map canonFlag) (t.map fun t => { t with off := 0 }) p
  | .copy uid s m => .copy uid (canonNSet s) (canonMailbox m)
  | .move uid s m => .move uid (canonNSet s) (canonMailbox m)
  | .store uid s op silent flags => .store uid (canonNSet s) op silent (flags.map canonFlag)
  | .expunge u => .expunge (u.map canonNSet)
  | .fetch uid s o => .fetch uid (canonNSet s) (if uid then { o with uid := true } else o)
  | .search uid c o => .search uid (canonCrit c) (canonSearchOpts o)
  | .unselect => .unselect

def deletedFlag : Str := str "\\Deleted"

/-- the session calls a client call stands for -/
def semRaw (cfg : Cfg) : Cmd → List Cmd
  | .select m ro => (if cfg.presel then [.unselect] else []) ++ [.select m ro]
  | .move uid s m =>
    if cfg.hasMove then [.move uid s m]
    else [.copy uid s m, .store uid s 1 true [deletedFlag], .expunge (if uid && cfg.hasUidPlus then some s else none)]
  | c => [c]

def sem (cfg : Cfg) (c : Cmd) : List Cmd := (semRaw cfg c).map canon

/-- FETCH items are a set: the sections may arrive in any order -/
def equivCall (a b : Cmd) : Bool :=
  match canon a, canon b with
  | .fetch u s o, .fetch u' s' o' =>
    u = u' && s = s' && decide ({ o with sections := [], binary := [], binarySize := [] } = { o' with sections := [], binary := [], binarySize := [] })
      && o.sections.isPerm o'.sections && o.binary.isPerm o'.binary && o.binarySize.isPerm o'.binarySize
  | x, y => decide (x = y)

def equivCalls : List Cmd → List Cmd → Bool
  | [], [] => true
  | a :: as, b :: bs => equivCall a b && equivCalls as bs
  | _, _ => false

/-! ### the domain of the property -/

/-- RFC 9051 `flag-keyword` / `flag-extension` over 7-bit ATOM-CHARs -/
def validFlag (f : Str) : Bool :=
  let body := if f.head? = some 92 then f.drop 1 else f
  body ≠ [] && body.all fun c => c ≤ 127 && isAtomChar c

def validAttr (f : Str) : Bool := f.head? = some 92 && validFlag f

def validPartial (p : Option Partial) : Bool :=
  match p with
  | none => true
  | some p => 0 ≤ p.offset && 0 ≤ p.size && p.offset < 9223372036854775808 && p.size < 9223372036854775808

def validPart (p : List Int) : Bool := p.all fun n => 1 ≤ n && n < 4294967296

def validNSet : NSet → Bool
  | .searchRes => true
  | .set rs => rs ≠ [] && rs.all fun r => r.start < W && r.stop < W && (r.start ≠ 0 || r.stop = 0)

def validSec (b : BodySec) : Bool :=
  validPart b.part && validPartial b.slice && (b.fields = [] || b.fieldsNot = []) &&
    ((b.fields = [] && b.fieldsNot = []) || b.spec = .header)

def validDatePair (s b : Date) : Bool := true && (s.day ≥ 0) && (b.day ≥ 0)

mutual
  def validCrit : Crit → Bool
    | .mk f nots ors =>
      f.seqSets.all (fun s => validNSet s && s ≠ .searchRes) && f.uidSets.all validNSet &&
        f.flags.all validFlag && f.notFlags.all validFlag && 0 ≤ f.larger && 0 ≤ f.smaller &&
        validDatePair f.since f.before && validDatePair f.sentSince f.sentBefore &&
        validNots nots && validOrs ors
  def validNots : CritList → Bool
    | .nil => true
    | .cons c t => validCrit c && validNots t
  def validOrs : OrList → Bool
    | .nil => true
    | .cons a b t => validCrit a && validCrit b && validOrs t
end

/-- the arguments can be said in IMAP at all -/
def expressible : Cmd → Bool
  | .create _ use => use.all validAttr
  | .list _ _ o => !o.selRecursive || o.selSubscribed
  | .append _ flags t _ =>
    flags.all validFlag && (match t with | none => true | some t => t.off % 60 = 0 && -86400 < t.off && t.off < 86400 && 0 ≤ t.secs + t.off + 62135596800 && t.secs + t.off < 253402300800)
  | .copy _ s _ => validNSet s
  | .move _ s _ => validNSet s
  | .store _ s op _ flags => validNSet s && op ≤ 2 && flags.all validFlag
  | .expunge (some s) => validNSet s
  | .fetch _ s o => validNSet s && o.sections.all validSec && o.binary.all (fun b => validPart b.part && validPartial b.slice) && o.binarySize.all validPart
  | .search _ c _ => validCrit c
  | _ => true

mutual
  def critUsesSearchRes : Crit → Bool
    | .mk f nots ors => f.uidSets.contains .searchRes || notsUseSearchRes nots || orsUseSearchRes ors
  def notsUseSearchRes : CritList → Bool
    | .nil => false
    | .cons c t => critUsesSearchRes c || notsUseSearchRes t
  def orsUseSearchRes : OrList → Bool
    | .nil => false
    | .cons a b t => critUsesSearchRes a || critUsesSearchRes b || orsUseSearchRes t
end

def usesSearchRes : NSet → Bool
  | .searchRes => true
  | _ => false

/-- the feature is in the set the server advertises (capability.go availableCaps; IMAP4rev2 implies
    the extensions it absorbed).  CONDSTORE, SPECIAL-USE (as a LIST option), APPENDLIMIT and
    QUOTA's DELETED-STORAGE are never advertised by this server. -/
def advertised (cfg : Cfg) : Cmd → Bool
  | .create _ use => use = [] || cfg.caps.createSpecialUse
  | .list _ _ o =>
    let ext := cfg.caps.listExt || cfg.caps.rev2
    !o.selSpecialUse && !o.retSpecialUse &&
      ((!o.selSubscribed && !o.selRemote && !o.selRecursive && !o.retSubscribed && !o.retChildren && o.retStatus = none) || ext) &&
      (match o.retStatus with
       | none => true
       | some st => (cfg.caps.listStatus || cfg.caps.rev2) && !st.highestModSeq && !st.appendLimit && !st.deletedStorage &&
           (!st.size || cfg.caps.statusSize || cfg.caps.rev2) && (!st.deleted || cfg.caps.rev2))
  | .status _ st => !st.highestModSeq && !st.appendLimit && !st.deletedStorage &&
      (!st.size || cfg.caps.statusSize || cfg.caps.rev2) && (!st.deleted || cfg.caps.rev2)
  | .copy _ s _ => !usesSearchRes s || cfg.caps.searchRes || cfg.caps.rev2
  | .move _ s _ => !usesSearchRes s || cfg.caps.searchRes || cfg.caps.rev2
  | .store _ s _ _ _ => !usesSearchRes s || cfg.caps.searchRes || cfg.caps.rev2
  | .expunge (some s) => cfg.hasUidPlus && (!usesSearchRes s || cfg.caps.searchRes || cfg.caps.rev2)
  | .fetch _ s o => !o.modSeq && (!usesSearchRes s || cfg.caps.searchRes || cfg.caps.rev2) &&
      ((o.binary = [] && o.binarySize = []) || cfg.caps.binary || cfg.caps.rev2)
  | .search _ c o =>
    (!critUsesSearchRes c || cfg.caps.searchRes || cfg.caps.rev2) &&
      (match o with
       | none => true
       | some o => ((!o.min && !o.max && !o.all && !o.count && !o.save) || cfg.caps.esearch || cfg.caps.rev2) &&
           (!o.save || cfg.caps.searchRes || cfg.caps.rev2))
  | _ => true

def strOk (s : Str) : Bool := s.length ≤ maxBuffered
def mboxOk (m : List Nat) : Bool := isInbox m || (Utf7.encode m).length ≤ maxBuffered

mutual
  def critWithin : Crit → Bool
    | .mk f nots ors =>
      f.header.all (fun kv => strOk kv.1 && strOk kv.2) && f.body.all strOk && f.text.all strOk && notsWithin nots && orsWithin ors
  def notsWithin : CritList → Bool
    | .nil => true
    | .cons c t => critWithin c && notsWithin t
  def orsWithin : OrList → Bool
    | .nil => true
    | .cons a b t => critWithin a && critWithin b && orsWithin t
end

/-! the nesting depth of a criteria tree (1 = no NOT / OR) -/
mutual
  def depth : Crit → Nat
    | .mk _ nots ors => 1 + max (depthNots nots) (depthOrs ors)
  def depthNots : CritList → Nat
    | .nil => 0
    | .cons c t => max (depth c) (depthNots t)
  def depthOrs : OrList → Nat
    | .nil => 0
    | .cons a b t => max (max (depth a) (depth b)) (depthOrs t)
end

/-- conn.go checkBufferedLiteral: strings that the server buffers are limited to 4096 bytes; decoder.go
    maxListDepth: parenthesised lists nest fewer than 1000 deep -/
def withinLimits : Cmd → Bool
  | .login u p => strOk u && strOk p
  | .select m _ => mboxOk m
  | .create m _ => mboxOk m
  | .delete m => mboxOk m
  | .rename m n => mboxOk m && mboxOk n
  | .subscribe m => mboxOk m
  | .unsubscribe m => mboxOk m
  | .list ref pats _ => mboxOk ref && pats.all mboxOk
  | .status m _ => mboxOk m
  | .append m _ _ _ => mboxOk m
  | .copy _ _ m => mboxOk m
  | .move _ _ m => mboxOk m
  | .fetch _ _ o => o.sections.all fun b => b.fields.all strOk && b.fieldsNot.all strOk
  | .search _ c _ => critWithin c && depth c < maxListDepth
  | _ => true

def inDomain (cfg : Cfg) (c : Cmd) : Bool := expressible c && advertised cfg c && withinLimits c

end GoImap.CmdSpec
