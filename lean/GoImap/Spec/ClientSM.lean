/-
  Specification side of C12, written from RFC 9051 (§3 state diagram, §5.5 pipelining, §6.3.2
  SELECT, §7 server responses) and the property text — not from the client's code. It shares only
  the *vocabulary* with the model (events, command kinds, observations).

  `rstep` interprets one transcript step at the protocol level; `okEv` says whether a conformant
  server/application may produce that step in that situation; `Conformant` = every step is ok;
  `ref` = the interpretation of the whole transcript:
    * connection state: greeting OK/PREAUTH/BYE; LOGIN ok ⇒ authenticated; SELECT/EXAMINE ok ⇒
      selected; SELECT answered NO while a mailbox is selected ⇒ no mailbox selected (§6.3.2), BAD =
      the command was not executed; CLOSE/UNSELECT ok ⇒ authenticated; [CLOSED] ⇒ authenticated;
      BYE ⇒ logout.
    * mailbox summary: the data of the last successful SELECT, then EXISTS n ↦ count n,
      EXPUNGE ↦ count − 1, FLAGS ↦ flags, [PERMANENTFLAGS] ↦ permanent flags.
    * per command: the status and code of the tagged reply bearing its tag, and the data responses
      it answers: a response answers the *only* pending command that can have caused it.
-/
import GoImap.Model.ClientSM
namespace GoImap.ClientSpec
open GoImap.ClientSM

structure RSt where
  state : ConnState := .none
  mbox : Option Mbox := none
  next : Nat := 0                    -- commands submitted so far; their tags are 1..next
  pend : List Cmd := []              -- submitted, not yet answered; with the data attributed so far
  waiting : Option Nat := none       -- the command whose literal has been announced and neither accepted nor refused
  alive : Bool := true
  greeted : Bool := false            -- the greeting has been received
  done : List Done := []
  uni : List Uni := []               -- data that answers no command (unilateral)
deriving DecidableEq, Repr

/-! ### which command can a response answer -/

def isSel (c : Cmd) : Bool := match c.kind with | .select _ => true | _ => false
def isExp (c : Cmd) : Bool := match c.kind with | .expunge => true | _ => false
def isCap (c : Cmd) : Bool := match c.kind with | .capability => true | _ => false
def isSrch (c : Cmd) : Bool := match c.kind with | .search _ _ => true | _ => false

/-- a command addressing messages by sequence number: no EXPUNGE may be sent while it is in
    progress (RFC 9051 §7.5.1) -/
def usesSeqNums (c : Cmd) : Bool :=
  match c.kind with
  | .fetch false _ => true
  | .search false _ => true
  | _ => false

/-- `* n FETCH` answers a FETCH/STORE that asked for that message and has not been given it -/
def fetchAnswers (m : Msg) (c : Cmd) : Bool :=
  match c.kind with
  | .fetch true set => m.uid != 0 && set.contains m.uid && !c.got.contains m.uid
  | .fetch false set => m.seq != 0 && set.contains m.seq && !c.got.contains m.seq
  | _ => false

/-- `* LIST` answers a LIST command, or (IMAP4rev2) the SELECT of that very mailbox -/
def listAnswers (m : Nat) (c : Cmd) : Bool :=
  match c.kind with
  | .list => true
  | .select m' => m' == m && !c.data.hasList
  | _ => false

def statusAnswers (m : Nat) (c : Cmd) : Bool :=
  match c.kind with
  | .status m' => m' == m
  | _ => false

/-- `* SEARCH` answers a SEARCH without RETURN -/
def searchAnswers (c : Cmd) : Bool :=
  match c.kind with
  | .search _ ret => !ret
  | _ => false

/-- `* ESEARCH (TAG t)` answers the search with that tag; without correlator, a search -/
def esearchAnswers (tag : Nat) (c : Cmd) : Bool :=
  match c.kind with
  | .search _ _ => tag == 0 || c.tag == tag
  | _ => false

/-- the UID indicator of an ESEARCH response matches the command (UID SEARCH or SEARCH) -/
def uidMatches (uid : Bool) (c : Cmd) : Bool :=
  match c.kind with
  | .search u _ => u == uid
  | _ => true

def count (p : Cmd → Bool) (l : List Cmd) : Nat := (l.filter p).length

/-- give the response to every command it answers (under `okEv` there is exactly one) -/
def deliver (p : Cmd → Bool) (f : Cmd → Cmd) (l : List Cmd) : List Cmd :=
  l.map fun c => if p c then f c else c

def addData (f : Data → Data) (c : Cmd) : Cmd := { c with data := f c.data }

def giveFetch (m : Msg) (c : Cmd) : Cmd :=
  match c.kind with
  | .fetch true _ => { c with got := m.uid :: c.got, data := { c.data with msgs := c.data.msgs ++ [m] } }
  | _ => { c with got := m.seq :: c.got, data := { c.data with msgs := c.data.msgs ++ [m] } }

def giveList (m : Nat) (c : Cmd) : Cmd :=
  match c.kind with
  | .list => { c with data := { c.data with items := c.data.items ++ [m] } }
  | _ => { c with data := { c.data with hasList := true } }

/-- the result set of SEARCH is a set -/
def insertNum (n : Nat) : List Nat → List Nat
  | [] => [n]
  | x :: xs => if n < x then n :: x :: xs else if n = x then x :: xs else x :: insertNum n xs

def selPending (r : RSt) : Bool := r.pend.any isSel

/-- data about "the mailbox being opened / the selected mailbox" -/
def mailboxData (r : RSt) (toSel : Data → Data) (toMbox : Mbox → Mbox) (u : Option Uni) : RSt :=
  if selPending r then { r with pend := deliver isSel (addData toSel) r.pend }
  else { r with mbox := r.mbox.map toMbox, uni := r.uni ++ u.toList }

def abortAll (r : RSt) : RSt :=
  { r with state := .logout, mbox := none, alive := false, waiting := none, pend := [],
           done := r.done ++ r.pend.map fun c => ⟨c.tag, .closed, 0, c.kind, c.data⟩ }

/-- the connection-state consequences of a tagged reply (RFC 9051 §3, §6.3.2) -/
def afterReply (r : RSt) (c : Cmd) (s : Status) : RSt :=
  match c.kind, s with
  | .login, .ok => { r with state := .auth, mbox := none }
  | .select m, .ok => { r with state := .selected, mbox := some ⟨m, c.data.num, c.data.flags, c.data.perm⟩ }
  | .select _, .no => if r.state = .selected then { r with state := .auth, mbox := none } else r
  | .unselect, .ok => { r with state := .auth, mbox := none }
  | _, _ => r

/-- a command submitted on a dead connection is aborted like those that were pending -/
def submitR (r : RSt) (k : Kind) (literal : Bool) : RSt :=
  let tag := r.next + 1
  let r : RSt := { r with next := tag, pend := r.pend ++ [({ tag := tag, kind := k } : Cmd)] }
  if r.alive then { r with waiting := if literal then some tag else r.waiting }
  else abortAll r

def rstep (r : RSt) : Ev → RSt
  | .submit k => submitR r k false
  | .begin k => submitR r k true
  | .greet g _ =>
    match g with
    | .ok => { r with greeted := true, state := .notAuth, mbox := none }
    | .preauth => { r with greeted := true, state := .auth, mbox := none }
    | .bye => abortAll { r with greeted := true }
  | .cont => { r with waiting := none }
  | .tagged tag s code =>
    match r.pend.find? (·.tag == tag) with
    | none => r
    | some c =>
      let c := match code, c.kind with
        | .appendUid v u, .append => addData (fun d => { d with appendUid := some (v, u) }) c
        | _, _ => c
      let r : RSt :=
        { r with
          pend := r.pend.filter (fun x => x.tag != tag)
          done := r.done ++ [(⟨tag, s, code.id, c.kind, c.data⟩ : Done)]
          waiting := if r.waiting = some tag then none else r.waiting }
      afterReply r c s
  | .exists_ n => mailboxData r (fun d => { d with num := n }) (fun mb => { mb with num := n }) (some (.exists_ n))
  | .recent _ => r
  | .expunge n =>
    let r : RSt := { r with mbox := r.mbox.map fun mb => { mb with num := mb.num - 1 } }
    if count isExp r.pend = 0 then { r with uni := r.uni ++ [.expunge n] }
    else { r with pend := deliver isExp (addData fun d => { d with items := d.items ++ [n] }) r.pend }
  | .flags fs => mailboxData r (fun d => { d with flags := fs }) (fun mb => { mb with flags := fs }) (some (.flags fs))
  | .permFlags fs => mailboxData r (fun d => { d with perm := fs }) (fun mb => { mb with perm := fs }) (some (.perm fs))
  | .uidNext n => mailboxData r (fun d => { d with uidNext := n }) id none
  | .uidValidity n => mailboxData r (fun d => { d with uidValidity := n }) id none
  | .fetch m =>
    if count (fetchAnswers m) r.pend = 0 then { r with uni := r.uni ++ [.fetch m] }
    else { r with pend := deliver (fetchAnswers m) (giveFetch m) r.pend }
  | .closedCode => { r with state := .auth, mbox := none }
  | .info => r
  | .byeClose => abortAll r
  | .list m => { r with pend := deliver (listAnswers m) (giveList m) r.pend }
  | .status m n => { r with pend := deliver (statusAnswers m) (addData fun d => { d with status := some (m, n) }) r.pend }
  | .search nums =>
    { r with pend := deliver searchAnswers (addData fun d => { d with items := nums.foldl (fun acc n => insertNum n acc) d.items }) r.pend }
  | .esearch tag _ nums =>
    { r with pend := deliver (esearchAnswers tag) (addData fun d => { d with items := nums }) r.pend }
  | .capability caps => { r with pend := deliver isCap (addData fun d => { d with items := caps }) r.pend }

/-- may a conformant server (responses) / a correct application (submissions) produce this step?

  * responses come only on a live, greeted connection; the greeting comes first and once;
  * a tagged reply names a pending tag (hence once: the reply removes it); it cannot be OK for a
    command whose literal has not been accepted; it cannot be OK in a state where the command is
    not permitted (LOGIN: not authenticated; SELECT: authenticated/selected; CLOSE/UNSELECT: selected);
  * `+` is sent only when a literal has been announced;
  * SELECT/EXAMINE is not pipelined with anything (RFC 9051 §5.5: its untagged data and the state
    it changes would make everything else ambiguous);
  * command-specific data arrives while exactly one command it can answer is pending
    (§5.5: commands whose data would be ambiguous are not pipelined together; LIST/STATUS/SEARCH/
    ESEARCH data is never unsolicited);
  * data about the selected mailbox is sent only while a mailbox is selected, or in answer to a
    SELECT once the previous mailbox has been closed ([CLOSED], §6.3.2);
  * EXPUNGE: only while a command is in progress and none that uses sequence numbers
    (§7.5.1), and only for a message that exists. -/
def okEv (r : RSt) : Ev → Bool
  | .submit k | .begin k =>
    r.waiting = none && !selPending r && (match k with | .select _ => r.pend.isEmpty | _ => true)
  | .greet _ _ => r.alive && !r.greeted
  | ev =>
    r.alive && r.greeted &&
    match ev with
    | .cont => r.waiting.isSome
    | .tagged tag s _ =>
      s != .closed && count (·.tag == tag) r.pend = 1 &&
      (r.waiting != some tag || s != .ok) &&
      (match r.pend.find? (·.tag == tag) with
       | some c =>
         (match c.kind, s with
          | .login, .ok => r.state = .notAuth
          | .select _, .ok => r.state = .auth || r.state = .selected
          | .unselect, .ok => r.state = .selected
          | _, _ => true)
       | none => false)
    | .exists_ _ | .flags _ | .permFlags _ | .recent _ | .uidNext _ | .uidValidity _ =>
      if selPending r then r.state != .selected && count isSel r.pend ≤ 1 else r.state = .selected
    | .expunge n =>
      r.state = .selected && !selPending r && !r.pend.isEmpty && !r.pend.any usesSeqNums &&
      count isExp r.pend ≤ 1 &&
      (match r.mbox with | some mb => 1 ≤ n && n ≤ mb.num | none => false)
    | .fetch m => r.state = .selected && !selPending r && count (fetchAnswers m) r.pend ≤ 1
    | .closedCode => r.state = .selected
    | .info => true
    | .byeClose => true
    | .list m => count (listAnswers m) r.pend = 1
    | .status m _ => count (statusAnswers m) r.pend = 1
    | .search _ => count searchAnswers r.pend = 1 && count isSrch r.pend = 1
    | .esearch tag uid _ => count (esearchAnswers tag) r.pend = 1 && (r.pend.filter (esearchAnswers tag)).all (uidMatches uid)
    | .capability _ => count isCap r.pend ≤ 1
    | _ => true

def rinit : RSt := {}

def ref (tr : List Ev) : RSt := tr.foldl rstep rinit

/-- every step is permitted in the situation the steps before it created -/
def conformantFrom (r : RSt) : List Ev → Bool
  | [] => true
  | ev :: rest => okEv r ev && conformantFrom (rstep r ev) rest

def Conformant (tr : List Ev) : Prop := conformantFrom rinit tr = true

instance (tr : List Ev) : Decidable (Conformant tr) := inferInstanceAs (Decidable (_ = true))

/-- length of the longest conformant prefix (the oracle judges the implementation on it) -/
def conformantPrefix (r : RSt) : List Ev → Nat
  | [] => 0
  | ev :: rest => if okEv r ev then conformantPrefix (rstep r ev) rest + 1 else 0

end GoImap.ClientSpec
