/-
  Specification side of C03 ("server responses are decoded by the client into the data the backend
  supplied"). Written from the API documentation of go-imap (/repo/*.go doc comments) and RFC 9051,
  not from the response parser.

  * `WellFormed…`  — what the writer API documents as its domain (RFC 9051 §9 grammar where the Go
    documentation is silent). Only well-formed values are judged by the oracle.
  * `canon…`       — the data the client is documented to deliver for a supplied value: the identity,
    except for the canonicalisations listed here, each justified on its line.
  * `norm…`        — identifications on the delivered side that are not observable as data
    (a nil and an empty slice/map; a nil and an empty number set).

  The oracle is `norm delivered = canon supplied` (per family below).
-/
import GoImap.Model.RespTypes
import GoImap.Model.Utf7
namespace GoImap.RespSpec
open GoImap.Resp

/-- the bytes of an ASCII string literal -/
def str (x : String) : Str := x.toList.map Char.toNat

def lowerByte (c : Nat) : Nat := if 65 ≤ c ∧ c ≤ 90 then c + 32 else c
def upperByte (c : Nat) : Nat := if 97 ≤ c ∧ c ≤ 122 then c - 32 else c
def lower (s : Str) : Str := s.map lowerByte
def upper (s : Str) : Str := s.map upperByte
def isASCII (s : Str) : Bool := s.all (· < 128)

/-- a nil slice and an empty one are the same data -/
def normOpt {α : Type} : Option (List α) → Option (List α)
  | some [] => none
  | x => x

/-! ## Flags, attributes, mailbox names -/

/-- RFC 9051 §2.3.2: system flags and the registered keywords are case-insensitive; the client
    delivers them in the spelling of the `imap.Flag…` constants (/repo/imap.go). -/
def knownFlags : List Str :=
  ["\\Seen", "\\Answered", "\\Flagged", "\\Deleted", "\\Draft", "$Forwarded", "$MDNSent", "$Junk", "$NotJunk",
   "$Phishing", "$Important"].map str

def canonOf (table : List Str) (f : Str) : Str :=
  match table.find? (fun k => lower k == lower f) with
  | some k => k
  | none => f

def canonFlag (f : Str) : Str := canonOf knownFlags f

/-- RFC 9051 §7.3.1: mailbox attributes are case-insensitive; spelling of the `imap.MailboxAttr…` constants. -/
def knownAttrs : List Str :=
  ["\\NonExistent", "\\Noinferiors", "\\Noselect", "\\HasChildren", "\\HasNoChildren", "\\Marked", "\\Unmarked",
   "\\Subscribed", "\\Remote", "\\All", "\\Archive", "\\Drafts", "\\Flagged", "\\Junk", "\\Sent", "\\Trash",
   "\\Important"].map str

def canonAttr (f : Str) : Str := canonOf knownAttrs f

/-- RFC 9051 §5.1: "INBOX" is case-insensitive; canonical spelling "INBOX". -/
def canonMailbox (m : Str) : Str := if lower m == str "inbox" then str "INBOX" else m

/-- ATOM-CHAR (RFC 9051 §9), 7-bit: any CHAR except atom-specials
    `( ) { SP CTL % * " \ ]` -/
def atomChar (c : Nat) : Bool :=
  32 < c && c < 127 && !(c == 40 || c == 41 || c == 123 || c == 37 || c == 42 || c == 34 || c == 92 || c == 93)

def isAtom (s : Str) : Bool := !s.isEmpty && s.all atomChar

/-- `flag = "\Answered" / … / flag-keyword / flag-extension`, `flag-perm = flag / "\*"` -/
def validFlag (perm : Bool) (f : Str) : Bool :=
  match f with
  | 92 :: rest => (perm && rest == [42]) || isAtom rest
  | _ => isAtom f

/-- `mbx-list-flags`: always `"\" atom`. Attributes are read by the same production as flags
    (`flag-extension`); an attribute spelled like a message flag in another case (`\seen`) would come
    back in the flag's spelling. RFC 9051 §7.3.1 defines no such attribute: outside the domain. -/
def validAttr (f : Str) : Bool :=
  (match f with
   | 92 :: rest => isAtom rest
   | _ => false) && canonOf knownAttrs (canonFlag f) == canonOf knownAttrs f

def validUTF8 (s : Str) : Bool := (Utf7.utf8dec s).isSome

/-- a hierarchy delimiter is one character (`imap.ListData.Delim` is a rune; 0 = no hierarchy):
    a Unicode scalar value other than NUL/CR/LF and other than U+FFFD (which Go cannot tell from a
    decoding error) -/
def validDelim (d : Int) : Bool :=
  d == 0 || (0 < d && d < 1114112 && !(55296 ≤ d && d < 57344) && d != 65533 && d != 13 && d != 10)

/-! ## Times -/

/-- date-time / RFC 5322 date carry whole seconds -/
def canonTime (t : DateTime) : DateTime := { t with ns := 0 }

/-- `date-year = 4DIGIT`, `zone = ("+" / "-") 4DIGIT` (hours and minutes) -/
def wfTime (t : DateTime) : Bool :=
  1 ≤ t.year && t.year ≤ 9999 && t.off % 60 == 0 && -86400 < t.off && t.off < 86400

/-- two times denote the same instant in the same zone -/
def sameTime (a b : Option DateTime) : Bool :=
  match a, b with
  | none, none => true
  | some x, some y => x.unix == y.unix && x.off == y.off && x.ns == y.ns
  | _, _ => false

/-! ## Envelope -/

def atext (c : Nat) : Bool :=
  (65 ≤ c && c ≤ 90) || (97 ≤ c && c ≤ 122) || (48 ≤ c && c ≤ 57) ||
  [33, 35, 36, 37, 38, 39, 42, 43, 45, 47, 61, 63, 94, 95, 96, 123, 124, 125, 126].contains c

def splitOn (sep : Nat) : Str → List Str
  | [] => [[]]
  | c :: rest =>
    match splitOn sep rest with
    | [] => [[]]
    | h :: t => if c == sep then [] :: h :: t else (c :: h) :: t

/-- RFC 5322 `dot-atom-text` -/
def dotAtomText (s : Str) : Bool := (splitOn 46 s).all fun a => !a.isEmpty && a.all atext

/-- RFC 5322 `no-fold-literal = "[" *dtext "]"` -/
def noFoldLiteral (s : Str) : Bool :=
  match s with
  | 91 :: rest =>
    match rest.reverse with
    | 93 :: mid => mid.all fun c => (33 ≤ c && c ≤ 90) || (94 ≤ c && c ≤ 126)
    | _ => false
  | _ => false

/-- `imap.Envelope`: "The In-Reply-To and Message-ID values contain message identifiers without angle
    brackets": RFC 5322 `msg-id` = id-left "@" id-right without the brackets -/
def validMsgID (s : Str) : Bool :=
  match splitOn 64 s with
  | [l, r] => dotAtomText l && (dotAtomText r || noFoldLiteral r)
  | _ => false

def wfEnvelope (e : Envelope) : Bool :=
  (match e.date with | none => true | some t => wfTime t) &&
  (e.messageID.isEmpty || validMsgID e.messageID) &&
  (match e.inReplyTo with | none => true | some l => l.all validMsgID)

def emptyEnvelope : Envelope :=
  { date := none, subject := [], from_ := none, sender := none, replyTo := none, to := none, cc := none, bcc := none,
    inReplyTo := none, messageID := [] }

def canonEnvelope (e : Envelope) : Envelope :=
  { date := e.date.map canonTime
    subject := e.subject
    from_ := normOpt e.from_
    -- RFC 9051 §7.5.2 / writeEnvelope: a sender / reply-to the server omits is the same as from
    sender := normOpt (match e.sender with | none => e.from_ | some l => some l)
    replyTo := normOpt (match e.replyTo with | none => e.from_ | some l => some l)
    to := normOpt e.to
    cc := normOpt e.cc
    bcc := normOpt e.bcc
    inReplyTo := normOpt e.inReplyTo
    messageID := e.messageID }

/-- an ENVELOPE item always carries an envelope: a nil `*imap.Envelope` is the empty envelope -/
def canonEnvOpt : Option Envelope → Option Envelope
  | none => some emptyEnvelope
  | some e => some (canonEnvelope e)

def normEnvelope (e : Envelope) : Envelope :=
  { e with from_ := normOpt e.from_, sender := normOpt e.sender, replyTo := normOpt e.replyTo, to := normOpt e.to,
           cc := normOpt e.cc, bcc := normOpt e.bcc, inReplyTo := normOpt e.inReplyTo }

def normEnvOpt : Option Envelope → Option Envelope
  | none => some emptyEnvelope
  | some e => some (normEnvelope e)

/-! ## Body structure -/

def ltStr : Str → Str → Bool
  | [], [] => false
  | [], _ :: _ => true
  | _ :: _, [] => false
  | a :: as, b :: bs => a < b || (a == b && ltStr as bs)

def insertKV (kv : Str × Str) : List (Str × Str) → List (Str × Str)
  | [] => [kv]
  | h :: t => if ltStr kv.1 h.1 then kv :: h :: t else h :: insertKV kv t

/-- parameters are a map (`map[string]string`): their order is not data; listed by key -/
def sortKV (l : List (Str × Str)) : List (Str × Str) := l.foldl (fun m kv => insertKV kv m) []

/-- MIME parameter names are case-insensitive tokens; the client delivers them lower-cased -/
def canonParams (p : Params) : Params := normOpt (p.map fun l => sortKV (l.map fun kv => (lower kv.1, kv.2)))

def normParams (p : Params) : Params := normOpt (p.map sortKV)

def nodupKeys : List Str → Bool
  | [] => true
  | k :: t => !t.contains k && nodupKeys t

/-- parameter names: non-empty, 7-bit, pairwise distinct ignoring case -/
def wfParams (p : Params) : Bool :=
  match p with
  | none => true
  | some l => l.all (fun kv => !kv.1.isEmpty && isASCII kv.1) && nodupKeys (l.map fun kv => lower kv.1)

def canonDisp (d : Disposition) : Disposition := { d with params := canonParams d.params }
def normDisp (d : Disposition) : Disposition := { d with params := normParams d.params }

def canonSingleExt (x : SingleExt) : SingleExt := { x with disp := x.disp.map canonDisp, lang := normOpt x.lang }
def canonMultiExt (x : MultiExt) : MultiExt :=
  { x with params := canonParams x.params, disp := x.disp.map canonDisp, lang := normOpt x.lang }
def normSingleExt (x : SingleExt) : SingleExt := { x with disp := x.disp.map normDisp, lang := normOpt x.lang }
def normMultiExt (x : MultiExt) : MultiExt :=
  { x with params := normParams x.params, disp := x.disp.map normDisp, lang := normOpt x.lang }

/-- `body-fld-enc` is case-insensitive, delivered upper-cased; an absent encoding means "7BIT"
    (RFC 2045 §6.1 default) -/
def canonEnc (e : Str) : Str := if e.isEmpty then str "7BIT" else upper e

def canonHdr (h : SingleHdr) : SingleHdr := { h with params := canonParams h.params, enc := canonEnc h.enc }
def normHdr (h : SingleHdr) : SingleHdr := { h with params := normParams h.params }

mutual
  /-- `ext = false` (FETCH BODY): the non-extensible form carries no extension data -/
  def canonBody (ext : Bool) : Body → Body
    | .single h msg text x => .single (canonHdr h) (canonMsg ext msg) text (if ext then x.map canonSingleExt else none)
    | .multi ch st x => .multi (canonBodies ext ch) st (if ext then x.map canonMultiExt else none)
  def canonMsg (ext : Bool) : MsgOpt → MsgOpt
    | .none => .none
    | .some e b n => .some (canonEnvOpt e) (canonBody ext b) n
  def canonBodies (ext : Bool) : BodyList → BodyList
    | .nil => .nil
    | .cons b t => .cons (canonBody ext b) (canonBodies ext t)
end

mutual
  def normBody : Body → Body
    | .single h msg text x => .single (normHdr h) (normMsg msg) text (x.map normSingleExt)
    | .multi ch st x => .multi (normBodies ch) st (x.map normMultiExt)
  def normMsg : MsgOpt → MsgOpt
    | .none => .none
    | .some e b n => .some (normEnvOpt e) (normBody b) n
  def normBodies : BodyList → BodyList
    | .nil => .nil
    | .cons b t => .cons (normBody b) (normBodies t)
end

/-- RFC 9051 `media-message = "MESSAGE" SP ("RFC822" / "GLOBAL")` -/
def isMessage (h : SingleHdr) : Bool :=
  lower h.type == str "message" && (lower h.subtype == str "rfc822" || lower h.subtype == str "global")

/-- RFC 9051 `media-text = "TEXT" SP media-subtype` -/
def isText (h : SingleHdr) : Bool := lower h.type == str "text"

def wfDisp : Option Disposition → Bool
  | none => true
  | some d => wfParams d.params

mutual
  /-- what the writer API documents: a multipart has at least one child
      (`writeBodyTypeMpart` panics otherwise); when the client asked for the extended form, extension
      data is supplied (`WriteBodyStructure` panics otherwise); `MessageRFC822` is present exactly for
      message/rfc822 (or /global) and `Text` exactly for text/* (field comments of
      `imap.BodyStructureSinglePart`); line counts are numbers. -/
  def wfBody (ext : Bool) : Body → Bool
    | .single h msg text x =>
      wfParams h.params && isASCII h.enc &&
      (isText h == text.isSome) && (match text with | some n => 0 ≤ n | none => true) &&
      (!ext || (match x with | some e => wfDisp e.disp | none => false)) &&
      wfMsg ext (isMessage h) msg
    | .multi ch _ x =>
      (match ch with | .nil => false | .cons _ _ => true) && wfBodies ext ch &&
      (!ext || (match x with | some e => wfParams e.params && wfDisp e.disp | none => false))
  def wfMsg (ext : Bool) (isMsg : Bool) : MsgOpt → Bool
    | .none => !isMsg
    | .some e b n => isMsg && 0 ≤ n && (match e with | none => true | some e => wfEnvelope e) && wfBody ext b
  def wfBodies (ext : Bool) : BodyList → Bool
    | .nil => true
    | .cons b t => wfBody ext b && wfBodies ext t
end

/-! ## Sections -/

def inU32 (n : Int) : Bool := 0 ≤ n && n < 4294967296

/-- RFC 9051 `section-part = nz-number *("." nz-number)`, `section-msgtext`/`section-text`; the Go
    type allows a header-field list only with the HEADER specifier and only one of the two lists;
    the origin octet of a partial response is a `number` -/
def wfSection (s : Section) : Bool :=
  [str "", str "HEADER", str "MIME", str "TEXT"].contains s.spec &&
  s.part.all (fun p => 0 < p && inU32 p) &&
  (s.spec == str "HEADER" || (s.fields.isEmpty && s.fieldsNot.isEmpty)) &&
  (s.fields.isEmpty || s.fieldsNot.isEmpty) &&
  (s.spec != str "MIME" || !s.part.isEmpty) &&
  (match s.partial_ with | none => true | some p => inU32 p.offset && 0 ≤ p.size)

def wfBinSection (s : BinSection) : Bool :=
  s.part.all (fun p => 0 < p && inU32 p) &&
  (match s.partial_ with | none => true | some p => inU32 p.offset && 0 ≤ p.size)

/-- the response names the section and the origin octet; `.PEEK` and the requested length are
    properties of the request only (RFC 9051 `msg-att-static`: `"BODY" section ["<" number ">"]`) -/
def canonSection (s : Section) : Section :=
  { s with peek := false, partial_ := s.partial_.map fun p => { p with size := 0 } }

/-- RFC 9051 `msg-att-static`: `"BINARY" section-binary SP (nstring / literal8)`: no origin octet -/
def canonBinSection (s : BinSection) : BinSection := { s with peek := false, partial_ := none }

/-! ## FETCH -/

def canonItem : Item → Item
  | .uid n => .uid n
  | .flags l => .flags (l.map canonFlag)
  | .date t => .date (t.map canonTime)
  | .size n => .size n
  | .env e => .env (canonEnvOpt e)
  | .bs ext b => .bs ext (canonBody ext b)
  | .sec s d => .sec (canonSection s) d      -- literal bytes unchanged
  | .bin s d => .bin (canonBinSection s) d
  | .binsize p n => .binsize p n
  | .other n => .other n

def normItem : Item → Item
  | .env e => .env (normEnvOpt e)
  | .bs ext b => .bs ext (normBody b)
  | i => i

def wfItem (reqExt : Option Bool) : Item → Bool
  | .uid n => 0 < n && n < 4294967296
  | .flags l => l.all (validFlag false)
  | .date t => (match t with | some t => wfTime t | none => false)   -- INTERNALDATE is a date-time, never absent
  | .size n => 0 ≤ n
  | .env e => (match e with | none => true | some e => wfEnvelope e)
  | .bs ext b => reqExt == some ext && wfBody ext b
  | .sec s _ => wfSection s
  | .bin s _ => wfBinSection s
  | .binsize p n => p.all (fun p => 0 < p && inU32 p) && n < 4294967296
  | .other _ => false

def canonMsgs (ms : List Msg) : List Msg := ms.map fun m => { m with items := m.items.map canonItem }
def normMsgs (ms : List Msg) : List Msg := ms.map fun m => { m with items := m.items.map normItem }

def firstUID (m : Msg) : Option Nat :=
  match m.items with
  | .uid n :: _ => some n
  | _ => none

def nodupNat : List Nat → Bool
  | [] => true
  | k :: t => !t.contains k && nodupNat t

/-- one FETCH response per message (distinct message numbers); for UID FETCH the UID item comes
    first (the client must see it before any literal) and UIDs are distinct -/
def wfFetch (uidMode : Bool) (reqExt : Option Bool) (ms : List Msg) : Bool :=
  ms.all (fun m => 0 < m.seq && m.seq < 4294967296 && m.items.all (wfItem reqExt)) &&
  nodupNat (ms.map (·.seq)) &&
  (!uidMode || (ms.all (fun m => (firstUID m).isSome) && nodupNat (ms.filterMap firstUID)))

/-- `FetchMessageBuffer` (what `Collect` returns): one field per item kind, the last value written
    wins; sections are keyed by section (a multiset here); BINARY.SIZE items are listed in order. -/
structure Collected where
  seq : Nat
  uid : Nat
  flags : List Str
  date : Option DateTime
  size : Int
  env : Option Envelope
  bs : Option Body
  secs : List (Section × Str)
  bins : List (BinSection × Str)
  binsizes : List (List Int × Nat)

def collect (m : Msg) : Collected :=
  m.items.foldl (fun c it =>
    match it with
    | .uid n => { c with uid := n }
    | .flags l => { c with flags := l }
    | .date t => { c with date := t }
    | .size n => { c with size := n }
    | .env e => { c with env := e }
    | .bs _ b => { c with bs := some b }
    | .sec s d => { c with secs := c.secs ++ [(s, d)] }
    | .bin s d => { c with bins := c.bins ++ [(s, d)] }
    | .binsize p n => { c with binsizes := c.binsizes ++ [(p, n)] }
    | .other _ => c)
    { seq := m.seq, uid := 0, flags := [], date := none, size := 0, env := none, bs := none, secs := [], bins := [], binsizes := [] }

/-! ## STATUS, LIST, SELECT -/

def gate {α : Type} (b : Bool) (x : Option α) : Option α := if b then x else none

/-- the server sends exactly the items the client asked for; APPENDLIMIT NIL (no mailbox-specific
    limit, RFC 7889 §3) is delivered as the largest number -/
def canonStatus (o : StatusOpts) (d : StatusData) : StatusData :=
  { mailbox := canonMailbox d.mailbox
    messages := gate o.messages d.messages
    uidNext := if o.uidNext then d.uidNext else 0
    uidValidity := if o.uidValidity then d.uidValidity else 0
    unseen := gate o.unseen d.unseen
    deleted := gate o.deleted d.deleted
    size := gate o.size d.size
    appendLimit := if o.appendLimit then some (d.appendLimit.getD 4294967295) else none
    deletedStorage := gate o.deletedStorage d.deletedStorage }

/-- requested pointer items must be supplied (`writeStatus` dereferences them) -/
def wfStatus (o : StatusOpts) (d : StatusData) : Bool :=
  validUTF8 d.mailbox &&
  (!o.messages || d.messages.isSome) && (!o.unseen || d.unseen.isSome) && (!o.deleted || d.deleted.isSome) &&
  (!o.size || (match d.size with | some n => 0 ≤ n | none => false)) &&
  (!o.deletedStorage || (match d.deletedStorage with | some n => 0 ≤ n | none => false))

def canonList (so : Option StatusOpts) (d : ListData) : ListData :=
  { attrs := d.attrs.map canonAttr
    delim := d.delim
    mailbox := canonMailbox d.mailbox
    childInfo := d.childInfo
    oldName := if d.oldName.isEmpty then [] else canonMailbox d.oldName
    status := match so, d.status with
      | some o, some s => some (canonStatus o s)
      | _, _ => none }

def wfList (so : Option StatusOpts) (d : ListData) : Bool :=
  d.attrs.all validAttr && validDelim d.delim && validUTF8 d.mailbox && validUTF8 d.oldName &&
  (match so, d.status with
   | some o, some s => wfStatus o s && canonMailbox s.mailbox == canonMailbox d.mailbox
   | _, _ => true)

def canonSelect (d : SelectData) : SelectData :=
  { d with flags := d.flags.map canonFlag, permFlags := d.permFlags.map canonFlag, list := d.list.map (canonList none) }

/-- the LIST response of a SELECT names the selected mailbox -/
def wfSelect (mailbox : Str) (d : SelectData) : Bool :=
  d.flags.all (validFlag false) && d.permFlags.all (validFlag true) &&
  (match d.list with | none => true | some l => wfList none l && canonMailbox l.mailbox == canonMailbox mailbox)

/-! ## SEARCH / ESEARCH, APPENDUID, COPYUID -/

/-- membership in a list of ranges (all static) -/
def memRanges (s : NumSet.Set) (q : Nat) : Bool := s.any fun r => (r.start ≤ q && q ≤ r.stop) || (r.stop ≤ q && q ≤ r.start)

def staticSet (s : NumSet.Set) : Bool := s.all fun r => r.start != 0 && r.stop != 0 && r.start < 4294967296 && r.stop < 4294967296

/-- the boundary points at which membership of either set can change -/
def probes (a b : NumSet.Set) : List Nat :=
  (a ++ b).flatMap fun r => [r.start - 1, r.start, r.start + 1, r.stop - 1, r.stop, r.stop + 1]

/-- two static sets have the same members (membership is constant between boundary points) -/
def sameSet (a b : NumSet.Set) : Bool := (probes a b).all fun q => q == 0 || memRanges a q == memRanges b q

/-- ESEARCH (RFC 9051 §7.3.4) when IMAP4rev2 is enabled or a RETURN option was given, else SEARCH -/
def esearchForm (cfg : Cfg) (o : Option SearchOpts) : Bool :=
  cfg == .rev2 || (match o with | some o => o.min || o.max || o.all || o.count | none => false)

/-- "If no return option is specified, ALL is assumed" -/
def effOpts (o : Option SearchOpts) : SearchOpts :=
  match o with
  | some o => if o.min || o.max || o.all || o.count then o else { o with all := true }
  | none => { min := false, max := false, all := true, count := false }

/-- `imap.SearchData`: UID, Min, Max, Count "require IMAP4rev2 or ESEARCH" — the SEARCH form carries
    only the numbers; an ESEARCH delivers the requested items (an ESEARCH without ALL: the empty set) -/
def canonSearch (cfg : Cfg) (o : Option SearchOpts) (d : SearchData) : SearchData :=
  let allSet : NumSet.Set := match d.all with | some (_, s) => s | none => []
  let kind : Bool := match d.all with | some (k, _) => k | none => d.uid
  if esearchForm cfg o then
    let e := effOpts o
    { all := some (kind, if e.all then allSet else []), uid := d.uid, min := if e.min then d.min else 0,
      max := if e.max then d.max else 0, count := if e.count then d.count else 0 }
  else
    { all := some (kind, allSet), uid := false, min := 0, max := 0, count := 0 }

/-- the result set is static and of the kind of the command; in the SEARCH form it must be
    enumerable (bounded here so that the enumeration stays small) -/
def wfSearch (uidMode : Bool) (cfg : Cfg) (o : Option SearchOpts) (d : SearchData) : Bool :=
  d.uid == uidMode &&
  (match d.all with
   | some (k, s) => k == uidMode && staticSet s && s.all (fun r => r.start ≤ r.stop) &&
       (esearchForm cfg o || s.all fun r => r.stop - r.start < 100000)
   | none => false)

def sameSearch (a b : SearchData) : Bool :=
  a.uid == b.uid && a.min == b.min && a.max == b.max && a.count == b.count &&
  (match a.all, b.all with
   | some (ka, sa), some (kb, sb) => sameSet sa sb && (ka == kb || (sa.isEmpty && sb.isEmpty))
   | none, some (_, s) => s.isEmpty
   | some (_, s), none => s.isEmpty
   | none, none => true)

/-- a backend that returns no data delivers the zero value -/
def canonAppend : Option AppendData → AppendData
  | none => { uidValidity := 0, uid := 0 }
  | some d => d

/-- APPENDUID (RFC 4315 `append-uid = uniqueid`): a UID is a non-zero number -/
def wfAppend : Option AppendData → Bool
  | none => true
  | some d => 0 < d.uid && d.uid < 4294967296 && d.uidValidity < 4294967296

def canonCopy : Option CopyData → CopyData
  | none => { uidValidity := 0, src := [], dst := [] }
  | some d => d

/-- COPYUID (RFC 4315): two non-empty static UID sets -/
def wfCopy : Option CopyData → Bool
  | none => true
  | some d => staticSet d.src && staticSet d.dst && !d.src.isEmpty && !d.dst.isEmpty &&
      d.src.all (fun r => r.start ≤ r.stop) && d.dst.all (fun r => r.start ≤ r.stop)

def sameCopy (a b : CopyData) : Bool := a.uidValidity == b.uidValidity && sameSet a.src b.src && sameSet a.dst b.dst

/-! ## NAMESPACE, EXPUNGE -/

def canonNamespace (d : NamespaceData) : NamespaceData :=
  { personal := normOpt d.personal, other := normOpt d.other, shared := normOpt d.shared }

def wfNamespace (d : NamespaceData) : Bool :=
  let ok := fun (l : Option (List NsDescr)) => match l with | none => true | some l => l.all fun x => validDelim x.delim
  ok d.personal && ok d.other && ok d.shared

/-- message sequence numbers are non-zero -/
def wfExpunge (l : List Nat) : Bool := l.all fun n => 0 < n && n < 4294967296

end GoImap.RespSpec
