/-
  Specification side of C19: the meaning of each SEARCH key on a message (RFC 3501 §6.4.4),
  written directly on keys — no criteria structure, no `And` — plus a finite message universe
  that distinguishes every field the generators use.
-/
import GoImap.Model.Search
namespace GoImap.SearchSpec
open GoImap.Search

mutual
  def matchesKey (m : Msg) : Key → Bool
    | .all => true
    | .seqSet s => m.seq ≠ 0 && NumSet.contains s m.seq
    | .uid s => NumSet.contains s m.uid
    | .flag n => m.flags.contains (lower n)
    | .notFlag n => !m.flags.contains (lower n)
    | .new_ => m.flags.contains (lower recentFlag) && !m.flags.contains (lower seenFlag)
    | .old => !m.flags.contains (lower recentFlag)
    | .header k v => hdrMatch m (k, v)
    | .since t => t ≤ m.day
    | .before t => m.day < t
    | .on t => t ≤ m.day && m.day < t + day
    | .sentSince t => !m.sentErr && t ≤ m.sentDay
    | .sentBefore t => !m.sentErr && m.sentDay < t
    | .sentOn t => !m.sentErr && t ≤ m.sentDay && m.sentDay < t + day
    | .body s => containsSub m.body (lower s)
    | .text s => containsSub m.buf (lower s)
    | .larger n => m.size > n
    | .smaller n => m.size < n
    | .not k => !matchesKey m k
    | .or a b => matchesKey m a || matchesKey m b
    | .group ks => matchesKeys m ks
  def matchesKeys (m : Msg) : KeyList → Bool
    | .nil => true
    | .cons k t => matchesKey m k && matchesKeys m t
end

/-! A universe of 96 messages. Dates are `D0 + k·86400`, sizes, flags, texts and headers come from
    the same pools the harness draws criteria from. -/

def D0 : Int := 63713433600       -- 2020-01-01T00:00:00Z counted from Go's zero time

def s (x : String) : Str := x.toList.map Char.toNat

def flagPool : List Str := [s "\\seen", s "\\deleted", s "\\recent", s "\\flagged", s "$kw"]
def textPool : List Str := [s "hello world", s "lorem ipsum", s "hello", s ""]
def subjPool : List Str := [s "hi there", s "re: lorem", s ""]

def mkMsg (i : Nat) : Msg :=
  let flags := (List.range 5).filterMap fun b => if (i / 2 ^ b) % 2 = 1 then flagPool[b]? else none
  let body := textPool.getD (i % 4) []
  let subj := subjPool.getD (i % 3) []
  let hdrs : List (Str × Str) :=
    (if subj.isEmpty then [] else [(s "subject", subj)]) ++ [(s "from", s "alice@example.org")] ++
    (if i % 5 = 0 then [(s "x-spam", s "")] else [])
  let hdrText : Str := hdrs.flatMap fun kv => kv.1 ++ s ": " ++ kv.2 ++ s "\r\n"
  { seq := i % 8 + 1
    uid := (i * 7) % 23 + 1
    day := D0 + ((i / 3) % 4 : Nat) * 86400
    sentDay := if i % 7 = 0 then 0 else D0 + ((i / 5) % 4 : Nat) * 86400
    sentErr := i % 11 = 3
    flags := flags
    size := [1, 5, 12, 100].getD ((i / 2) % 4) 1
    buf := hdrText ++ s "\r\n" ++ body
    body := body
    hdrs := hdrs }

def msgUniverse : List Msg := (List.range 96).map mkMsg

end GoImap.SearchSpec
