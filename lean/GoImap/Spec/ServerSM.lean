/-
  Specification side of C05, written from RFC 9051 §3 (state diagram), §6.1–6.4 (which command is
  valid in which state), §6.2.1/§6.2.3/§11.1 (credentials only on a protected connection unless
  explicitly allowed; LOGINDISABLED / STARTTLS / AUTH= advertisement), RFC 8437 (UNAUTHENTICATE) and
  the property text (an unknown command before authentication ends the connection) — not from the Go
  code. Only the vocabulary (states, command kinds, outcomes, session calls) is shared with the model.
-/
import GoImap.Model.ServerSM
namespace GoImap.ServerSpec
open GoImap.ServerSM

/-- In which connection state may the backend be asked to do what (RFC 9051 §6.1–§6.4): LOGIN /
    AUTHENTICATE belong to the not-authenticated state; mailbox management, SELECT, APPEND, IDLE,
    status updates, NAMESPACE and UNAUTHENTICATE to the authenticated and selected states; message
    access and CLOSE/UNSELECT to the selected state; releasing the session is always allowed. -/
def Permitted : St → SessionCall → Bool
  | s, .login => s.isNotAuth
  | s, .select | s, .create | s, .delete | s, .rename | s, .subscribe | s, .unsubscribe | s, .list
  | s, .status | s, .append | s, .namespace | s, .idle | s, .poll | s, .unauthenticate =>
    s.isAuth || s.isSelected
  | s, .unselect | s, .expunge | s, .search | s, .fetch | s, .store | s, .copy | s, .move => s.isSelected
  | _, .close => true

/-- credentials may be accepted on a TLS connection, or anywhere if the operator said so -/
def credsAllowed (cfg : Cfg) (tls : Bool) : Bool := tls || cfg.ins

/-- what the RFC tracks of a connection: its state and whether TLS is active -/
structure RConn where
  st : St
  tls : Bool
deriving DecidableEq, Repr, Inhabited

def rfcInit (cfg : Cfg) : RConn := ⟨if cfg.pre then .auth else .notAuth, cfg.tls⟩

/-- The state diagram of RFC 9051 §3. `pollErr` (the backend cannot deliver status updates) is
    treated here like success; `rfcAllowed` below additionally lets the server give up the connection.
    (1)/(2) greeting: `rfcInit`. (3) successful LOGIN/AUTHENTICATE. (4) successful SELECT/EXAMINE.
    (5) CLOSE/UNSELECT, or a failed SELECT/EXAMINE (the previous mailbox is deselected first, so a
    SELECT that fails for whatever reason leaves none selected). (6) LOGOUT. RFC 8437: a successful
    UNAUTHENTICATE returns to not authenticated. STARTTLS (§6.2.1) switches TLS on, once, before
    authentication. A command that is malformed, not valid in the current state, or refused leaves
    the state alone. An unknown command before authentication ends the connection. -/
def rfcStep (cfg : Cfg) (c : RConn) (k : CmdKind) (o : Outcome) : RConn :=
  if c.st.isLogout then c
  else if isUnknown k then (if c.st.isNotAuth then { c with st := .logout } else c)
  else if o.isParseErr then c
  else match k with
  | .logout => { c with st := .logout }
  | .starttls => if cfg.stls && c.st.isNotAuth && !c.tls then { c with tls := true } else c
  | .login | .authenticate | .authCont =>
    if c.st.isNotAuth && credsAllowed cfg c.tls && !o.isBackendErr then { c with st := .auth } else c
  | .select | .examine =>
    (match c.st with
     | .auth => if o.isBackendErr then c else { c with st := .selected }
     | .selected => if o.isBackendErr || o.isAuxErr then { c with st := .auth } else c
     | _ => c)
  | .close => if c.st.isSelected && !o.isBackendErr && !o.isAuxErr then { c with st := .auth } else c
  | .unselect => if c.st.isSelected && !o.isBackendErr then { c with st := .auth } else c
  | .unauthenticate =>
    if (c.st.isAuth || c.st.isSelected) && cfg.full && !o.isBackendErr then { c with st := .notAuth } else c
  | _ => c

/-- the observable successor states the RFC admits -/
def rfcAllowed (cfg : Cfg) (c : RConn) (k : CmdKind) (o : Outcome) (next : St) : Bool :=
  next.same (rfcStep cfg c k o).st || (o.isPollErr && next.isLogout)

def rfcTraceFrom (cfg : Cfg) : RConn → Hist → List St
  | _, [] => []
  | c, (k, o) :: h => let c' := rfcStep cfg c k o; c'.st :: rfcTraceFrom cfg c' h

/-- the state after every command of a history, by the RFC diagram -/
def rfcTrace (cfg : Cfg) (h : Hist) : List St := rfcTraceFrom cfg (rfcInit cfg) h

/-! ### the backend's own view

  A backend keeps track of the mailbox it has open from what it was told: a Select that succeeded
  opens one, an Unselect (or Unauthenticate) that succeeded releases it. The connection state and
  this view must not drift apart in the dangerous direction: a selected-state operation must never
  reach a backend that has no mailbox (RFC 9051 §3.3: these commands operate on the selected mailbox). -/

/-- does the session method operate on the currently selected mailbox? -/
def needsMailbox : SessionCall → Bool
  | .unselect | .expunge | .search | .fetch | .store | .copy | .move => true
  | _ => false

/-- the backend's view (is a mailbox open?) after a call; a call that was refused changes nothing -/
def bviewStep (open_ : Bool) (call : SessionCall) (failed : Bool) : Bool :=
  if failed then open_ else
  match call with
  | .select => true
  | .unselect | .unauthenticate => false
  | _ => open_

/-- first call in the list that needs a mailbox while the backend has none; the view afterwards -/
def bviewCheck : Bool → List (SessionCall × Bool) → Bool × Option SessionCall
  | b, [] => (b, none)
  | b, (call, failed) :: rest =>
    if needsMailbox call && !b then (b, some call) else bviewCheck (bviewStep b call failed) rest

/-! ### capability advertisement -/

/-- AUTH=PLAIN is offered iff authentication is possible right now -/
def wantAuthPlain (cfg : Cfg) (c : RConn) : Bool := c.st.isNotAuth && credsAllowed cfg c.tls
/-- LOGINDISABLED iff not authenticated and authentication is not possible -/
def wantLoginDisabled (cfg : Cfg) (c : RConn) : Bool := c.st.isNotAuth && !credsAllowed cfg c.tls
/-- STARTTLS iff configured, plaintext and not authenticated -/
def wantStartTLS (cfg : Cfg) (c : RConn) : Bool := cfg.stls && !c.tls && c.st.isNotAuth

/-- the three rules on a list of capability names; returns the name of the first rule broken -/
def capsRule (cfg : Cfg) (c : RConn) (caps : List String) : Option String :=
  if caps.contains "AUTH=PLAIN" != wantAuthPlain cfg c then some "AUTH=PLAIN"
  else if caps.contains "LOGINDISABLED" != wantLoginDisabled cfg c then some "LOGINDISABLED"
  else if caps.contains "STARTTLS" != wantStartTLS cfg c then some "STARTTLS"
  else none

end GoImap.ServerSpec
