/-
  C13 — what "safe for concurrent use" demands of ONE observed run, written from the property
  text (properties.jsonl C13) and RFC 9051 §2.2.1/§4.3 (tags identify commands; a command
  continuation request answers the literal / IDLE the server has most recently not answered, in
  the order the client sent them). Independent of the model's algorithm. Core Lean only.
-/
namespace GoImap.ClientConcSpec

/-- events of one run in the order they happened -/
inductive Ev
  | head (c : Nat)      -- the client sent a command line ending in a synchronising literal / IDLE
  | cont                -- the server sent a command continuation request ("+")
  | resumed (c : Nat)   -- command c went on as if its continuation request had been granted
  | answered (c : Nat)  -- the server sent the tagged reply of command c
  deriving DecidableEq, Repr

/-- what one run of the implementation showed -/
structure Obs where
  /-- tags of the commands in the order they appeared on the wire -/
  tags : List Nat
  /-- for every command whose result was awaited: (id, 0 = Wait never returned, 1 = nil,
      2 = server NO/BAD, 3 = other error) -/
  results : List (Nat × Nat)
  /-- for every Close call: 0 nil, 1 net.ErrClosed, 2 other error, 9 never returned -/
  closes : List Nat
  /-- the process panicked (a second completion is `send on closed channel`) -/
  crashed : Bool
  events : List Ev

def tagsUnique : List Nat → Bool
  | [] => true
  | t :: rest => !rest.contains t && tagsUnique rest

/-- walk the events: `open_` = heads not yet continued (wire order), `owed` = commands a "+" was
    addressed to and that have not resumed, `ans` = commands the server has answered (a literal
    header a client still sends for one of those is no longer a request for continuation). A
    resumption of a command nobody addressed means the continuation request went to the wrong
    command. -/
def contOk : List Ev → List Nat → List Nat → List Nat → Bool
  | [], _, _, _ => true
  | .head c :: es, open_, owed, ans =>
    if ans.contains c then contOk es open_ owed ans else contOk es (open_ ++ [c]) owed ans
  | .cont :: es, [], owed, ans => contOk es [] owed ans             -- unsolicited "+": nobody is owed
  | .cont :: es, c :: open_, owed, ans => contOk es open_ (owed ++ [c]) ans
  | .resumed c :: es, open_, owed, ans => owed.contains c && contOk es open_ (owed.erase c) ans
  | .answered c :: es, open_, owed, ans => contOk es (open_.filter (· ≠ c)) owed (c :: ans)

/-- the first clause of the property that the run violates -/
def violation (o : Obs) : Option String :=
  if o.crashed then some "command-completed-twice"
  else if !tagsUnique o.tags then some "tags-not-unique"
  else match o.results.find? (·.2 = 0) with
    | some (c, _) => some s!"command-never-completes@{c}"
    | none =>
      if o.closes.contains 9 then some "close-never-returns"
      else if !contOk o.events [] [] [] then some "continuation-request-misrouted"
      else none

def ok (o : Obs) : Bool := (violation o).isNone

end GoImap.ClientConcSpec
