/-
  Specification side of C07: a ghost mailbox of message identities. Every session has a view
  (the list of identities its client currently knows) and the list of changes it has not been
  told yet. Written from the property text: updates applied in order turn the view into the
  mailbox; translating a number identifies the same message on both sides.
-/
import GoImap.Model.Tracker
namespace GoImap.TrackerSpec
open GoImap.Tracker

abbrev Id := Nat

inductive GUpd where
  | expunge (id : Id)
  | exists_ (ids : List Id)
  | mflags
  | fetch (id : Id)
deriving Repr

structure GSess where
  id : Nat
  view : List Id
  pending : List GUpd
deriving Repr

structure GSt where
  mbox : List Id
  next : Id
  sess : List GSess
deriving Repr

def ginit (n : Nat) : GSt := ⟨List.range n, n, []⟩

/-- 1-based position of `x` in `l`, 0 when absent -/
def posOf (x : Id) (l : List Id) : Nat := if l.contains x then l.idxOf x + 1 else 0

def gdispatch (st : GSt) (u : GUpd) (src : Option Nat) : List GSess :=
  st.sess.map fun s => if src = some s.id then s else { s with pending := s.pending ++ [u] }

/-- what a client is told when a ghost update reaches it, in the numbering of its view, and the
    view afterwards; `none` = the update is not valid in this view -/
def deliver (view : List Id) : GUpd → Option (Upd × List Id)
  | .expunge id =>
    let p := posOf id view
    if p = 0 then none else some (.expunge p, view.eraseIdx (p - 1))
  | .exists_ ids => some (.exists_ view.length (view.length + ids.length), view ++ ids)
  | .mflags => some (.mflags, view)
  | .fetch id =>
    let p := posOf id view
    if p = 0 then none else some (.fetch p, view)

def deliverAll : List Id → List GUpd → Option (List Upd × List Id)
  | v, [] => some ([], v)
  | v, u :: us => do
    let (x, v') ← deliver v u
    let (xs, v'') ← deliverAll v' us
    pure (x :: xs, v'')

def isExpunge : GUpd → Bool | .expunge _ => true | _ => false

/-- ghost step; for a poll returns the updates the session must emit (numbers in its view) -/
def gstep (st : GSt) : Op → Option (GSt × List Upd)
  | .newSession id => some ({ st with sess := st.sess ++ [⟨id, st.mbox, []⟩] }, [])
  | .close id => some ({ st with sess := st.sess.filter (·.id ≠ id) }, [])
  | .numMessages n =>
    if n < st.mbox.length then none else
    let ids := List.range' st.next (n - st.mbox.length)
    some (⟨st.mbox ++ ids, st.next + ids.length, gdispatch st (.exists_ ids) none⟩, [])
  | .expunge k =>
    match st.mbox[k - 1]? with
    | none => none
    | some id => if k = 0 then none else
      some ({ st with mbox := st.mbox.eraseIdx (k - 1), sess := gdispatch st (.expunge id) none }, [])
  | .mailboxFlags => some ({ st with sess := gdispatch st .mflags none }, [])
  | .messageFlags k src =>
    match st.mbox[k - 1]? with
    | none => none
    | some id => if k = 0 then none else some ({ st with sess := gdispatch st (.fetch id) src }, [])
  | .poll id allow =>
    match st.sess.find? (·.id = id) with
    | none => some (st, [])
    | some s =>
      let due := if allow then s.pending else s.pending.takeWhile (fun u => !isExpunge u)
      match deliverAll s.view due with
      | none => none
      | some (out, v') =>
        let rest := s.pending.drop due.length
        some ({ st with sess := st.sess.map fun x => if x.id = id then { x with view := v', pending := rest } else x }, out)

/-- expected translation tables for a session: decode for client numbers 1..|view|,
    encode for server numbers 1..|mbox| -/
def expectDecode (st : GSt) (s : GSess) : List Nat := s.view.map fun id => posOf id st.mbox
def expectEncode (st : GSt) (s : GSess) : List Nat := st.mbox.map fun id => posOf id s.view

end GoImap.TrackerSpec
