/-
  Specification side of C01, written from RFC 9051 §9 (formal syntax), RFC 7888 (non-synchronising
  literals) and the property text — not from the Go code.  The types (`Bytes`, `Cfg`, `Value`) are
  shared with the model; no encoder/decoder function of the model is used here.

  What "representable" means (the refusal clause of the property):
    flag       — RFC 9051 `flag` / `flag-perm`: "\" atom, atom, or "\*"
    attribute  — RFC 9051 `mbx-list-flags` members: "\" atom
    number64   — non-negative
    number set — non-empty (or the `$` marker of RFC 5182)
  What "the same value" means: equality, modulo exactly the two documented canonicalisations
  (INBOX is case-insensitive; well-known flags / attributes are case-normalised).
-/
import GoImap.Model.Wire
import GoImap.Spec.NumSet
import GoImap.Spec.Utf7
namespace GoImap.WireSpec
open GoImap.Wire

def ofStr (s : String) : Wire.Bytes := s.toList.map Char.toNat

/-! ### RFC 9051 atoms and flags -/

/-- atom-specials = "(" / ")" / "{" / SP / CTL / list-wildcards / quoted-specials / resp-specials -/
def atomSpecial (c : Nat) : Bool :=
  c = 40 || c = 41 || c = 123 || c = 32 || c < 32 || c = 127 || c = 37 || c = 42 || c = 34 || c = 92 || c = 93

/-- ATOM-CHAR = any CHAR (%x01-7F) except atom-specials -/
def atomChar (c : Nat) : Bool := 1 ≤ c && c ≤ 127 && !atomSpecial c

/-- atom = 1*ATOM-CHAR -/
def isAtom (s : Wire.Bytes) : Bool := !s.isEmpty && s.all atomChar

/-- flag-extension = "\" atom (the system flags are instances) -/
def isBackslashAtom : Wire.Bytes → Bool
  | 92 :: a => isAtom a
  | _ => false

/-- flag-perm = flag / "\*" ; flag = system flag / flag-keyword / flag-extension -/
def ValidFlag (f : Wire.Bytes) : Bool := f = [92, 42] || isAtom f || isBackslashAtom f

/-- members of mbx-list-flags: "\" atom -/
def ValidAttr (f : Wire.Bytes) : Bool := isBackslashAtom f

def sevenBit (s : Wire.Bytes) : Bool := s.all (· < 128)

/-! ### the two canonicalisations -/

def lower (s : Wire.Bytes) : Wire.Bytes := s.map fun c => if 65 ≤ c && c ≤ 90 then c + 32 else c

def eqFold (a b : Wire.Bytes) : Bool := lower a = lower b

/-- RFC 9051 §5.1: the mailbox name INBOX is case-insensitive -/
def canonInbox (name : Wire.Bytes) : Wire.Bytes := if eqFold name (ofStr "INBOX") then ofStr "INBOX" else name

/-- RFC 9051 §2.3.2 system flags and keywords, RFC 8457 `$Important` -/
def wkFlags : List Wire.Bytes :=
  ["\\Seen", "\\Answered", "\\Flagged", "\\Deleted", "\\Draft", "$Forwarded", "$MDNSent", "$Junk",
   "$NotJunk", "$Phishing", "$Important"].map ofStr

/-- RFC 9051 §7.3.1 mailbox attributes, RFC 6154 special-use, RFC 8457 `\Important` -/
def wkAttrs : List Wire.Bytes :=
  ["\\NonExistent", "\\Noinferiors", "\\Noselect", "\\HasChildren", "\\HasNoChildren", "\\Marked",
   "\\Unmarked", "\\Subscribed", "\\Remote", "\\All", "\\Archive", "\\Drafts", "\\Flagged", "\\Junk",
   "\\Sent", "\\Trash", "\\Important"].map ofStr

/-- a flag survives the round trip: byte for byte, or — for a well-known flag in any case mix —
    in its canonical spelling (the canonicalisation is permitted, not demanded) -/
def flagSame (input decoded : Wire.Bytes) : Bool :=
  decoded = input || wkFlags.any fun c => eqFold c input && decoded = c

/-- a mailbox attribute survives the round trip; an attribute that spells a well-known *flag*
    (e.g. `\seen`) may come back in that flag's canonical spelling -/
def attrSame (input decoded : Wire.Bytes) : Bool :=
  decoded = input || (wkAttrs ++ wkFlags).any fun c => eqFold c input && decoded = c

/-- a mailbox name survives the round trip: byte for byte, or as `INBOX` for any case mix of it -/
def mailboxSame (input decoded : Wire.Bytes) : Bool :=
  decoded = input || (eqFold input (ofStr "INBOX") && decoded = ofStr "INBOX")

/-! ### a strict reader of `string` (RFC 9051 `quoted` / `literal`, RFC 7888 "+") -/

/-- *QUOTED-CHAR DQUOTE.  QUOTED-CHAR = TEXT-CHAR except quoted-specials / "\" quoted-specials
    (/ UTF8-2..4 when UTF-8 quoting was negotiated).  `esc`: previous byte was the backslash. -/
def rQuotedBody (allow8 : Bool) : Bool → Wire.Bytes → Option (Wire.Bytes × Wire.Bytes)
  | _, [] => none
  | true, c :: r =>
    if c = 34 || c = 92 then (rQuotedBody allow8 false r).map fun (v, t) => (c :: v, t) else none
  | false, c :: r =>
    if c = 34 then some ([], r)
    else if c = 92 then rQuotedBody allow8 true r
    else if c = 0 || c = 13 || c = 10 then none
    else if c ≥ 128 && !allow8 then none
    else (rQuotedBody allow8 false r).map fun (v, t) => (c :: v, t)

def spanDigits : Wire.Bytes → Wire.Bytes × Wire.Bytes
  | [] => ([], [])
  | c :: r => if 48 ≤ c && c ≤ 57 then let (d, t) := spanDigits r; (c :: d, t) else ([], c :: r)

def decimal (ds : Wire.Bytes) : Nat := ds.foldl (fun a d => a * 10 + (d - 48)) 0

/-- how a string was framed on the wire -/
inductive Framing where
  | quoted
  /-- literal: payload size, "+" present, length of the header including its CRLF -/
  | literal (size : Nat) (nonSync : Bool) (hdrLen : Nat)
deriving DecidableEq, Repr

/-- string = quoted / literal ; literal = "{" number64 ["+"] "}" CRLF *CHAR8.
    Returns the value, the unread rest and the framing; `none` = not a well-formed string. -/
def rString (allow8 : Bool) : Wire.Bytes → Option (Wire.Bytes × Wire.Bytes × Framing)
  | 34 :: r => (rQuotedBody allow8 false r).map fun (v, t) => (v, t, .quoted)
  | 123 :: r =>
    let (ds, t) := spanDigits r
    if ds.isEmpty then none else
    let n := decimal ds
    if n ≥ 9223372036854775808 then none else
    let (plus, t1) := match t with
      | 43 :: t' => (true, t')
      | _ => (false, t)
    match t1 with
    | 125 :: 13 :: 10 :: body =>
      if body.length < n then none
      else some (body.take n, body.drop n, .literal n plus (ds.length + (if plus then 5 else 4)))
    | _ => none
  | _ => none

/-- RFC 7888: a non-synchronising literal needs LITERAL+ or (LITERAL- / IMAP4rev2 and at most
    4096 octets); it is a client-to-server form.  A synchronising literal needs the encoder to
    stop after the header and wait (the `waits` observation).  `off` = offset of the string. -/
def framingAllowed (cfg : Cfg) (off : Nat) (f : Framing) (waits : List Nat) : Bool :=
  match f with
  | .quoted => waits = []
  | .literal n nonSync hdrLen =>
    match cfg.side with
    | .server => !nonSync && waits = []
    | .client =>
      if nonSync then (cfg.literalPlus || (cfg.literalMinus && n ≤ 4096)) && waits = []
      else waits = [off + hdrLen]

/-- astring = 1*ASTRING-CHAR / string (ASTRING-CHAR = ATOM-CHAR / resp-specials) -/
def rAString (allow8 : Bool) (b : Wire.Bytes) : Option (Wire.Bytes × Wire.Bytes × Framing) :=
  match rString allow8 b with
  | some r => some r
  | none =>
    let rec go : Wire.Bytes → Wire.Bytes × Wire.Bytes
      | [] => ([], [])
      | c :: r => if atomChar c || c = 93 then let (a, t) := go r; (c :: a, t) else ([], c :: r)
    let (a, t) := go b
    if a.isEmpty then none else some (a, t, .quoted)

/-- what a mailbox name on the wire stands for (RFC 9051 `mailbox`, §5.1.3): UTF-8 bytes -/
def mailboxMeaning (content : Wire.Bytes) : Option Wire.Bytes :=
  if eqFold content (ofStr "INBOX") then some (ofStr "INBOX")
  else (Utf7Spec.specDecode content).map fun cps => cps.flatMap Utf7.utf8enc

/-! ### numbers -/

/-- number / number64 / mod-sequence-valzer = 1*DIGIT -/
def rNumber (b : Wire.Bytes) : Option (Nat × Wire.Bytes) :=
  let (ds, t) := spanDigits b
  if ds.isEmpty then none else some (decimal ds, t)

/-! ### depth of a value as the RFC reader sees it is irrelevant to the property except through
    the cap; the cap itself (1000) is a library constant, see Model. -/

mutual
  def Value.beq : Value → Value → Bool
    | .str a, .str b => a = b
    | .num a, .num b => a = b
    | .list a, .list b => Values.beq a b
    | _, _ => false
  def Values.beq : Values → Values → Bool
    | .nil, .nil => true
    | .cons a as, .cons b bs => Value.beq a b && Values.beq as bs
    | _, _ => false
end

mutual
  /-- representable: every number in the tree is non-negative -/
  def Value.representable : Value → Bool
    | .str _ => true
    | .num n => 0 ≤ n
    | .list vs => Values.representable vs
  def Values.representable : Values → Bool
    | .nil => true
    | .cons v vs => Value.representable v && Values.representable vs
end

end GoImap.WireSpec
