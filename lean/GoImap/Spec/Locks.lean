import GoImap.Model.Locks
/-
  What C14 demands of a system of lock programs, written from the property text ("no set of
  commands can block each other forever", "every command completes"). Core only.
-/
namespace GoImap.LocksSpec
open GoImap.Locks

/-- somebody still has work to do and nobody can move -/
def Deadlock (s : State) : Prop := (∃ t ∈ s, t.prog ≠ []) ∧ ∀ t ∈ s, ¬ enabled s t

/-- no schedule leads into a deadlock -/
def DeadlockFree (s0 : State) : Prop := ∀ s, Reachable s0 s → ¬ Deadlock s

/-- every thread has run its program to the end -/
def AllDone (s : State) : Prop := ∀ t ∈ s, t.prog = []

/-- the outcomes the harness reports for one concurrent run, and the property's verdict on them -/
def runVerdict (outcome : String) : Option String :=
  if outcome = "ok" ∨ outcome = "slow" then some "ok"
  else if outcome = "stuck" then some "fail:command-never-completes"
  else if outcome = "race" then some "fail:data-race"
  else if outcome = "panic" then some "fail:server-panic"
  else none

end GoImap.LocksSpec
