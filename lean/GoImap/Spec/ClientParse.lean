/-
  C11 — the property's own predicate, written from the property text and the IMAP grammar
  (RFC 3501 §9: nz-number, literal; RFC 4466/4731: search-return-data), independent of the
  model's algorithm.  Everything here judges what the *implementation* did with a byte stream:

    * no panic in the reader, none in an accessor of the data handed back, no process-fatal
      event, termination;
    * data violating a protocol invariant is never handed to the caller: a message sequence
      number or UID 0, an open-ended ("*") set in a result, a tree nested deeper than the
      decoder's limit, a size / count / limit below zero (a number beyond 2^63-1 that was
      accepted and wrapped);
    * streams that carry such a violation in a place where the client would have to hand it on
      (0 / an overflowing number / "*" as a SEARCH or SORT result, nesting beyond the limit,
      a malformed or truncated literal) are answered with an error, not with success;
    * time and memory are not super-linear in the size of the input.
-/
import GoImap.Util
namespace GoImap.ClientParseSpec
open GoImap

/-- the decoder's nesting limit named by the property, and the slack the oracle grants -/
def cap : Nat := 1000
def slack : Nat := 2

/-- RFC 3501 `nz-number` restricted to 32 bits: the only thing a message number may be -/
def isDigit (b : UInt8) : Bool := 48 ≤ b && b ≤ 57
def valOf (bs : Bytes) : Nat := bs.foldl (fun n b => n * 10 + (b.toNat - 48)) 0

/-- a token standing where a message number is expected that must not be accepted:
    zero, a value that does not fit 32 bits, or something containing "*" -/
def badNumberToken (t : Bytes) : Bool :=
  if t.isEmpty then false
  else if t.all isDigit then valOf t == 0 || valOf t ≥ 4294967296
  else t.any (· == 42)

def splitOnB (sep : UInt8) : Bytes → Bytes → List Bytes → List Bytes
  | [], cur, acc => (cur.reverse :: acc).reverse
  | b :: r, cur, acc => if b == sep then splitOnB sep r [] (cur.reverse :: acc) else splitOnB sep r (b :: cur) acc

def lines (s : Bytes) : List Bytes := splitOnB 10 s [] []

def dropCR (l : Bytes) : Bytes := match l.reverse with | 13 :: r => r.reverse | _ => l

def startsWith (l pre : Bytes) : Bool := l.take pre.length == pre

def strB (s : String) : Bytes := s.toUTF8.toList

/-- the result tokens of a `* SEARCH …` / `* SORT …` line: those before a "(MODSEQ …)" group -/
def resultTokens (rest : Bytes) : List Bytes :=
  ((splitOnB 32 rest [] []).takeWhile fun t => t.head? != some 40)

/-- Does the stream contain, before the command's tagged completion, a SEARCH (resp. SORT)
    response with a token that must not be accepted as a result?  Only defined for streams
    without quoted strings and literals (so that lines are exactly the LF-separated pieces). -/
def badResultLine (kw : String) (tag : Bytes) : List Bytes → Bool
  | [] => false
  | l :: rest =>
    let l := dropCR l
    if startsWith l (tag ++ [32]) then false
    else if startsWith l (strB ("* " ++ kw ++ " ")) && (resultTokens (l.drop (kw.length + 3))).any badNumberToken then true
    else badResultLine kw tag rest

def plainStream (s : Bytes) : Bool := !s.any fun b => b == 34 || b == 123

/-- deepest parenthesis nesting outside quoted strings (`inq`: inside a quoted string,
    `esc`: right after a backslash in one) -/
def parenDepth : Bytes → Bool → Bool → Nat → Nat → Nat
  | [], _, _, _, mx => mx
  | b :: r, inq, esc, cur, mx =>
    if esc then parenDepth r true false cur mx
    else if inq then
      if b == 92 then parenDepth r true true cur mx
      else parenDepth r (b != 34) false cur mx
    else if b == 34 then parenDepth r true false cur mx
    else if b == 40 then parenDepth r false false (cur + 1) (max mx (cur + 1))
    else if b == 41 then parenDepth r false false (cur - 1) mx
    else parenDepth r false false cur mx

def maxParenDepth (s : Bytes) : Nat := parenDepth s false false 0 0

/-- RFC 3501 literal = "{" number "}" CRLF *CHAR8.  Scans outside quoted strings; `true` when
    some "{" does not start a well-formed literal whose announced bytes are all present
    (sizes are 63-bit at most).  `fuel` bounds the number of literals. -/
def malformedLiteral : Nat → Bytes → Bool → Bool
  | 0, _, _ => false
  | _, [], _ => false
  | fuel + 1, b :: r, inq =>
    if inq then
      if b == 92 then malformedLiteral fuel (r.drop 1) true else malformedLiteral fuel r (b != 34)
    else if b == 34 then malformedLiteral fuel r true
    else if b == 123 then
      let ds := r.takeWhile isDigit
      let after := r.drop ds.length
      if ds.isEmpty || valOf ds ≥ 9223372036854775808 then true
      else match after with
        | 125 :: 13 :: 10 :: payload =>
          if payload.length < valOf ds then true else malformedLiteral fuel (payload.drop (valOf ds)) false
        | _ => true
    else malformedLiteral fuel r false

def hasMalformedLiteral (s : Bytes) : Bool := malformedLiteral (s.length + 1) s false

/-- what the harness saw the implementation do with one stream -/
structure ImplObs where
  cmd : String          -- ok / no / bad / err : how the command ended for the caller
  dec : String          -- none / err / panic  : how the reader ended
  acc : String          -- ok / panic:<accessor>
  zero : Bool           -- a message number 0 was handed to the caller
  dyn : Bool            -- an open-ended set was handed to the caller
  depth : Nat           -- deepest tree handed to the caller
  card : Nat            -- largest cardinality of a static set handed to the caller
  neg : Bool            -- a 64-bit size / count / limit below zero was handed to the caller

/-- memory an enumerating accessor needs for a set of that cardinality (4 bytes per number)
    against a generous linear budget -/
def linearBudget (inputLen : Nat) : Nat := 64 * inputLen + 64 * 1048576

/-- the oracle for one stream; `none` = the property held on this case -/
def judge (kind : String) (cmdKind : String) (tag stream : Bytes) (o : ImplObs) : Option String :=
  if o.dec == "panic" then some "reader-panic"
  else if o.acc != "ok" then some s!"accessor-panic@{o.acc}"
  else if o.zero then some "zero-delivered"
  else if o.dyn then some "dynamic-set-delivered"
  -- a number beyond 2^63-1 is malformed; accepted and wrapped it shows up as a negative size
  else if o.neg then some "negative-number-delivered"
  else if o.depth > cap + slack then some s!"overdeep-delivered@{o.depth}"
  else if kind == "nest" && maxParenDepth stream > cap + slack && o.cmd == "ok" then some "overdeep-accepted"
  else if (kind == "lit" || kind == "corpus") && hasMalformedLiteral stream && o.cmd == "ok" then some "malformed-literal-accepted"
  else if plainStream stream && cmdKind == "search" && badResultLine "SEARCH" tag (lines stream) && o.cmd == "ok" then
    some "malformed-number-accepted"
  else if plainStream stream && cmdKind == "sort" && badResultLine "SORT" tag (lines stream) && o.cmd == "ok" then
    some "malformed-number-accepted"
  else if 4 * o.card > linearBudget stream.length then some s!"nums-accessor-super-linear@card={o.card},input={stream.length}"
  else none

/-- the oracle for one cost measurement: the same response shape at sizes n and 2n.
    Deliberately coarse so that it cannot flake: only inputs of at least 100 KB count, the
    doubled input must take at least a second and more than 3.2 times as long. -/
def judgeCost (t1 t2 a1 a2 len1 len2 : Nat) : Option String :=
  if a1 > linearBudget len1 || a2 > linearBudget len2 then some s!"super-linear-memory@{a2}bytes-for-{len2}"
  else if len1 ≥ 100000 && t2 ≥ 1000000 && 10 * t2 > 32 * t1 then some s!"super-linear-time@{t1}us-then-{t2}us-for-doubled-input"
  else none

end GoImap.ClientParseSpec
