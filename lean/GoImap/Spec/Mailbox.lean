/-
  Specification side of C09: the semantic laws the property names, written from RFC 9051 / RFC 4315
  (UIDPLUS) / RFC 6851 (MOVE) and evaluated on the IMPLEMENTATION's own responses.

  The oracle keeps a ghost record of what the server has told its clients: which UIDs it has
  issued in which mailbox (APPENDUID / COPYUID), what each of those messages contains and which flags
  it carries (by the RFC meaning of APPEND / COPY / STORE / implicit \Seen), and how many messages
  each connection has been told about (EXISTS / EXPUNGE). UIDs, UIDVALIDITY values, sequence numbers
  and removals are never predicted: they are taken from the responses and checked against the laws:

    connection-crashed            no syntactically valid command may end the connection (a tagged reply
                                  arrives, the server log has no panic); incomplete-response-line: every
                                  response line is complete (balanced) — judged for every command incl.
                                  FETCH items outside the model (BODY, BODYSTRUCTURE, ENVELOPE, multipart sections)
    uid-not-increasing            a new UID is larger than every UID ever issued in that mailbox and
                                  not below an announced UIDNEXT; COPYUID destinations ascend
    uidnext-not-above-uids        an announced UIDNEXT exceeds every issued UID and never decreases
    uidvalidity-reused            a re-created name does not carry the UIDVALIDITY of its deleted predecessor
    uidvalidity-changed           a mailbox keeps its UIDVALIDITY
    appenduid-missing / copyuid-… APPENDUID/COPYUID are present, well-formed, name the addressed source
                                  messages, and a later FETCH of the named UID returns the appended /
                                  copied content, size and flags (fetch-content-differs, …)
    store-…                       STORE reports and changes exactly the addressed messages, by
                                  set/add/remove, case-insensitively (unaddressed messages are checked by
                                  every later FETCH FLAGS: fetch-flags-differ)
    expunge-…/move-…              the EXPUNGE responses remove exactly the eligible / moved messages, each once
    fetch-…                       every FETCH response names a message of the client's view by its
                                  right number (`* 0 FETCH` is out of range)

  Outside the oracle (compared with the model only): STATUS counts, SEARCH, LIST, sections other
  than the whole body, `*` in a set when the RFC meaning (largest number in use) and the backend's
  (server-side count / UIDNEXT−1) differ. Histories in which two connections had the same mailbox
  open are judged only for crashes (multi-session views are C08's).
-/
import GoImap.Model.Mailbox
namespace GoImap.MailboxSpec
open GoImap GoImap.Mailbox

structure GMsg where
  uid : Nat
  flags : List Str
  content : Str
deriving Repr

structure GBox where
  gid : Nat
  uidv : Option Nat
  hi : Nat              -- largest UID the server has issued here
  next : Nat            -- largest UIDNEXT it has announced (0: none yet)
  msgs : List GMsg
deriving Repr

structure GConn where
  id : Nat
  sel : Option Nat
  ann : Nat             -- how many messages this client has been told exist
deriving Repr

structure G where
  boxes : List GBox
  names : List (Str × Nat)
  retired : List (Str × Nat)
  conns : List GConn
  nextGid : Nat
  shared : Bool
deriving Repr

def ginit (nconn : Nat) : G :=
  { boxes := [⟨0, none, 0, 0, []⟩], names := [(inboxName, 0)], retired := [],
    conns := (List.range nconn).map fun i => ⟨i + 1, none, 0⟩, nextGid := 1, shared := false }

def G.box (g : G) (id : Nat) : Option GBox := g.boxes.find? (·.gid == id)
def G.byName (g : G) (n : Str) : Option GBox := (g.names.lookup n).bind g.box
def G.conn (g : G) (cid : Nat) : Option GConn := g.conns.find? (·.id == cid)
def G.setBox (g : G) (id : Nat) (f : GBox → GBox) : G :=
  { g with boxes := g.boxes.map fun b => if b.gid == id then f b else b }
def G.setConn (g : G) (cid : Nat) (f : GConn → GConn) : G :=
  { g with conns := g.conns.map fun c => if c.id == cid then f c else c }

def sameSet (a b : List Str) : Bool := a.all b.contains && b.all a.contains
def sameNats (a b : List Nat) : Bool := a.all b.contains && b.all a.contains && a.length == b.length

def lowerSet (fs : List Str) : List Str := (fs.map lower).eraseDups

/-- RFC 9051 §6.4.6: FLAGS replaces, +FLAGS adds, -FLAGS removes; flag names are case-insensitive -/
def rfcStore (op : StoreOp) (old fs : List Str) : List Str :=
  match op with
  | .set => lowerSet fs
  | .add => (old ++ lowerSet fs).eraseDups
  | .del => old.filter fun f => !(lowerSet fs).contains f

/-- membership of `q` in a sequence-set whose `*` stands for `star` (RFC 9051 §9 seq-range: order-free) -/
def inSet (set : NumSet.Set) (star q : Nat) : Bool :=
  set.any fun r =>
    let a := if r.start = 0 then star else r.start
    let b := if r.stop = 0 then star else r.stop
    (a ≤ q && q ≤ b) || (b ≤ q && q ≤ a)

def hasStar (set : NumSet.Set) : Bool := set.any fun r => r.start = 0 || r.stop = 0

def maxUid (b : GBox) : Nat := b.msgs.foldl (fun a m => Nat.max a m.uid) 0

def zipPos (l : List GMsg) : List (Nat × GMsg) := l.zipIdx.map fun (m, i) => (i + 1, m)

/-- the messages a command addresses, by the RFC; `none` = outside the oracle's domain (see header) -/
def resolve (c : GConn) (b : GBox) (uid : Bool) (set : NumSet.Set) : Option (List (Nat × GMsg)) :=
  if uid then
    if hasStar set && (b.msgs.isEmpty || maxUid b != b.hi) then none
    else some ((zipPos b.msgs).filter fun (_, m) => inSet set (maxUid b) m.uid)
  else
    if hasStar set && (c.ann != b.msgs.length || c.ann == 0) then none
    else some ((zipPos b.msgs).filter fun (p, _) => p ≤ c.ann && inSet set c.ann p)

/-- learn / confirm a UIDVALIDITY reported for the mailbox currently called `name` -/
def learnV (g : G) (name : Str) (b : GBox) (v : Nat) : G × Option String :=
  match b.uidv with
  | some v' => (g, if v == v' then none else some "uidvalidity-changed")
  | none =>
    (g.setBox b.gid fun b => { b with uidv := some v },
     if g.retired.any (fun p => p.1 == name && p.2 == v) then some "uidvalidity-reused" else none)

def learnNext (g : G) (b : GBox) (n : Nat) : G × Option String :=
  (g.setBox b.gid fun b => { b with next := Nat.max b.next n },
   if n ≤ b.hi || n < b.next then some "uidnext-not-above-uids" else none)

def first (a b : Option String) : Option String := match a with | some e => some e | none => b

def attUid (atts : List Att) : Option Nat := atts.findSome? fun a => match a with | .uid n => some n | _ => none
def attFlags (atts : List Att) : Option (List Str) := atts.findSome? fun a => match a with | .flags l => some l | _ => none

def isWhole (s : Section) : Bool :=
  s.part.isEmpty && s.spec == .none && s.fields.isEmpty && (s.obsolete == 0 || s.obsolete == 1)

/-- one FETCH response against the ghost view -/
def checkFetch (c : GConn) (b : GBox) (seq : Nat) (atts : List Att) : Option String :=
  if seq == 0 || seq > c.ann then some "fetch-number-out-of-range"
  else match b.msgs[seq - 1]? with
    | none => some "fetch-number-out-of-range"
    | some m =>
      atts.findSome? fun a => match a with
        | .uid u => if u == m.uid then none else some "fetch-names-other-message"
        | .flags l => if sameSet l m.flags then none else some "fetch-flags-differ"
        | .size n => if n == m.content.length then none else some "fetch-size-differs"
        | .section s origin data =>
          if isWhole s && origin.isNone then (if data == m.content then none else some "fetch-content-differs") else none
        | _ => none

/-- walk the untagged data of one response in order: EXISTS / EXPUNGE / FETCH against the ghost view.
    Returns the ghost, the UIDs removed by EXPUNGE responses, and the first violated clause. -/
def walk (g : G) (cid : Nat) : List Item → List Nat → Option String → G × List Nat × Option String
  | [], rem, err => (g, rem, err)
  | it :: rest, rem, err =>
    match g.conn cid with
    | none => (g, rem, err)
    | some c =>
      match c.sel.bind g.box with
      | none => walk g cid rest rem err
      | some b =>
        match it with
        | .exists_ n =>
          let e := if n < c.ann then some "exists-decreased" else if n > b.msgs.length then some "exists-beyond-mailbox" else none
          walk (g.setConn cid fun c => { c with ann := n }) cid rest rem (first err e)
        | .expunge k =>
          if k == 0 || k > c.ann then walk g cid rest rem (first err (some "expunge-number-out-of-range"))
          else
            let u := (b.msgs[k - 1]?.map (·.uid)).getD 0
            let g1 := g.setBox b.gid fun b => { b with msgs := b.msgs.eraseIdx (k - 1) }
            walk (g1.setConn cid fun c => { c with ann := c.ann - 1 }) cid rest (rem ++ [u]) err
        | .fetch seq atts => walk g cid rest rem (first err (checkFetch c b seq atts))
        | _ => walk g cid rest rem err

def walk2 (g : G) (cid : Nat) (items : List Item) : G × Option String :=
  let (g', _, e) := walk g cid items [] none
  (g', e)

def fetchTriples (items : List Item) : List (Nat × Nat × List Str) :=
  items.filterMap fun it => match it with
    | .fetch seq atts => some (seq, (attUid atts).getD 0, (attFlags atts).getD [])
    | _ => none

/-- add copies to a mailbox under the UIDs the server reported -/
def addCopies (g : G) (dest : Nat) (src : List GMsg) (uids : List Nat) : G :=
  g.setBox dest fun b => { b with msgs := b.msgs ++ (src.zip uids).map (fun (m, u) => { m with uid := u }),
                                   hi := uids.foldl Nat.max b.hi }

def ascending : List Nat → Bool
  | a :: b :: r => a < b && ascending (b :: r)
  | _ => true

/-- COPYUID (RFC 4315 §3): source UIDs = the addressed messages, destination UIDs new and ascending -/
def checkCopyuid (g : G) (destName : Str) (d : GBox) (tg : List (Nat × GMsg)) (code : Option (Nat × List Nat × List Nat)) :
    G × Option String :=
  match code with
  | none => (g, if tg.isEmpty then none else some "copyuid-missing")
  | some (v, src, dst) =>
    let (g1, e1) := learnV g destName d v
    let e2 := if !sameNats src (tg.map (·.2.uid)) then some "copyuid-names-other-source-messages"
      else if dst.length != src.length then some "copyuid-length-mismatch"
      else if !ascending dst || dst.any (fun u => u ≤ d.hi || u < d.next) then some "uid-not-increasing"
      else none
    -- sources ascend with the mailbox order; pair them with the destinations in order
    (addCopies g1 d.gid (tg.map (·.2)) dst, first e1 e2)

def mapFlags (uids : List Nat) (f : List Str → List Str) (b : GBox) : GBox :=
  { b with msgs := b.msgs.map fun m => if uids.contains m.uid then { m with flags := f m.flags } else m }

def selBox (g : G) (cid : Nat) : Option (GConn × GBox) :=
  match g.conn cid with
  | none => none
  | some c => (c.sel.bind g.box).map fun b => (c, b)

/-- judge one command's response and advance the ghost -/
def check (g : G) (cid : Nat) (cmd : Cmd) (r : Resp) : G × Option String :=
  if r.status == .panic then (g, some "connection-crashed")
  else if r.code == .garbled then (g, some "malformed-response-code")
  else if r.items.any (fun it => it == .unknown "incomplete") then (g, some "incomplete-response-line")
  else if g.shared then (g, none)
  else
  let okS := r.status == .ok
  match cmd with
  | .create n =>
    let n := dropTrailingSlash (canonName n)
    if okS && (g.names.lookup n).isNone then
      walk2 { g with boxes := g.boxes ++ [⟨g.nextGid, none, 0, 0, []⟩], names := g.names ++ [(n, g.nextGid)], nextGid := g.nextGid + 1 } cid r.items
    else if okS then walk2 g cid r.items else (g, none)
  | .delete n =>
    let n := canonName n
    if !okS then (g, none) else
    match g.byName n with
    | none => (g, none)
    | some b =>
      walk2 { g with names := g.names.filter (·.1 != n),
                     retired := match b.uidv with | some v => (n, v) :: g.retired | none => g.retired } cid r.items
  | .rename a b =>
    let a := canonName a
    let b := dropTrailingSlash (canonName b)
    if !okS then (g, none) else
    match g.names.lookup a with
    | none => (g, none)
    | some id => walk2 { g with names := g.names.filter (·.1 != a) ++ [(b, id)] } cid r.items
  | .status n _ =>
    if !okS then (g, none) else
    match g.byName (canonName n) with
    | none => (g, none)
    | some b =>
      r.items.foldl (fun (acc : G × Option String) it =>
        match it with
        | .status _ kv =>
          kv.foldl (fun (acc : G × Option String) (k, v) =>
            match k, v, acc.1.box b.gid with
            | .uidvalidity, some v, some b' => let (g', e) := learnV acc.1 (canonName n) b' v; (g', first acc.2 e)
            | .uidnext, some v, some b' => let (g', e) := learnNext acc.1 b' v; (g', first acc.2 e)
            | _, _, _ => acc) acc
        | _ => acc) (walk g cid r.items [] none |> fun (g', _, e) => (g', e))
  | .append n fl _ hdrs body _ _ =>
    if !okS then (g, none) else
    match g.byName (canonName n) with
    | none => (g, none)
    | some b =>
      match r.code with
      | .appenduid v u =>
        let (g1, e1) := learnV g (canonName n) b v
        let e2 := if u ≤ b.hi || u < b.next then some "uid-not-increasing" else none
        let m : GMsg := ⟨u, lowerSet fl, raw { uid := 0, flags := [], date := 0, zone := 0, hdrs := hdrs, body := body, sentDay := 0, sentErr := false }⟩
        let g2 := g1.setBox b.gid fun b => { b with msgs := b.msgs ++ [m], hi := Nat.max b.hi u }
        let (g3, _, e3) := walk g2 cid r.items [] none
        (g3, first e1 (first e2 e3))
      | _ => (g, some "appenduid-missing")
  | .select n _ =>
    let g0 := g.setConn cid fun c => { c with sel := none, ann := 0 }
    if !okS then (g0, none) else
    match g0.byName (canonName n) with
    | none => (g0, none)
    | some b =>
      if g0.conns.any (fun c => c.sel == some b.gid) then ({ g0 with shared := true }, none) else
      let g1 := g0.setConn cid fun c => { c with sel := some b.gid, ann := 0 }
      r.items.foldl (fun (acc : G × Option String) it =>
        match it, acc.1.box b.gid with
        | .exists_ k, some _ =>
          (acc.1.setConn cid fun c => { c with ann := k }, first acc.2 (if k == b.msgs.length then none else some "exists-is-not-the-message-count"))
        | .uidvalidity v, some b' => let (g', e) := learnV acc.1 (canonName n) b' v; (g', first acc.2 e)
        | .uidnext v, some b' => let (g', e) := learnNext acc.1 b' v; (g', first acc.2 e)
        | _, _ => acc) (g1, none)
  | .close =>
    if !okS then (g, none) else
    match selBox g cid with
    | none => (g, none)
    | some (_, b) =>
      let g1 := g.setBox b.gid fun b => { b with msgs := b.msgs.filter fun m => !m.flags.contains deletedFlag }
      (g1.setConn cid fun c => { c with sel := none, ann := 0 }, none)
  | .unselect =>
    if okS then (g.setConn cid fun c => { c with sel := none, ann := 0 }, none) else (g, none)
  | .store uid set op silent fl =>
    if !okS then (g, none) else
    match selBox g cid with
    | none => (g, none)
    | some (c, b) =>
      match resolve c b uid set with
      | none => ({ g with shared := true }, none)     -- outside the domain: stop judging views
      | some tg =>
        let uids := tg.map (·.2.uid)
        let g1 := g.setBox b.gid (mapFlags uids fun old => rfcStore op old fl)
        let expect := (tg.filter fun (p, _) => p ≤ c.ann).map fun (p, m) => (p, m.uid)
        let got := (fetchTriples r.items).map fun (s, u, _) => (s, u)
        let e1 := if silent then none
          else if got != expect then some "store-reports-other-than-the-addressed-messages" else none
        let (g2, _, e2) := walk g1 cid r.items [] none
        (g2, first e1 (e2.map fun e => if e == "fetch-flags-differ" then "store-wrong-flags" else e))
  | .fetch uid set opts =>
    if !okS then (g, none) else
    match selBox g cid with
    | none => (g, none)
    | some (c, b) =>
      match resolve c b uid set with
      | none => ({ g with shared := true }, none)
      | some tg =>
        let vis := tg.filter fun (p, _) => p ≤ c.ann
        let uids := vis.map (·.2.uid)
        let markSeen := opts.sections.any (!·.peek)
        let g1 := if markSeen then g.setBox b.gid (mapFlags uids fun old => rfcStore .add old [seenFlag]) else g
        -- the command's own responses come first, one per addressed message, in order
        let got := ((fetchTriples r.items).take vis.length).map fun (s, u, _) => (s, u)
        let e1 := if got != vis.map (fun (p, m) => (p, m.uid)) then some "fetch-returns-other-than-the-addressed-messages" else none
        let (g2, _, e2) := walk g1 cid r.items [] none
        (g2, first e1 e2)
  | .copy uid set dest =>
    if !okS then (g, none) else
    match selBox g cid, g.byName (canonName dest) with
    | some (c, b), some d =>
      match resolve c b uid set with
      | none => ({ g with shared := true }, none)
      | some tg =>
        let code := match r.code with | .copyuid v s t => some (v, s, t) | _ => none
        let (g1, e1) := checkCopyuid g (canonName dest) d tg code
        let (g2, _, e2) := walk g1 cid r.items [] none
        (g2, first e1 e2)
    | _, _ => (g, none)
  | .move uid set dest =>
    if !okS then (g, none) else
    match selBox g cid, g.byName (canonName dest) with
    | some (c, b), some d =>
      match resolve c b uid set with
      | none => ({ g with shared := true }, none)
      | some tg =>
        let code := r.items.findSome? fun it => match it with | .copyuid v s t => some (v, s, t) | _ => none
        let (g1, e1) := checkCopyuid g (canonName dest) d tg code
        let (g2, rem, e2) := walk g1 cid r.items [] none
        let e3 := if sameNats rem (tg.map (·.2.uid)) then none else some "move-removes-other-than-the-moved-messages"
        (g2, first e1 (first e2 e3))
    | _, _ => (g, none)
  | .expunge =>
    if !okS then (g, none) else
    match selBox g cid with
    | none => (g, none)
    | some (_, b) =>
      let elig := (b.msgs.filter fun m => m.flags.contains deletedFlag).map (·.uid)
      let (g1, rem, e1) := walk g cid r.items [] none
      (g1, first e1 (if sameNats rem elig then none else some "expunge-removes-other-than-the-deleted-messages"))
  | .uidExpunge set =>
    if !okS then (g, none) else
    match selBox g cid with
    | none => (g, none)
    | some (_, b) =>
      if hasStar set && (b.msgs.isEmpty || maxUid b != b.hi) then ({ g with shared := true }, none) else
      let elig := (b.msgs.filter fun m => m.flags.contains deletedFlag && inSet set (maxUid b) m.uid).map (·.uid)
      let (g1, rem, e1) := walk g cid r.items [] none
      (g1, first e1 (if sameNats rem elig then none else some "expunge-removes-other-than-the-deleted-messages"))
  | _ =>
    -- NOOP, LIST, SEARCH, SUBSCRIBE …: only the unsolicited data is judged
    if !okS then (g, none) else
    let (g1, _, e) := walk g cid r.items [] none
    (g1, e)

end GoImap.MailboxSpec
