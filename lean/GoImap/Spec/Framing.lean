/-
  Spec for C04 / C06 — how a client's octet stream is framed into commands, written from
  RFC 9051 §2.2.1 (commands are lines ending in CRLF), §4.3 (a literal is "{" number "}" CRLF at
  the end of a line followed by that many octets, after which the command continues; for a
  synchronising literal the client waits for a command continuation request and, when the server
  answers with a tagged response instead, the command is over), RFC 7888 ("{" number "+}" is a
  non-synchronising literal: the octets follow immediately), §6.2.2 (AUTHENTICATE: after the
  command line the client sends one line per continuation request), RFC 2177 (IDLE: after the
  continuation request the client sends the line DONE).  §2.2.1: every command starts with a tag.

  Nothing here looks at the Go code or at Model/Framing.lean.  `go p` tells whether the client
  received a continuation request while it was waiting at offset `p` of its own stream.
-/
namespace GoImap.FramingSpec

abbrev Bytes := List Nat

inductive Role where
  | text      -- command text (including the CRLF that ends a line)
  | payload   -- octets of a literal
  | line      -- a continuation line that is not command text (SASL response, DONE)
deriving DecidableEq, Repr

inductive Kind where
  | plain | authenticate | idle
deriving DecidableEq, Repr

structure Lit where
  off : Nat          -- offset of the first payload octet
  size : Nat         -- announced size
  nonSync : Bool
  sent : Bytes       -- the octets that followed (all `size` of them unless the stream ended)
deriving Repr

structure Frame where
  start : Nat
  tag : Option Bytes       -- the first atom of the command; none when the line does not start with one
  kind : Kind
  roles : List Role        -- one per octet of the frame
  texts : List Bytes       -- the command-text lines, without CRLF
  lits : List Lit
  syncs : List Nat         -- offsets at which the client waits for "+"
  complete : Bool          -- false when the stream ended inside the frame
deriving Repr

def isAtomChar (c : Nat) : Bool :=
  -- RFC 9051 §9 ATOM-CHAR: any CHAR except atom-specials ( ) { SP CTL % * " \ ]
  33 ≤ c && c ≤ 126 && !(c == 40 || c == 41 || c == 123 || c == 37 || c == 42 || c == 34 || c == 92 || c == 93)

def isDigit (c : Nat) : Bool := 48 ≤ c && c ≤ 57

def upperByte (c : Nat) : Nat := if 97 ≤ c && c ≤ 122 then c - 32 else c

/-- split at the first CRLF: (text, rest after CRLF, found) -/
def splitLine : Bytes → Bytes → Bytes × Bytes × Bool
  | [], acc => (acc.reverse, [], false)
  | 13 :: 10 :: r, acc => (acc.reverse, r, true)
  | c :: r, acc => splitLine r (c :: acc)

def valOf (ds : Bytes) : Nat := ds.foldl (fun a d => a * 10 + (d - 48)) 0

/-- a literal header at the end of a line: "{" 1*DIGIT ["+"] "}" -/
def litHeader (text : Bytes) : Option (Nat × Bool) :=
  match text.reverse with
  | 125 :: r =>
    let (nonSync, r) := match r with
      | 43 :: r' => (true, r')
      | _ => (false, r)
    let ds := r.takeWhile isDigit
    if ds.isEmpty then none
    else if (r.dropWhile isDigit).head? == some 123 then some (valOf ds.reverse, nonSync)
    else none
  | _ => none

def tagOf (text : Bytes) : Option Bytes :=
  let t := text.takeWhile isAtomChar
  if t.isEmpty then none else some t

/-- the command name: the atom after the tag and one SP, upper-cased -/
def nameOf (text : Bytes) : Bytes :=
  match text.dropWhile isAtomChar with
  | 32 :: r => (r.takeWhile isAtomChar).map upperByte
  | _ => []

def authName : Bytes := [65, 85, 84, 72, 69, 78, 84, 73, 67, 65, 84, 69]
def idleName : Bytes := [73, 68, 76, 69]

def kindOf (text : Bytes) : Kind :=
  let n := nameOf text
  if n == authName then .authenticate else if n == idleName then .idle else .plain

def addText (f : Frame) (text : Bytes) (found : Bool) : Frame :=
  { f with roles := f.roles ++ List.replicate (text.length + (if found then 2 else 0)) .text,
           texts := f.texts ++ [text] }

/-- continuation lines of AUTHENTICATE (as many as the server asks for) / IDLE (one) -/
def rawLines (go : Nat → Bool) : Nat → Bool → Nat → Bytes → Frame → Frame × Bytes
  | 0, _, _, inp, f => (f, inp)
  | fuel + 1, many, off, inp, f =>
    let f := { f with syncs := f.syncs ++ [off] }
    if !go off then (f, inp)
    else
      let (text, rest, found) := splitLine inp []
      let n := text.length + (if found then 2 else 0)
      let f := { f with roles := f.roles ++ List.replicate n .line }
      if !found then ({ f with complete := false }, [])
      else if many then rawLines go fuel many (off + n) rest f
      else (f, rest)

/-- the lines and literals of one command starting at offset `off` -/
def frameLines (go : Nat → Bool) : Nat → Bool → Nat → Bytes → Frame → Frame × Bytes
  | 0, _, _, inp, f => (f, inp)
  | fuel + 1, first, off, inp, f =>
    let (text, rest, found) := splitLine inp []
    let f := addText f text found
    let f := if first then { f with tag := tagOf text, kind := kindOf text } else f
    if !found then ({ f with complete := false }, [])
    else
      let off' := off + text.length + 2
      match litHeader text with
      | some (n, nonSync) =>
        let f := if nonSync then f else { f with syncs := f.syncs ++ [off'] }
        if nonSync || go off' then
          let sent := rest.take n
          let f := { f with roles := f.roles ++ List.replicate sent.length .payload,
                            lits := f.lits ++ [⟨off', n, nonSync, sent⟩] }
          if sent.length < n then ({ f with complete := false }, [])
          else frameLines go fuel false (off' + n) (rest.drop n) f
        else (f, rest)       -- answered with a tagged response instead of "+": the command is over
      | none =>
        if first && f.kind == .authenticate then rawLines go (rest.length + 1) true off' rest f
        else if first && f.kind == .idle then rawLines go 1 false off' rest f
        else (f, rest)

def frameAll (go : Nat → Bool) : Nat → Nat → Bytes → List Frame
  | 0, _, _ => []
  | _, _, [] => []
  | fuel + 1, off, inp =>
    let f0 : Frame := ⟨off, none, .plain, [], [], [], [], true⟩
    let (f, rest) := frameLines go (inp.length + 1) true off inp f0
    f :: frameAll go fuel (off + f.roles.length) rest

/-- RFC framing of the client stream `inp` -/
def frame (go : Nat → Bool) (inp : Bytes) : List Frame := frameAll go (inp.length + 1) 0 inp

/-! ## the domain in which the RFC lexer and a liberal lexer cannot differ -/

/-- quote phase at the end of a line: false = outside a quoted string -/
def quotePhase : Bool → Bytes → Bool
  | q, [] => q
  | false, c :: r => quotePhase (c == 34) r
  | true, 92 :: _ :: r => quotePhase true r
  | true, [92] => true
  | true, c :: r => quotePhase (c != 34) r

/-- a command-text line is strict when it is printable US-ASCII (no bare CR or LF, no 8-bit
    octets: RFC atoms are 7-bit, the library also takes octets from 0xA0 up), all its quoted
    strings end on the line, it does not end in SP (a liberal lexer may take " CRLF" for CRLF),
    and a literal header, if any, announces a size below 2^63 -/
def strictLine (text : Bytes) : Bool :=
  text.all (fun c => 32 ≤ c && c ≤ 126) && !quotePhase false text && text.getLast? != some 32
  && (match litHeader text with | some (n, _) => n < 9223372036854775808 | none => true)

def Frame.strict (f : Frame) : Bool := f.texts.all strictLine

/-! ## the oracle's clauses, on what the implementation did -/

inductive Status where
  | ok | no | bad
deriving DecidableEq, Repr

/-- a server response as RFC 9051 §7 classifies it -/
inductive Reply where
  | tagged (tag : Bytes) (st : Status)
  | cont
  | bye
  | untagged
deriving DecidableEq, Repr

def startsWith (pre s : Bytes) : Bool := s.take pre.length == pre

/-- classify one response line (without CRLF; literals already spliced out); none = malformed.
    A line that ends inside a quoted string is not a whole response: quoted strings cannot contain
    CR or LF (RFC 9051 §9 QUOTED-CHAR), so the CRLF that ended it was inside one. NUL never occurs. -/
def classify (line : Bytes) : Option Reply :=
  if line.any (fun c => c == 13 || c == 10 || c == 0) then none
  else if quotePhase false line then none
  else match line with
  | 43 :: 32 :: _ => some .cont
  | 42 :: 32 :: r => if startsWith [66, 89, 69, 32] r then some .bye else if r.isEmpty then none else some .untagged
  | _ =>
    let tag := line.takeWhile (· != 32)
    let r := (line.dropWhile (· != 32)).drop 1
    -- the tag is an echo of what the client sent: any octets but SP and controls
    if tag.isEmpty || !tag.all (fun c => c > 32 && c != 127) then none
    else if startsWith [79, 75, 32] r then some (.tagged tag .ok)
    else if startsWith [78, 79, 32] r then some (.tagged tag .no)
    else if startsWith [66, 65, 68, 32] r then some (.tagged tag .bad)
    else none

/-- a literal announced at the end of a response line: "{" digits "}" -/
def respLit (text : Bytes) : Option Nat :=
  match litHeader text with
  | some (n, false) => some n
  | _ => none

/-- clause 4: the output is a concatenation of complete response lines (a line may carry
    literals); returns them classified, or none -/
def responses : Nat → Bytes → Bytes → Option (List Reply)
  | 0, _, _ => none
  | _, [], [] => some []
  | _, [], _ :: _ => none               -- the output ends inside a response
  | fuel + 1, out, cur =>
    let (text, rest, found) := splitLine out []
    if !found then none
    else match respLit text with
      | some n =>
        if rest.length < n then none
        else responses fuel (rest.drop n) (cur ++ text ++ [123, 125])    -- literal spliced out
      | none =>
        match classify (cur ++ text) with
        | none => none
        | some r => (responses fuel rest []).map (r :: ·)

def isPrefixOf [DecidableEq α] : List α → List α → Bool
  | [], _ => true
  | _ :: _, [] => false
  | a :: as, b :: bs => a == b && isPrefixOf as bs

/-- clause 1: every complete command is answered exactly once with its own tag, in order, up to
    the point where the server closed; `closed` tells whether the server closed the connection -/
def repliesOk (fs : List Frame) (replyTags : List Bytes) (closed : Bool) : Bool :=
  let all := fs.map (·.tag)
  let got := replyTags.map some
  if closed then isPrefixOf got all
  else
    let complete := (fs.filter (·.complete)).map (·.tag)
    got == complete || (got == all && (fs.getLast?.map (·.complete)) == some false)

def isInfix (pat s : Bytes) : Bool :=
  pat.isEmpty || (List.range (s.length + 1 - pat.length)).any fun i => (s.drop i).take pat.length == pat

/-- clause 2 for one value that reached the backend (or one answered tag): when it occurs inside
    an announced payload and nowhere in command text, it must be that whole literal -/
def originOk (fs : List Frame) (v : Bytes) : Bool :=
  if v.length < 3 then true
  else if fs.any (fun f => f.texts.any (isInfix v)) then true
  else if fs.any (fun f => f.lits.any fun l => l.sent == v) then true      -- accepted as that argument
  else !fs.any fun f => f.lits.any fun l => isInfix v l.sent

/-- clause 3: the offsets at which "+" was received are synchronisation points, each at most once -/
def contsOk (fs : List Frame) (conts : List Nat) : Bool :=
  let syncs := fs.flatMap (·.syncs)
  conts.all (fun p => syncs.contains p) && conts.eraseDups.length == conts.length

end GoImap.FramingSpec
