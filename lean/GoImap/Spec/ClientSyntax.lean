/-
  C18 — what a server that advertised a given capability set may legitimately receive, written
  from RFC 9051 §4.3 / §9 (string, quoted, literal), RFC 7888 (LITERAL+ / LITERAL-), RFC 6855
  (UTF8=ACCEPT), RFC 3501 §6.4.4 + RFC 9051 §6.4.4 (SEARCH CHARSET) and the property text.

  Everything here looks only at the BYTES the client put on the connection and at the moments the
  server acted (the number of client bytes it had received when it sent a continuation request or
  a tagged refusal). The bytes are split into atoms, quoted strings and literals by the scanner
  below — a byte-at-a-time state machine that shares nothing with the encoder model: from
  Model/ClientSyntax only the vocabulary type `Cap` is imported.

  The rules (`check`):
    * a non-synchronising literal `{n+}` is legal iff LITERAL+ was advertised, or LITERAL- or
      IMAP4rev2 was advertised and n ≤ 4096                                    (RFC 7888 §4, §5);
    * a quoted string never contains NUL, CR or LF                             (RFC 9051 §9 QUOTED-CHAR);
    * a quoted string contains 8-bit bytes only if IMAP4rev2 was advertised or UTF8=ACCEPT was
      enabled                                                                  (RFC 9051 §9, RFC 6855 §3);
    * after the header of a synchronising literal `{n}` the client writes nothing until the
      server's continuation request; if the server answers with a tagged NO/BAD instead, the
      client writes nothing more of that command                               (RFC 9051 §4.3, §7.6);
    * SEARCH: no CHARSET once UTF8=ACCEPT is enabled (RFC 6855 §3); 8-bit search strings need
      CHARSET unless the server is IMAP4rev2 or UTF8=ACCEPT is enabled (RFC 3501 §6.4.4);
    * structure: the bytes are one complete command (or end at a refused literal).
-/
import GoImap.Model.ClientSyntax
namespace GoImap.ClientSyntaxSpec
open GoImap.ClientSyntax (Cap)

abbrev Bytes := List Nat

/-! ## capabilities: which advertised name makes which capability available -/

/-- RFC 9051 Appendix E (extensions folded into IMAP4rev2), RFC 7888 §5 (LITERAL+ includes
    LITERAL-), RFC 7162 §3.2 (QRESYNC implies CONDSTORE), RFC 6855 §6 (UTF8=ONLY implies
    UTF8=ACCEPT): advertising `x` makes `y` available -/
def implies : Cap → Cap → Bool
  | .imap4rev2, .namespace_ | .imap4rev2, .unselect | .imap4rev2, .uidPlus | .imap4rev2, .esearch
  | .imap4rev2, .searchRes | .imap4rev2, .enable | .imap4rev2, .idle | .imap4rev2, .saslIR
  | .imap4rev2, .listExtended | .imap4rev2, .listStatus | .imap4rev2, .move
  | .imap4rev2, .literalMinus | .imap4rev2, .statusSize => true
  | .literalPlus, .literalMinus => true
  | .qresync, .condStore => true
  | .utf8Only, .utf8Accept => true
  | x, y => Cap.same x y

def available (adv : List Cap) (c : Cap) : Bool := adv.any (implies · c)

def isLiteralPlus : Cap → Bool | .literalPlus => true | _ => false
def isLiteralMinus : Cap → Bool | .literalMinus => true | _ => false
def isRev2 : Cap → Bool | .imap4rev2 => true | _ => false
def isUtf8 : Cap → Bool | .utf8Accept => true | .utf8Only => true | _ => false

/-- what the server said: the advertised capability list and the ENABLED list -/
structure Server where
  adv : List Cap
  enabled : List Cap

/-- what the server says over time, as far as it changes what the client may send -/
inductive SrvEv where
  /-- a capability list (greeting code, untagged CAPABILITY, code of a tagged OK): it replaces the
      previous one (RFC 9051 §7.2.2: the list is the complete current set) -/
  | advertised (l : List Cap)
  /-- `* ENABLED …` (RFC 5161 §3.2): these extensions are now on -/
  | enabledResp (l : List Cap)
  /-- tagged OK to UNAUTHENTICATE: "the server resets … any extensions enabled" (RFC 8437 §3) -/
  | unauthenticated
deriving DecidableEq, Repr

def Server.after (srv : Server) : SrvEv → Server
  | .advertised l => { srv with adv := l }
  | .enabledResp l => { srv with enabled := srv.enabled ++ l }
  | .unauthenticated => { srv with enabled := [] }

/-- the server's state when the command is written: everything it said before, in order -/
def Server.afterAll (srv : Server) (evs : List SrvEv) : Server := evs.foldl Server.after srv

/-- RFC 7888: `{n+}` with LITERAL+ for any n; with LITERAL- (also part of IMAP4rev2) for n ≤ 4096 -/
def nonSyncLegal (srv : Server) (n : Nat) : Bool :=
  srv.adv.any isLiteralPlus || ((srv.adv.any isLiteralMinus || srv.adv.any isRev2) && n ≤ 4096)

/-- 8-bit (UTF-8) quoted strings: IMAP4rev2 available, or UTF8=ACCEPT enabled -/
def utf8Quoted (srv : Server) : Bool := srv.adv.any isRev2 || srv.enabled.any isUtf8

/-! ## the scanner -/

inductive Tok where
  | atom (b : Bytes)
  /-- the raw bytes between the double quotes (escapes included) -/
  | quoted (raw : Bytes)
  /-- a literal: announced size, `{n+}` or `{n}`, whether the payload has a byte ≥ 0x80 -/
  | lit (n : Nat) (nonSync : Bool) (eight : Bool)
deriving DecidableEq, Repr

inductive Fail where
  | badLiteralHeader | bareCR | bareLF | trailingBytes | incomplete
  | payloadBeforeCont | syncUnanswered | bytesAfterRefusal
deriving DecidableEq, Repr

inductive Mode where
  /-- between tokens or inside an atom -/
  | line
  | quoted (esc : Bool)
  /-- after `{`: digits read so far -/
  | hdrDigits (any : Bool)
  /-- after `{n+` -/
  | hdrPlus
  /-- after `}` -/
  | hdrClose (nonSync : Bool)
  /-- after `}` CR -/
  | hdrCR (nonSync : Bool)
  | payload (rem : Nat) (nonSync : Bool)
  /-- CR seen outside strings -/
  | cr
  /-- the CRLF that ends the command was seen -/
  | done
  /-- a synchronising literal was refused: the command is over -/
  | refused
  | failed (f : Fail)
deriving DecidableEq, Repr

structure St where
  mode : Mode := .line
  /-- bytes consumed -/
  pos : Nat := 0
  /-- the atom / quoted string being read (reversed) -/
  cur : Bytes := []
  /-- size of the literal being read -/
  num : Nat := 0
  /-- the literal payload being read has a byte ≥ 0x80 -/
  eight : Bool := false
  /-- tokens, most recent first -/
  toks : List Tok := []
deriving DecidableEq, Repr

def St.flushAtom (s : St) : St :=
  if s.cur.isEmpty then s else { s with toks := .atom s.cur.reverse :: s.toks, cur := [] }

/-- the literal header ended at offset `he`; `conts` / `refusals` = the offsets at which the server
    sent a continuation request / a tagged NO or BAD -/
def startLiteral (conts refusals : List Nat) (nonSync : Bool) (s : St) (he : Nat) : St :=
  let go : St :=
    if s.num = 0 then { s with mode := .line, toks := .lit 0 nonSync false :: s.toks }
    else { s with mode := .payload s.num nonSync, eight := false }
  if nonSync then go
  else if conts.contains he then go
  else if refusals.contains he then { s with mode := .refused, toks := .lit s.num false false :: s.toks }
  else if (conts ++ refusals).any (· > he) then { s with mode := .failed .payloadBeforeCont }
  else { s with mode := .failed .syncUnanswered }

def step (conts refusals : List Nat) (s : St) (b : Nat) : St :=
  let s1 := { s with pos := s.pos + 1 }
  match s.mode with
  | .line =>
    if b = 34 then { s1.flushAtom with mode := .quoted false }
    else if b = 123 then { s1.flushAtom with mode := .hdrDigits false, num := 0 }
    else if b = 13 then { s1.flushAtom with mode := .cr }
    else if b = 10 then { s1 with mode := .failed .bareLF }
    else if b = 32 || b = 40 || b = 41 then s1.flushAtom
    else { s1 with cur := b :: s1.cur }
  | .quoted true => { s1 with mode := .quoted false, cur := b :: s1.cur }
  | .quoted false =>
    if b = 34 then { s1 with mode := .line, toks := .quoted s1.cur.reverse :: s1.toks, cur := [] }
    else if b = 92 then { s1 with mode := .quoted true, cur := b :: s1.cur }
    else { s1 with cur := b :: s1.cur }
  | .hdrDigits any =>
    if 48 ≤ b && b ≤ 57 then { s1 with mode := .hdrDigits true, num := s1.num * 10 + (b - 48) }
    else if b = 43 && any then { s1 with mode := .hdrPlus }
    else if b = 125 && any then { s1 with mode := .hdrClose false }
    else { s1 with mode := .failed .badLiteralHeader }
  | .hdrPlus => if b = 125 then { s1 with mode := .hdrClose true } else { s1 with mode := .failed .badLiteralHeader }
  | .hdrClose ns => if b = 13 then { s1 with mode := .hdrCR ns } else { s1 with mode := .failed .badLiteralHeader }
  | .hdrCR ns =>
    if b = 10 then startLiteral conts refusals ns s1 s1.pos else { s1 with mode := .failed .badLiteralHeader }
  | .payload rem ns =>
    let e := s1.eight || b ≥ 128
    if rem ≤ 1 then { s1 with mode := .line, eight := false, toks := .lit s1.num ns e :: s1.toks }
    else { s1 with mode := .payload (rem - 1) ns, eight := e }
  | .cr => if b = 10 then { s1 with mode := .done } else { s1 with mode := .failed .bareCR }
  | .done => { s1 with mode := .failed .trailingBytes }
  | .refused => { s1 with mode := .failed .bytesAfterRefusal }
  | .failed _ => s1

def scanFrom (conts refusals : List Nat) (s : St) (w : Bytes) : St := w.foldl (step conts refusals) s

def scan (conts refusals : List Nat) (w : Bytes) : St := scanFrom conts refusals {} w

/-! ## the rules -/

inductive Verdict where
  | ok
  | structure_ (f : Fail)
  | quotedCtl          -- NUL, CR or LF inside a quoted string
  | quoted8bit         -- 8-bit byte inside a quoted string without IMAP4rev2 / UTF8=ACCEPT
  | nonSyncIllegal     -- `{n+}` the server did not allow
  | charsetAfterUtf8Accept
  | eightBitSearchWithoutCharset
deriving DecidableEq, Repr

def tokOK (srv : Server) : Tok → Verdict
  | .atom _ => .ok
  | .quoted raw =>
    if raw.any (fun b => b = 0 || b = 13 || b = 10) then .quotedCtl
    else if raw.any (· ≥ 128) && !utf8Quoted srv then .quoted8bit
    else .ok
  | .lit n nonSync _ => if nonSync && !nonSyncLegal srv n then .nonSyncIllegal else .ok

def toksOK (srv : Server) : List Tok → Verdict
  | [] => .ok
  | t :: ts => match tokOK srv t with
    | .ok => toksOK srv ts
    | v => v

def Tok.eight : Tok → Bool
  | .atom _ => false
  | .quoted raw => raw.any (· ≥ 128)
  | .lit _ _ e => e

def atomIs (s : String) : Tok → Bool
  | .atom b => b = s.toList.map Char.toNat
  | _ => false

/-- tokens in wire order: is this `tag SEARCH …` or `tag UID SEARCH …`? -/
def isSearch : List Tok → Bool
  | _ :: t :: rest => atomIs "SEARCH" t || (atomIs "UID" t && match rest with
    | u :: _ => atomIs "SEARCH" u
    | [] => false)
  | _ => false

/-- how many of the following tokens are search strings subject to the charset: the argument of
    BODY / TEXT / BCC / CC / FROM / SUBJECT / TO, the two arguments of HEADER (RFC 9051 §6.4.4) -/
def searchArgs (t : Tok) : Nat :=
  if atomIs "HEADER" t then 2
  else if ["BODY", "TEXT", "BCC", "CC", "FROM", "SUBJECT", "TO"].any (atomIs · t) then 1
  else 0

/-- does a search string (a string token in one of those positions) contain an 8-bit byte? -/
def searchString8 : Nat → List Tok → Bool
  | _, [] => false
  | 0, t :: ts => searchString8 (searchArgs t) ts
  | k+1, t :: ts => t.eight || searchString8 k ts

def charsetOK (srv : Server) (toks : List Tok) : Verdict :=
  if !isSearch toks then .ok
  else
    let named := toks.any (atomIs "CHARSET")
    if named && srv.enabled.any isUtf8 then .charsetAfterUtf8Accept
    else if !named && searchString8 0 toks && !utf8Quoted srv then .eightBitSearchWithoutCharset
    else .ok

/-- the verdict without the SEARCH CHARSET rules. `closed` = the client closed the connection
    instead of finishing the command (an unfinished command is then not a syntax violation; the
    tokens it did send are still judged) -/
def verdictCore (srv : Server) (closed : Bool) (s : St) : Verdict :=
  match s.mode with
  | .failed f => .structure_ f
  | .done => toksOK srv s.toks.reverse
  | .refused => toksOK srv s.toks.reverse
  | _ => if closed then toksOK srv s.toks.reverse else .structure_ .incomplete

def verdict (srv : Server) (closed : Bool) (s : St) : Verdict :=
  match verdictCore srv closed s with
  | .ok => charsetOK srv s.toks.reverse
  | v => v

/-- the oracle: the client's bytes for one command, the offsets of the server's `+` and of its
    tagged refusals, whether the client closed the connection afterwards -/
def check (srv : Server) (conts refusals : List Nat) (closed : Bool) (w : Bytes) : Verdict :=
  verdict srv closed (scan conts refusals w)

def checkCore (srv : Server) (conts refusals : List Nat) (closed : Bool) (w : Bytes) : Verdict :=
  verdictCore srv closed (scan conts refusals w)

end GoImap.ClientSyntaxSpec
