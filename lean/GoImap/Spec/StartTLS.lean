/-
  Specification side of C17, written from the property text (RFC 3501 §6.2.1, RFC 9051 §6.2.1/§7.1.4,
  CVE-2011-0411), not from the Go code and not from the router of Model/StartTLS.lean.

  The predicates judge *observations*: what a recording session was called with, what came back on the
  raw socket, what a client handed to its caller. "Injected" traffic is the plaintext suffix placed
  after the STARTTLS exchange line; "legitimate" traffic is what was sent before that line in
  plaintext and what was sent inside TLS. Every session call / delivered datum must be accounted for
  by legitimate traffic (the generators give injected and legitimate traffic disjoint markers).
-/
import GoImap.Util
namespace GoImap.StartTLSSpec
open GoImap

/-! ## TLS record framing (RFC 8446 §5.1): type 20..23, legacy version 3.x, 16-bit length -/

def tlsFramedFuel : Nat → Bytes → Bool
  | _, [] => true
  | 0, _ => false
  | fuel + 1, ct :: maj :: mnr :: hi :: lo :: rest =>
    let len := hi.toNat * 256 + lo.toNat
    if 20 ≤ ct.toNat ∧ ct.toNat ≤ 23 ∧ maj.toNat = 3 ∧ mnr.toNat ≤ 4 ∧ len ≤ 16384 + 2048 ∧ len ≤ rest.length then
      tlsFramedFuel fuel (rest.drop len)
    else false
  | _ + 1, _ => false

/-- the byte string is a sequence of complete TLS records (possibly empty) -/
def tlsFramed (b : Bytes) : Bool := tlsFramedFuel (b.length + 1) b

/-- only the beginning is known (a capture cut short): it must at least start like a TLS record -/
def tlsFramedPrefix (b : Bytes) : Bool :=
  match b with
  | [] => true
  | ct :: rest =>
    decide (20 ≤ ct.toNat) && decide (ct.toNat ≤ 23) &&
    (match rest with
     | [] => true
     | maj :: _ => decide (maj.toNat = 3))

/-! ## naive reading of command / response lines (only to find out what legitimate traffic asks for) -/

def splitOn (sep : UInt8) : Bytes → List Bytes
  | [] => [[]]
  | b :: r =>
    match splitOn sep r with
    | [] => [[]]
    | w :: ws => if b = sep then [] :: w :: ws else (b :: w) :: ws

def trimCR (l : Bytes) : Bytes := l.filter (· ≠ 13)

def upperB (b : UInt8) : UInt8 := if 97 ≤ b ∧ b ≤ 122 then b - 32 else b

def asciiUpper (s : String) : Bytes := (strBytes s).map upperB

/-- the lines of a byte string as lists of space-separated words (CR dropped) -/
def linesWords (b : Bytes) : List (List Bytes) :=
  ((splitOn 10 b).map fun l => (splitOn 32 (trimCR l)).filter (!·.isEmpty)).filter (!·.isEmpty)

inductive Want where
  | login (user pass : Bytes)
  | delete (mbox : Bytes)
deriving DecidableEq, Repr

/-- session calls a command line legitimately asks for (RFC 3501 §6.2.2-3, §6.3.4) -/
def wantsOfLine (sasl : List (Bytes × Bytes × Bytes)) : List Bytes → List Want
  | [_, cmd, a, b] =>
    let c := cmd.map upperB
    if c = asciiUpper "LOGIN" then [.login a b]
    else if c = asciiUpper "AUTHENTICATE" then
      match sasl.find? (·.1 = b) with
      | some (_, u, p) => [.login u p]
      | none => []
    else []
  | [_, cmd, a] => if cmd.map upperB = asciiUpper "DELETE" then [.delete a] else []
  | _ => []

def wants (sasl : List (Bytes × Bytes × Bytes)) (traffic : Bytes) : List Want :=
  (linesWords traffic).flatMap (wantsOfLine sasl)

/-- is this line a credentials command? -/
def isCredLine : List Bytes → Bool
  | _ :: cmd :: _ => cmd.map upperB = asciiUpper "LOGIN" || cmd.map upperB = asciiUpper "AUTHENTICATE"
  | _ => false

def credTags (traffic : Bytes) : List Bytes :=
  (linesWords traffic).filterMap fun l => if isCredLine l then l.head? else none

/-- `l₁` is a subsequence of `l₂` -/
def isSubseq {α : Type} [DecidableEq α] : List α → List α → Bool
  | [], _ => true
  | _ :: _, [] => false
  | a :: as, b :: bs => if a = b then isSubseq as bs else isSubseq (a :: as) bs

/-! ## server side -/

inductive ObsCall where
  | want (w : Want) (tls : Bool)
  | poll (tls : Bool)
  | other
deriving DecidableEq, Repr

inductive ObsItem where
  | reply (tag : Bytes) (status : String) (caps : Option (List String))
  | caps (l : List String)
  | bye
  | other
deriving DecidableEq, Repr

structure SrvObs where
  insecure : Bool
  tlsCfg : Bool
  preauth : Bool
  pre : Bytes              -- plaintext commands before the STARTTLS line
  line : Bytes             -- the STARTTLS line
  suffix : Bytes           -- plaintext placed after it
  post : Bytes             -- commands sent inside TLS (only if the handshake completed)
  sasl : List (Bytes × Bytes × Bytes)
  greetCaps : List String
  trans : List ObsItem     -- plaintext responses, in order
  after : Bytes            -- raw bytes the server wrote after its tagged OK to the STARTTLS line
  ptrans : List ObsItem    -- responses inside TLS
  calls : List ObsCall

def firstWord (b : Bytes) : Bytes := b.takeWhile (fun x => x ≠ 32 && x ≠ 13 && x ≠ 10)

/-- the server said OK to the STARTTLS line: from then on TLS is active -/
def SrvObs.accepted (o : SrvObs) : Bool :=
  o.trans.any fun
    | .reply t s _ => t = firstWord o.line && s = "OK"
    | _ => false

def hasAuthCap (caps : List String) : Bool := caps.any (·.startsWith "AUTH=")

def callWants (cs : List ObsCall) : List Want :=
  cs.filterMap fun | .want w _ => some w | _ => none

/-- capability listings received inside TLS before any credentials were accepted -/
def capsBeforeLogin : List ObsItem → List (List String)
  | [] => []
  | .caps l :: r => l :: capsBeforeLogin r
  | .reply _ "OK" (some _) :: _ => []
  | _ :: r => capsBeforeLogin r

/-- The property on one server observation; `none` = holds, `some clause` = the failed clause. -/
def srvOracle (o : SrvObs) : Option String :=
  let legit := if o.accepted then o.pre ++ o.post else o.pre ++ o.line ++ o.suffix
  let plainCaps := o.greetCaps :: o.trans.filterMap fun | .caps l => some l | _ => none
  let authedInPlain := o.trans.any fun
    | .reply t s _ => s = "OK" && (credTags o.pre).contains t
    | _ => false
  -- 1. nothing injected after the STARTTLS line is executed
  if o.accepted && !isSubseq (callWants o.calls) (wants o.sasl legit) then
    some "injected-plaintext-executed"
  else if o.accepted && o.calls.contains .other then
    some "injected-plaintext-executed"
  -- 2. after its OK the server writes nothing but TLS records on the raw socket
  else if o.accepted && !tlsFramed o.after then
    some "plaintext-reply-after-switch"
  -- 3. credentials are not accepted on an unencrypted connection unless configured
  else if !o.insecure && o.calls.any (fun | .want (.login _ _) false => true | _ => false) then
    some "credentials-accepted-without-tls"
  else if !o.insecure && o.trans.any (fun
      | .reply t s _ => s = "OK" && (credTags (o.pre ++ (if o.accepted then [] else o.suffix))).contains t
      | _ => false) then
    some "credentials-accepted-without-tls"
  -- 4. ... nor offered
  else if !o.insecure && !o.preauth && plainCaps.any (fun l => hasAuthCap l || !l.contains "LOGINDISABLED") then
    some "credentials-offered-without-tls"
  else if !o.insecure && o.preauth && plainCaps.any hasAuthCap then
    some "credentials-offered-without-tls"
  -- 5. once TLS is active they are offered (to a client that is not authenticated yet)
  else if !o.preauth && !authedInPlain && (capsBeforeLogin o.ptrans).any (fun l => !hasAuthCap l || l.contains "LOGINDISABLED") then
    some "credentials-not-offered-inside-tls"
  else none

/-! ## client side -/

inductive CliResult where
  | client | error
deriving DecidableEq, Repr

structure CliObs where
  greet : String           -- ok | preauth | bye | none
  reply : String           -- OK | NO | BAD: the tagged completion of STARTTLS
  pre : Bytes              -- plaintext responses before that completion
  suffix : Bytes           -- plaintext placed after it
  tlsScript : Bytes        -- what the peer sends inside TLS
  result : CliResult       -- what NewStartTLS returned
  delivered : List Nat     -- message counts handed to the unilateral data handler
  caps : Option (List String)   -- Caps() after the upgrade (none: not asked / nil)
  noopOK : Bool            -- a command issued after the upgrade completed OK

def natOfBytes? (l : Bytes) : Option Nat :=
  if l.isEmpty then none else
  l.foldl (fun (acc : Option Nat) (b : UInt8) => match acc with
    | none => none
    | some n => if 48 ≤ b ∧ b ≤ 57 then some (n * 10 + (b.toNat - 48)) else none) (some 0)

/-- message counts announced by `* n EXISTS` lines of some traffic -/
def existsOf (traffic : Bytes) : List Nat :=
  (linesWords traffic).filterMap fun
    | [_, n, k] => if k = asciiUpper "EXISTS" then natOfBytes? n else none
    | _ => none

/-- capability names announced by `* CAPABILITY …` lines of some traffic -/
def capsOf (traffic : Bytes) : List String :=
  (linesWords traffic).flatMap fun
    | _ :: k :: rest => if k = asciiUpper "CAPABILITY" then rest.map bytesAscii else []
    | _ => []

def CliObs.accepted (o : CliObs) : Bool := o.reply = "OK" && o.greet != "bye"

def cliOracle (o : CliObs) : Option String :=
  let legit := o.pre ++ o.tlsScript
  -- a client that upgrades refuses a pre-authenticated (or refusing) greeting
  if o.greet = "preauth" && o.result = .client then some "preauth-greeting-accepted"
  else if o.greet = "bye" && o.result = .client then some "bye-greeting-accepted"
  -- nothing of the injected plaintext reaches the caller
  else if o.accepted && o.delivered.any (fun n => !(existsOf legit).contains n) then
    some "injected-plaintext-delivered"
  else if o.accepted && (match o.caps with
      | some l => l.any (fun c => !(capsOf legit).contains c)
      | none => false) then
    some "injected-capabilities-used"
  else none

end GoImap.StartTLSSpec
