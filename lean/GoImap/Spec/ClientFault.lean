/-
  C10 — the property's predicate, written from the English statement (not from the client code):

    "each issued command's wait/next/close call returns, the client's Close returns, its background
     reader exits, and a command whose completion was not fully received reports an error rather
     than success."

  Evaluated on what the implementation was observed to do. The transcript is seen only as a list
  of byte lengths, each optionally marked as the tagged completion of a command; "fully received"
  means: the last byte of that response line lies before the cut. Core Lean only.
-/
namespace GoImap.ClientFaultSpec

/-- one response of the server transcript: its length in bytes and, for a tagged completion, the
    command it completes -/
structure Resp where
  completes : Option Nat
  len : Nat
  deriving Repr, DecidableEq

/-- offset just past the tagged completion of command c (none: the transcript has none) -/
def completionEnd (c : Nat) : List Resp → Nat → Option Nat
  | [], _ => none
  | r :: rest, off =>
    if r.completes = some c then some (off + r.len) else completionEnd c rest (off + r.len)

/-- the completion of command c was fully received when the first k bytes were delivered -/
def fullyReceived (rs : List Resp) (k c : Nat) : Bool :=
  match completionEnd c rs 0 with
  | some e => e ≤ k
  | none => false

/-- a call as observed: which command it belongs to, whether its result reports that command's
    completion (Wait / Close / Collect / Authenticate / NewStartTLS), and its observed class -/
structure Call where
  cmd : Nat
  reports : Bool
  cls : String
  deriving Repr, DecidableEq

structure Observation where
  calls : List Call
  closeReturned : Bool
  readerExited : Bool
  /-- class of the command issued after a write fault ("-" when there was none) -/
  probe : String
  deriving Repr

def returned (cls : String) : Bool := cls = "ok" || cls = "err" || cls = "ret" || cls = "-"

def firstIdx (p : Call → Bool) : List Call → Nat → Option Nat
  | [], _ => none
  | c :: r, i => if p c then some i else firstIdx p r (i + 1)

/-- the property; `none` = holds, `some clause` = the first clause that fails -/
def violation (rs : List Resp) (k : Nat) (o : Observation) : Option String :=
  match firstIdx (fun c => !returned c.cls) o.calls 0 with
  | some i => some s!"call-did-not-return@phase{i}"
  | none =>
    if !(returned o.probe) then some "call-did-not-return@probe"
    else if !o.closeReturned then some "close-did-not-return"
    else if !o.readerExited then some "reader-still-running"
    else match firstIdx (fun c => c.reports && c.cls = "ok" && !fullyReceived rs k c.cmd) o.calls 0 with
      | some i => some s!"incomplete-reported-success@phase{i}"
      | none => if o.probe = "ok" then some "incomplete-reported-success@probe" else none

/-- the property as a proposition -/
def Holds (rs : List Resp) (k : Nat) (o : Observation) : Prop :=
  (∀ c ∈ o.calls, returned c.cls = true) ∧ returned o.probe = true ∧ o.closeReturned = true ∧
  o.readerExited = true ∧
  (∀ c ∈ o.calls, c.reports = true → fullyReceived rs k c.cmd = false → c.cls ≠ "ok") ∧ o.probe ≠ "ok"

end GoImap.ClientFaultSpec
