/-
  Specification side of C16: modified UTF-7 (RFC 3501 §5.1.3, RFC 2152) written from the RFC
  text as a bit-stream decoder, independent of the Go code's byte-group arithmetic.
-/
import GoImap.Model.Utf7
namespace GoImap.Utf7Spec
open GoImap.Utf7

/-- modified base64 alphabet: A–Z a–z 0–9 + , -/
def sextet? (c : Nat) : Option Nat :=
  if 65 ≤ c ∧ c ≤ 90 then some (c - 65)
  else if 97 ≤ c ∧ c ≤ 122 then some (c - 97 + 26)
  else if 48 ≤ c ∧ c ≤ 57 then some (c - 48 + 52)
  else if c = 43 then some 62
  else if c = 44 then some 63
  else none

/-- `n` bits of `v`, most significant first -/
def bitsOf : Nat → Nat → List Bool
  | 0, _ => []
  | n+1, v => (v / 2 ^ n % 2 = 1) :: bitsOf n v

def valOfBits (bs : List Bool) : Nat := bs.foldl (fun a b => 2 * a + (if b then 1 else 0)) 0

/-- cut a bit stream into 16-bit units; returns the units and the left-over bits -/
def unitsOf : Nat → List Bool → List Nat × List Bool
  | 0, bs => ([], bs)
  | fuel+1, bs =>
    if bs.length < 16 then ([], bs)
    else
      let (us, rest) := unitsOf fuel (bs.drop 16)
      (valOfBits (bs.take 16) :: us, rest)

/-- UTF-16 units to scalar values; lone or misordered surrogates are errors -/
def scalarsOf : List Nat → Option (List Nat)
  | [] => some []
  | u :: rest =>
    if 55296 ≤ u ∧ u ≤ 56319 then
      match rest with
      | l :: rest' =>
        if 56320 ≤ l ∧ l ≤ 57343 then (scalarsOf rest').map ((65536 + (u - 55296) * 1024 + (l - 56320)) :: ·)
        else none
      | [] => none
    else if 56320 ≤ u ∧ u ≤ 57343 then none
    else (scalarsOf rest).map (u :: ·)

/-- a shifted sequence between '&' and '-' (non-empty): every character is in the alphabet, no
    superfluous character, it encodes at least one unit, and never a printable US-ASCII character -/
def specSeg (seg : BytesN) : Option (List Nat) := do
  let sx ← seg.mapM sextet?
  let bits := sx.flatMap (bitsOf 6)
  let (units, rest) := unitsOf bits.length bits
  if rest.length ≥ 6 then none
  else if units.isEmpty then none
  else
    let cs ← scalarsOf units
    if cs.any printable then none else some cs

/-- left-over bits of a shifted sequence are zero (canonical encoder output) -/
def segPadZero (seg : BytesN) : Bool :=
  match seg.mapM sextet? with
  | none => false
  | some sx =>
    let bits := sx.flatMap (bitsOf 6)
    (unitsOf bits.length bits).2.all (· = false)

def splitDash : BytesN → Option (BytesN × BytesN)
  | [] => none
  | c :: cs =>
    if c = 45 then some ([], cs)
    else match splitDash cs with
      | none => none
      | some (a, b) => some (c :: a, b)

/-- whole-string decoder. `prevShift` = the previous token was a base64 shift sequence. -/
def specDecodeAux : Nat → Bool → BytesN → Option (List Nat)
  | 0, _, _ => none
  | _+1, _, [] => some []
  | fuel+1, prevShift, c :: cs =>
    if c = 38 then
      match splitDash cs with
      | none => none                                   -- unterminated shift
      | some (seg, rest) =>
        if seg.isEmpty then (specDecodeAux fuel false rest).map (38 :: ·)
        else if prevShift then none                    -- back-to-back shifts
        else match specSeg seg with
          | none => none
          | some out => (specDecodeAux fuel true rest).map (out ++ ·)
    else if 32 ≤ c ∧ c ≤ 126 then (specDecodeAux fuel false cs).map (c :: ·)
    else none                                          -- outside printable US-ASCII

def specDecode (b : BytesN) : Option (List Nat) := specDecodeAux (b.length + 1) false b

/-- all shifted sequences of a well-formed string have zero pad bits -/
def padsZeroAux : Nat → BytesN → Bool
  | 0, _ => false
  | _+1, [] => true
  | fuel+1, c :: cs =>
    if c = 38 then
      match splitDash cs with
      | none => false
      | some (seg, rest) => (seg.isEmpty || segPadZero seg) && padsZeroAux fuel rest
    else padsZeroAux fuel cs

def padsZero (b : BytesN) : Bool := padsZeroAux (b.length + 1) b

def isScalar (c : Nat) : Bool := c < 55296 || (57343 < c && c < 1114112)

end GoImap.Utf7Spec
