/-
  Specification side of C20: IMAP LIST wildcard semantics (RFC 3501 §6.3.8), independent of the
  recursive matcher: a declarative relation and a position-set (NFA) decision procedure.
-/
import GoImap.Model.ListMatch
namespace GoImap.ListMatchSpec
open GoImap.ListMatch

/-- `Matches delim pattern name`: '*' stands for any byte sequence, '%' for any sequence not
    containing the delimiter, every other byte for itself -/
inductive Matches (delim : Option B) : List B → List B → Prop
  | nil : Matches delim [] []
  | lit (c ps ns) : isWild c = false → Matches delim ps ns → Matches delim (c :: ps) (c :: ns)
  | star (ps pre ns name) : name = pre ++ ns → Matches delim ps ns → Matches delim (42 :: ps) name
  | pct (ps pre ns name) : name = pre ++ ns → (∀ d, delim = some d → d ∉ pre) → Matches delim ps ns →
      Matches delim (37 :: ps) name

/-! Decision procedure by simulation: a state is a suffix of the pattern still to be matched. -/

/-- epsilon closure: a wildcard may match the empty sequence -/
def closure : List B → List (List B)
  | [] => [[]]
  | c :: ps => if isWild c then (c :: ps) :: closure ps else [c :: ps]

/-- consume one name byte from one state (before closure) -/
def stepOne (delim : Option B) (b : B) : List B → List (List B)
  | [] => []
  | c :: ps =>
    if c = 42 then [c :: ps]
    else if c = 37 then (if delim = some b then [] else [c :: ps])
    else if c = b then [ps] else []

def stepAll (delim : Option B) (b : B) (sts : List (List B)) : List (List B) :=
  (sts.flatMap fun st => (stepOne delim b st).flatMap closure).eraseDups

def run (delim : Option B) : List B → List (List B) → List (List B)
  | [], sts => sts
  | b :: bs, sts => run delim bs (stepAll delim b sts)

def matchNFA (delim : Option B) (pat name : List B) : Bool :=
  (run delim name (closure pat)).any List.isEmpty

/-- documented resolution of (reference, pattern) for a single-byte or absent delimiter -/
def resolveMatch (name : List B) (delim : Option B) (reference pattern : List B) : Bool :=
  match delim, pattern with
  | some d, p :: ps =>
    if p = d then matchNFA delim ps name            -- absolute pattern: reference ignored
    else resolveRel name delim reference (p :: ps)
  | _, _ => resolveRel name delim reference pattern
where
  resolveRel (name : List B) (delim : Option B) (reference pattern : List B) : Bool :=
    if reference.isEmpty then matchNFA delim pattern name
    else
      let r := match delim with
        | some d => if reference.getLast? = some d then reference else reference ++ [d]
        | none => reference
      match stripPrefix? r name with
      | none => false
      | some rest => matchNFA delim pattern rest

/-! ### delimiters of any length (the delimiter is a rune; on the wire it is 1-4 bytes) -/

/-- no occurrence of the delimiter string starts inside `pre` when `pre` is followed by `ns` -/
def noStart (delim : List B) : List B → List B → Bool
  | [], _ => true
  | p :: pre, ns => !(hasPrefix delim (p :: pre ++ ns)) && noStart delim pre ns

/-- byte-level wildcard semantics for a delimiter string: '%' stands for a sequence inside which
    no delimiter starts.  For a one-byte delimiter this is "a sequence not containing it"
    (`matchesS_single`); for a multi-byte delimiter and valid UTF-8 it is the rune-level "a
    sequence of characters other than the delimiter", UTF-8 being self-synchronising — that last
    step is not proved: `runeOracle` below evaluates the rune-level semantics on every run. -/
inductive MatchesS (delim : List B) : List B → List B → Prop
  | nil : MatchesS delim [] []
  | lit (c ps ns) : isWild c = false → MatchesS delim ps ns → MatchesS delim (c :: ps) (c :: ns)
  | star (ps pre ns name) : name = pre ++ ns → MatchesS delim ps ns → MatchesS delim (42 :: ps) name
  | pct (ps pre ns name) : name = pre ++ ns → (delim ≠ [] → noStart delim pre ns = true) →
      MatchesS delim ps ns → MatchesS delim (37 :: ps) name

/-- rune-level oracle: the documented resolution applied to the CHARACTERS of valid UTF-8 arguments
    (`resolveMatch` works over any alphabet of naturals: here code points, the delimiter rune being
    one symbol); `none` when an argument is not valid UTF-8 -/
def runeOracle (dec : List B → Option (List Nat)) (name : List B) (delimRune : Nat) (reference pattern : List B) : Option Bool :=
  match dec name, dec reference, dec pattern with
  | some n, some r, some p => some (resolveMatch n (if delimRune = 0 then none else some delimRune) r p)
  | _, _, _ => none

end GoImap.ListMatchSpec
