/-
  C09 — the in-memory backend obeys IMAP mailbox semantics (reference model M10).
  Property theorems only; helper lemmas are in Lemmas/Mailbox*.lean.

  "Equals the reference model" is the correspondence (Drive/C09.lean, harness c09.go) — what is
  proved here are the semantic laws of the property on the model, for all histories.

  Proved here:
    * `section_total` — no body section, no partial range `<offset.size>` (any naturals, in
      particular up to 2^63-1 with the int64 wrap of `offset+size`) makes `bodySection` panic;
      `section_partial_spec` — what a partial returns (the bytes offset..offset+size, clipped);
      `legacy_section_counterexample` — as shipped, `BODY[]<1.9223372036854775807>` panicked.

  Validated by the oracle and the correspondence only: see the status list at the end of this file.
-/
import GoImap.Lemmas.MailboxSection
namespace GoImap.C09
open GoImap GoImap.Mailbox GoImap.MailboxLemmas

/-- no message, section and partial range makes the (repaired) body-section function panic -/
theorem section_total (m : Message) (s : Section) : bodySection {} m s ≠ .panic := by
  unfold bodySection
  split
  · intro h; cases h
  · split
    · intro h; cases h
    · exact applyPartial_ne_panic _ _ _

/-- a partial range returns the bytes from `off` up to `off+sz`, clipped to the section; nothing
    when the offset lies beyond it (all quantities below 2^63 as in Go's int64) -/
theorem section_partial_spec (b : Str) (off sz : Nat) (hb : b.length < I63) (hs : sz < I63) :
    applyPartial b off sz = .ok (if off > b.length then [] else (b.drop off).take sz) :=
  applyPartial_eq b off sz hb hs

example : applyPartial [1, 2, 3, 4, 5] 1 9223372036854775807 = .ok [2, 3, 4, 5] := by decide

/-- the arithmetic as shipped: `FETCH 1 BODY[]<1.9223372036854775807>` on any non-empty section
    evaluates `b[1:-9223372036854775808]` — a slice-bounds panic that closes the connection -/
theorem legacy_section_counterexample :
    bodySection { legacyPartial := true }
      { uid := 1, flags := [], date := 0, zone := 0, hdrs := [], body := [104, 105], sentDay := 0, sentErr := false }
      { range := some (1, 9223372036854775807) } = .panic := by
  decide

end GoImap.C09
