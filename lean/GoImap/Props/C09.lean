/-
  C09 — the in-memory backend obeys IMAP mailbox semantics (reference model M10).
  Property theorems only; helper lemmas are in Lemmas/Mailbox{Section,Inv,Ops,Cmds}.lean.

  "Equals the reference model" is the correspondence (Drive/C09.lean, harness c09.go) — what is
  proved here are the semantic laws of the property on the model `GoImap.Mailbox`, for ALL command
  histories (`run`, any number of connections, any interleaving, both behaviour variants where
  the law does not depend on a repair).

  Proved here:
    * `uid_strict` — in every reachable state, in every mailbox object (named, renamed or deleted
      but still selected), UIDs strictly increase along the message list and lie below uidNext;
      `uid_never_reused` — along any further history uidNext never decreases, identity and
      UIDVALIDITY are kept, and a message whose UID is below an earlier uidNext is one of the
      messages that carried that UID then.
    * `uidvalidity_fresh` — all mailbox objects ever created have pairwise different UIDVALIDITY;
      `create_uidvalidity_gt` — CREATE gives the new mailbox a UIDVALIDITY above every mailbox that
      ever existed (so delete + recreate of a name changes it); `delete_recreate_example`.
    * `appenduid_names`, `copyuid_names` — the reported UIDs are exactly the UIDs of the new
      messages, in order, appended after the old content; nothing else changes.
    * `store_exact`, `store_flags_sem` — STORE changes the flags of exactly the addressed messages
      (every other message, mailbox and field is untouched), by set/add/remove on lower-cased names.
    * `expunge_exact`, `move_exact` — what is left is exactly the non-eligible / non-addressed
      messages in order; MOVE's destination receives the copies.
    * `search_sem` — SEARCH returns exactly the messages satisfying `matchesC` (M5) on the
      criteria built from the keys; `list_sem` — LIST selects exactly the names `C20.Resolved`.
    * `section_total`, `section_partial_spec`, `legacy_section_counterexample` — partial ranges.
    * `legacy_move_counterexample`, `legacy_fetch_zero_counterexample`,
      `legacy_static_set_counterexample`, `legacy_status_counterexample`,
      `legacy_copy_empty_counterexample` — the behaviour before each repair, on a concrete history.

  Validated by the correspondence and the oracle only (not theorems): the rendering of responses,
  STATUS counters, poll/EXISTS bookkeeping per connection (that is C07/C08's `Inv`), and everything
  go-message derives (multipart, ENVELOPE, BODYSTRUCTURE), which is outside the model.
-/
import GoImap.Lemmas.MailboxCmds
import GoImap.Lemmas.MailboxSection
import GoImap.Props.C20
namespace GoImap.C09
open GoImap GoImap.Mailbox GoImap.MailboxLemmas

/-! ### UIDs -/

/-- in every state reachable by any history (any behaviour variant), UIDs strictly increase along
    every mailbox and uidNext is above all of them -/
theorem uid_strict (cfg : Cfg) (n : Nat) (ops : List (Nat × Cmd)) :
    ∀ o ∈ (run cfg (init n) ops).1.objs,
      (o.msgs.map (·.uid)).Pairwise (· < ·) ∧ ∀ m ∈ o.msgs, m.uid < o.uidNext :=
  (trans_sound (T_run cfg ops (init n)) (coreInv_init n)).1.ok

/-- UIDs are never reused: whatever happens later to a mailbox object, its uidNext does not
    decrease and any message found below the earlier uidNext already carried that UID -/
theorem uid_never_reused (cfg : Cfg) (n : Nat) (ops₁ ops₂ : List (Nat × Cmd)) :
    let st := (run cfg (init n) ops₁).1
    ∀ o ∈ st.objs, ∃ o' ∈ (run cfg st ops₂).1.objs,
      o'.id = o.id ∧ o'.uidValidity = o.uidValidity ∧ o.uidNext ≤ o'.uidNext ∧
      ∀ m' ∈ o'.msgs, m'.uid < o.uidNext → ∃ m ∈ o.msgs, m.uid = m'.uid := by
  intro st o ho
  have hi := (trans_sound (T_run cfg ops₁ (init n)) (coreInv_init n)).1
  obtain ⟨o', ho', ev⟩ := (trans_sound (T_run cfg ops₂ st) hi).2.2.2 o ho
  exact ⟨o', ho', ev.id, ev.uidv, ev.next, ev.old⟩

example : (run {} (init 1) [(1, .append inboxName [] none [] [120] 0 false), (1, .select inboxName false),
    (1, .store false [⟨1, 1⟩] .add true [deletedFlag]), (1, .expunge), (1, .append inboxName [] none [] [121] 0 false)]).1.objs.map
      (fun o => (o.msgs.map (·.uid), o.uidNext)) = [([2], 3)] := by decide

/-! ### UIDVALIDITY -/

/-- all mailbox objects that ever existed (including deleted ones) have different UIDVALIDITY -/
theorem uidvalidity_fresh (cfg : Cfg) (n : Nat) (ops : List (Nat × Cmd)) :
    ((run cfg (init n) ops).1.objs.map (·.uidValidity)).Nodup :=
  (trans_sound (T_run cfg ops (init n)) (coreInv_init n)).1.uvnd

/-- CREATE of a free name makes a new object whose UIDVALIDITY exceeds that of every mailbox that
    ever existed — in particular of a deleted predecessor of the same name -/
theorem create_uidvalidity_gt (cfg : Cfg) (n : Nat) (ops : List (Nat × Cmd)) (name : Str) :
    let st := (run cfg (init n) ops).1
    st.lookup (dropTrailingSlash name) = none →
    ∃ new, (doCreate st name).1.objs = st.objs ++ [new] ∧ (doCreate st name).1.lookup (dropTrailingSlash name) = some new.id ∧
      ∀ o ∈ st.objs, o.uidValidity < new.uidValidity := by
  intro st hfree
  have hi := (trans_sound (T_run cfg ops (init n)) (coreInv_init n)).1
  refine ⟨⟨st.nextId, dropTrailingSlash name, st.prevUidValidity + 1, 1, false, []⟩, ?_, ?_, ?_⟩
  · unfold doCreate; simp only; rw [hfree]
  · unfold doCreate; simp only; rw [hfree]
    unfold St.lookup at hfree ⊢
    simp only
    rw [List.lookup_append, hfree]
    simp [List.lookup]
  · intro o ho
    exact Nat.lt_succ_of_le (hi.uvle o ho)

/-- delete + recreate on a concrete history: INBOX's successor has another UIDVALIDITY -/
theorem delete_recreate_example :
    (run {} (init 1) [(1, .delete inboxName), (1, .create inboxName)]).1.objs.map (fun o => (o.name, o.uidValidity))
      = [(inboxName, 1), (inboxName, 2)] := by decide

/-! ### APPENDUID / COPYUID -/

/-- APPEND to an existing mailbox answers OK [APPENDUID uidvalidity u] where `u` is the UID of the
    one new message, which is appended after the unchanged old content; no other mailbox changes -/
theorem appenduid_names (st : St) (cid : Nat) (n : Str) (m : Message) (id : Nat) (o : Mbox)
    (hl : st.lookup n = some id) (ho : st.getObj id = some o) :
    let r := doAppend st cid n m
    r.2.status = .ok ∧ r.2.code = .appenduid o.uidValidity o.uidNext ∧
    (∃ o', r.1.getObj id = some o' ∧ o'.msgs = o.msgs ++ [{ m with uid := o.uidNext }] ∧ o'.uidNext = o.uidNext + 1) ∧
    ∀ id', id' ≠ id → r.1.getObj id' = st.getObj id' := by
  obtain ⟨h1, h2, h3, h4⟩ := doAppend_spec st cid n m id o hl ho
  exact ⟨h1, h2, ⟨_, h3, rfl, rfl⟩, h4⟩

/-- COPY answers OK [COPYUID uidvalidity src dst] where `src` are the UIDs of the addressed
    messages and `dst` the UIDs of their copies, in order; the destination is the old content
    followed by the copies under exactly those UIDs; nothing else changes (no COPYUID when the set
    addresses nothing) -/
theorem copyuid_names (st : St) (cid : Nat) (uid : Bool) (set : NumSet.Set) (dest : Str) (c : Conn) (o d : Mbox)
    (h : selected st cid = some (c, o)) (hd : (st.lookup dest).bind st.getObj = some d) (hne : d.id ≠ o.id) :
    let r := doCopy {} st cid uid set dest
    let src := addressed c o uid set
    let dst := List.range' d.uidNext src.length
    r.2.status = .ok ∧
    r.2.code = (if src.isEmpty then Code.none else .copyuid d.uidValidity (src.map (·.2.uid)) dst) ∧
    (∃ d', r.1.getObj d.id = some d' ∧
      d'.msgs = d.msgs ++ ((src.map (·.2)).zip dst).map (fun p => { p.1 with uid := p.2 }) ∧ d'.uidNext = d.uidNext + src.length) ∧
    ∀ id', id' ≠ d.id → r.1.getObj id' = st.getObj id' := by
  obtain ⟨h1, h2, h3, h4⟩ := doCopy_spec st cid uid set dest c o d h hd hne
  obtain ⟨p1, p2, _, _⟩ := pushAll_msgs ((addressed c o uid set).map (·.2)) d
  rw [List.length_map] at p1 p2
  refine ⟨h1, ?_, ⟨_, h3, p1, p2⟩, h4⟩
  rw [h2]
  unfold copyCode
  simp only [List.isEmpty_map]
  rfl

/-! ### STORE -/

/-- STORE changes exactly the addressed messages' flags: afterwards the selected mailbox is the old
    one with `storeFlags op · flags` applied to the flags of the addressed messages and nothing
    else (`mapAddressed`, spelled out by `mapAddressed_msgs`: UIDs, dates, content, order, uidNext and
    every other message are untouched), and no other mailbox changes -/
theorem store_exact (cfg : Cfg) (st : St) (cid : Nat) (uid : Bool) (set : NumSet.Set) (op : StoreOp) (silent : Bool)
    (flags : List Str) (c : Conn) (o : Mbox) (h : selected st cid = some (c, o)) :
    let r := doStore cfg st cid uid set op silent flags
    let uids := (addressed c o uid set).map (·.2.uid)
    r.1.getObj o.id = some (mapAddressed uids (fun old => storeFlags op old flags) o) ∧
    ∀ id', id' ≠ o.id → r.1.getObj id' = st.getObj id' := by
  obtain ⟨ho, _, _⟩ := selected_getObj h
  obtain ⟨s1, s2⟩ := storeApply_getObj st cid o (addressed c o uid set) op flags ho
  have hc := doStore_core cfg st cid uid set op silent flags c o h
  exact ⟨by rw [getObj_congr hc]; exact s1, fun id' hne => by rw [getObj_congr hc]; exact s2 id' hne⟩

/-- what `mapAddressed` is: the same mailbox, the same messages in the same order, only the flags of
    the messages whose UID is listed are rewritten -/
theorem mapAddressed_msgs (uids : List Nat) (f : List Str → List Str) (o : Mbox) :
    mapAddressed uids f o = { o with msgs := o.msgs.map fun m => if uids.contains m.uid then { m with flags := f m.flags } else m } :=
  rfl

/-- FLAGS replaces, +FLAGS adds, -FLAGS removes, on lower-cased (case-insensitive) flag names -/
theorem store_flags_sem (op : StoreOp) (old fs : List Str) (x : Str) :
    x ∈ storeFlags op old fs ↔
      match op with
      | .set => x ∈ fs.map lower
      | .add => x ∈ old ∨ x ∈ fs.map lower
      | .del => x ∈ old ∧ x ∉ fs.map lower :=
  mem_storeFlags op old fs x

example : storeFlags .del [deletedFlag, seenFlag] [[92, 68, 69, 76, 69, 84, 69, 68]] = [seenFlag] := by decide

/-! ### EXPUNGE / MOVE -/

/-- EXPUNGE / UID EXPUNGE leave exactly the messages that are not (\Deleted and, for UID EXPUNGE,
    in the set), in order; uidNext and UIDVALIDITY are kept; no other mailbox changes -/
theorem expunge_exact (st : St) (cid : Nat) (uids : Option NumSet.Set) (c : Conn) (o : Mbox)
    (h : selected st cid = some (c, o)) :
    let r := doExpunge st cid uids
    (∃ o', r.1.getObj o.id = some o' ∧ o'.msgs = o.msgs.filter (fun m => !eligible o uids m) ∧
      o'.uidNext = o.uidNext ∧ o'.uidValidity = o.uidValidity) ∧
    ∀ id', id' ≠ o.id → r.1.getObj id' = st.getObj id' :=
  doExpunge_spec st cid uids c o h

/-- MOVE removes exactly the addressed messages from the source and appends their copies to the
    destination; no other mailbox changes -/
theorem move_exact (st : St) (cid : Nat) (uid : Bool) (set : NumSet.Set) (dest : Str) (c : Conn) (o d : Mbox)
    (h : selected st cid = some (c, o)) (hd : (st.lookup dest).bind st.getObj = some d) (hne : d.id ≠ o.id) :
    let r := doMove {} st cid uid set dest
    r.2.status = .ok ∧
    r.1.getObj d.id = some (pushAll d ((addressed c o uid set).map (·.2))) ∧
    (∃ o', r.1.getObj o.id = some o' ∧
      o'.msgs = ((zipSeq o.msgs).filter fun q => !isAddressed c o uid set q).map (·.2) ∧ o'.uidNext = o.uidNext) ∧
    ∀ id', id' ≠ d.id → id' ≠ o.id → r.1.getObj id' = st.getObj id' :=
  doMove_spec st cid uid set dest c o d h hd hne

/-- what "appends their copies" means: the old content followed by the copies, numbered from the old
    uidNext on; identity and UIDVALIDITY kept -/
theorem copies_spec (ms : List Message) (o : Mbox) :
    (pushAll o ms).msgs = o.msgs ++ (ms.zip (List.range' o.uidNext ms.length)).map (fun p => { p.1 with uid := p.2 }) ∧
    (pushAll o ms).uidNext = o.uidNext + ms.length ∧ (pushAll o ms).uidValidity = o.uidValidity ∧ (pushAll o ms).id = o.id :=
  pushAll_msgs ms o

/-! ### SEARCH / LIST -/

/-- SEARCH answers with exactly the messages of the mailbox that satisfy `matchesC` (M5) for the
    criteria built from the keys (`*` made static), by client sequence number or by UID -/
theorem search_sem (st : St) (cid : Nat) (uid : Bool) (keys : Search.KeyList) (c : Conn) (o : Mbox)
    (h : selected st cid = some (c, o)) :
    (∃ polled, (doSearch st cid uid none keys).2.items =
      Item.search (if uid then (searchHits c o (Search.foldKeys keys)).map (·.2.uid)
                   else ((searchHits c o (Search.foldKeys keys)).map (·.1)).filter (· != 0)) :: polled) ∧
    ∀ e m, (e, m) ∈ searchHits c o (Search.foldKeys keys) ↔
      (∃ i, (i, m) ∈ zipSeq o.msgs ∧ e = encodeSeq c o i) ∧
      Search.matchesC (toSearchMsg m e) (staticCrit o.msgs.length (o.uidNext - 1) (Search.foldKeys keys)) = true :=
  ⟨doSearch_spec st cid uid keys c o h, mem_searchHits c o _⟩

/-- LIST selects exactly the mailbox names that some pattern resolves to under the reference
    (C20's `Resolved`: reference completed by the delimiter, then the wildcard semantics) -/
theorem list_sem (st : St) (ref : Str) (pats : List Str) (p : Str × Nat) :
    p ∈ listMatches st ref pats ↔ p ∈ st.names ∧ ∃ pat ∈ pats, C20.Resolved (some slash) ref pat p.1 := by
  rw [mem_listMatches]
  constructor
  · rintro ⟨h1, pat, hp, hm⟩
    exact ⟨h1, pat, hp, (C20.MatchList_resolved p.1 (some slash) ref pat).mp hm⟩
  · rintro ⟨h1, pat, hp, hm⟩
    exact ⟨h1, pat, hp, (C20.MatchList_resolved p.1 (some slash) ref pat).mpr hm⟩

/-! ### body sections -/

/-- no message, section and partial range makes the (repaired) body-section function panic -/
theorem section_total (m : Message) (s : Section) : bodySection {} m s ≠ .panic := by
  unfold bodySection
  split
  · intro h; cases h
  · split
    · intro h; cases h
    · exact applyPartial_ne_panic _ _ _

/-- a partial range returns the bytes from `off` up to `off+sz`, clipped to the section; nothing
    when the offset lies beyond it (all quantities below 2^63 as in Go's int64) -/
theorem section_partial_spec (b : Str) (off sz : Nat) (hb : b.length < I63) (hs : sz < I63) :
    applyPartial b off sz = .ok (if off > b.length then [] else (b.drop off).take sz) :=
  applyPartial_eq b off sz hb hs

example : applyPartial [1, 2, 3, 4, 5] 1 9223372036854775807 = .ok [2, 3, 4, 5] := by decide

/-- the arithmetic as shipped: `FETCH 1 BODY[]<1.9223372036854775807>` on any non-empty section
    evaluates `b[1:-9223372036854775808]` — a slice-bounds panic that closes the connection -/
theorem legacy_section_counterexample :
    bodySection { legacyPartial := true }
      { uid := 1, flags := [], date := 0, zone := 0, hdrs := [], body := [104, 105], sentDay := 0, sentErr := false }
      { range := some (1, 9223372036854775807) } = .panic := by
  decide

/-! ### the other repaired behaviours, on concrete histories -/

def sent : Str := [83, 101, 110, 116]
def app (b : Nat) : Nat × Cmd := (1, .append inboxName [] none [] [b] 0 false)

/-- MOVE 2 of 3 as shipped: `* 3 EXPUNGE` (re-encoded, wrong number) and then `* 2 EXPUNGE` for ONE
    moved message; the repaired model reports it once with the right number -/
theorem legacy_move_counterexample :
    (((run { legacyMove := true } (init 1) [app 97, app 98, app 99, (1, .create sent), (1, .select inboxName false),
        (1, .move false [⟨2, 2⟩] sent)]).2.getLast?.map fun r => r.items.filter fun i => match i with | .expunge _ => true | _ => false)
      == some [.expunge 3, .expunge 2]) = true ∧
    (((run {} (init 1) [app 97, app 98, app 99, (1, .create sent), (1, .select inboxName false),
        (1, .move false [⟨2, 2⟩] sent)]).2.getLast?.map fun r => r.items.filter fun i => match i with | .expunge _ => true | _ => false)
      == some [.expunge 2]) = true := by
  decide

/-- UID FETCH of a message appended by another connection and not yet announced, as shipped: `* 0 FETCH` -/
theorem legacy_fetch_zero_counterexample :
    ((run { legacyFetchZero := true } (init 2) [app 97, (1, .select inboxName false), (2, .append inboxName [] none [] [98] 0 false),
        (1, .fetch true [⟨1, 0⟩] {})]).2.getLast?.map fun r => r.items.map fun i => match i with | .fetch k _ => k | _ => 99)
      = some [1, 0, 99] ∧
    ((run {} (init 2) [app 97, (1, .select inboxName false), (2, .append inboxName [] none [] [98] 0 false),
        (1, .fetch true [⟨1, 0⟩] {})]).2.getLast?.map fun r => r.items.map fun i => match i with | .fetch k _ => k | _ => 99)
      = some [1, 99] := by
  decide

/-- `5:7,*` on three messages: replacing `*` in place leaves [5-7, 3-3], on which Contains's binary
    search does not find 3; inserting the static ranges into a fresh set does -/
theorem legacy_static_set_counterexample :
    NumSet.contains (Legacy.staticSet 3 [⟨5, 7⟩, ⟨0, 0⟩]) 3 = false ∧ NumSet.contains (staticSet 3 [⟨5, 7⟩, ⟨0, 0⟩]) 3 = true := by
  decide

/-- STATUS (DELETED-STORAGE) as shipped dereferenced a nil pointer (connection crash) -/
theorem legacy_status_counterexample :
    (step { legacyStatusNil := true } (init 1) 1 (.status inboxName ⟨[.messages, .deletedStorage]⟩)).2.status = .panic ∧
    ((step {} (init 1) 1 (.status inboxName ⟨[.messages, .deletedStorage]⟩)).2 == ok [.status inboxName [(.messages, some 0)]]) = true := by
  decide

/-- COPY of a set matching nothing as shipped: the COPYUID code could not be encoded (truncated reply) -/
theorem legacy_copy_empty_counterexample :
    (((run { legacyCopyEmpty := true } (init 1) [(1, .create sent), (1, .select inboxName false), (1, .copy false [⟨5, 5⟩] sent)]).2.getLast?.map
        (·.code)) == some .garbled) = true ∧
    (((run {} (init 1) [(1, .create sent), (1, .select inboxName false), (1, .copy false [⟨5, 5⟩] sent)]).2.getLast?.map
        (·.code)) == some .none) = true := by
  decide

end GoImap.C09
