/-
  C15 — number sets behave as mathematical sets.  Property theorems only; helper lemmas live
  under GoImap/Lemmas (NumSet*.lean).

  Status: all seven target groups are proved at full strength against the unmodified model
  `GoImap/Model/NumSet.lean`; nothing is missing or partial, and no model definition made a
  target false.
    1. merge_union, merge_fail
    2. search_first (with canon_iff_canonical: the Prop `Canon` used by the lemmas is `canonical`)
    3. insert_canonical, addNum_canonical, addRange_canonical, addSet_canonical, canonical_run
    4. insert_mem, mem_union, dynamic_iff
    5. nums_spec, nums_dynamic
    6. digits_round_trip, parse_print
    7. parse_sound
  Each theorem with hypotheses is followed by an `example` exhibiting a concrete value that
  meets them.
-/
import GoImap.Model.NumSet
import GoImap.Spec.NumSet
import GoImap.Lemmas.NumSetMerge
import GoImap.Lemmas.NumSetCanon
import GoImap.Lemmas.NumSetSearch
import GoImap.Lemmas.NumSetContains
import GoImap.Lemmas.NumSetNums
import GoImap.Lemmas.NumSetInsert
import GoImap.Lemmas.NumSetOps
import GoImap.Lemmas.NumSetPrint
import GoImap.Lemmas.NumSetParse
namespace GoImap.C15
open GoImap.NumSet GoImap.NumSetSpec

/-- a range as the API can produce it: `*`, `n:*`, or `n:m` with `n ≤ m`, all below 2^32 -/
def Range.Valid (r : Range) : Prop :=
  r.start < W ∧ r.stop < W ∧ (r.start = 0 → r.stop = 0) ∧ (r.stop ≠ 0 → r.start ≤ r.stop)

/-- a range that precedes `q` does not contain it (the two predicates `search` relies on are
    mutually exclusive) -/
theorem less_excludes_contains (r : Range) (q : Nat) (h : r.less q = true) (hq : q ≠ 0) :
    r.contains q = false := by
  unfold Range.less at h
  unfold Range.contains
  simp_all

/-- "*" is contained exactly in the dynamic elements -/
theorem contains_star_iff (r : Range) : r.contains 0 = true ↔ r.stop = 0 := by
  simp [Range.contains]

example : Range.Valid ⟨3, 0⟩ ∧ Range.Valid ⟨0, 0⟩ ∧ Range.Valid ⟨4294967295, 4294967295⟩ := by
  simp [Range.Valid, W]

/-! ### 1. `Range.merge` is the union when it succeeds, and the identity when it fails -/

/-- a successful merge denotes the union of its arguments (including "*" as `q = 0`) and is
    again a valid range -/
theorem merge_union (s t : Range) (hs : Range.Valid s) (ht : Range.Valid t)
    (h : (s.merge t).2 = true) :
    (∀ q, q < W → (s.merge t).1.contains q = (s.contains q || t.contains q)) ∧
      Range.Valid (s.merge t).1 :=
  ⟨fun q hq => Range.merge_contains s t hs ht h q hq, Range.merge_wf s t hs ht h⟩

/-- a failed merge returns its receiver unchanged (`insert` relies on this when it assigns
    `s[i-1], merged = s[i-1].Merge(v)` unconditionally) -/
theorem merge_fail (s t : Range) (h : (s.merge t).2 = false) : (s.merge t).1 = s :=
  Range.merge_fail s t h

example : Range.Valid ⟨1, 4294967295⟩ ∧ Range.Valid ⟨7, 0⟩ ∧
    ((⟨1, 4294967295⟩ : Range).merge ⟨7, 0⟩) = (⟨1, 0⟩, true) := by
  refine ⟨by simp [Range.Valid, W], by simp [Range.Valid, W], by decide⟩

example : ((⟨1, 3⟩ : Range).merge ⟨5, 6⟩).2 = false := by decide

/-! ### 2. the binary search finds the first range that is not `less q` -/

/-- the Prop form of canonical form used by the lemmas is the executable `canonical` -/
theorem canon_iff_canonical (s : NumSet.Set) : Canon s ↔ canonical s = true :=
  (canonical_iff s).symm

/-- on a canonical set `search s q` returns the first index whose range is not `less q`
    (`s.length` when all are), and the flag says whether that range contains `q` -/
theorem search_first (s : NumSet.Set) (q : Nat) (hc : canonical s = true) :
    (search s q).1 ≤ s.length ∧
    (∀ j, j < (search s q).1 → (s.getD j zeroR).less q = true) ∧
    ((search s q).1 < s.length → (s.getD (search s q).1 zeroR).less q = false) ∧
    (search s q).2 =
      (decide ((search s q).1 < s.length) && (s.getD (search s q).1 zeroR).contains q) :=
  search_spec s q (canon_mono s 0 ((canonical_iff s).1 hc) q)

example : canonical [⟨1, 3⟩, ⟨5, 5⟩, ⟨9, 0⟩] = true ∧
    search [⟨1, 3⟩, ⟨5, 5⟩, ⟨9, 0⟩] 4 = (1, false) ∧
    search [⟨1, 3⟩, ⟨5, 5⟩, ⟨9, 0⟩] 12 = (2, true) := by decide

/-! ### 5. `Nums` enumerates a static canonical set in ascending order -/

theorem nums_spec (s : NumSet.Set) (hc : canonical s = true) (hd : dynamic s = false) :
    nums s = some (enumerate s) ∧
    List.Pairwise (· < ·) (enumerate s) ∧
    (∀ q, 0 < q → q < W → (q ∈ enumerate s ↔ contains s q = true)) := by
  have h := (canonical_iff s).1 hc
  have hs := canon_allStatic s 0 h hd
  refine ⟨nums_eq_enumerate s hs, enumerate_pairwise s 0 h hs, ?_⟩
  intro q hq _
  rw [contains_eq_any s 0 h q (by omega)]
  exact mem_enumerate_iff_any s 0 h hs q (by omega)

theorem nums_dynamic (s : NumSet.Set) (_hc : canonical s = true) (hd : dynamic s = true) :
    nums s = none :=
  nums_none_of_dynamic s hd

example : canonical [⟨1, 3⟩, ⟨5, 5⟩] = true ∧ dynamic [⟨1, 3⟩, ⟨5, 5⟩] = false ∧
    nums [⟨1, 3⟩, ⟨5, 5⟩] = some [1, 2, 3, 5] := by decide

example : canonical [⟨1, 3⟩, ⟨5, 0⟩] = true ∧ dynamic [⟨1, 3⟩, ⟨5, 0⟩] = true := by decide

/-! ### 3. `insert` and the public operations preserve canonical form

`applyOp`, `run` (fold of the operations from the empty set, identical to
`GoImap.DriveC15.applyOp`) and `OpOk` (numbers below 2^32, set arguments canonical) are defined in
`GoImap/Lemmas/NumSetOps.lean`. -/

theorem insert_canonical (s : NumSet.Set) (v : Range) (hc : canonical s = true)
    (hv : Range.Valid v) : canonical (NumSet.insert s v) = true :=
  (canonical_iff _).2 (insert_canon s v ((canonical_iff s).1 hc) hv)

example : canonical [⟨1, 3⟩, ⟨7, 9⟩, ⟨12, 0⟩] = true ∧ Range.Valid ⟨4, 6⟩ ∧
    NumSet.insert [⟨1, 3⟩, ⟨7, 9⟩, ⟨12, 0⟩] ⟨4, 6⟩ = [⟨1, 9⟩, ⟨12, 0⟩] := by
  refine ⟨by decide, by simp [Range.Valid, W], by decide⟩

theorem addNum_canonical (s : NumSet.Set) (n : Nat) (hc : canonical s = true) (hn : n < W) :
    canonical (addNum s n) = true :=
  (canonical_iff _).2 (applyOp_canon s (.num n) ((canonical_iff s).1 hc) hn)

/-- any two numbers below 2^32, in either order, `0` for "*" -/
theorem addRange_canonical (s : NumSet.Set) (a b : Nat) (hc : canonical s = true)
    (ha : a < W) (hb : b < W) : canonical (addRange s a b) = true :=
  (canonical_iff _).2 (applyOp_canon s (.range a b) ((canonical_iff s).1 hc) ⟨ha, hb⟩)

theorem addSet_canonical (s t : NumSet.Set) (hc : canonical s = true) (ht : canonical t = true) :
    canonical (addSet s t) = true :=
  (canonical_iff _).2 (applyOp_canon s (.set t) ((canonical_iff s).1 hc) ht)

example : canonical [⟨1, 3⟩] = true ∧ canonical [⟨4, 4⟩, ⟨8, 0⟩] = true ∧
    addNum [⟨1, 3⟩] 4 = [⟨1, 4⟩] ∧ canonical (addRange [⟨1, 3⟩] 0 2) = true ∧ addRange [⟨1, 3⟩] 9 5 = [⟨1, 3⟩, ⟨5, 9⟩] ∧
    addSet [⟨1, 3⟩] [⟨4, 4⟩, ⟨8, 0⟩] = [⟨1, 4⟩, ⟨8, 0⟩] := by decide

/-- every sequence of operations from the empty set ends in canonical form -/
theorem canonical_run (ops : List Op) (hok : ∀ o ∈ ops, OpOk o) : canonical (run ops) = true :=
  (canonical_iff _).2 (foldl_applyOp ops [] trivial hok).1

example : (∀ o ∈ [Op.num 5, Op.range 0 9, Op.set [⟨1, 2⟩], Op.num 4294967295], OpOk o) ∧
    run [Op.num 5, Op.range 0 9, Op.set [⟨1, 2⟩], Op.num 4294967295] = [⟨1, 2⟩, ⟨5, 5⟩, ⟨9, 0⟩] := by
  refine ⟨?_, by decide⟩
  intro o ho
  simp only [List.mem_cons, List.not_mem_nil, or_false] at ho
  rcases ho with rfl | rfl | rfl | rfl
  · show 5 < W; decide
  · exact ⟨by decide, by decide⟩
  · show canonical _ = true; decide
  · show 4294967295 < W; decide

/-! ### 4. `insert` is set union; a run of operations denotes the union of its operations -/

theorem insert_mem (s : NumSet.Set) (v : Range) (hc : canonical s = true) (hv : Range.Valid v)
    (q : Nat) (hq : 0 < q) (hqW : q < W) :
    contains (NumSet.insert s v) q = (contains s q || v.contains q) := by
  have h := (canonical_iff s).1 hc
  rw [contains_eq_any _ 0 (insert_canon s v h hv) q (by omega),
    contains_eq_any s 0 h q (by omega)]
  exact insert_any s v h hv q hqW

theorem mem_union (ops : List Op) (hok : ∀ o ∈ ops, OpOk o) (q : Nat) (hq : 0 < q)
    (hqW : q < W) : contains (run ops) q = memOps ops q := by
  obtain ⟨h1, h2⟩ := foldl_applyOp ops [] trivial hok
  have := h2 q hqW
  rw [List.any_nil, Bool.false_or, any_opDen_pos ops q (by omega)] at this
  rw [← this]
  exact contains_eq_any _ 0 h1 q (by omega)

theorem dynamic_iff (ops : List Op) (hok : ∀ o ∈ ops, OpOk o) :
    dynamic (run ops) = starOps ops := by
  obtain ⟨h1, h2⟩ := foldl_applyOp ops [] trivial hok
  have := h2 0 (by decide)
  rw [List.any_nil, Bool.false_or, any_opDen_zero ops] at this
  rw [← this]
  exact dynamic_eq_any _ 0 h1

example : canonical [⟨1, 3⟩, ⟨7, 9⟩] = true ∧ Range.Valid ⟨4, 5⟩ ∧
    contains (NumSet.insert [⟨1, 3⟩, ⟨7, 9⟩] ⟨4, 5⟩) 5 = true ∧
    contains [⟨1, 3⟩, ⟨7, 9⟩] 5 = false ∧ (⟨4, 5⟩ : Range).contains 5 = true := by
  refine ⟨by decide, by simp [Range.Valid, W], by decide, by decide, by decide⟩

example : contains (run [Op.num 5, Op.range 0 9, Op.set [⟨1, 2⟩]]) 11 = true ∧
    memOps [Op.num 5, Op.range 0 9, Op.set [⟨1, 2⟩]] 11 = true ∧
    dynamic (run [Op.num 5, Op.range 0 9, Op.set [⟨1, 2⟩]]) = true := by decide

/-! ### 6. the text form of a canonical set parses back to the same set -/

/-- decimal round trip: `digits n` is a non-empty string of decimal digits (hence without
    `,`, `:` or `*`), without a leading `0` for `n > 0`, and its value is `n` -/
theorem digits_round_trip (n : Nat) :
    valOf (digits n) = n ∧ (digits n).all isDigit = true ∧ digits n ≠ [] ∧
      (0 < n → (digits n).head? ≠ some '0') ∧ ',' ∉ digits n ∧ ':' ∉ digits n :=
  ⟨(digits_spec n).1, all_isDigit_of _ (digits_spec n).2.1, (digits_spec n).2.2.1,
    (digits_spec n).2.2.2, digits_no n ',' not_isDig_comma, digits_no n ':' not_isDig_colon⟩

theorem parse_print (s : NumSet.Set) (hc : canonical s = true) (hne : s ≠ []) :
    parseSet (toChars s) = some s :=
  parseSet_toChars s ((canonical_iff s).1 hc) hne

example : canonical [⟨1, 3⟩, ⟨5, 5⟩, ⟨4294967295, 0⟩] = true ∧
    toStr [⟨1, 3⟩, ⟨5, 5⟩, ⟨4294967295, 0⟩] = "1:3,5,4294967295:*" := by
  refine ⟨by decide, by decide +kernel⟩

/-! ### 7. `ParseSet` accepts exactly the RFC `sequence-set` texts and denotes them -/

theorem parse_sound (t : List Char) :
    (seqSetText t = none → parseSet t = none) ∧
    (∀ items, seqSetText t = some items →
      ∃ s, parseSet t = some s ∧ canonical s = true ∧
        (∀ q, 0 < q → q < W → contains s q = memText items q) ∧
        dynamic s = starText items) := by
  obtain ⟨h1, h2⟩ := parseItems_sound (splitOn ',' t) [] trivial
  refine ⟨h1, ?_⟩
  intro items hi
  obtain ⟨s, e, hc, hden⟩ := h2 items hi
  refine ⟨s, e, (canonical_iff s).2 hc, ?_, ?_⟩
  · intro q hq hqW
    rw [contains_eq_any s 0 hc q (by omega), hden q hqW, List.any_nil, Bool.false_or,
      any_itemDen_pos items q (by omega)]
  · rw [dynamic_eq_any s 0 hc, hden 0 (by decide), List.any_nil, Bool.false_or,
      any_itemDen_zero items]

example : seqSetText "7:3,*,12".toList = some [(7, 3), (0, 0), (12, 12)] ∧
    parseSet "7:3,*,12".toList = some [⟨3, 7⟩, ⟨12, 12⟩, ⟨0, 0⟩] ∧
    seqSetText "1:2:3".toList = none ∧ seqSetText "01".toList = none ∧
    seqSetText "4294967296".toList = none := by
  decide +kernel

end GoImap.C15
