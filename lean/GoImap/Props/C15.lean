/-
  C15 — number sets behave as mathematical sets.  Property theorems only; helper lemmas live
  under GoImap/Lemmas.
-/
import GoImap.Model.NumSet
import GoImap.Spec.NumSet
namespace GoImap.C15
open GoImap.NumSet GoImap.NumSetSpec

/-- a range as the API can produce it: `*`, `n:*`, or `n:m` with `n ≤ m`, all below 2^32 -/
def Range.Valid (r : Range) : Prop :=
  r.start < W ∧ r.stop < W ∧ (r.start = 0 → r.stop = 0) ∧ (r.stop ≠ 0 → r.start ≤ r.stop)

/-- a range that precedes `q` does not contain it (the two predicates `search` relies on are
    mutually exclusive) -/
theorem less_excludes_contains (r : Range) (q : Nat) (h : r.less q = true) (hq : q ≠ 0) :
    r.contains q = false := by
  unfold Range.less at h
  unfold Range.contains
  simp_all

/-- "*" is contained exactly in the dynamic elements -/
theorem contains_star_iff (r : Range) : r.contains 0 = true ↔ r.stop = 0 := by
  simp [Range.contains]

example : Range.Valid ⟨3, 0⟩ ∧ Range.Valid ⟨0, 0⟩ ∧ Range.Valid ⟨4294967295, 4294967295⟩ := by
  simp [Range.Valid, W]

end GoImap.C15
