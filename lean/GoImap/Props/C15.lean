/-
  C15 — number sets behave as mathematical sets.  Property theorems only; helper lemmas live
  under GoImap/Lemmas.
-/
import GoImap.Model.NumSet
import GoImap.Spec.NumSet
import GoImap.Lemmas.NumSetMerge
import GoImap.Lemmas.NumSetCanon
import GoImap.Lemmas.NumSetSearch
import GoImap.Lemmas.NumSetContains
import GoImap.Lemmas.NumSetNums
namespace GoImap.C15
open GoImap.NumSet GoImap.NumSetSpec

/-- a range as the API can produce it: `*`, `n:*`, or `n:m` with `n ≤ m`, all below 2^32 -/
def Range.Valid (r : Range) : Prop :=
  r.start < W ∧ r.stop < W ∧ (r.start = 0 → r.stop = 0) ∧ (r.stop ≠ 0 → r.start ≤ r.stop)

/-- a range that precedes `q` does not contain it (the two predicates `search` relies on are
    mutually exclusive) -/
theorem less_excludes_contains (r : Range) (q : Nat) (h : r.less q = true) (hq : q ≠ 0) :
    r.contains q = false := by
  unfold Range.less at h
  unfold Range.contains
  simp_all

/-- "*" is contained exactly in the dynamic elements -/
theorem contains_star_iff (r : Range) : r.contains 0 = true ↔ r.stop = 0 := by
  simp [Range.contains]

example : Range.Valid ⟨3, 0⟩ ∧ Range.Valid ⟨0, 0⟩ ∧ Range.Valid ⟨4294967295, 4294967295⟩ := by
  simp [Range.Valid, W]

/-! ### 1. `Range.merge` is the union when it succeeds, and the identity when it fails -/

/-- a successful merge denotes the union of its arguments (including "*" as `q = 0`) and is
    again a valid range -/
theorem merge_union (s t : Range) (hs : Range.Valid s) (ht : Range.Valid t)
    (h : (s.merge t).2 = true) :
    (∀ q, q < W → (s.merge t).1.contains q = (s.contains q || t.contains q)) ∧
      Range.Valid (s.merge t).1 :=
  ⟨fun q hq => Range.merge_contains s t hs ht h q hq, Range.merge_wf s t hs ht h⟩

/-- a failed merge returns its receiver unchanged (`insert` relies on this when it assigns
    `s[i-1], merged = s[i-1].Merge(v)` unconditionally) -/
theorem merge_fail (s t : Range) (h : (s.merge t).2 = false) : (s.merge t).1 = s :=
  Range.merge_fail s t h

example : Range.Valid ⟨1, 4294967295⟩ ∧ Range.Valid ⟨7, 0⟩ ∧
    ((⟨1, 4294967295⟩ : Range).merge ⟨7, 0⟩) = (⟨1, 0⟩, true) := by
  refine ⟨by simp [Range.Valid, W], by simp [Range.Valid, W], by decide⟩

example : ((⟨1, 3⟩ : Range).merge ⟨5, 6⟩).2 = false := by decide

/-! ### 2. the binary search finds the first range that is not `less q` -/

/-- the Prop form of canonical form used by the lemmas is the executable `canonical` -/
theorem canon_iff_canonical (s : NumSet.Set) : Canon s ↔ canonical s = true :=
  (canonical_iff s).symm

/-- on a canonical set `search s q` returns the first index whose range is not `less q`
    (`s.length` when all are), and the flag says whether that range contains `q` -/
theorem search_first (s : NumSet.Set) (q : Nat) (hc : canonical s = true) :
    (search s q).1 ≤ s.length ∧
    (∀ j, j < (search s q).1 → (s.getD j zeroR).less q = true) ∧
    ((search s q).1 < s.length → (s.getD (search s q).1 zeroR).less q = false) ∧
    (search s q).2 =
      (decide ((search s q).1 < s.length) && (s.getD (search s q).1 zeroR).contains q) :=
  search_spec s q (canon_mono s 0 ((canonical_iff s).1 hc) q)

example : canonical [⟨1, 3⟩, ⟨5, 5⟩, ⟨9, 0⟩] = true ∧
    search [⟨1, 3⟩, ⟨5, 5⟩, ⟨9, 0⟩] 4 = (1, false) ∧
    search [⟨1, 3⟩, ⟨5, 5⟩, ⟨9, 0⟩] 12 = (2, true) := by decide

/-! ### 5. `Nums` enumerates a static canonical set in ascending order -/

theorem nums_spec (s : NumSet.Set) (hc : canonical s = true) (hd : dynamic s = false) :
    nums s = some (enumerate s) ∧
    List.Pairwise (· < ·) (enumerate s) ∧
    (∀ q, 0 < q → q < W → (q ∈ enumerate s ↔ contains s q = true)) := by
  have h := (canonical_iff s).1 hc
  have hs := canon_allStatic s 0 h hd
  refine ⟨nums_eq_enumerate s hs, enumerate_pairwise s 0 h hs, ?_⟩
  intro q hq _
  rw [contains_eq_any s 0 h q (by omega)]
  exact mem_enumerate_iff_any s 0 h hs q (by omega)

theorem nums_dynamic (s : NumSet.Set) (_hc : canonical s = true) (hd : dynamic s = true) :
    nums s = none :=
  nums_none_of_dynamic s hd

example : canonical [⟨1, 3⟩, ⟨5, 5⟩] = true ∧ dynamic [⟨1, 3⟩, ⟨5, 5⟩] = false ∧
    nums [⟨1, 3⟩, ⟨5, 5⟩] = some [1, 2, 3, 5] := by decide

example : canonical [⟨1, 3⟩, ⟨5, 0⟩] = true ∧ dynamic [⟨1, 3⟩, ⟨5, 0⟩] = true := by decide

end GoImap.C15
