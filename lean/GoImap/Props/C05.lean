/-
  C05 — server state machine: the backend is reached only in permitted states.
  Property theorems only; the model is GoImap/Model/ServerSM.lean (mirror of imapserver's
  serve/readCommand/handle*), the RFC side (Permitted, rfcStep, capability rules) is
  GoImap/Spec/ServerSM.lean, helper lemmas and the table evaluation are GoImap/Lemmas/ServerSM.lean.

  Proved (all configurations, all histories over the 41 command kinds × 5 outcomes, no bound on length):
    gate                      every session call made by `run` is `Permitted` in the state it is made in
    creds_need_tls            a Login call happens only on a TLS connection or with InsecureAuth
    transitions               the observable state trace is one the RFC diagram admits (a failing Poll may
                              additionally end the connection)
    transitions_fun           without failing Polls: stateTrace (run cfg h) = rfcTrace cfg h
    failed_select_deselects   SELECT/EXAMINE failing (in Select or in Unselect) from selected ⇒ authenticated
    logout_final              after LOGOUT nothing is processed: no calls, no responses, state logout
    unknown_before_auth_closes  unknown command in not-authenticated ⇒ BAD, BYE, connection closed, no call
    caps_advert               AUTH=PLAIN ⇔ authentication possible now; LOGINDISABLED ⇔ not authenticated and
                              not possible; STARTTLS ⇔ configured, plaintext, not authenticated
    step_same_input           table entries the harness cannot distinguish by input coincide (justifies the
                              de-duplication of the exhaustive tie)
    backend_view              with the calls marked as the outcome makes the backend refuse them, no selected-state
                              call (Unselect, Expunge, Search, Fetch, Store, Copy, Move) is ever made while the backend's
                              own Select/Unselect bookkeeping says "no mailbox open"
    legacy_select_counterexample   the shipped handleSelect left the mailbox selected when Unselect failed
  Validated by the oracle only: that the Go code is this model (exhaustive tie over the table on every run);
  response classes NO/BAD are part of the tie, not of the property.
  Unfinished targets: none.
-/
import GoImap.Model.ServerSM
import GoImap.Spec.ServerSM
import GoImap.Lemmas.ServerSM
import GoImap.Lemmas.ServerSMBackend
namespace GoImap.C05
open GoImap.ServerSM GoImap.ServerSpec GoImap.ServerLemmas

/-- For all configurations and all histories, every session call is made in a state in which
    RFC 9051 permits it. -/
theorem gate (cfg : Cfg) (h : Hist) :
    ∀ call ∈ callsWithState (run cfg h), Permitted call.2 call.1 = true :=
  gate_from cfg (greet cfg) h

/-- Credentials reach the backend only over TLS, unless insecure authentication was enabled. `e` is a
    step of the history: the connection it started from, the command, the outcome, what it did. -/
theorem creds_need_tls (cfg : Cfg) (h : Hist) :
    ∀ e ∈ runPre cfg (greet cfg) h, ∀ s, (SessionCall.login, s) ∈ e.2.2.2.calls →
      e.1.tls = true ∨ cfg.ins = true := by
  intro e he s hs
  rw [runPre_step cfg _ h e he] at hs
  exact step_creds cfg e.1 e.2.1 e.2.2.1 s hs

/-- `runPre` lists exactly the steps of `run`. -/
theorem runPre_is_run (cfg : Cfg) (h : Hist) : (runPre cfg (greet cfg) h).map (·.2.2.2) = run cfg h :=
  runPre_outs cfg (greet cfg) h

/-- Refinement to the RFC state diagram: after every command the observable state is one the diagram
    admits (the successor `rfcStep` prescribes; a failing status-update poll may instead end the
    connection), and TLS status is tracked alike. -/
theorem transitions (cfg : Cfg) (h : Hist) : RfcTraceOK cfg (rfcInit cfg) h (stateTrace (run cfg h)) := by
  have := trace_from cfg (greet cfg) (wf_greet cfg) h
  rw [view_greet] at this
  exact this

/-- Without failing polls the trace is exactly the RFC's. -/
theorem transitions_fun (cfg : Cfg) (h : Hist) (hp : ∀ e ∈ h, e.2 ≠ .pollErr) :
    stateTrace (run cfg h) = rfcTrace cfg h := by
  apply trace_fun_from cfg (greet cfg) (wf_greet cfg) h hp (rfcInit cfg)
  · rw [← view_greet]; rfl
  · intro _; rw [← view_greet]; rfl

/-- A SELECT or EXAMINE that fails while a mailbox is selected leaves none selected, whichever backend
    call failed. -/
theorem failed_select_deselects (cfg : Cfg) (t : Bool) (k : CmdKind) (o : Outcome)
    (hk : k = .select ∨ k = .examine) (ho : o = .backendErr ∨ o = .auxErr) :
    (step cfg ⟨.selected, t, false⟩ k o).conn.st = .auth ∧ (step cfg ⟨.selected, t, false⟩ k o).resp = .no := by
  rcases hk with rfl | rfl <;> rcases ho with rfl | rfl <;> exact ⟨rfl, rfl⟩

/-- LOGOUT ends command processing: whatever follows makes no call and gets no response. -/
theorem logout_final (cfg : Cfg) (c : Conn) (hc : c.closed = false) (o : Outcome) (ho : o ≠ .parseErr) (h : Hist) :
    (step cfg c .logout o).conn.closed = true ∧ (step cfg c .logout o).bye = true ∧
    ∀ r ∈ runFrom cfg (step cfg c .logout o).conn h, r.calls = [] ∧ r.resp = .none ∧ obsSt r.conn = .logout := by
  have hcl : (step cfg c .logout o).conn.closed = true := by
    cases o <;> first | exact absurd rfl ho | simp [step, hc, Outcome.isParseErr, isUnknown, handle, complete, sendOK, polls,
      St.isAuth, St.isSelected, St.isLogout]
  refine ⟨hcl, ?_, ?_⟩
  · cases o <;> first | exact absurd rfl ho | simp [step, hc, Outcome.isParseErr, isUnknown, handle, complete, sendOK, polls,
      St.isAuth, St.isSelected, St.isLogout]
  · generalize (step cfg c .logout o).conn = c' at hcl
    induction h with
    | nil => intro r hr; simp [runFrom] at hr
    | cons x h ih =>
      obtain ⟨k, o'⟩ := x
      intro r hr
      simp only [runFrom, List.mem_cons, step_closed cfg c' k o' hcl] at hr
      rcases hr with rfl | hr
      · exact ⟨rfl, rfl, by simp [obsSt, hcl]⟩
      · exact ih r hr

/-- An unknown command before authentication: BAD, BYE, the connection is closed, no call is made. -/
theorem unknown_before_auth_closes (cfg : Cfg) (t : Bool) (k : CmdKind) (o : Outcome)
    (hk : k = .unknown ∨ k = .uidUnknown) :
    step cfg ⟨.notAuth, t, false⟩ k o = ⟨⟨.logout, t, true⟩, [], .bad, true, 0, false⟩ := by
  rcases hk with rfl | rfl <;> cases o <;> rfl

/-- Capability advertisement on an open connection. -/
theorem caps_advert (cfg : Cfg) (c : Conn) (hc : c.closed = false) :
    (Cap.authPlain ∈ availableCaps cfg c ↔ c.st = .notAuth ∧ (c.tls = true ∨ cfg.ins = true)) ∧
    (Cap.loginDisabled ∈ availableCaps cfg c ↔ c.st = .notAuth ∧ ¬ (c.tls = true ∨ cfg.ins = true)) ∧
    (Cap.startTLS ∈ availableCaps cfg c ↔ cfg.stls = true ∧ c.tls = false ∧ c.st = .notAuth) := by
  have h := caps_ok cfg c
  simp only [capsOK, hc, Bool.false_or, Bool.and_eq_true, bsame_iff] at h
  obtain ⟨⟨h1, h2⟩, h3⟩ := h
  have hv : obsSt c = c.st := by simp [obsSt, hc]
  have hn : ∀ s : St, s.isNotAuth = true ↔ s = .notAuth := by intro s; cases s <;> simp [St.isNotAuth]
  have m1 : ∀ l : List Cap, l.any Cap.isAuthPlain = true ↔ Cap.authPlain ∈ l := by
    intro l; rw [List.any_eq_true]; constructor
    · rintro ⟨x, hx, hp⟩; cases x <;> simp_all [Cap.isAuthPlain]
    · intro hm; exact ⟨_, hm, rfl⟩
  have m2 : ∀ l : List Cap, l.any Cap.isLoginDisabled = true ↔ Cap.loginDisabled ∈ l := by
    intro l; rw [List.any_eq_true]; constructor
    · rintro ⟨x, hx, hp⟩; cases x <;> simp_all [Cap.isLoginDisabled]
    · intro hm; exact ⟨_, hm, rfl⟩
  have m3 : ∀ l : List Cap, l.any Cap.isStartTLS = true ↔ Cap.startTLS ∈ l := by
    intro l; rw [List.any_eq_true]; constructor
    · rintro ⟨x, hx, hp⟩; cases x <;> simp_all [Cap.isStartTLS]
    · intro hm; exact ⟨_, hm, rfl⟩
  refine ⟨?_, ?_, ?_⟩
  · rw [← m1, h1]; simp [wantAuthPlain, credsAllowed, hv, hn, view]
  · rw [← m2, h2]; simp [wantLoginDisabled, credsAllowed, hv, hn, view]
  · rw [← m3, h3]; simp [wantStartTLS, hv, hn, view, and_assoc]

/-- the names under which the three capabilities go on the wire are not shared with any other -/
theorem cap_names (c : Cap) :
    (c.name = "AUTH=PLAIN" ↔ c = .authPlain) ∧ (c.name = "LOGINDISABLED" ↔ c = .loginDisabled) ∧
    (c.name = "STARTTLS" ↔ c = .startTLS) := by
  cases c <;> decide

/-- Inputs that differ only in a failure which is never armed give the same table entry: the
    exhaustive tie runs each distinct input once. -/
theorem step_same_input (cfg : Cfg) (c : Conn) (k : CmdKind) :
    (hasAux k = false → step cfg c k .auxErr = step cfg c k .backendOk) ∧
    (hasPrincipal k = false → step cfg c k .backendErr = step cfg c k .backendOk) ∧
    (isUnknown k = true → step cfg c k .parseErr = step cfg c k .backendOk) :=
  ⟨step_no_aux cfg c k, step_no_principal cfg c k, step_unknown_parse cfg c k⟩

/-- The connection state never runs ahead of the backend: following the calls of any history — a
    successful Select opens a mailbox, a successful Unselect or Unauthenticate releases it, a refused
    call changes nothing — no selected-state operation reaches a backend that has no mailbox open. -/
theorem backend_view (cfg : Cfg) (h : Hist) : bviewTrace cfg (greet cfg) false h = none := by
  apply bviewTrace_none
  cases hp : cfg.pre <;> simp [greet, hp, St.isSelected]

/-- Before the repair: SELECT answered NO because the backend's Unselect failed, yet the connection
    stayed in the selected state, where the RFC diagram says authenticated. -/
theorem legacy_select_counterexample :
    let cfg : Cfg := ⟨false, true, false, false, false, .rev1⟩
    let r := Legacy.step cfg ⟨.selected, false, false⟩ .select .auxErr
    r.resp = .no ∧ r.conn.st = .selected ∧ (rfcStep cfg ⟨.selected, false⟩ .select .auxErr).st = .auth ∧
    rfcAllowed cfg ⟨.selected, false⟩ .select .auxErr (obsSt r.conn) = false := by
  decide

/-! non-vacuity: a history that logs in, selects, fails a SELECT, fetches (refused), and logs out -/
example :
    let cfg : Cfg := ⟨false, true, false, true, false, .both⟩
    let h : Hist := [(.login, .backendOk), (.select, .backendOk), (.examine, .backendErr), (.fetch, .backendOk),
                     (.select, .backendOk), (.fetch, .backendOk), (.logout, .backendOk), (.noop, .backendOk)]
    stateTrace (run cfg h) = [.auth, .selected, .auth, .auth, .selected, .selected, .logout, .logout]
    ∧ callsWithState (run cfg h) =
        [(.login, .notAuth), (.select, .auth), (.unselect, .selected), (.select, .auth), (.select, .auth),
         (.fetch, .selected), (.poll, .selected)] := by
  decide

/-- credentials are refused on a plaintext connection without InsecureAuth, accepted after STARTTLS -/
example :
    let cfg : Cfg := ⟨false, false, false, false, true, .rev1⟩
    (run cfg [(.login, .backendOk), (.starttls, .backendOk), (.login, .backendOk)]).map (fun r => (r.resp, r.calls))
      = [(.no, []), (.ok, []), (.ok, [(.login, .notAuth)])] := by
  decide

end GoImap.C05
