/-
  C02 — client commands reach the server backend with the caller's arguments intact.
  Property theorems only.

  Phase 1 (this file so far): the machine-checked witnesses that the three client defects repaired
  for this property violated it (`Quirks` switches the shipped behaviour back on in the writer
  mirror), each next to the statement that the repaired writer delivers the same call intact.
-/
import GoImap.Spec.CmdGrammar
namespace GoImap.C02
open GoImap.CmdGrammar GoImap.CmdSpec

def rd : List Nat := [82, 38, 68]   -- "R&D"

/-- F14 as shipped: `Client.List("", "R&D", nil)` wrote the pattern as a plain string; the server
    reads list-mailbox as modified UTF-7 and fails (it answers NO) — nothing is delivered -/
theorem legacy_list_pattern_counterexample :
    roundTrip { listPatternRaw := true } {} 1 (.list [] [rd] {}) = .no := by
  decide +kernel

/-- after the repair the same call is delivered intact -/
theorem list_pattern_repaired :
    roundTrip {} {} 1 (.list [] [rd] {}) = .calls (sem {} (.list [] [rd] {})) := by
  decide +kernel

def saveCount : Cmd := .search false Crit.empty (some { count := true, save := true })

/-- F15 as shipped: `SearchOptions{ReturnSave, ReturnCount}` arrived as `{ReturnCount}` -/
theorem legacy_save_counterexample :
    roundTrip { dropSave := true } {} 1 saveCount = .calls [.search false Crit.empty (some { count := true })]
      ∧ sem {} saveCount ≠ [.search false Crit.empty (some { count := true })] := by
  decide +kernel

theorem save_repaired : roundTrip {} {} 1 saveCount = .calls (sem {} saveCount) := by
  decide +kernel

/-- 2020-01-01 (UTC midnight, seconds from Go's zero time) -/
def jan1 : Int := 63713433600

/-- since = 2020-01-01T23:00Z, before = 2020-01-03T01:00+02:00: 24 hours apart, calendar days 1 and 3 -/
def straddle : Cmd :=
  .search false (.mk { since := { day := jan1, inst := jan1 + 82800 }, before := { day := jan1 + 172800, inst := jan1 + 169200 } } .nil .nil) none

/-- F29 as shipped: the pair went out as `ON 1-Jan-2020`, i.e. before = 2 January: a day is lost -/
theorem legacy_on_counterexample :
    roundTrip { onByInstant := true } {} 1 straddle
        = .calls [.search false (.mk { since := dateOnly jan1, before := dateOnly (jan1 + 86400) } .nil .nil) (some { all := true })]
      ∧ sem {} straddle = [.search false (.mk { since := dateOnly jan1, before := dateOnly (jan1 + 172800) } .nil .nil) (some { all := true })] := by
  decide +kernel

theorem on_repaired : roundTrip {} {} 1 straddle = .calls (sem {} straddle) := by
  decide +kernel

end GoImap.C02
