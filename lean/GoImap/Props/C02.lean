/-
  C02 — client commands reach the server backend with the caller's arguments intact.
  Property theorems only.

  Setting.  `roundTrip q cfg tag c` (Model/CmdGrammar.lean) writes the client call `c` with the mirror of the
  imapclient command writers and reads the resulting items with the mirror of the imapserver command readers;
  `sem cfg c` (Spec/CmdGrammar.lean) is the list of session calls `c` stands for, computed from the caller's
  arguments alone.  The wire is modelled at item level: raw bytes, with IMAP strings, the APPEND literal and
  the two date tokens as opaque items (their byte encodings are property C01 / the time package; the tie
  re-derives them byte for byte on every run).  `q = {}` is the repaired code.

  PROVED (cmd_fidelity, per command family; hypotheses: `MailboxOK`, `strOk`, `SetOK`+`SetNF`, `FlagOK`, …):
    * cmd_fidelity_login, _select (SELECT/EXAMINE, incl. the implied Unselect), _create (USE attributes), _delete,
      _rename, _subscribe, _unsubscribe
    * cmd_fidelity_store (set, add / remove / replace, .SILENT, flag list)
    * cmd_fidelity_copy, _move (MOVE capability), _move_emulated (COPY + STORE +FLAGS.SILENT (\Deleted) + [UID] EXPUNGE),
      _expunge, _uid_expunge
    * cmd_fidelity_status (and _status_any_order)
    * cmd_fidelity_list (selection options, reference, pattern through readListMailbox, RETURN options incl. STATUS (…))
    * cmd_fidelity_search: every criteria tree below the server's nesting limit (all key kinds, nested NOT/OR, the ON
      rule), any return options, CHARSET — by induction over the tree with the reader's budget shown sufficient
    * cmd_fidelity_fetch: scalar items, BODY/BODYSTRUCTURE, body sections (part path × specifier × header-field
      lists × partial × peek), BINARY / BINARY.PEEK / BINARY.SIZE sections, UID numbering implying the UID item
    * cmd_fidelity_append (+ _append_sem): mailbox, flag list, date-time, literal
    * legacy_*_counterexample / *_repaired: the three defects repaired for this property (F14 LIST pattern, F15 SAVE,
      F30 ON rule) violated it; the repaired writer does not.

  ANY ORDER of the map-ordered items (`Delivers`: every permutation of every `Seg.anyOrder` segment):
    * cmd_delivers_status, cmd_delivers_list (RETURN (STATUS …)), cmd_delivers_search (RETURN options),
      cmd_delivers_fetch (scalar items); cmd_delivers_of_round_trip: the other families have one written form.

  LITERAL NUMBER SETS (a caller-built `imap.SeqSet{{Start: 5, Stop: 3}, …}`: unsorted, overlapping, reversed):
    * replayed: the client prints the ranges as given, the server's ParseSet adds them one by one;
    * literal_set_denotation: the delivered set `delivSet rs` is canonical and denotes exactly the union of the
      caller's ranges (via C15: foldl_applyOp / contains_eq_any / dynamic_eq_any); literal_set_canonical;
    * cmd_fidelity_{copy,move,move_emulated,store,uid_expunge}_literal, cmd_delivers_fetch_literal,
      cmd_delivers_search_literal (sets anywhere in the criteria tree): the session receives `delivN s`.
    * normSet_eq_delivSet: `sem` normalises sets with its own interval normal form `normSet` (bounds ordered, `*` =
      2^32, sorted by lower bound, overlapping / adjacent intervals merged); for a literal set `normSet rs = delivSet rs`
      under the decidable side condition `TopOK rs` (some range is `n:*`, or none is the lone `*`, or no bound is
      4294967295).  The condition is exact (normSet_eq_delivSet_iff): next to a lone `*` the parser keeps
      `n:4294967295,*` where the interval normal form writes `n:*` (normSet_top_counterexample; same members — the
      oracle compares both through `normSet` on every run).  Consequences: literal_set_sem (`delivN s = canonNSet s`), canonical_set_nf (`SetNF` follows from
      `SetOK` + `SetTop`), and the literal theorems stated with `sem` directly:
      cmd_fidelity_{copy,move,move_emulated,store,uid_expunge}_literal_sem, cmd_delivers_fetch_literal_sem
      (SEARCH with literal sets stays stated with `delivCrit`).
    * outside: the empty set and `{Start: 0, Stop: n≠0}` (printed as `*`, the stop is lost) — the client refuses
      the first; the second is not a value the API builds (`inDomain` excludes both via `validNSet`).

  The reader mirror and `/repo` main (decoder/framing repairs made for C04/C06 after this model was written):
    * `Decoder.List` refuses the 1000th nested list and NOT/OR are refused at depth 1000: mirrored (`maxListDepth`,
      `maxSearchKeyDepth`, tied to the source by Props/SourceFacts.cmd_grammar_limits; corpus cases at 999 / 1000
      levels); `cmd_fidelity_search` therefore assumes `depth c < 1000`;
    * a malformed literal header now stops the reader, `+` in a tag is refused, a non-synchronising literal on a
      discarded line closes the connection, a refused synchronising literal is answered NO: none of these is
      reachable from what the client writes within the domain (well-formed headers, tags `T<n>`, strings of at
      most 4096 bytes) — the mirror does not model them and says `unmodelled` for longer strings;
    * flags are canonicalised with ASCII case folding only (e3d01f5): what the mirror always did.

  Scope:
    * the `Advertised` side condition of the design statement is not needed: the reader mirror does not consult
      capabilities, so the theorems hold for every configuration (MOVE is split by `cfg.hasMove`);
    * outside the model (oracle and tie only, or out of the property): strings above the server's 4096-byte limit,
      criteria nested 1000 deep or more, mailbox names that are not valid UTF-8, CONDSTORE items, negative numbers.
-/
import GoImap.Spec.CmdGrammar
import GoImap.Lemmas.CmdGrammarLitCmds
import GoImap.Lemmas.CmdGrammarNormSet
namespace GoImap.C02
open GoImap.CmdGrammar GoImap.CmdSpec GoImap.CmdLemmas

def rd : List Nat := [82, 38, 68]   -- "R&D"

/-- F14 as shipped: `Client.List("", "R&D", nil)` wrote the pattern as a plain string; the server
    reads list-mailbox as modified UTF-7 and fails (it answers NO) — nothing is delivered -/
theorem legacy_list_pattern_counterexample :
    roundTrip { listPatternRaw := true } {} 1 (.list [] [rd] {}) = .no := by
  decide +kernel

/-- after the repair the same call is delivered intact -/
theorem list_pattern_repaired :
    roundTrip {} {} 1 (.list [] [rd] {}) = .calls (sem {} (.list [] [rd] {})) := by
  decide +kernel

def saveCount : Cmd := .search false Crit.empty (some { count := true, save := true })

/-- F15 as shipped: `SearchOptions{ReturnSave, ReturnCount}` arrived as `{ReturnCount}` -/
theorem legacy_save_counterexample :
    roundTrip { dropSave := true } {} 1 saveCount = .calls [.search false Crit.empty (some { count := true })]
      ∧ sem {} saveCount ≠ [.search false Crit.empty (some { count := true })] := by
  decide +kernel

theorem save_repaired : roundTrip {} {} 1 saveCount = .calls (sem {} saveCount) := by
  decide +kernel

/-- 2020-01-01 (UTC midnight, seconds from Go's zero time) -/
def jan1 : Int := 63713433600

/-- since = 2020-01-01T23:00Z, before = 2020-01-03T01:00+02:00: 24 hours apart, calendar days 1 and 3 -/
def straddle : Cmd :=
  .search false (.mk { since := { day := jan1, inst := jan1 + 82800 }, before := { day := jan1 + 172800, inst := jan1 + 169200 } } .nil .nil) none

/-- F30 as shipped: the pair went out as `ON 1-Jan-2020`, i.e. before = 2 January: a day is lost -/
theorem legacy_on_counterexample :
    roundTrip { onByInstant := true } {} 1 straddle
        = .calls [.search false (.mk { since := dateOnly jan1, before := dateOnly (jan1 + 86400) } .nil .nil) (some { all := true })]
      ∧ sem {} straddle = [.search false (.mk { since := dateOnly jan1, before := dateOnly (jan1 + 172800) } .nil .nil) (some { all := true })] := by
  decide +kernel

theorem on_repaired : roundTrip {} {} 1 straddle = .calls (sem {} straddle) := by
  decide +kernel


/-! ## cmd_fidelity, family by family

  `roundTrip {} cfg tag c` prints `c` with the client-writer mirror (repaired code: no quirk),
  reads the items back with the server-reader mirror and reports the session calls; `sem cfg c`
  is the specification.  Hypotheses: `MailboxOK` (Unicode scalar values, encoded form within the
  server's 4096-byte limit), `strOk` (within that limit), `SetOK`/`SetNF` (a non-empty number set in
  canonical form, or `$`), `FlagOK` (a flag the client's encoder accepts). -/

/-- LOGIN: user name and password, whatever bytes they contain -/
theorem cmd_fidelity_login (cfg : Cfg) (tag : Nat) (u p : Str) (hu : strOk u = true) (hp : strOk p = true) :
    roundTrip {} cfg tag (.login u p) = .calls (sem cfg (.login u p)) :=
  login_fidelity cfg tag u p hu hp

/-- SELECT / EXAMINE (a previously selected mailbox is unselected first) -/
theorem cmd_fidelity_select (cfg : Cfg) (tag : Nat) (m : List Nat) (ro : Bool) (hm : MailboxOK m) :
    roundTrip {} cfg tag (.select m ro) = .calls (sem cfg (.select m ro)) :=
  select_fidelity cfg tag m ro hm

theorem cmd_fidelity_delete (cfg : Cfg) (tag : Nat) (m : List Nat) (hm : MailboxOK m) :
    roundTrip {} cfg tag (.delete m) = .calls (sem cfg (.delete m)) :=
  delete_fidelity cfg tag m hm

theorem cmd_fidelity_subscribe (cfg : Cfg) (tag : Nat) (m : List Nat) (hm : MailboxOK m) :
    roundTrip {} cfg tag (.subscribe m) = .calls (sem cfg (.subscribe m)) :=
  subscribe_fidelity cfg tag m hm

theorem cmd_fidelity_unsubscribe (cfg : Cfg) (tag : Nat) (m : List Nat) (hm : MailboxOK m) :
    roundTrip {} cfg tag (.unsubscribe m) = .calls (sem cfg (.unsubscribe m)) :=
  unsubscribe_fidelity cfg tag m hm

theorem cmd_fidelity_rename (cfg : Cfg) (tag : Nat) (m n : List Nat) (hm : MailboxOK m) (hn : MailboxOK n) :
    roundTrip {} cfg tag (.rename m n) = .calls (sem cfg (.rename m n)) :=
  rename_fidelity cfg tag m n hm hn

/-- CREATE with special-use attributes -/
theorem cmd_fidelity_create (cfg : Cfg) (tag : Nat) (m : List Nat) (use : List Str) (hm : MailboxOK m)
    (hu : ∀ f ∈ use, AttrOK f) :
    roundTrip {} cfg tag (.create m use) = .calls (sem cfg (.create m use)) :=
  create_fidelity cfg tag m use hm hu

/-- non-vacuity: "Entwürfe/R&D" (non-ASCII and an ampersand) and the INBOX spelled "iNbOx" -/
example : MailboxOK [69, 110, 116, 119, 252, 114, 102, 101, 47, 82, 38, 68] ∧ MailboxOK [105, 78, 98, 79, 120] :=
  ⟨⟨by decide, by decide⟩, ⟨by decide, by decide⟩⟩

/-- STORE: set, mode, silence and flags -/
theorem cmd_fidelity_store (cfg : Cfg) (tag : Nat) (uid : Bool) (s : NSet) (op : Nat) (silent : Bool) (flags : List Str)
    (hs : SetOK s) (hnf : SetNF s) (hop : op ≤ 2) (hf : ∀ f ∈ flags, FlagOK f) :
    roundTrip {} cfg tag (.store uid s op silent flags) = .calls (sem cfg (.store uid s op silent flags)) :=
  store_fidelity cfg tag uid s op silent flags hs hnf hop hf

/-- non-vacuity: the set `1:3,7:*` and the flags `\seen` (lower case) and `$label1` -/
example : SetOK (.set [⟨1, 3⟩, ⟨7, 0⟩]) ∧ SetNF (.set [⟨1, 3⟩, ⟨7, 0⟩]) ∧ FlagOK [92, 115, 101, 101, 110] ∧ FlagOK (str "$label1") := by
  refine ⟨⟨?_, by decide⟩, ?_, ?_, ?_⟩
  · simp [NumSet.Canon, NumSet.CanonFrom, NumSet.Range.WF, NumSet.W]
  · simp only [SetNF]; decide
  · show isValidFlag _ = true; decide
  · show isValidFlag _ = true; decide

theorem cmd_fidelity_copy (cfg : Cfg) (tag : Nat) (uid : Bool) (s : NSet) (m : List Nat)
    (hs : SetOK s) (hnf : SetNF s) (hm : MailboxOK m) :
    roundTrip {} cfg tag (.copy uid s m) = .calls (sem cfg (.copy uid s m)) :=
  copy_fidelity cfg tag uid s m hs hnf hm

/-- MOVE to a server with the MOVE capability -/
theorem cmd_fidelity_move (cfg : Cfg) (tag : Nat) (uid : Bool) (s : NSet) (m : List Nat)
    (hs : SetOK s) (hnf : SetNF s) (hm : MailboxOK m) (hmove : cfg.hasMove = true) :
    roundTrip {} cfg tag (.move uid s m) = .calls (sem cfg (.move uid s m)) :=
  move_fidelity cfg tag uid s m hs hnf hm hmove

/-- MOVE to a server without the MOVE capability: the client sends COPY, STORE +FLAGS.SILENT (\Deleted) and
    EXPUNGE (UID EXPUNGE of the same set when UIDPLUS is there); the session receives exactly these three calls -/
theorem cmd_fidelity_move_emulated (cfg : Cfg) (tag : Nat) (uid : Bool) (s : NSet) (m : List Nat)
    (hs : SetOK s) (hnf : SetNF s) (hm : MailboxOK m) (hmove : cfg.hasMove = false) :
    roundTrip {} cfg tag (.move uid s m) = .calls (sem cfg (.move uid s m)) :=
  move_fallback_fidelity cfg tag uid s m hs hnf hm hmove

theorem cmd_fidelity_expunge (cfg : Cfg) (tag : Nat) :
    roundTrip {} cfg tag (.expunge none) = .calls (sem cfg (.expunge none)) :=
  expunge_fidelity cfg tag

theorem cmd_fidelity_uid_expunge (cfg : Cfg) (tag : Nat) (s : NSet) (hs : SetOK s) (hnf : SetNF s) :
    roundTrip {} cfg tag (.expunge (some s)) = .calls (sem cfg (.expunge (some s))) :=
  uidExpunge_fidelity cfg tag s hs hnf

/-- STATUS, items in the writer's listed order -/
theorem cmd_fidelity_status (cfg : Cfg) (tag : Nat) (m : List Nat) (o : StatusOpts) (hm : MailboxOK m)
    (ho : o.highestModSeq = false) :
    roundTrip {} cfg tag (.status m o) = .calls (sem cfg (.status m o)) :=
  status_fidelity cfg tag m o hm ho

/-- STATUS, items in ANY order (the client takes them out of a Go map): the reader rebuilds the same options -/
theorem cmd_fidelity_status_any_order (cfg : Cfg) (tag : Nat) (m : List Nat) (o : StatusOpts) (hm : MailboxOK m)
    (ho : o.highestModSeq = false) (l : List SItem) (hp : l.Perm (sItems o)) :
    parseCmds cfg [statusWire tag m l] = .ok (sem cfg (.status m o)) := by
  simp only [parseCmds, bind, Except.bind, parse_status cfg tag m o hm ho l hp]
  simp [sem, semRaw, canon, pure, Except.pure]


/-- LIST: selection options, reference, pattern, return options incl. RETURN (STATUS (…)) — for the options
    the server implements (`ListOK`) -/
theorem cmd_fidelity_list (cfg : Cfg) (tag : Nat) (ref pat : List Nat) (o : ListOpts)
    (hr : MailboxOK ref) (hp : MailboxOK pat) (ho : ListOK o) :
    roundTrip {} cfg tag (.list ref [pat] o) = .calls (sem cfg (.list ref [pat] o)) :=
  list_fidelity cfg tag ref pat o hr hp ho

/-- non-vacuity: every implemented option at once, with a STATUS item list -/
example : ListOK { selSubscribed := true, selRemote := true, selRecursive := true, retSubscribed := true, retChildren := true,
                   retStatus := some { messages := true, unseen := true, size := true } } :=
  ⟨rfl, rfl, fun _ => rfl, fun st h => by cases h; rfl⟩

/-- the APPEND header — mailbox, flag list, date-time — and the literal: the session receives the canonical
    mailbox name and flags, the very date-time and the payload … -/
theorem cmd_fidelity_append (cfg : Cfg) (tag : Nat) (m : List Nat) (flags : List Str) (time : Option ATime) (payload : Str)
    (hm : MailboxOK m) (hf : ∀ f ∈ flags, FlagOK f) (ht : TimeOK time) :
    roundTrip {} cfg tag (.append m flags time payload) =
      .calls [.append (canonMailbox m) (flags.map canonFlag) time payload] :=
  append_fidelity cfg tag m flags time payload hm hf ht

/-- … which is the specification's meaning of the call -/
theorem cmd_fidelity_append_sem (cfg : Cfg) (m : List Nat) (flags : List Str) (time : Option ATime) (payload : Str) :
    [Cmd.append (canonMailbox m) (flags.map canonFlag) time payload].map canon = sem cfg (.append m flags time payload) :=
  append_sem cfg m flags time payload


/-- SEARCH / UID SEARCH: every criteria tree — sequence and UID sets, the four date bounds (a since/before pair
    on consecutive days travels as ON), header fields (the five address/subject keys as their own keys), BODY,
    TEXT, flags and negated flags (system flags as their own keys, others as KEYWORD), LARGER, SMALLER, and
    nested NOT / OR — with any return options, with or without CHARSET UTF-8.  `CritOK` + `CritNF`: sets canonical,
    strings within the server's limit, flags the encoder accepts, sizes non-negative.  `depth c < 1000`: the
    decoder refuses to open the 1000th nested parenthesised list (and NOT/OR below depth 1000), so a deeper
    tree is answered NO — the nesting limit of the server, like the 4096-byte limit for strings. -/
theorem cmd_fidelity_search (cfg : Cfg) (tag : Nat) (uid : Bool) (c : Crit) (o : Option SearchOpts) (hok : CritOK c)
    (hnf : CritNF c) (hd : depth c < maxListDepth) :
    roundTrip {} cfg tag (.search uid c o) = .calls (sem cfg (.search uid c o)) := by
  rw [← search_sem cfg uid c o hnf]
  exact search_fidelity cfg tag uid c o hok hd

/-- non-vacuity: `SMALLER 5 FROM "é" SINCE/BEFORE (one day) NOT (LARGER 1 \\Seen) OR (TEXT "x") (UID 1:3,7:*)` -/
def sampleCrit : Crit :=
  .mk { smaller := 5, header := [(str "from", [195, 169])], since := { day := jan1, inst := jan1 + 3600 },
        before := { day := jan1 + 86400, inst := jan1 + 90000 } }
    (.cons (.mk { larger := 1, flags := [[92, 83, 101, 101, 110]] } .nil .nil) .nil)
    (.cons (.mk { text := [str "x"] } .nil .nil) (.mk { uidSets := [.set [⟨1, 3⟩, ⟨7, 0⟩]] } .nil .nil) .nil)

example : depth sampleCrit < maxListDepth := by decide

theorem sample_set_ok : SetOK (.set [⟨1, 3⟩, ⟨7, 0⟩]) ∧ SetNF (.set [⟨1, 3⟩, ⟨7, 0⟩]) ∧ SetLit (.set [⟨1, 3⟩, ⟨7, 0⟩]) := by
  refine ⟨⟨?_, by decide⟩, ?_, ⟨by decide, ?_⟩⟩
  · simp [NumSet.Canon, NumSet.CanonFrom, NumSet.Range.WF, NumSet.W]
  · simp only [SetNF]; decide
  · intro r hr
    simp only [List.mem_cons, List.not_mem_nil, or_false] at hr
    rcases hr with rfl | rfl <;> simp [RangeLit, NumSet.W]

example : CritOK sampleCrit := by
  have hlit := sample_set_ok.2.2
  have hseen : FlagOK [92, 83, 101, 101, 110] := by show isValidFlag _ = true; decide
  simp only [sampleCrit, CritOK, NotsOK, OrsOK, and_true]
  refine ⟨⟨?_, ?_, ?_, ?_, ?_, ?_, ?_, ?_, ?_⟩, ⟨?_, ?_, ?_, ?_, ?_, ?_, ?_, ?_, ?_⟩, ⟨?_, ?_, ?_, ?_, ?_, ?_, ?_, ?_, ?_⟩,
    ⟨?_, ?_, ?_, ?_, ?_, ?_, ?_, ?_, ?_⟩⟩ <;>
    first
    | (intro x hx; simp at hx; done)
    | (intro x hx; simp at hx; subst hx; first | exact hlit | exact hseen | decide)
    | decide

example : CritNF sampleCrit := by
  have hset := sample_set_ok
  simp only [sampleCrit, CritNF, NotsNF, OrsNF, and_true]
  refine ⟨⟨?_, ?_⟩, ⟨?_, ?_⟩, ⟨?_, ?_⟩, ⟨?_, ?_⟩⟩ <;>
    first
    | (intro x hx; simp at hx; done)
    | (intro x hx; simp at hx; subst hx; exact ⟨hset.1, hset.2.1⟩)

example : roundTrip {} {} 7 (.search true sampleCrit (some { count := true, save := true })) =
    .calls (sem {} (.search true sampleCrit (some { count := true, save := true }))) := by
  decide +kernel


/-- FETCH / UID FETCH: the message set and every item — UID, BODY / BODYSTRUCTURE, ENVELOPE, FLAGS, INTERNALDATE,
    RFC822.SIZE, body sections, binary sections and sizes (`FetchOK`: sections within the grammar, no MODSEQ) -/
theorem cmd_fidelity_fetch (cfg : Cfg) (tag : Nat) (uid : Bool) (s : NSet) (o : FetchOpts)
    (hs : SetOK s) (hnf : SetNF s) (ho : FetchOK o) :
    roundTrip {} cfg tag (.fetch uid s o) = .calls (sem cfg (.fetch uid s o)) :=
  fetch_fidelity cfg tag uid s o hs hnf ho

/-- non-vacuity: `BODY.PEEK[1.2.HEADER.FIELDS ("Subject" "é")]<0.4096>`, `BODY[TEXT]`, `BINARY.PEEK[3]<5.10>`, `BINARY.SIZE[]` -/
def sampleFetch : FetchOpts :=
  { bodyStructure := some true, flags := true, size := true,
    sections := [{ spec := .header, part := [1, 2], fields := [str "Subject", [195, 169]], slice := some ⟨0, 4096⟩, peek := true },
                 { spec := .text }],
    binary := [{ part := [3], slice := some ⟨5, 10⟩, peek := true }], binarySize := [[]] }

example : FetchOK sampleFetch := by
  refine ⟨rfl, ?_, ?_, ?_⟩
  · intro b hb
    simp only [sampleFetch, List.mem_cons, List.not_mem_nil, or_false] at hb
    rcases hb with rfl | rfl
    · exact ⟨by intro n hn; simp at hn; rcases hn with rfl | rfl <;> decide, Or.inr rfl, fun _ => rfl,
        by intro h hh; simp at hh; rcases hh with rfl | rfl <;> decide, by simp [SliceOK]⟩
    · exact ⟨by intro n hn; simp at hn, Or.inl rfl, by intro h; simp at h, by intro h hh; simp at hh, trivial⟩
  · intro b hb
    simp only [sampleFetch, List.mem_singleton] at hb
    subst hb
    exact ⟨by intro n hn; simp at hn; subst hn; decide, by simp [SliceOK]⟩
  · intro p hp
    simp only [sampleFetch, List.mem_singleton] at hp
    subst hp
    intro n hn; simp at hn

example : roundTrip {} {} 3 (.fetch true (.set [⟨1, 3⟩, ⟨7, 0⟩]) sampleFetch) =
    .calls (sem {} (.fetch true (.set [⟨1, 3⟩, ⟨7, 0⟩]) sampleFetch)) := by
  decide +kernel


/-! ## any order of the map-ordered items

  `Delivers {} cfg tag c calls`: the writer mirror produces segments for `c`, and EVERY way of writing them
  (`Lin`: the items of a `Seg.anyOrder` segment — what the client takes out of a Go map — in any permutation)
  is read by the server mirror as `calls`.  The four families that have such items: -/

/-- STATUS, any order of the items -/
theorem cmd_delivers_status (cfg : Cfg) (tag : Nat) (m : List Nat) (o : StatusOpts) (hm : MailboxOK m)
    (ho : o.highestModSeq = false) :
    Delivers {} cfg tag (.status m o) (sem cfg (.status m o)) :=
  status_delivers cfg tag m o hm ho

/-- LIST, any order of the items inside RETURN (STATUS (…)) -/
theorem cmd_delivers_list (cfg : Cfg) (tag : Nat) (ref pat : List Nat) (o : ListOpts)
    (hr : MailboxOK ref) (hp : MailboxOK pat) (ho : ListOK o) :
    Delivers {} cfg tag (.list ref [pat] o) (sem cfg (.list ref [pat] o)) :=
  list_delivers cfg tag ref pat o hr hp ho

/-- SEARCH / UID SEARCH, any order of the RETURN options -/
theorem cmd_delivers_search (cfg : Cfg) (tag : Nat) (uid : Bool) (c : Crit) (o : Option SearchOpts) (hok : CritOK c)
    (hnf : CritNF c) (hd : depth c < maxListDepth) :
    Delivers {} cfg tag (.search uid c o) (sem cfg (.search uid c o)) := by
  rw [← search_sem cfg uid c o hnf]
  exact search_delivers cfg tag uid c o hok hd

/-- FETCH / UID FETCH, any order of the scalar items (BODY / BODYSTRUCTURE, ENVELOPE, FLAGS, INTERNALDATE, RFC822.SIZE) -/
theorem cmd_delivers_fetch (cfg : Cfg) (tag : Nat) (uid : Bool) (s : NSet) (o : FetchOpts)
    (hs : SetOK s) (hnf : SetNF s) (ho : FetchOK o) :
    Delivers {} cfg tag (.fetch uid s o) (sem cfg (.fetch uid s o)) :=
  fetch_delivers cfg tag uid s o hs hnf ho

/-- a command without map-ordered items has exactly one written form, so `roundTrip` already speaks for every
    form (here for the commands that are one protocol command with one fixed segment) -/
theorem cmd_delivers_of_round_trip (cfg : Cfg) (tag : Nat) (c : Cmd) (body : Wire) (calls : List Cmd)
    (hw : wBody {} cfg c = .ok [[.fixed body]]) (hr : roundTrip {} cfg tag c = .calls calls) :
    Delivers {} cfg tag c calls :=
  delivers_of_fixed cfg tag c body calls hw hr

/-- e.g. LOGIN -/
example (cfg : Cfg) (tag : Nat) (u p : Str) (hu : strOk u = true) (hp : strOk p = true) :
    Delivers {} cfg tag (.login u p) (sem cfg (.login u p)) :=
  cmd_delivers_of_round_trip cfg tag _ _ _ rfl (cmd_fidelity_login cfg tag u p hu hp)

/-- non-vacuity of `Lin`: `STATUS INBOX (UNSEEN MESSAGES)` is one of the written forms of a call whose listed order
    is `(MESSAGES UNSEEN)` -/
example : Lin [.fixed (kw "STATUS INBOX ("), .anyOrder [kw "MESSAGES", kw "UNSEEN"], .fixed (kw ")")]
    (kw "STATUS INBOX (" ++ (joinSp [kw "UNSEEN", kw "MESSAGES"] ++ (kw ")" ++ []))) :=
  Lin.cons _ _ _ _ (Seg.Lin.fixed _) (Lin.cons _ _ _ _ (Seg.Lin.anyOrder _ _ (List.Perm.swap _ _ _))
    (Lin.cons _ _ _ _ (Seg.Lin.fixed _) Lin.nil))


/-! ## number sets written down as literals

  A caller may hand the client a set it did not build through `AddNum`/`AddRange`: `imap.SeqSet{{Start: 5, Stop: 3},
  {Start: 1, Stop: 4}}` — ranges unsorted, overlapping, adjacent, bounds reversed.  Replayed against the real code
  (the tie generates such sets on every run): the client prints the ranges as they are (`5:3,1:4`); the server's
  `ParseSet` adds them one by one, so the session receives the canonical set `delivSet rs` (= `1:5`).
  `SetLit`: non-empty, 32-bit bounds, `*` as a start only in the lone `*` (`{Start: 0, Stop: 5}` prints as `*`). -/

/-- what the session receives is the canonical set denoting exactly the union of the caller's ranges: its members
    are the numbers of the ranges (bounds in either order), and it contains `*` iff one of the ranges does -/
theorem literal_set_denotation (rs : NumSet.Set) (h : LitOK rs) :
    NumSetSpec.canonical (delivSet rs) = true ∧
    (∀ q, 0 < q → q < NumSet.W → NumSet.contains (delivSet rs) q = rs.any fun r => NumSetSpec.memRange r.start r.stop q) ∧
    NumSet.dynamic (delivSet rs) = rs.any fun r => NumSetSpec.starRange r.start r.stop :=
  delivSet_denotes rs h

/-- a canonical set is delivered as itself -/
theorem literal_set_canonical (s : NSet) (h : SetOK s) : delivN s = s := delivN_canon s h

example : LitOK [⟨5, 3⟩, ⟨1, 4⟩, ⟨9, 0⟩, ⟨7, 7⟩] ∧ delivSet [⟨5, 3⟩, ⟨1, 4⟩, ⟨9, 0⟩, ⟨7, 7⟩] = [⟨1, 5⟩, ⟨7, 7⟩, ⟨9, 0⟩] := by
  refine ⟨⟨by decide, ?_⟩, by decide⟩
  intro r hr
  simp only [List.mem_cons, List.not_mem_nil, or_false] at hr
  rcases hr with rfl | rfl | rfl | rfl <;> simp [RangeLit, NumSet.W]

theorem cmd_fidelity_copy_literal (cfg : Cfg) (tag : Nat) (uid : Bool) (s : NSet) (m : List Nat) (hs : SetLit s) (hm : MailboxOK m) :
    roundTrip {} cfg tag (.copy uid s m) = .calls [.copy uid (delivN s) (canonMailbox m)] :=
  copy_reads cfg tag uid s _ m (setReads_lit s hs) hm

theorem cmd_fidelity_move_literal (cfg : Cfg) (tag : Nat) (uid : Bool) (s : NSet) (m : List Nat) (hs : SetLit s) (hm : MailboxOK m)
    (hmove : cfg.hasMove = true) :
    roundTrip {} cfg tag (.move uid s m) = .calls [.move uid (delivN s) (canonMailbox m)] :=
  move_reads cfg tag uid s _ m (setReads_lit s hs) hm hmove

theorem cmd_fidelity_move_emulated_literal (cfg : Cfg) (tag : Nat) (uid : Bool) (s : NSet) (m : List Nat) (hs : SetLit s)
    (hm : MailboxOK m) (hmove : cfg.hasMove = false) :
    roundTrip {} cfg tag (.move uid s m) =
      .calls [.copy uid (delivN s) (canonMailbox m), .store uid (delivN s) 1 true [deletedFlag],
              .expunge (if uid && cfg.hasUidPlus then some (delivN s) else none)] :=
  move_fallback_reads cfg tag uid s _ m (setReads_lit s hs) hm hmove

theorem cmd_fidelity_store_literal (cfg : Cfg) (tag : Nat) (uid : Bool) (s : NSet) (op : Nat) (silent : Bool) (flags : List Str)
    (hs : SetLit s) (hop : op ≤ 2) (hf : ∀ f ∈ flags, FlagOK f) :
    roundTrip {} cfg tag (.store uid s op silent flags) = .calls [.store uid (delivN s) op silent (flags.map canonFlag)] :=
  store_reads cfg tag uid s _ op silent flags (setReads_lit s hs) hop hf

theorem cmd_fidelity_uid_expunge_literal (cfg : Cfg) (tag : Nat) (s : NSet) (hs : SetLit s) :
    roundTrip {} cfg tag (.expunge (some s)) = .calls [.expunge (some (delivN s))] :=
  uidExpunge_reads cfg tag s _ (setReads_lit s hs)

/-- FETCH with a literal set, any order of the scalar items -/
theorem cmd_delivers_fetch_literal (cfg : Cfg) (tag : Nat) (uid : Bool) (s : NSet) (o : FetchOpts) (hs : SetLit s) (ho : FetchOK o) :
    Delivers {} cfg tag (.fetch uid s o) [.fetch uid (delivN s) { o with uid := o.uid || uid }] :=
  fetch_reads cfg tag uid s _ o (setReads_lit s hs) ho

/-- SEARCH whose criteria carry literal sets (anywhere in the tree), any order of the RETURN options: the criteria
    arrive in canonical form with every set as delivered (`delivCrit`) -/
theorem cmd_delivers_search_literal (cfg : Cfg) (tag : Nat) (uid : Bool) (c : Crit) (o : Option SearchOpts) (hok : CritOK c)
    (hd : depth c < maxListDepth) :
    Delivers {} cfg tag (.search uid c o) [.search uid (delivCrit c) (canonSearchOpts o)] :=
  search_delivers cfg tag uid c o hok hd

/-! ## the specification's normal form of a literal set is the delivered set

  `sem` normalises a set with its own interval normal form (`normSet`: bounds ordered, `*` = 2^32 above every number,
  sorted by lower bound, overlapping or adjacent intervals merged).  For a literal set this is the set the server's
  `ParseSet` builds — with one exception, found by evaluating both sides: next to a lone `*`, a range that ends in
  4294967295 stays `n:4294967295,*` in the parser's set (`Range.Merge` never merges the lone `*`), while the interval
  normal form writes `n:*`.  Both denote the same messages; `TopOK` excludes exactly that shape: some range is `n:*`,
  or no range is the lone `*`, or no bound is 4294967295. -/

/-- the interval normal form of the caller's ranges equals the set `ParseSet` builds from their printed form -/
theorem normSet_eq_delivSet (rs : NumSet.Set) (h : LitOK rs) (ht : TopOK rs = true) : normSet rs = delivSet rs :=
  normSet_eq_delivSet_of rs h ht

/-- the side condition is exact: the two normal forms of a literal set agree iff `TopOK` holds -/
theorem normSet_eq_delivSet_iff (rs : NumSet.Set) (h : LitOK rs) : normSet rs = delivSet rs ↔ TopOK rs = true :=
  ⟨topOK_of_eq rs h, normSet_eq_delivSet_of rs h⟩

/-- the side condition holds for an unsorted, overlapping, reversed set with a lone `*`, an `n:*` and a bound 2^32-1 -/
example : LitOK [⟨5, 3⟩, ⟨0, 0⟩, ⟨1, 4⟩, ⟨9, 0⟩, ⟨7, 7⟩, ⟨4294967295, 12⟩] ∧
    TopOK [⟨5, 3⟩, ⟨0, 0⟩, ⟨1, 4⟩, ⟨9, 0⟩, ⟨7, 7⟩, ⟨4294967295, 12⟩] = true ∧
    normSet [⟨5, 3⟩, ⟨0, 0⟩, ⟨1, 4⟩, ⟨9, 0⟩, ⟨7, 7⟩, ⟨4294967295, 12⟩] = [⟨1, 5⟩, ⟨7, 7⟩, ⟨9, 0⟩] := by
  refine ⟨⟨by decide, ?_⟩, by decide, by decide⟩
  intro r hr
  simp only [List.mem_cons, List.not_mem_nil, or_false] at hr
  rcases hr with rfl | rfl | rfl | rfl | rfl | rfl <;> simp [RangeLit, NumSet.W]

/-- … and for one with the lone `*` only -/
example : TopOK [⟨0, 0⟩, ⟨5, 3⟩, ⟨4, 8⟩] = true ∧ normSet [⟨0, 0⟩, ⟨5, 3⟩, ⟨4, 8⟩] = [⟨3, 8⟩, ⟨0, 0⟩] := by decide

/-- without the side condition the two normal forms differ (same members, different lists) -/
theorem normSet_top_counterexample :
    TopOK [⟨3, 4294967295⟩, ⟨0, 0⟩] = false ∧ normSet [⟨3, 4294967295⟩, ⟨0, 0⟩] = [⟨3, 0⟩] ∧
    delivSet [⟨3, 4294967295⟩, ⟨0, 0⟩] = [⟨3, 4294967295⟩, ⟨0, 0⟩] := by decide

/-- what the session receives for a literal set argument is `sem`'s normal form of it -/
theorem literal_set_sem (s : NSet) (h : SetLit s) (ht : SetTop s) : delivN s = canonNSet s := delivN_eq_canonNSet s h ht

/-- a canonical set is in the specification's normal form: `SetNF` in the `sem` theorems above follows from `SetOK`
    unless the set ends in `n:4294967295,*` -/
theorem canonical_set_nf (s : NSet) (h : SetOK s) (ht : SetTop s) : SetNF s := setNF_of_ok s h ht

theorem cmd_fidelity_copy_literal_sem (cfg : Cfg) (tag : Nat) (uid : Bool) (s : NSet) (m : List Nat)
    (hs : SetLit s) (ht : SetTop s) (hm : MailboxOK m) :
    roundTrip {} cfg tag (.copy uid s m) = .calls (sem cfg (.copy uid s m)) := by
  rw [cmd_fidelity_copy_literal cfg tag uid s m hs hm, delivN_eq_canonNSet s hs ht]; rfl

theorem cmd_fidelity_move_literal_sem (cfg : Cfg) (tag : Nat) (uid : Bool) (s : NSet) (m : List Nat)
    (hs : SetLit s) (ht : SetTop s) (hm : MailboxOK m) (hmove : cfg.hasMove = true) :
    roundTrip {} cfg tag (.move uid s m) = .calls (sem cfg (.move uid s m)) := by
  rw [cmd_fidelity_move_literal cfg tag uid s m hs hm hmove, delivN_eq_canonNSet s hs ht]
  simp [sem, semRaw, canon, hmove]

theorem cmd_fidelity_move_emulated_literal_sem (cfg : Cfg) (tag : Nat) (uid : Bool) (s : NSet) (m : List Nat)
    (hs : SetLit s) (ht : SetTop s) (hm : MailboxOK m) (hmove : cfg.hasMove = false) :
    roundTrip {} cfg tag (.move uid s m) = .calls (sem cfg (.move uid s m)) := by
  rw [cmd_fidelity_move_emulated_literal cfg tag uid s m hs hm hmove, delivN_eq_canonNSet s hs ht]
  cases hx : (uid && cfg.hasUidPlus) <;> simp [sem, semRaw, canon, hmove, hx] <;> decide

theorem cmd_fidelity_store_literal_sem (cfg : Cfg) (tag : Nat) (uid : Bool) (s : NSet) (op : Nat) (silent : Bool)
    (flags : List Str) (hs : SetLit s) (ht : SetTop s) (hop : op ≤ 2) (hf : ∀ f ∈ flags, FlagOK f) :
    roundTrip {} cfg tag (.store uid s op silent flags) = .calls (sem cfg (.store uid s op silent flags)) := by
  rw [cmd_fidelity_store_literal cfg tag uid s op silent flags hs hop hf, delivN_eq_canonNSet s hs ht]; rfl

theorem cmd_fidelity_uid_expunge_literal_sem (cfg : Cfg) (tag : Nat) (s : NSet) (hs : SetLit s) (ht : SetTop s) :
    roundTrip {} cfg tag (.expunge (some s)) = .calls (sem cfg (.expunge (some s))) := by
  rw [cmd_fidelity_uid_expunge_literal cfg tag s hs, delivN_eq_canonNSet s hs ht]; rfl

/-- FETCH with a literal set, any order of the scalar items -/
theorem cmd_delivers_fetch_literal_sem (cfg : Cfg) (tag : Nat) (uid : Bool) (s : NSet) (o : FetchOpts)
    (hs : SetLit s) (ht : SetTop s) (ho : FetchOK o) :
    Delivers {} cfg tag (.fetch uid s o) (sem cfg (.fetch uid s o)) := by
  have := cmd_delivers_fetch_literal cfg tag uid s o hs ho
  rw [delivN_eq_canonNSet s hs ht] at this
  cases uid <;> simpa [sem, semRaw, canon] using this

end GoImap.C02
