/-
  C11 — the client never panics or blows up on arbitrary server bytes.
  (first theorems; the header is completed with the phase-2 theorems)
-/
import GoImap.Model.ClientParse
namespace GoImap.C11
open GoImap GoImap.ClientParse

/-- `* SEARCH 0 3` + `T1 OK d` -/
def searchZero : Bytes := [42,32,83,69,65,82,67,72,32,48,32,51,13,10,84,49,32,79,75,32,100,13,10]

/-- The repaired client reports `* SEARCH 0 3` as an error. -/
theorem search_zero_is_error : (clientParse {} [84,49] (.search false) searchZero).cmd = "err" := by
  decide +kernel

/-- Before the repair the command succeeded, the result set contained `*` (0), and the accessor
    `AllSeqNums` panicked in the caller. -/
theorem legacy_search_zero_counterexample :
    (Legacy.clientParse [84,49] (.search false) searchZero).cmd = "ok" ∧
    (Legacy.clientParse [84,49] (.search false) searchZero).all = some [⟨3,3⟩,⟨0,0⟩] ∧
    (allNums [⟨3,3⟩,⟨0,0⟩]).isPanic = true := by
  refine ⟨by decide +kernel, by decide +kernel, by decide +kernel⟩

/-- Entering a level of nesting succeeds only below the limit. -/
theorem enter_ok_lt (depth : Nat) (d d' : Dec) (dp : Nat) (h : enter depth d = .ok dp d') :
    dp = depth + 1 ∧ dp < maxListDepth := by
  unfold enter at h
  by_cases c : depth + 1 ≥ maxListDepth
  · simp [c] at h
  · simp [c] at h
    omega

end GoImap.C11
