/-
  C11 — the client never panics or blows up on arbitrary server bytes.

  The theorems are about `GoImap.ClientParse` (Model/ClientParse.lean), the mirror of the client's
  response reader for status responses and their codes (COPYUID, APPENDUID, …), CAPABILITY,
  ENABLED, EXISTS/RECENT/EXPUNGE, SEARCH, ESEARCH, SORT, THREAD and FETCH (UID, RFC822.SIZE,
  MODSEQ, FLAGS, ENVELOPE, BODY/BODYSTRUCTURE).  `clientParse {}` is the repaired reader,
  `Legacy.clientParse` the one before the repairs.  Helper lemmas: Lemmas/ClientParseHoare.lean
  (a Hoare logic over the parser monad: invariants), ClientParseFuel.lean (remaining input vs fuel),
  ClientParseCostAll.lean / ClientParseCost.lean (potential argument for the ghost cost) and
  ClientParseInvalid.lean (reader-level error facts).

  Proved, for every input (no bound on its length or nesting):
    fuel_suffices             the model's recursion fuel never runs out (any configuration): every
                              statement below is about a real outcome of the reader
    parse_no_panic            the reader never reaches the one panic site of the decoder
                              (UnreadByte without a preceding ReadByte)
    depth_bounded             the nesting ghost never exceeds the decoder's limit
    delivered_depth_bounded   no tree handed to the caller (body structure, thread tree) is deeper
                              than the limit
    delivered_nonzero         every message number handed over is a non-zero 32-bit number
    delivered_sets_static     SEARCH/ESEARCH/COPYUID sets handed over are canonical, without "*"
    invalid_is_error          the above as one statement, together with the reader-level facts
                              behind it: 0 / "*" / one nesting level too many / a number out of
                              range / a literal with a malformed header are answered with an
                              error by the reader that meets them, in whatever state
    accessors_no_panic        AllSeqNums/AllUIDs/Nums do not panic on what was handed over
    cost_linear               ghost cost (byte reads) of the whole client ≤ 61·|input| + 41;
                              readResponse_cost_linear per response; sortLoop/searchLoop with
                              tighter constants (4·|input| + c)
    nums_length_is_cardinality / accessor_cost_not_bounded_by_input
                              the enumerating accessor returns exactly `card s` numbers, and a
                              52-byte response exists whose set has 4294967295 members (the
                              machine-checked form of finding F25)
    enter_ok_lt               a level of nesting is entered only below the limit
  Concrete streams (zero, "*", overflow, nesting, malformed literal are answered with an error)
  and the `Legacy` counterexamples for every repaired defect are proved by kernel evaluation; they
  are instances of `invalid_is_error`, not derived from it.

  Validated by the oracle on every run, not proved: the tie between the model and the Go code;
  panics below the modelled interface (mime/net/mail/go-message/utf7); real time and memory
  (measured); the readers outside the model (LIST, STATUS, QUOTA, METADATA, NAMESPACE, body
  section literals).
-/
import GoImap.Model.ClientParse
import GoImap.Lemmas.ClientParseHoare
import GoImap.Lemmas.ClientParseCost
import GoImap.Lemmas.ClientParseFuel
import GoImap.Lemmas.ClientParseInvalid
import GoImap.Lemmas.ClientParseCostAll
namespace GoImap.C11
open GoImap GoImap.ClientParse

/-! ### for every input: no panic, bounded depth, nothing invalid handed over -/

/-- The state the read loop ends in satisfies the invariant, and the loop did not panic. -/
theorem clientParse_good (tag : Bytes) (kind : Kind) (inp : Bytes) :
    (clientParse {} tag kind inp).dec ≠ .panic ∧
    (clientParse {} tag kind inp).maxDepth ≤ maxListDepth ∧
    (∀ n ∈ (clientParse {} tag kind inp).delivered, n ≠ 0 ∧ n < NumSet.W) ∧
    (∀ s, (clientParse {} tag kind inp).all = some s → StaticSet s) ∧
    (∀ s, (clientParse {} tag kind inp).src = some s → StaticSet s) ∧
    (∀ s, (clientParse {} tag kind inp).dst = some s → StaticSet s) ∧
    (clientParse {} tag kind inp).deliveredDepth ≤ maxListDepth := by
  have h := readLoop_good (2 * inp.length + 8) (inp.length + 2) _ (good_init tag kind inp)
  unfold clientParse
  simp only []
  refine ⟨h.1, h.2.2, h.2.1.nz, ?_, h.2.1.src, h.2.1.dst, h.2.1.dd⟩
  intro s hs
  cases hall : (readLoop (2 * inp.length + 8) {} (inp.length + 2)
      { inp := inp, cs := initCS tag kind, cfg := {} }).2.cs.sAll with
  | none => rw [hall] at hs; cases hs
  | some us =>
    rw [hall] at hs
    simp only [Option.map_some, Option.some.injEq] at hs
    rw [← hs]
    exact h.2.1.all us.1 us.2 (by rw [hall])

/-- **parse_no_panic.** No byte sequence makes the reader panic. -/
theorem parse_no_panic (tag : Bytes) (kind : Kind) (inp : Bytes) :
    (clientParse {} tag kind inp).dec ≠ .panic :=
  (clientParse_good tag kind inp).1

/-- **fuel_suffices.** The model's recursion fuel (`2·|input| + 8`, and `|input| + 2` responses)
    never runs out, for the repaired reader and for `Legacy` alike: every other theorem here
    speaks about a real outcome of the reader, not about a fuel artefact. -/
theorem fuel_suffices (cfg : Cfg) (tag : Bytes) (kind : Kind) (inp : Bytes) :
    (clientParse cfg tag kind inp).dec ≠ .nofuel :=
  clientParse_fuel cfg tag kind inp

/-- **depth_bounded.** Whatever the input, nesting never goes beyond the decoder's limit. -/
theorem depth_bounded (tag : Bytes) (kind : Kind) (inp : Bytes) :
    (clientParse {} tag kind inp).maxDepth ≤ maxListDepth :=
  (clientParse_good tag kind inp).2.1

/-- **invalid_is_error (numbers).** A message number 0 is never handed to the caller (SORT and
    THREAD results, FETCH and EXPUNGE sequence numbers): the response carrying it is an error. -/
theorem delivered_nonzero (tag : Bytes) (kind : Kind) (inp : Bytes) :
    ∀ n ∈ (clientParse {} tag kind inp).delivered, n ≠ 0 ∧ n < NumSet.W :=
  (clientParse_good tag kind inp).2.2.1

/-- **invalid_is_error (sets).** A set handed to the caller (SEARCH / ESEARCH ALL result,
    COPYUID source and destination) is canonical and not open-ended. -/
theorem delivered_sets_static (tag : Bytes) (kind : Kind) (inp : Bytes) (s : NumSet.Set)
    (h : (clientParse {} tag kind inp).all = some s ∨ (clientParse {} tag kind inp).src = some s ∨
      (clientParse {} tag kind inp).dst = some s) : StaticSet s := by
  have g := clientParse_good tag kind inp
  rcases h with h | h | h
  · exact g.2.2.2.1 s h
  · exact g.2.2.2.2.1 s h
  · exact g.2.2.2.2.2.1 s h

/-- **delivered_depth_bounded.** Every tree handed to the caller (body structures, thread trees)
    is at most as deep as the decoder's limit — not only the recursion that built it. -/
theorem delivered_depth_bounded (tag : Bytes) (kind : Kind) (inp : Bytes) :
    (clientParse {} tag kind inp).deliveredDepth ≤ maxListDepth :=
  (clientParse_good tag kind inp).2.2.2.2.2.2

theorem allNums_static (s : NumSet.Set) (h : StaticSet s) :
    allNums s = .value (NumSetSpec.enumerate s) := by
  unfold allNums
  rw [NumSet.nums_eq_enumerate s (NumSet.canon_allStatic s 0 h.1 h.2)]

/-- **accessors_no_panic.** `SearchData.AllSeqNums` / `AllUIDs` (and `Nums` on the COPYUID sets)
    do not panic on anything the reader hands over. -/
theorem accessors_no_panic (tag : Bytes) (kind : Kind) (inp : Bytes) (s : NumSet.Set)
    (h : (clientParse {} tag kind inp).all = some s ∨ (clientParse {} tag kind inp).src = some s ∨
      (clientParse {} tag kind inp).dst = some s) : (allNums s).isPanic = false := by
  rw [allNums_static s (delivered_sets_static tag kind inp s h)]
  rfl

example : StaticSet [⟨1, 3⟩, ⟨7, 7⟩] := ⟨(NumSet.canonical_iff _).1 (by decide), by decide⟩

/-- Entering a level of nesting succeeds only below the limit. -/
theorem enter_ok_lt (depth : Nat) (d d' : Dec) (dp : Nat) (h : enter depth d = .ok dp d') :
    dp = depth + 1 ∧ dp < maxListDepth := by
  unfold enter at h
  by_cases c : depth + 1 ≥ maxListDepth
  · simp [c] at h
  · simp [c] at h
    omega

/-! ### the enumerating accessor: exactly `card s` numbers, not bounded by the input -/

/-- the number of members of a static set, computed from its ranges -/
def card (s : NumSet.Set) : Nat := (s.map fun r => r.stop + 1 - r.start).sum

theorem enumerate_length (s : NumSet.Set) : (NumSetSpec.enumerate s).length = card s := by
  induction s with
  | nil => rfl
  | cons r rest ih =>
    rw [NumSet.enumerate_cons, List.length_append, List.length_range', ih]
    simp [card]

/-- **accessor_cost.** On a delivered set the enumerating accessor returns exactly `card s`
    numbers: its cost is the cardinality of the set, whatever the size of the response was. -/
theorem nums_length_is_cardinality (s : NumSet.Set) (h : StaticSet s) :
    ∃ l, allNums s = .value l ∧ l.length = card s :=
  ⟨_, allNums_static s h, enumerate_length s⟩

/-- `* ESEARCH (TAG "T1") UID ALL 1:4294967295` + `T1 OK d` -/
def wideRange : Bytes :=
  [42,32,69,83,69,65,82,67,72,32,40,84,65,71,32,34,84,49,34,41,32,85,73,68,32,65,76,76,32,
   49,58,52,50,57,52,57,54,55,50,57,53,13,10,84,49,32,79,75,32,100,13,10]

/-- **F25, machine-checked.** A 52-byte stream is accepted, and the set it delivers has
    4294967295 members: the enumerating accessors are not linear in the input (by design of the
    API; recorded as a known finding, not repaired). -/
theorem accessor_cost_not_bounded_by_input :
    wideRange.length = 52 ∧
    (clientParse {} [84,49] (.search true) wideRange).cmd = "ok" ∧
    (clientParse {} [84,49] (.search true) wideRange).all = some [⟨1, 4294967295⟩] ∧
    card [⟨1, 4294967295⟩] = 4294967295 := by
  refine ⟨by decide, by decide +kernel, by decide +kernel, by decide⟩

/-! ### ghost cost -/

/-- **cost_linear.** Whatever the stream, the whole client (every modelled reader: status
    responses and their codes, SEARCH, ESEARCH, SORT, THREAD, FETCH with FLAGS / ENVELOPE /
    BODYSTRUCTURE, …, and the read loop around them) performs at most 61 byte reads per input
    byte plus a constant.  Holds for the repaired reader and for `Legacy` alike. -/
theorem cost_linear (cfg : Cfg) (tag : Bytes) (kind : Kind) (inp : Bytes) :
    (clientParse cfg tag kind inp).cost ≤ 61 * inp.length + 41 :=
  clientParse_cost cfg tag kind inp

/-- one response, from any decoder state: at most 20 reads per byte it consumes plus 40
    (`Phi20 d = d.cost + 20·|d.inp|`) -/
theorem readResponse_cost_linear (fuel : Nat) (cfg : Cfg) (d d' : Dec)
    (h : readResponse fuel cfg d = .ok () d' ∨ readResponse fuel cfg d = .err d') :
    d'.cost + 20 * d'.inp.length ≤ d.cost + 20 * d.inp.length + 40 := by
  have := (ct_readResponse fuel cfg).run d
  rcases h with h | h <;> rw [h] at this <;> simp only [CTPost, Phi20] at this <;> omega

/-! ### ghost cost of the number-list readers, with a tighter constant -/

/-- **cost_linear (SORT).** Reading a SORT response costs at most four byte reads per input
    byte, plus a constant: descending numbers are not expensive to *read* (F27 is about what
    `AddNum` does with them afterwards). -/
theorem sortLoop_cost_linear (fuel : Nat) (d d' : Dec)
    (h : sortLoop true fuel d = .ok () d' ∨ sortLoop true fuel d = .err d') :
    d'.cost ≤ d.cost + 4 * d.inp.length + 3 :=
  sortLoop_cost fuel d d' h

/-- **cost_linear (SEARCH).** The same for `* SEARCH n n n … [(MODSEQ n)]`. -/
theorem searchLoop_cost_linear (fuel : Nat) (d d' : Dec)
    (h : searchLoop true fuel d = .ok () d' ∨ searchLoop true fuel d = .err d') :
    d'.cost ≤ d.cost + 4 * d.inp.length + 8 :=
  searchLoop_cost fuel d d' h

/-! ### invalid_is_error, as one statement -/

/-- **invalid_is_error.**  For every input, the repaired reader ends in a real outcome (no panic,
    no fuel artefact) and hands over nothing that violates a protocol invariant:
    every message number handed over is a non-zero 32-bit number; every set handed over
    (SEARCH / ESEARCH ALL, COPYUID) is canonical and without "*"; no tree handed over, and no
    recursion, is deeper than the decoder's limit.  And this is so because each reader answers the
    offending element with an error, whatever state it is in: a 0 in SORT / SEARCH / THREAD /
    FETCH, a "*" in a COPYUID set, one level of nesting too many, a number that does not fit
    (an accepted number is always in range), a literal with a malformed header (in an astring
    and in a discarded value).  The concrete streams below are instances. -/
theorem invalid_is_error :
    -- nothing invalid is handed over, whatever the input
    (∀ (tag : Bytes) (kind : Kind) (inp : Bytes),
      (clientParse {} tag kind inp).dec ≠ .panic ∧ (clientParse {} tag kind inp).dec ≠ .nofuel ∧
      (∀ n ∈ (clientParse {} tag kind inp).delivered, n ≠ 0 ∧ n < NumSet.W) ∧
      (∀ s, ((clientParse {} tag kind inp).all = some s ∨ (clientParse {} tag kind inp).src = some s ∨
          (clientParse {} tag kind inp).dst = some s) → StaticSet s) ∧
      (clientParse {} tag kind inp).deliveredDepth ≤ maxListDepth ∧
      (clientParse {} tag kind inp).maxDepth ≤ maxListDepth) ∧
    -- message number 0 is an error in every reader
    (∀ fuel d d1 d2, sp d = .ok true d1 → expectNumber d1 = .ok 0 d2 → sortLoop true (fuel + 1) d = .err d2) ∧
    (∀ fuel d d1 d2 d3, sp d = .ok true d1 → special 40 d1 = .ok false d2 → expectNumber d2 = .ok 0 d3 →
      searchLoop true (fuel + 1) d = .err d3) ∧
    (∀ sub t d d1, t.hasSub = false → number d = .ok (some 0) d1 → threadItem true sub t d = .err d1) ∧
    (∀ fuel d, handleFetch fuel {} 0 d = .err d) ∧
    -- an open-ended set is an error
    (∀ d d1 d2 d3 d4 d5 v b1 b2 s t, expectNumber d = .ok v d1 → expectSP d1 = .ok () d2 →
      expectNumSet d2 = .ok (b1, s) d3 → expectSP d3 = .ok () d4 → expectNumSet d4 = .ok (b2, t) d5 →
      (b1 || b2) = true → readCopyUID d = .err d5) ∧
    -- one level of nesting too many is an error
    (∀ depth d, maxListDepth ≤ depth + 1 → ∃ d', enter depth d = .err d') ∧
    -- a number that is accepted fits its type
    (∀ d d' n, expectNumber d = .ok n d' → n < 4294967296) ∧
    (∀ d d' n, expectNumber64 d = .ok n d' → n < 9223372036854775808) ∧
    (∀ d d' n, expectModSeq d = .ok n d' → n < 18446744073709551616) ∧
    -- a literal with a malformed header is an error
    (∀ d d1 d', special 123 d = .ok true d1 → literal d = .ok none d' → d'.errSet = true) ∧
    (∀ d d1 d2, quoted d = .ok none d1 → literal d1 = .ok none d2 → d2.errSet = true →
      d2.cfg.strictLiteral = true → expectAString d = .err d2) ∧
    (∀ fuel depth d d1, string d = .ok none d1 → d1.errSet = true → d1.cfg.strictLiteral = true →
      discardValue (fuel + 1) depth d = .err d1) := by
  refine ⟨?_, sortLoop_zero, searchLoop_zero, threadItem_zero, handleFetch_zero, readCopyUID_dynamic,
    enter_limit, expectNumber_range, expectNumber64_range, expectModSeq_range, literal_soft,
    expectAString_badLiteral, discardValue_badLiteral⟩
  intro tag kind inp
  have g := clientParse_good tag kind inp
  refine ⟨g.1, fuel_suffices {} tag kind inp, g.2.2.1, ?_, g.2.2.2.2.2.2, g.2.1⟩
  intro s hs
  exact delivered_sets_static tag kind inp s hs

/-! ### instances of `invalid_is_error`, and the behaviour before the repairs -/

/-- `* SEARCH 0 3` + `T1 OK d` -/
def searchZero : Bytes := [42,32,83,69,65,82,67,72,32,48,32,51,13,10,84,49,32,79,75,32,100,13,10]

/-- The repaired client reports `* SEARCH 0 3` as an error. -/
theorem search_zero_is_error : (clientParse {} [84,49] (.search false) searchZero).cmd = "err" := by
  decide +kernel

/-- Before the repair (F17) the command succeeded, the result set contained `*` (0), and the
    accessor `AllSeqNums` panicked in the caller. -/
theorem legacy_search_zero_counterexample :
    (Legacy.clientParse [84,49] (.search false) searchZero).cmd = "ok" ∧
    (Legacy.clientParse [84,49] (.search false) searchZero).all = some [⟨3,3⟩,⟨0,0⟩] ∧
    (allNums [⟨3,3⟩,⟨0,0⟩]).isPanic = true := by
  refine ⟨by decide +kernel, by decide +kernel, by decide +kernel⟩

/-- `* SORT 2 0 1` + `T1 OK d` -/
def sortZero : Bytes := [42,32,83,79,82,84,32,50,32,48,32,49,13,10,84,49,32,79,75,32,100,13,10]

theorem sort_zero_is_error : (clientParse {} [84,49] .sort sortZero).cmd = "err" := by decide +kernel

/-- F17 for SORT: 0 was handed over as a message number. -/
theorem legacy_sort_zero_counterexample :
    (Legacy.clientParse [84,49] .sort sortZero).cmd = "ok" ∧
    0 ∈ (Legacy.clientParse [84,49] .sort sortZero).delivered := by
  refine ⟨by decide +kernel, by decide +kernel⟩

/-- `* 0 FETCH (UID 5)` + `T1 OK d` -/
def fetchZero : Bytes := [42,32,48,32,70,69,84,67,72,32,40,85,73,68,32,53,41,13,10,84,49,32,79,75,32,100,13,10]

theorem fetch_zero_is_error : (clientParse {} [84,49] (.fetch true [⟨1,0⟩]) fetchZero).cmd = "err" := by
  decide +kernel

/-- F17b: a UID FETCH received message 0. -/
theorem legacy_fetch_zero_counterexample :
    (Legacy.clientParse [84,49] (.fetch true [⟨1,0⟩]) fetchZero).cmd = "ok" ∧
    0 ∈ (Legacy.clientParse [84,49] (.fetch true [⟨1,0⟩]) fetchZero).delivered := by
  refine ⟨by decide +kernel, by decide +kernel⟩

/-- `* ESEARCH (TAG "T1") ALL 1:*` + `T1 OK d` -/
def esearchStar : Bytes :=
  [42,32,69,83,69,65,82,67,72,32,40,84,65,71,32,34,84,49,34,41,32,65,76,76,32,49,58,42,13,10,84,49,32,79,75,32,100,13,10]

/-- An open-ended set in a result is an error. -/
theorem esearch_dynamic_is_error : (clientParse {} [84,49] (.search false) esearchStar).cmd = "err" := by
  decide +kernel

/-- `* SEARCH 4294967296` + `T1 OK d`: a number that does not fit 32 bits -/
def searchOverflow : Bytes :=
  [42,32,83,69,65,82,67,72,32,52,50,57,52,57,54,55,50,57,54,13,10,84,49,32,79,75,32,100,13,10]

theorem overflow_is_error : (clientParse {} [84,49] (.search false) searchOverflow).cmd = "err" := by
  decide +kernel

/-- `* ESEARCH (TAG {5}T1) ALL 1:3` + `T1 OK d`: a literal whose header is not followed by CRLF -/
def badLiteralTag : Bytes :=
  [42,32,69,83,69,65,82,67,72,32,40,84,65,71,32,123,53,125,84,49,41,32,65,76,76,32,49,58,51,13,10,84,49,32,79,75,32,100,13,10]

theorem malformed_literal_is_error : (clientParse {} [84,49] (.search false) badLiteralTag).cmd = "err" := by
  decide +kernel

/-- F60: before the repair the malformed literal was skipped, the following bytes were read as
    an atom, and the response was delivered. -/
theorem legacy_malformed_literal_counterexample :
    (Legacy.clientParse [84,49] (.search false) badLiteralTag).cmd = "ok" ∧
    (Legacy.clientParse [84,49] (.search false) badLiteralTag).all = some [⟨1,3⟩] := by
  refine ⟨by decide +kernel, by decide +kernel⟩

/-- `* 1 FETCH (BODYSTRUCTURE ` followed by `n` opening parentheses -/
def deepBody (n : Nat) : Bytes :=
  [42,32,49,32,70,69,84,67,72,32,40,66,79,68,89,83,84,82,85,67,84,85,82,69,32] ++ List.replicate n 40

/-- Nesting beyond the limit is an error, reached at the limit. -/
theorem overdeep_is_error :
    (clientParse {} [84,49] (.fetch false [⟨1,0⟩]) (deepBody 1003)).dec = .err ∧
    (clientParse {} [84,49] (.fetch false [⟨1,0⟩]) (deepBody 1003)).maxDepth = maxListDepth := by
  refine ⟨by decide +kernel, by decide +kernel⟩

/-- F16: before the repair `readBody` recursed once per parenthesis without any limit (the
    Go stack is what gave way). -/
theorem legacy_depth_counterexample :
    (Legacy.clientParse [84,49] (.fetch false [⟨1,0⟩]) (deepBody 1003)).maxDepth > maxListDepth + 2 := by
  decide +kernel

end GoImap.C11
