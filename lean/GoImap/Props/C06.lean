import GoImap.Model.Framing
/-
  C06 — the server survives arbitrary input and disconnects, cleaning up exactly once.

  Proved here (about Model/Framing.lean):
    * literal_buffers_at_most_4096   Decoder.Literal with the server's check buffers n octets only if n ≤ 4096
    * raw_line_within_input          a raw SASL/DONE line never consumes more than the stream holds
  Validated by the oracle on every run, not proved: no panic report in the server log, the session
  closed exactly once, the connection dropped from Server.conns and the goroutine count back to its
  baseline after the client left (every corpus transcript cut at every offset), survival of the
  depth probes in a child process with a 16 MiB stack.
-/
namespace GoImap.C06
open GoImap.Framing

/-- whatever Decoder.Literal hands back was announced with at most 4096 octets -/
theorem literal_buffers_at_most_4096 (cfg : Cfg) (s : S) (v : List Nat) (s' : S)
    (h : s.literal cfg = (some v, s')) : v.length ≤ 4096 := by
  unfold S.literal at h
  split at h
  · simp at h
  · rename_i n ns s1 _
    split at h
    · split at h <;> simp at h
    · rename_i s2 hc
      simp only [Prod.mk.injEq, Option.some.injEq] at h
      have hn : n ≤ 4096 := by
        unfold checkBufferedLiteral at hc
        by_cases hgt : n > maxBuffered
        · simp [hgt] at hc
        · simpa [maxBuffered] using hgt
      have hv : v = (s2.payload n).1 := h.1.symm
      subst hv
      simp only [S.payload, List.length_take]
      omega

private theorem tw_le (p : Nat → Bool) (l : List Nat) : (l.takeWhile p).length ≤ l.length := by
  induction l with
  | nil => simp
  | cons a t ih => simp only [List.takeWhile_cons]; split <;> simp <;> omega

/-- a raw line is taken from the stream: it never consumes more octets than there are -/
theorem raw_line_within_input (fx : Fixes) (inp line : List Nat) (long : Bool) (k : Nat) (e : Bool)
    (h : rawLine fx inp = some (line, long, k, e)) : k ≤ inp.length := by
  unfold rawLine at h
  have hb := tw_le (· != 10) inp
  generalize inp.takeWhile (· != 10) = body at h hb
  simp only at h
  split at h
  · split at h
    · simp at h
    · simp only [Option.some.injEq, Prod.mk.injEq] at h
      omega
  · rename_i hne
    have hlt : body.length < inp.length := by
      have : body.length ≠ inp.length := by simpa using hne
      omega
    split at h
    · simp only [Option.some.injEq, Prod.mk.injEq] at h
      omega
    · split at h
      · simp only [Option.some.injEq, Prod.mk.injEq] at h
        omega
      · simp only [Option.some.injEq, Prod.mk.injEq] at h
        split at h <;> omega

end GoImap.C06
