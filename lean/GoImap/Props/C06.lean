import GoImap.Model.Framing
import GoImap.Lemmas.FramingEvs
import GoImap.Lemmas.FramingDepth
/-
  C06 — the server survives arbitrary input and disconnects, cleaning up exactly once.
  All statements are about `Framing.serve cfg inp` (Model/Framing.lean), the mirror of the repaired
  server, for every configuration and EVERY octet stream `inp`; the client disconnects where the
  stream ends, so a cut at offset k is the stream `inp.take k`.

  Proved:
    * total_and_closed       for every stream and every cut point the run ends with the epilogue of
                             Conn.serve (`close`: session.Close, removal from Server.conns, conn.Close)
                             exactly once and as the last event, or the model gave up on a command
                             outside its table (`opaque`) without closing
    * no_fuel_event          no loop of the model (command loop, ENABLE arguments, APPEND flag list,
                             search keys with NOT/OR/list recursion) ever exhausts its fuel: the model is
                             total on every stream
    * buffered_literal_cap   every literal buffered in memory has at most 4096 octets
    * append_cap             every APPEND literal the server accepts has at most 104857600 octets …
    * append_refused_unread  … and a larger one is refused right after its header: no octet of the
                             payload is consumed, no "+" is written
    * depth_bounded          the recursive parsers (parenthesised lists, search keys incl. NOT/OR) never
                             run more than 2000 Go frames deep (1000 lists + 1000 NOT/OR)
    * legacy_depth_unbounded before the repair of F08 the NOT chain NOT^n ALL drove readSearchKey n+1
                             deep, for every n (the counterexample to depth_bounded for Legacy)
    * literal_buffers_at_most_4096, raw_line_within_input   function-level facts used by the above
  Not proved (validated by the tie and the oracle on every run): no panic report in the real server's log, Close() count, tracked
  connections and goroutine count of the real server (runtime facts), survival of the depth probes.
-/
namespace GoImap.C06
open GoImap.Framing

/-- whatever Decoder.Literal hands back was announced with at most 4096 octets -/
theorem literal_buffers_at_most_4096 (cfg : Cfg) (s : S) (v : List Nat) (s' : S)
    (h : s.literal cfg = (some v, s')) : v.length ≤ 4096 := by
  unfold S.literal at h
  split at h
  · simp at h
  · rename_i n ns s1 _
    split at h
    · split at h <;> simp at h
    · rename_i s2 hc
      simp only [Prod.mk.injEq, Option.some.injEq] at h
      have hn : n ≤ 4096 := checkBufferedLiteral_ok hc
      have hv : v = (s2.payload n).1 := h.1.symm
      subst hv
      simp only [S.payload, List.length_take]
      omega

private theorem tw_le (p : Nat → Bool) (l : List Nat) : (l.takeWhile p).length ≤ l.length := by
  induction l with
  | nil => simp
  | cons a t ih => simp only [List.takeWhile_cons]; split <;> simp <;> omega

/-- a raw line is taken from the stream: it never consumes more octets than there are -/
theorem raw_line_within_input (fx : Fixes) (inp line : List Nat) (long : Bool) (k : Nat) (e : Bool)
    (h : rawLine fx inp = some (line, long, k, e)) : k ≤ inp.length := by
  unfold rawLine at h
  have hb := tw_le (· != 10) inp
  generalize inp.takeWhile (· != 10) = body at h hb
  simp only at h
  split at h
  · split at h
    · simp at h
    · simp only [Option.some.injEq, Prod.mk.injEq] at h
      omega
  · rename_i hne
    have hlt : body.length < inp.length := by
      have : body.length ≠ inp.length := by simpa using hne
      omega
    split at h
    · simp only [Option.some.injEq, Prod.mk.injEq] at h
      omega
    · split at h
      · simp only [Option.some.injEq, Prod.mk.injEq] at h
        omega
      · simp only [Option.some.injEq, Prod.mk.injEq] at h
        split at h <;> omega

/-- The model is total: no loop of it — the command loop, the ENABLE arguments, the flag list of
    APPEND, the search keys with their NOT/OR/list recursion — ever runs out of the fuel it is
    given (input length + 2 for the command loop, input length + 1 for the flat loops, twice the
    input length + 8 for the search-key recursion), for any configuration and any stream. -/
theorem no_fuel_event (cfg : Cfg) (inp : List Nat) (n : Nat) : Event.fuel n ∉ serve cfg inp := by
  intro h
  rcases serve_good cfg inp _ h with h0 | hg
  · cases h0
  · exact hg

/-- A literal is buffered in memory only if it is at most 4096 octets: for every configuration
    (LITERAL+ or not, any state) and every client stream. -/
theorem buffered_literal_cap (cfg : Cfg) (inp : List Nat) (n : Nat)
    (h : Event.buffered n ∈ serve cfg inp) : n ≤ 4096 := by
  rcases serve_good cfg inp _ h with h0 | hg
  · cases h0
  · exact hg

/-- an APPEND literal the server accepts ("+" written, or payload read for a non-synchronising one)
    is within the append limit -/
theorem append_cap (cfg : Cfg) (inp : List Nat) (n : Nat)
    (h : Event.appendLit n true ∈ serve cfg inp) : n ≤ 104857600 := by
  rcases serve_good cfg inp _ h with h0 | hg
  · cases h0
  · exact hg

/-- an APPEND over the limit is refused before any payload octet is read: right after the literal
    header the handler returns NO; the state is the one after the header (nothing consumed, no "+") -/
theorem append_refused_unread (cfg : Cfg) (m : List Nat) (s s2 : S) (n : Nat) (ns : Bool)
    (hr : s.literalReader cfg.fx = (some (n, ns), s2)) (hn : n > 104857600) :
    appendLiteral cfg m s = (some .no, s2.emit (.appendLit n false)) := by
  unfold appendLiteral
  rw [hr]
  simp [appendLimit, hn]

/-- list nesting and NOT/OR nesting are bounded: no recursive parser of the repaired server runs
    more than 2000 frames deep, whatever the client sends -/
theorem depth_bounded (cfg : Cfg) (inp : List Nat) (hfix : cfg.fx.depth = true) :
    depthOf cfg inp ≤ 2000 := by
  unfold depthOf
  apply foldl_depth_le 2000 _ 0 (by omega)
  intro n hn
  rcases serve_good cfg inp _ hn with h0 | hg
  · cases h0
  · exact hg hfix

/-- For every stream and every cut point: the run ends with the epilogue of Conn.serve exactly
    once, as its last event — or the model stopped at a command outside its table and claims
    nothing. The command loop never runs out of fuel. -/
theorem total_and_closed (cfg : Cfg) (inp : List Nat) (k : Nat) :
    let evs := serve cfg (inp.take k)
    (∀ n, Event.fuel n ∉ evs) ∧
    ((evs.getLast? = some .close ∧ evs.count .close = 1) ∨
     (Event.opaque ∈ evs ∧ Event.close ∉ evs)) := by
  intro evs
  have hgood := serve_good cfg (inp.take k)
  refine ⟨fun n h => ?_, ?_⟩
  · rcases hgood _ h with h0 | hg
    · cases h0
    · exact hg
  · show ((serve cfg (inp.take k)).getLast? = some .close ∧ (serve cfg (inp.take k)).count .close = 1) ∨ _
    unfold serve
    rcases run_end cfg (inp.take k) with ⟨s1, h, hr⟩ | ⟨h, ho⟩
    · left
      have hnc : Event.close ∉ s1.evs := by
        intro hc
        rcases h.good _ hc with h0 | hg
        · simp [initial] at h0
        · exact hg
      rw [hr]
      simp only [S.emit, List.reverse_cons, List.getLast?_append, List.getLast?_singleton,
        Option.some_or, List.count_append, List.count_reverse, List.count_singleton_self, true_and]
      have : List.count Event.close s1.evs = 0 := List.count_eq_zero.mpr hnc
      omega
    · right
      have hnc : Event.close ∉ (run cfg (inp.take k)).evs := by
        intro hc
        rcases h.good _ hc with h0 | hg
        · simp [initial] at h0
        · exact hg
      show Event.opaque ∈ (run cfg (inp.take k)).evs.reverse ∧ Event.close ∉ (run cfg (inp.take k)).evs.reverse
      refine ⟨?_, by simpa using hnc⟩
      rw [List.mem_reverse]
      cases hev : (run cfg (inp.take k)).evs with
      | nil => simp [hev] at ho
      | cons a t => simp [hev] at ho; simp [ho]

/-- F08, the behaviour before the repair: on `NOT NOT … NOT ALL` (n times) readSearchKey ran n
    levels below its entry, for every n — so no bound c makes `depth_bounded` true of Legacy. -/
theorem legacy_depth_unbounded (plus preauth : Bool) (n : Nat) (tail : List Nat) :
    Event.depthAt (1 + n) ∈
      (searchKey { plus := plus, preauth := preauth, fx := Fixes.none } (2 * n + 2) 0 1
        { inp := notChain n ++ 13 :: tail }).2.evs :=
  legacy_not_chain _ rfl n _ 0 1 _ tail rfl rfl (Nat.le_refl _)

/-- `s SELECT m⏎d SEARCH NOT^30 ALL⏎` as a whole run -/
def notProbe30 : List Nat :=
  [115,32,83,69,76,69,67,84,32,109,13,10, 100,32,83,69,65,82,67,72,32] ++ notChain 30 ++ [13,10]

/-- a whole Legacy run: depth 31 for 30 NOTs (the repaired server stays at 31 here too; it differs
    from 1001 NOTs on, see depth_bounded) -/
theorem legacy_depth_run_example :
    depthOf { plus := false, preauth := true, fx := Fixes.none } notProbe30 = 31 := by decide +kernel

end GoImap.C06
