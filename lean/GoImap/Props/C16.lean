/-
  C16 — modified UTF-7 is lossless and safe.  Property theorems only.

  not yet proved: (nothing on the C16 target list; the encoder-side `encTransform` chunking was not a target)
-/
import GoImap.Lemmas.Utf7
import GoImap.Lemmas.Utf7Round
import GoImap.Lemmas.Utf7Safe
import GoImap.Lemmas.Utf7Reject
import GoImap.Lemmas.Utf7Bits
import GoImap.Lemmas.Utf7SpecTop
import GoImap.Lemmas.Utf7Chunk
import GoImap.Spec.Utf7
namespace GoImap.C16
open GoImap.Utf7 GoImap.Utf7Spec GoImap.Utf7Lemmas

/-- modified base64 without padding round-trips every byte string (all three tail lengths) -/
theorem b64_roundtrip (bs : BytesN) (h : ∀ b ∈ bs, b < 256) : b64dec (b64enc bs) = some bs :=
  b64_rt bs h

example : b64dec (b64enc [0, 233, 216, 61]) = some [0, 233, 216, 61] := by decide

/-- `Scalar` is the Prop version of the spec's `isScalar` -/
theorem scalar_iff_isScalar (c : Nat) : Scalar c ↔ isScalar c = true := by
  simp [Scalar, isScalar]

/-- the main round trip: every list of Unicode scalar values survives encode-then-decode -/
theorem decode_encode (s : List Nat) (h : ∀ c ∈ s, Scalar c) : decode (encode s) = some s := by
  have := dec_enc s [] (by simp) h
  simpa [decode, encode] using this

-- "a&b", U+00E9, U+1F600 (astral), NUL, U+FFFF
example : decode (encode [97, 38, 98, 233, 128512, 0, 65535, 45]) = some [97, 38, 98, 233, 128512, 0, 65535, 45] :=
  decode_encode _ (by decide)

/-- the encoder emits printable US-ASCII only -/
theorem encode_printable (s : List Nat) (h : ∀ c ∈ s, Scalar c) : ∀ b ∈ encode s, printable b = true :=
  enc_printable s [] (by simp) h

example : ∀ b ∈ encode [97, 233, 128512, 10], printable b = true :=
  encode_printable _ (by decide)

/-! ### decoder safety -/

/-- the decoder only ever outputs Unicode scalar values (so the UTF-8 it writes is valid) -/
theorem decode_scalar (b : BytesN) (cs : List Nat) (h : decode b = some cs) : ∀ c ∈ cs, Scalar c :=
  dec_scalar b true none cs h

-- "a&AOk-" decodes to [97, 233]
example : decode [97, 38, 65, 79, 107, 45] = some [97, 233] := by decide
example : ∀ c ∈ [97, 233], Scalar c := decode_scalar [97, 38, 65, 79, 107, 45] _ (by decide)

/-! ### the must-reject list -/

/-- lifting: a terminated shift whose segment `decodeSeg` rejects makes the whole input fail,
    whatever precedes and follows it -/
theorem rejects_bad_segment (pre seg post : BytesN) (hne : seg ≠ []) (h45 : ∀ c ∈ seg, c ≠ 45)
    (hbad : decodeSeg seg = none) : decode (pre ++ (38 :: seg ++ 45 :: post)) = none :=
  dec_prefix_none (dec_bad_segment seg post hne h45 hbad) pre true none

-- "x&AGE-y": the segment encodes 'a'
example : decode ([120] ++ (38 :: [65, 71, 69] ++ 45 :: [121])) = none :=
  rejects_bad_segment _ _ _ (by decide) (by decide) (by decide)

/-- the input ends inside a shift -/
theorem rejects_unterminated (pre seg : BytesN) (h : ∀ c ∈ seg, c ≠ 45) :
    decode (pre ++ 38 :: seg) = none :=
  dec_prefix_none (dec_unterminated_any seg h) pre true none

example : decode ([97, 98] ++ 38 :: [65, 79, 107]) = none := rejects_unterminated _ _ (by decide)

/-- any byte outside 32..126, anywhere -/
theorem rejects_nonprintable (b : BytesN) (c : Nat) (hc : c ∈ b) (hp : printable c = false) :
    decode b = none :=
  dec_nonprintable b true none (Or.inl ⟨c, hc, hp⟩)

example : decode [97, 38, 65, 233, 107, 45] = none := rejects_nonprintable _ 233 (by decide) (by decide)
example : decode [97, 127] = none := rejects_nonprintable _ 127 (by decide) (by decide)

/-- two base64 shifts back to back: "…&seg1-&seg2-…" -/
theorem rejects_adjacent_shifts (pre seg1 seg2 post : BytesN) (hne1 : seg1 ≠ []) (hne2 : seg2 ≠ [])
    (h1 : ∀ c ∈ seg1, c ≠ 45) (h2 : ∀ c ∈ seg2, c ≠ 45) :
    decode (pre ++ (38 :: seg1 ++ 45 :: (38 :: seg2 ++ 45 :: post))) = none :=
  dec_prefix_none (dec_adjacent seg1 seg2 post hne2 h1 h2 hne1) pre true none

-- "&AOk-&AOk-": each segment alone is fine
example : decode ([] ++ (38 :: [65, 79, 107] ++ 45 :: (38 :: [65, 79, 107] ++ 45 :: []))) = none :=
  rejects_adjacent_shifts _ _ _ _ (by decide) (by decide) (by decide) (by decide)
example : decode (38 :: [65, 79, 107] ++ [45]) = some [233] := by decide

/-- UTF-16 layer: a unit that is a printable US-ASCII value -/
theorem rejects_ascii_in_b64 (p : BytesN) (h l : Nat) (q : BytesN) (hp : p.length % 2 = 0)
    (hu : printable (h * 256 + l) = true) : utf16dec (p ++ h :: l :: q) = none :=
  utf16dec_ascii p h l q hp hu

theorem rejects_ascii_in_b64_decode (pre seg post p : BytesN) (h l : Nat) (q : BytesN)
    (hb : b64dec seg = some (p ++ h :: l :: q)) (hp : p.length % 2 = 0)
    (hu : printable (h * 256 + l) = true) : decode (pre ++ (38 :: seg ++ 45 :: post)) = none :=
  dec_bad_utf16 pre seg post _ (by intro h0; subst h0; cases p <;> simp [b64dec] at hb) hb
    (utf16dec_ascii p h l q hp hu)

-- "&AOkAYQ-" = U+00E9 then 'a' inside the shift
example : decode ([] ++ (38 :: [65, 79, 107, 65, 89, 81] ++ 45 :: [])) = none :=
  rejects_ascii_in_b64_decode [] _ [] [0, 233] 0 97 [] (by decide) (by decide) (by decide)

/-- UTF-16 layer: an odd number of bytes -/
theorem rejects_odd_utf16 (bs : BytesN) (h : bs.length % 2 = 1) : utf16dec bs = none :=
  utf16dec_odd bs h

theorem rejects_odd_utf16_decode (pre seg post bs : BytesN) (hb : b64dec seg = some bs)
    (h : bs.length % 2 = 1) : decode (pre ++ (38 :: seg ++ 45 :: post)) = none :=
  dec_bad_utf16 pre seg post bs (by intro h0; subst h0; simp [b64dec] at hb; subst hb; simp at h) hb
    (utf16dec_odd bs h)

-- "&AOkA-": three bytes 00 E9 00
example : decode ([] ++ (38 :: [65, 79, 107, 65] ++ 45 :: [])) = none :=
  rejects_odd_utf16_decode [] _ [] [0, 233, 0] (by decide) (by decide)

/-- UTF-16 layer: a high surrogate that is not followed by a low surrogate (end of data, a single
    trailing byte, or any other unit) -/
theorem rejects_lone_surrogate (p : BytesN) (h l : Nat) (q : BytesN) (hp : p.length % 2 = 0)
    (hlo : 55296 ≤ h * 256 + l) (hhi : h * 256 + l < 56320)
    (hnext : ∀ h2 l2 r, q = h2 :: l2 :: r → ¬ (56320 ≤ h2 * 256 + l2 ∧ h2 * 256 + l2 < 57344)) :
    utf16dec (p ++ h :: l :: q) = none :=
  utf16dec_high p h l q hp hlo hhi hnext

/-- UTF-16 layer: a low surrogate whose preceding unit is not a high surrogate -/
theorem rejects_lone_low_surrogate (p : BytesN) (h l : Nat) (q : BytesN) (hp : p.length % 2 = 0)
    (hlo : 56320 ≤ h * 256 + l) (hhi : h * 256 + l < 57344)
    (hprev : ∀ p' h0 l0, p = p' ++ [h0, l0] → ¬ (55296 ≤ h0 * 256 + l0 ∧ h0 * 256 + l0 < 56320)) :
    utf16dec (p ++ h :: l :: q) = none :=
  utf16dec_low p h l q hp hlo hhi hprev

theorem rejects_lone_surrogate_decode (pre seg post p : BytesN) (h l : Nat) (q : BytesN)
    (hb : b64dec seg = some (p ++ h :: l :: q)) (hp : p.length % 2 = 0)
    (hlo : 55296 ≤ h * 256 + l) (hhi : h * 256 + l < 56320)
    (hnext : ∀ h2 l2 r, q = h2 :: l2 :: r → ¬ (56320 ≤ h2 * 256 + l2 ∧ h2 * 256 + l2 < 57344)) :
    decode (pre ++ (38 :: seg ++ 45 :: post)) = none :=
  dec_bad_utf16 pre seg post _ (by intro h0; subst h0; cases p <;> simp [b64dec] at hb) hb
    (utf16dec_high p h l q hp hlo hhi hnext)

theorem rejects_lone_low_surrogate_decode (pre seg post p : BytesN) (h l : Nat) (q : BytesN)
    (hb : b64dec seg = some (p ++ h :: l :: q)) (hp : p.length % 2 = 0)
    (hlo : 56320 ≤ h * 256 + l) (hhi : h * 256 + l < 57344)
    (hprev : ∀ p' h0 l0, p = p' ++ [h0, l0] → ¬ (55296 ≤ h0 * 256 + l0 ∧ h0 * 256 + l0 < 56320)) :
    decode (pre ++ (38 :: seg ++ 45 :: post)) = none :=
  dec_bad_utf16 pre seg post _ (by intro h0; subst h0; cases p <;> simp [b64dec] at hb) hb
    (utf16dec_low p h l q hp hlo hhi hprev)

-- "&2D0-": U+D83D alone;  "&2D0A6Q-": U+D83D then U+00E9;  "&3gA-": U+DE00 alone
example : decode ([] ++ (38 :: [50, 68, 48] ++ 45 :: [])) = none :=
  rejects_lone_surrogate_decode [] _ [] [] 216 61 [] (by decide) (by decide) (by decide) (by decide)
    (by intro _ _ _ h; cases h)
example : decode ([] ++ (38 :: [50, 68, 48, 65, 54, 81] ++ 45 :: [])) = none :=
  rejects_lone_surrogate_decode [] _ [] [] 216 61 [0, 233] (by decide) (by decide) (by decide) (by decide)
    (by intro _ _ _ h; cases h; decide)
example : decode ([] ++ (38 :: [51, 103, 65] ++ 45 :: [])) = none :=
  rejects_lone_low_surrogate_decode [] _ [] [] 222 0 [] (by decide) (by decide) (by decide) (by decide)
    (by intro p' _ _ h; cases p' <;> simp at h)
-- and the pair U+D83D U+DE00 is accepted: "&2D3eAA-"
example : decode (38 :: [50, 68, 51, 101, 65, 65] ++ [45]) = some [128512] := by decide

/-- CR or LF inside a base64 segment (Go's base64 package would silently skip them) -/
theorem rejects_crlf_in_b64 (seg : BytesN) (c : Nat) (hc : c = 13 ∨ c = 10) (hm : c ∈ seg) :
    decodeSeg seg = none :=
  decodeSeg_bad hm (b64val_nonprintable (by rcases hc with rfl | rfl <;> decide))

theorem rejects_crlf_in_b64_decode (pre seg post : BytesN) (c : Nat) (hc : c = 13 ∨ c = 10)
    (hm : c ∈ seg) : decode (pre ++ (38 :: seg ++ 45 :: post)) = none :=
  rejects_nonprintable _ c (by simp [hm]) (by rcases hc with rfl | rfl <;> decide)

example : decode ([] ++ (38 :: [65, 79, 13, 10, 107] ++ 45 :: [])) = none :=
  rejects_crlf_in_b64_decode _ _ _ 13 (by decide) (by decide)

/-- '=' padding at the end of a segment -/
theorem rejects_pad (seg : BytesN) : decodeSeg (seg ++ [61]) = none :=
  decodeSeg_bad (c := 61) (by simp) (by decide)

theorem rejects_pad_decode (pre seg post : BytesN) (h45 : ∀ c ∈ seg, c ≠ 45) :
    decode (pre ++ (38 :: (seg ++ [61]) ++ 45 :: post)) = none :=
  rejects_bad_segment pre (seg ++ [61]) post (by simp)
    (by intro c hc; rcases List.mem_append.mp hc with hc | hc
        · exact h45 c hc
        · simp only [List.mem_singleton] at hc; subst hc; decide)
    (rejects_pad seg)

-- "&AOk=-"
example : decode ([] ++ (38 :: ([65, 79, 107] ++ [61]) ++ 45 :: [])) = none :=
  rejects_pad_decode _ _ _ (by decide)

/-! ### refinement to the RFC-style bit-stream specification -/

/-- one shifted segment: Go's group-of-four base64 + UTF-16BE byte pairs is the bit-stream reading -/
theorem decodeSeg_eq_spec (seg : BytesN) : decodeSeg seg = specSeg seg :=
  (specSeg_eq_decodeSeg seg).symm

/-- the mirror of the Go decoder computes exactly the specification decoder, on every input -/
theorem decode_eq_spec (b : BytesN) : decode b = specDecode b :=
  decode_eq_specDecode specSeg_eq_decodeSeg b

example : specDecode [97, 38, 65, 79, 107, 45, 38, 45] = some [97, 233, 38] := by
  rw [← decode_eq_spec]; decide

/-! ### the streaming decoder -/

/-- one final call with enough room for the output: everything is consumed and written -/
theorem decTransform_oneshot_ok (cap : Nat) (src : BytesN) (cs : List Nat) (h : decode src = some cs)
    (hcap : (cs.flatMap utf8enc).length ≤ cap) :
    decTransform cap true true src =
      ⟨(cs.flatMap utf8enc).length, src.length, .ok, cs.flatMap utf8enc, true⟩ := by
  have := decT_eof_some cap src true none 0 0 [] cs h (by omega)
  simpa [pendLen, decTransform] using this

example : decTransform 3 true true [97, 38, 65, 79, 107, 45] = ⟨3, 6, .ok, [97, 195, 169], true⟩ :=
  decTransform_oneshot_ok 3 _ [97, 233] (by decide) (by decide)

/-- one final call on an input the one-shot decoder rejects, with ample room: ErrInvalidUTF7 -/
theorem decTransform_oneshot_invalid (cap : Nat) (src : BytesN) (h : decode src = none)
    (hcap : 2 * src.length ≤ cap) : (decTransform cap true true src).err = .invalid := by
  have := decTransform_eof cap src true hcap
  rw [show dec true none src = none from h] at this
  exact this

example : (decTransform 12 true true [97, 38, 65, 71, 69, 45]).err = .invalid :=
  decTransform_oneshot_invalid 12 _ (by decide) (by decide)

/-- one final call with ample room succeeds with output `o` exactly when the one-shot decoder
    yields the scalars whose UTF-8 is `o` -/
theorem decTransform_oneshot (cap : Nat) (src o : BytesN) (hcap : 2 * src.length ≤ cap) :
    ((decTransform cap true true src).err = .ok ∧ (decTransform cap true true src).out = o) ↔
      (decode src).map (·.flatMap utf8enc) = some o := by
  have key := decTransform_eof cap src true hcap
  unfold decode
  cases hd : dec true none src with
  | none => rw [hd] at key; simp only at key; simp [key]
  | some cs => rw [hd] at key; simp only at key; simp [key]

example : ((decTransform 12 true true [97, 38, 65, 79, 107, 45]).err = .ok ∧
    (decTransform 12 true true [97, 38, 65, 79, 107, 45]).out = [97, 195, 169]) :=
  (decTransform_oneshot 12 _ _ (by decide)).mpr (by decide)

/-- chunking: a first call (not atEOF) that returns nil or ErrShortSrc, then a final call on the
    unconsumed rest plus the next piece with the carried `ascii` flag, together produce exactly the
    one-shot result on the concatenation; ErrInvalidUTF7 exactly when the one-shot decoder fails -/
theorem transform_chunking (a b : BytesN) (cap1 cap2 : Nat)
    (h1 : (decTransform cap1 false true a).err = .ok ∨ (decTransform cap1 false true a).err = .shortSrc)
    (hcap : 2 * (a.length + b.length) ≤ cap2) :
    let r1 := decTransform cap1 false true a
    let r2 := decTransform cap2 true r1.ascii (a.drop r1.nSrc ++ b)
    (r2.err = .invalid ↔ decode (a ++ b) = none) ∧
    (decode (a ++ b)).map (·.flatMap utf8enc) =
      (if r2.err = .ok then some (r1.out ++ r2.out) else none) := by
  intro r1 r2
  obtain ⟨cs1, ho, hn, hdec⟩ := decTransform_chunk cap1 a h1
  have hlen : 2 * (a.drop r1.nSrc ++ b).length ≤ cap2 := by
    simp only [List.length_append, List.length_drop]; omega
  have key := decTransform_eof cap2 (a.drop r1.nSrc ++ b) r1.ascii hlen
  rw [hdec b]
  cases hd : dec r1.ascii none (a.drop r1.nSrc ++ b) with
  | none =>
    rw [hd] at key
    have key' : r2.err = .invalid := key
    simp [key']
  | some cs2 =>
    rw [hd] at key
    have key' : r2 = ⟨(cs2.flatMap utf8enc).length, (a.drop r1.nSrc ++ b).length, .ok,
      cs2.flatMap utf8enc, true⟩ := key
    have ho' : r1.out = cs1.flatMap utf8enc := ho
    simp [key', ho']

/-- the same with the tight capacity for the accepting case -/
theorem transform_chunking_tight (a b : BytesN) (cap1 cap2 : Nat) (cs : List Nat)
    (h1 : (decTransform cap1 false true a).err = .ok ∨ (decTransform cap1 false true a).err = .shortSrc)
    (hd : decode (a ++ b) = some cs)
    (hcap : (cs.flatMap utf8enc).length ≤ (decTransform cap1 false true a).out.length + cap2) :
    let r1 := decTransform cap1 false true a
    let r2 := decTransform cap2 true r1.ascii (a.drop r1.nSrc ++ b)
    r2.err = .ok ∧ r1.out ++ r2.out = cs.flatMap utf8enc := by
  intro r1 r2
  obtain ⟨cs1, ho, hn, hdec⟩ := decTransform_chunk cap1 a h1
  have ho' : r1.out = cs1.flatMap utf8enc := ho
  rw [hdec b] at hd
  obtain ⟨cs2, h2, rfl⟩ := Option.map_eq_some_iff.mp hd
  rw [ho, List.flatMap_append, List.length_append] at hcap
  have key : r2 = _ := decT_eof_some cap2 (a.drop r1.nSrc ++ b) r1.ascii none 0 0 [] cs2 h2 (by omega)
  simp [key, ho']

-- "a&AO" + "k-b": the first call stops with ErrShortSrc after "a", the second finishes
example :
    let r1 := decTransform 8 false true [97, 38, 65, 79]
    let r2 := decTransform 16 true r1.ascii ([97, 38, 65, 79].drop r1.nSrc ++ [107, 45, 98])
    r1.err = .shortSrc ∧ r1.nSrc = 1 ∧ r2.err = .ok ∧ r1.out ++ r2.out = [97, 195, 169, 98] := by decide
example : (decode ([97, 38, 65, 79] ++ [107, 45, 98])).map (·.flatMap utf8enc) = some [97, 195, 169, 98] := by
  have := (transform_chunking [97, 38, 65, 79] [107, 45, 98] 8 16 (by decide) (by decide)).2
  rw [this]; decide
-- "&AOk-" + "&AOk-": adjacent shifts across the chunk boundary are still rejected
example : (decTransform 20 true (decTransform 8 false true [38, 65, 79, 107, 45]).ascii
    ([38, 65, 79, 107, 45].drop (decTransform 8 false true [38, 65, 79, 107, 45]).nSrc ++ [38, 65, 79, 107, 45])).err
      = .invalid :=
  (transform_chunking [38, 65, 79, 107, 45] [38, 65, 79, 107, 45] 8 20 (by decide) (by decide)).1.mpr (by decide)

end GoImap.C16
