/-
  C16 — modified UTF-7 is lossless and safe.  Property theorems only.

  not yet proved: decode_scalar, rejects_*, decode_eq_spec, decTransform_oneshot, transform_chunking
-/
import GoImap.Lemmas.Utf7
import GoImap.Lemmas.Utf7Round
import GoImap.Spec.Utf7
namespace GoImap.C16
open GoImap.Utf7 GoImap.Utf7Spec GoImap.Utf7Lemmas

/-- modified base64 without padding round-trips every byte string (all three tail lengths) -/
theorem b64_roundtrip (bs : BytesN) (h : ∀ b ∈ bs, b < 256) : b64dec (b64enc bs) = some bs :=
  b64_rt bs h

example : b64dec (b64enc [0, 233, 216, 61]) = some [0, 233, 216, 61] := by decide

/-- `Scalar` is the Prop version of the spec's `isScalar` -/
theorem scalar_iff_isScalar (c : Nat) : Scalar c ↔ isScalar c = true := by
  simp [Scalar, isScalar]

/-- the main round trip: every list of Unicode scalar values survives encode-then-decode -/
theorem decode_encode (s : List Nat) (h : ∀ c ∈ s, Scalar c) : decode (encode s) = some s := by
  have := dec_enc s [] (by simp) h
  simpa [decode, encode] using this

-- "a&b", U+00E9, U+1F600 (astral), NUL, U+FFFF
example : decode (encode [97, 38, 98, 233, 128512, 0, 65535, 45]) = some [97, 38, 98, 233, 128512, 0, 65535, 45] :=
  decode_encode _ (by decide)

/-- the encoder emits printable US-ASCII only -/
theorem encode_printable (s : List Nat) (h : ∀ c ∈ s, Scalar c) : ∀ b ∈ encode s, printable b = true :=
  enc_printable s [] (by simp) h

example : ∀ b ∈ encode [97, 233, 128512, 10], printable b = true :=
  encode_printable _ (by decide)

end GoImap.C16
