/-
  C16 — modified UTF-7 is lossless and safe.  Property theorems only.
-/
import GoImap.Lemmas.Utf7
import GoImap.Spec.Utf7
namespace GoImap.C16
open GoImap.Utf7 GoImap.Utf7Spec GoImap.Utf7Lemmas

/-- modified base64 without padding round-trips every byte string (all three tail lengths) -/
theorem b64_roundtrip (bs : BytesN) (h : ∀ b ∈ bs, b < 256) : b64dec (b64enc bs) = some bs :=
  b64_rt bs h

example : b64dec (b64enc [0, 233, 216, 61]) = some [0, 233, 216, 61] := by decide

end GoImap.C16
