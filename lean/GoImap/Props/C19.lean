/-
  C19 — combining search criteria yields their intersection.  Property theorems only.

  Proved here:
    * `flat_and`, `matches_and` — `SearchCriteria.And` is intersection (repaired `Smaller` rule);
      `legacy_and_counterexample` — the rule as shipped was not.
    * `fold_keys` — the criteria built by the server's key parser from a key list select exactly
      the messages satisfying every key (RFC meaning per key), for key lists satisfying `KeysOK`
      (definition and the reason for each clause: Lemmas/SearchKeys.lean).
    * `perm_invariant` — … in whatever order the keys are written.
    * `smaller_zero_counterexample`, `larger_zero_counterexample`, `zero_date_counterexample` —
      the `KeysOK` clauses cannot be dropped: `SMALLER 0` (known finding), `LARGER 0` on an empty
      message and a date key carrying Go's zero time are not represented faithfully.

  Not covered: nothing of the planned C19 statement is left out.  (Outside the model, as stated in
  Model/Search.lean: `ModSeq`, and the textual parsing of keys into `Key` values.)
-/
import GoImap.Lemmas.SearchKeys
namespace GoImap.C19
open GoImap.Search GoImap.SearchSpec GoImap.SearchLemmas

theorem flat_and (a b : Flat) (m : Msg) (hs : 0 ≤ m.size) :
    flatMatches m (a.and b) = (flatMatches m a && flatMatches m b) :=
  flatMatches_and a b m hs

/-- `And` is intersection: for every pair of criteria (all fields, arbitrary NOT/OR sub-trees) and
    every message of non-negative size, the combined criteria match exactly when both operands do -/
theorem matches_and (a b : Crit) (m : Msg) (hs : 0 ≤ m.size) :
    matchesC m (a.and b) = (matchesC m a && matchesC m b) :=
  matchesC_and a b m hs

/-- the hypothesis is met by every real message and the statement is not vacuous -/
example : (0 : Int) ≤ (mkMsg 5).size ∧ matchesC (mkMsg 5) ((Crit.mk { smaller := 100 } .nil .nil).and (Crit.mk { larger := 3 } .nil .nil)) = true := by
  decide

/-- the operation as shipped before the repair was not intersection: `{Smaller: 5}.And({Larger: 1})`
    matches a 12-byte message that `{Smaller: 5}` rejects -/
theorem legacy_and_counterexample :
    ¬ ∀ (a b : Crit) (m : Msg), 0 ≤ m.size →
        matchesC m (Legacy.and a b) = (matchesC m a && matchesC m b) := by
  intro h
  have := h (.mk { smaller := 5 } .nil .nil) (.mk { larger := 1 } .nil .nil)
    { seq := 1, uid := 1, day := 0, sentDay := 0, sentErr := false, flags := [], size := 12, buf := [], body := [], hdrs := [] }
    (by decide)
  revert this
  decide

/-! ### multi-key SEARCH -/

/-- the criteria the server builds from a list of search keys match a message exactly when the
    message satisfies every key, for well-formed keys (`KeysOK`: no `SMALLER 0`, no zero-time date,
    `LARGER 0` only on non-empty messages) -/
theorem fold_keys (m : Msg) (hs : 0 ≤ m.size) (ks : KeyList) (hok : KeysOK m.size ks = true) :
    matchesC m (foldKeys ks) = matchesKeys m ks :=
  foldKeys_matches m hs ks hok

/-- writing the same keys in another order selects the same messages (well-formedness is needed
    for one of the two lists only: it is itself order-independent) -/
theorem perm_invariant (ks₁ ks₂ : KeyList) (hp : KeysPerm ks₁ ks₂) (m : Msg) (hs : 0 ≤ m.size)
    (hok : KeysOK m.size ks₁ = true) :
    matchesC m (foldKeys ks₁) = matchesC m (foldKeys ks₂) := by
  have hok₂ : KeysOK m.size ks₂ = true := by rw [← keysOK_perm m.size ks₁ ks₂ hp]; exact hok
  rw [fold_keys m hs ks₁ hok, fold_keys m hs ks₂ hok₂, matchesKeys_perm m ks₁ ks₂ hp]

/-- known finding, machine-checked: `SEARCH SMALLER 0` must match nothing, but the server's criteria
    cannot express it (0 = unset) and match everything — so `fold_keys` is false without `KeysOK` -/
theorem smaller_zero_counterexample :
    ∃ m : Msg, 0 ≤ m.size ∧ matchesC m (foldKeys (.cons (.smaller 0) .nil)) = true
      ∧ matchesKeys m (.cons (.smaller 0) .nil) = false :=
  ⟨mkMsg 0, by decide⟩

/-- `LARGER 0` on an empty (0-byte) message: RFC says no match, the criteria say match -/
theorem larger_zero_counterexample :
    ∃ m : Msg, 0 ≤ m.size ∧ matchesC m (foldKeys (.cons (.larger 0) .nil)) = true
      ∧ matchesKeys m (.cons (.larger 0) .nil) = false :=
  ⟨{ mkMsg 0 with size := 0 }, by decide⟩

/-- a date key carrying Go's zero time is dropped: `BEFORE <zero time>` matches every message -/
theorem zero_date_counterexample :
    ∃ m : Msg, 0 ≤ m.size ∧ matchesC m (foldKeys (.cons (.before 0) .nil)) = true
      ∧ matchesKeys m (.cons (.before 0) .nil) = false :=
  ⟨mkMsg 0, by decide⟩

/-! non-vacuity: a five-key list (date, size, NOT, OR, ON inside a group) is well-formed, and both
    sides of `fold_keys` are `true` on message 5 of the universe (and `false` on message 0) -/

def sampleKeys : KeyList :=
  .cons (.since D0) (.cons (.larger 3) (.cons (.not (.flag (s "\\Deleted")))
    (.cons (.or (.smaller 10) (.text (s "LOREM"))) (.cons (.group (.cons (.on (D0 + 86400)) .nil)) .nil))))

example : mkMsg 5 ∈ msgUniverse := List.mem_map.mpr ⟨5, List.mem_range.mpr (by decide), rfl⟩
example : KeysOK (mkMsg 5).size sampleKeys = true := by decide
example : 0 ≤ (mkMsg 5).size ∧ matchesC (mkMsg 5) (foldKeys sampleKeys) = true
    ∧ matchesKeys (mkMsg 5) sampleKeys = true := by decide
example : KeysOK (mkMsg 0).size sampleKeys = true ∧ matchesC (mkMsg 0) (foldKeys sampleKeys) = false
    ∧ matchesKeys (mkMsg 0) sampleKeys = false := by decide

end GoImap.C19
