import GoImap.Props.C14
import GoImap.Gen.LockGraph
/-
  C14, the instance: `GoImap/Gen/LockGraph.lean` is rewritten by `./check C14` from the lock
  nestings recorded on the tree being checked, and this file is rebuilt. If the recorded class
  graph has a cycle (a same-class nesting is a self-loop), `observed_graph_ordered` no longer
  checks and the run reports a broken proof obligation.
-/
namespace GoImap.C14
open GoImap.Locks GoImap.LocksSpec

/-- the class graph recorded from the current tree admits a strict rank -/
theorem observed_graph_ordered : acyclicCheck Gen.edges = true := by decide +kernel

/-- every edge mentions a declared class -/
theorem observed_graph_closed :
    (Gen.edges.all fun e => decide (e.1 < Gen.classNames.length ∧ e.2 < Gen.classNames.length)) = true := by
  decide +kernel

/-- Any number of goroutines whose lock nestings (by class) are among the recorded ones, under any
    schedule, never reach a deadlock; `cls` assigns each lock instance its class index. -/
theorem observed_no_deadlock (cls : Nat → Nat) (s0 s : State) (hinit : Initial s0)
    (hedges : ∀ t ∈ s0, ∀ q ∈ nestings [] t.prog, (cls q.1, cls q.2) ∈ Gen.edges)
    (hr : Reachable s0 s) : ¬ Deadlock s :=
  graph_no_deadlock Gen.edges observed_graph_ordered cls s0 s hinit hedges hr

/-- ... and every reachable state can be run to completion -/
theorem observed_all_complete (cls : Nat → Nat) (s0 s : State) (hinit : Initial s0)
    (hedges : ∀ t ∈ s0, ∀ q ∈ nestings [] t.prog, (cls q.1, cls q.2) ∈ Gen.edges)
    (hr : Reachable s0 s) : ∃ s', Reachable s s' ∧ AllDone s' := by
  obtain ⟨rank, hrank⟩ := acyclicCheck_sound Gen.edges observed_graph_ordered
  exact ordered_all_complete rank cls s0 s hinit
    (fun t ht q hq => hrank (cls q.1, cls q.2) (hedges t ht q hq)) hr

end GoImap.C14
