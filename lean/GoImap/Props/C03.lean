/-
  C03 — server responses are decoded by the client into the data the backend supplied.

  Proved here (about the mirrors in Model/RespWire.lean and Model/RespGrammar.lean):
    * quoted_fidelity            Decoder.Quoted ∘ Encoder.Quoted = id on every byte string, whatever follows
    * binsize_repaired / binsize_legacy_counterexample
                                 `BINARY.SIZE[1] 42` is read after the repair, was a parse error before (F12)
    * inbox_case_repaired / inbox_case_legacy_counterexample
                                 STATUS/SELECT data for "inbox" is attributed after the repair, was dropped before

  Validated by the oracle only (Spec/RespGrammar.lean evaluated on what the real client delivered) and by
  the byte-for-byte / delivery correspondence of the model with the real server and client: everything
  else of `resp_fidelity` (see the header of this file as it grows).
-/
import GoImap.Lemmas.RespLines
import GoImap.Spec.RespGrammar
namespace GoImap.C03
open GoImap.Resp

/-- a quoted string written by the server is read back unchanged by the client, for every byte string
    (quotes, backslashes, CR, LF and 8-bit bytes included) and whatever follows it on the line -/
theorem quoted_fidelity (s rest : Str) : decQuoted (encQuoted s ++ rest) = some (s, rest) :=
  decQuoted_encQuoted s rest

example : decQuoted (encQuoted [34, 92, 13, 10, 255] ++ [32, 41]) = some ([34, 92, 13, 10, 255], [32, 41]) :=
  quoted_fidelity _ _

/-- after the repair the client reads `BINARY.SIZE[1] 42` -/
theorem binsize_repaired :
    (readItem (asc "BINARY.SIZE[1] 42)")).map (fun x => x.2) = some [41] := by
  decide

/-- before the repair the BINARY.SIZE branch met the opening bracket where it expected a number or `]` -/
theorem binsize_legacy_counterexample :
    (Legacy.readBinarySize (asc "[1] 42)")).map (fun x => x.2) = none := by
  decide

theorem inbox_case_repaired : sameMailbox (asc "inbox") (asc "INBOX") = true := by decide

/-- before the repair `Status("inbox")` / `Select("inbox")` did not recognise the server's answer about INBOX -/
theorem inbox_case_legacy_counterexample : Legacy.sameMailbox (asc "inbox") (asc "INBOX") = false := by decide

/-- EXPUNGE: the sequence numbers the backend wrote through `ExpungeWriter.WriteExpunge` are what
    `ExpungeCommand.Collect` returns, in order (bytes of the whole command: the untagged lines and the
    tagged completion) -/
theorem resp_fidelity_expunge (l : List Nat) (tag text : Str) (ht : IsTag tag) (hx : IsText text)
    (hwf : RespSpec.wfExpunge l = true) :
    (parseAll (printExpunges l ++ (tag ++ asc " OK " ++ text ++ CRLFb))).map deliverExpunge = some l := by
  have hall : ∀ n ∈ l, 0 < n ∧ n < 4294967296 := by
    intro n hn
    have := List.all_eq_true.mp hwf n hn
    simpa using this
  have hlines : AllRead (l.map (fun n => star ++ [32] ++ encNumber n ++ asc " EXPUNGE\r\n") ++ [tag ++ asc " OK " ++ text ++ CRLFb])
      (l.map Event.expunge ++ [Event.done tag (asc "OK") Code.none]) :=
    AllRead.append (AllRead.map _ _ l (fun n hn => expunge_line n (hall n hn).2)) (AllRead.single (done_line tag text ht hx))
  have hflat : printExpunges l ++ (tag ++ asc " OK " ++ text ++ CRLFb) =
      (l.map (fun n => star ++ [32] ++ encNumber n ++ asc " EXPUNGE\r\n") ++ [tag ++ asc " OK " ++ text ++ CRLFb]).flatten := by
    simp [printExpunges, List.flatMap]
  rw [hflat, parseAll_lines _ _ hlines]
  simp only [Option.map_some, deliverExpunge]
  congr 1
  have hfm : ∀ (xs : List Nat), expungeNums (xs.map Event.expunge ++ [Event.done tag (asc "OK") Code.none]) = xs := by
    intro xs; induction xs with
    | nil => rfl
    | cons x t ih => simp only [List.map_cons, List.cons_append, expungeNums, List.filterMap_cons] at ih ⊢; rw [ih]
  rw [hfm]
  apply takeWhile_all
  intro n hn
  have := (hall n hn).1
  simp; omega

example : RespSpec.wfExpunge [3, 1, 4294967295] = true := by decide

end GoImap.C03
