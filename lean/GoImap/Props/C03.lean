/-
  C03 — server responses are decoded by the client into the data the backend supplied.

  `resp_fidelity` (DESIGN §5.3) is proved family by family about the mirrors in Model/RespWire.lean and
  Model/RespGrammar.lean, against the specification in Spec/RespGrammar.lean (`canon…`, `wf…`):
  the bytes the server writers produce for a well-formed value, followed by the tagged completion,
  are parsed by the client's reader and routed to the waiting command as exactly `canon value`.

  Proved (every theorem below; hypotheses are the writer API's documented domain + Go's integer widths):
    wire primitives    quoted_fidelity, literal_fidelity (payload byte-identical, any bytes), string_fidelity,
                       nstring_fidelity, mailbox_fidelity (UTF-7/UTF-8, INBOX canonical), flag_fidelity,
                       flag_list_fidelity, attr_list_fidelity, delimiter_fidelity, internaldate_fidelity
    FETCH              fetch_item_fidelity (UID, FLAGS, INTERNALDATE, RFC822.SIZE, BODY[…] sections with header
                       lists and partial offsets, BINARY[…], BINARY.SIZE[…]; literals byte-identical),
                       resp_fidelity_fetch (whole command: messages and items in the order sent)
    LIST               list_line_fidelity, resp_fidelity_list (without RETURN (STATUS)); list_status_routing
                       (pairing of LIST and STATUS events)
    STATUS             resp_fidelity_status (all item subsets, APPENDLIMIT NIL)
    SELECT             resp_fidelity_select
    SEARCH / ESEARCH   resp_fidelity_search (SEARCH form: same members), resp_fidelity_esearch
    APPENDUID/COPYUID  resp_fidelity_append_some/_none, resp_fidelity_copy_some/_none, resp_fidelity_move_some/_none
    NAMESPACE          resp_fidelity_namespace
    EXPUNGE            resp_fidelity_expunge
    repaired defects   binsize_repaired / binsize_legacy_counterexample (F12),
                       inbox_case_repaired / inbox_case_legacy_counterexample (F29)

    ENVELOPE           resp_fidelity_envelope, resp_fidelity_envelope_nil, envelope_item_fidelity
    BODY/BODYSTRUCTURE resp_fidelity_bodystructure (trees of arbitrary depth, extended and non-extended),
                       resp_fidelity_bodystructure_fuel, bodystructure_item_fidelity
    LIST-STATUS        resp_fidelity_list_status (end to end)
    arbitrary sets     resp_fidelity_copy_any, resp_fidelity_move_any, resp_fidelity_esearch_any (any list of
                       static ranges, via C15 parse_sound: the delivered set has the same members)

  Assumed, not proved (below the modelled interface): `mime.QEncoding.Encode` / `WordDecoder.DecodeHeader` enter the
  ENVELOPE / BODYSTRUCTURE theorems as tables with the hypothesis `qdec (qenc s) = s` (`QOK`, `QRaw`; false exactly
  for the look-alikes of known finding F22); Go's `time` package supplies the broken-down fields (`DateOK`).

  Missing: CAPABILITY (oracle only); a FETCH-command-level statement that mixes ENVELOPE/BODYSTRUCTURE items with the
  other item kinds in one message (the item-level theorems for both groups are proved; the mixed `decList` assembly
  over `readItemQ` is validated by the byte-for-byte / delivery correspondence).
-/
import GoImap.Lemmas.RespAssemble
import GoImap.Lemmas.RespLines
import GoImap.Lemmas.RespFlags
import GoImap.Lemmas.RespMailbox
import GoImap.Lemmas.RespDate
import GoImap.Lemmas.RespCodes
import GoImap.Lemmas.RespSearch
import GoImap.Lemmas.RespNamespace
import GoImap.Lemmas.RespStatus
import GoImap.Lemmas.RespList
import GoImap.Lemmas.RespFetch
import GoImap.Lemmas.RespSelect
import GoImap.Lemmas.RespListStatus
import GoImap.Lemmas.RespAnySets
import GoImap.Lemmas.RespEnvelope
import GoImap.Lemmas.RespBodyAll
import GoImap.Spec.RespGrammar
namespace GoImap.C03
open GoImap.Resp

/-! ## wire primitives -/

/-- a quoted string written by the server is read back unchanged by the client, for every byte string
    (quotes, backslashes, CR, LF and 8-bit bytes included) and whatever follows it on the line -/
theorem quoted_fidelity (s rest : Str) : decQuoted (encQuoted s ++ rest) = some (s, rest) :=
  decQuoted_encQuoted s rest

example : decQuoted (encQuoted [34, 92, 13, 10, 255] ++ [32, 41]) = some ([34, 92, 13, 10, 255], [32, 41]) :=
  quoted_fidelity _ _

/-- a literal is delivered byte for byte, whatever its content (the length fits an int64) -/
theorem literal_fidelity (s rest : Str) (hs : s.length < 9223372036854775808) :
    decLiteral (encLiteral s ++ rest) = some (s, rest) :=
  decLiteral_encLiteral s rest hs

/-- Encoder.String (quoted or literal, with or without UTF-8 quoting) against Decoder.String -/
theorem string_fidelity (utf8 : Bool) (s rest : Str) (hs : s.length < 9223372036854775808) :
    decString (encString utf8 s ++ rest) = some (s, rest) :=
  decString_encString utf8 s rest hs

/-- writeNString against ExpectNString: the empty string travels as NIL and comes back empty -/
theorem nstring_fidelity (utf8 : Bool) (s rest : Str) (hs : s.length < 9223372036854775808) (hr : StopsAt isAtomChar rest) :
    decNString (encNString utf8 s ++ rest) = some (s, rest) :=
  decNString_encNString utf8 s rest hs hr

/-- a mailbox name (valid UTF-8; modified UTF-7 on the wire) is delivered unchanged, INBOX in its canonical spelling -/
theorem mailbox_fidelity (utf8 : Bool) (name mb rest : Str) (h : encMailbox utf8 name = some mb)
    (hlen : name.length < 4294967296) (hr : StopsAt isAtomChar rest) :
    decMailbox (mb ++ rest) = some (RespSpec.canonMailbox name, rest) :=
  decMailbox_encMailbox utf8 name mb rest h hlen hr

example : ∃ mb, encMailbox false [69, 110, 116, 119, 195, 188, 114, 102, 101] = some mb := ⟨_, rfl⟩

theorem flag_fidelity (perm : Bool) (f rest : Str) (h : RespSpec.validFlag perm f = true) (hr : StopsAt isAtomChar rest) :
    encFlag f = some f ∧ decFlag (f ++ rest) = some (RespSpec.canonFlag f, rest) :=
  ⟨encFlag_valid perm f h, decFlag_valid perm f rest h hr⟩

theorem flag_list_fidelity (perm : Bool) (l : List Str) (h : ∀ f ∈ l, RespSpec.validFlag perm f = true) (rest : Str) :
    ∃ t, flagListText l = some t ∧ decList decFlag (t ++ rest) = some (l.map RespSpec.canonFlag, rest) :=
  flagList_fidelity perm l h rest

theorem attr_list_fidelity (l : List Str) (h : ∀ f ∈ l, RespSpec.validAttr f = true) (rest : Str) :
    optAll (l.map encAttr) = some l ∧ decList decAttr (encList l ++ rest) = some (l.map RespSpec.canonAttr, rest) :=
  attrList_fidelity l h rest

theorem delimiter_fidelity (d : Int) (rest : Str) (h : RespSpec.validDelim d = true) (hr : StopsAt isAtomChar rest) :
    ∃ dl, delimText d = some dl ∧ readDelim (dl ++ rest) = some (d, rest) :=
  readDelim_delimText d rest h hr

/-- INTERNALDATE text: the time is read back with whole seconds, same instant, same zone -/
theorem internaldate_fidelity (t : DateTime) (h : DateOK t) : parseDateTime (dateTimeText t) = some (RespSpec.canonTime t) :=
  parseDateTime_dateTimeText t h

/-! ## FETCH -/

/-- one message data item (UID, FLAGS, INTERNALDATE, RFC822.SIZE, BODY[section], BINARY[part],
    BINARY.SIZE[part]) is read back as its canonical value; section literals are byte-identical -/
theorem fetch_item_fidelity (utf8 : Bool) (reqExt : Option Bool) (it : Item) (t : Str)
    (hwf : RespSpec.wfItem reqExt it = true) (hp : printItem utf8 it = some t) (hb : fetch_Bounded it)
    (r : Str) (hr : ItemEnd r) : readItem (t ++ r) = some (RespSpec.canonItem it, r) :=
  Resp.fetch_item_fidelity utf8 reqExt it t hwf hp hb r hr

/-- FETCH / UID FETCH: the messages the backend wrote through `FetchWriter.CreateMessage … Close` are
    delivered to the command in the order sent, each with its items in the order sent, every item
    canonical (flags case-normalised, times in whole seconds, sections without PEEK / requested length),
    literals byte for byte. `fetchKey` is the message number (FETCH) or the UID seen before the first
    literal (UID FETCH): the client hands a message to the command once per key. -/
theorem resp_fidelity_fetch (cfg : Cfg) (uidMode : Bool) (reqExt : Option Bool) (ms : List Msg) (bytes tag text : Str)
    (ht : IsTag tag) (hx : IsText text)
    (hseq : ∀ m ∈ ms, m.seq ≠ 0 ∧ m.seq < 4294967296)
    (hwf : ∀ m ∈ ms, ∀ it ∈ m.items, RespSpec.wfItem reqExt it = true) (hb : ∀ m ∈ ms, ∀ it ∈ m.items, fetch_Bounded it)
    (hkey : ∀ m ∈ RespSpec.canonMsgs ms, fetchKey uidMode m ≠ 0) (hnd : ((RespSpec.canonMsgs ms).map (fetchKey uidMode)).Nodup)
    (hp : printFetch cfg ms = some bytes) :
    (parseAll (bytes ++ (tag ++ asc " OK " ++ text ++ CRLFb))).map (deliverFetch uidMode) = some (RespSpec.canonMsgs ms) := by
  obtain ⟨lines, hflat, hall⟩ := fetch_lines cfg reqExt ms bytes hseq hwf hb hp
  have hlines := AllRead.append hall (AllRead.single (done_line tag text ht hx))
  have e : bytes ++ (tag ++ asc " OK " ++ text ++ CRLFb) = (lines ++ [tag ++ asc " OK " ++ text ++ CRLFb]).flatten := by
    simp [hflat]
  rw [e, parseAll_lines _ _ hlines]
  simp only [Option.map_some]
  congr 1
  have hm : (ms.map fun m => Event.fetch { seq := m.seq, items := m.items.map RespSpec.canonItem }) =
      (RespSpec.canonMsgs ms).map Event.fetch := by
    simp [RespSpec.canonMsgs, List.map_map, Function.comp_def]
  rw [hm]
  exact deliverFetchAux_distinct uidMode tag (asc "OK") Code.none (RespSpec.canonMsgs ms) []
    (fun m hm => ⟨hkey m hm, by simp⟩) hnd

/-! ## ENVELOPE

`mime.QEncoding.Encode` / `WordDecoder.DecodeHeader` are below the modelled interface: they enter as the
tables `enc`, `dec`, and `EnvOK` assumes of them what DESIGN §5.3 records (`qdec (qenc s) = s` for the
subject and the address names — `QOK`; false exactly for the look-alikes of known finding F22). -/

/-- ENVELOPE: date (as the server writes it, same instant and zone, whole seconds), subject, the six address
    lists (an absent sender / reply-to is the from list; nil and empty lists coincide), in-reply-to and
    message-id are read back as the canonical envelope -/
theorem resp_fidelity_envelope (utf8 : Bool) (enc dec : QTab) (e : Envelope) (t rest : Str)
    (h : EnvOK enc dec e) (hp : printEnvelope utf8 enc (some e) = some t) :
    readEnvelope dec (t ++ rest) = some (RespSpec.canonEnvelope e, rest) :=
  envelope_fidelity utf8 enc dec e t rest h hp

/-- a nil `*imap.Envelope` is written and read as the empty envelope -/
theorem resp_fidelity_envelope_nil (utf8 : Bool) (enc dec : QTab) (t rest : Str) (hp : printEnvelope utf8 enc none = some t) :
    readEnvelope dec (t ++ rest) = some (RespSpec.emptyEnvelope, rest) :=
  envelope_fidelity_nil utf8 enc dec t rest hp

/-- the ENVELOPE message data item of a FETCH response -/
theorem envelope_item_fidelity (utf8 : Bool) (enc dec : QTab) (o : Option Envelope) (t r : Str)
    (h : ∀ e, o = some e → EnvOK enc dec e) (hp : printItemQ utf8 enc (Item.env o) = some t) :
    readItemQ dec (t ++ r) = some (RespSpec.canonItem (Item.env o), r) := by
  simp only [printItemQ, Option.map_eq_some_iff] at hp
  obtain ⟨et, het, rfl⟩ := hp
  obtain ⟨c, hc, hread⟩ := envelope_fidelity_opt utf8 enc dec o et r h het
  obtain ⟨u, hu⟩ := env_printEnvelope_head utf8 enc o et het
  have hspan : spanB isMsgAttNameChar (asc "ENVELOPE " ++ et ++ r) = (asc "ENVELOPE", 32 :: (et ++ r)) := by
    have := spanB_append isMsgAttNameChar (asc "ENVELOPE") (32 :: (et ++ r)) (by decide) (StopsAt.cons _ (by decide))
    simpa [asc, List.append_assoc] using this
  have hsp : expectSP (32 :: (et ++ r)) = some (et ++ r) := by
    rw [hu]; exact expectSP_sp 40 (u ++ r) (by decide) (by decide)
  unfold readItemQ
  rw [hspan]
  have hE : asc "ENVELOPE" = 69 :: [78, 86, 69, 76, 79, 80, 69] := by decide
  have hname : toUpper (69 :: [78, 86, 69, 76, 79, 80, 69]) = 69 :: [78, 86, 69, 76, 79, 80, 69] := by decide
  rw [hE]
  simp only [hname, if_true, hsp, Option.bind_some, hread, Option.map_some, RespSpec.canonItem, hc]

/-! ## BODY / BODYSTRUCTURE -/

/-- BODY / BODYSTRUCTURE, trees of arbitrary depth: single parts, text parts with their line count,
    message/rfc822 parts with their envelope, nested body and line count, multiparts with ≥ 1 child, in the
    non-extended (`ext = false`: no extension data delivered) and the extended form; parameter lists come back as
    maps with lower-cased keys, the encoding upper-cased with default 7BIT, nested envelopes canonical.
    `BodyOK` carries the assumptions about the Q-decoding tables (descriptions and parameter values are not
    encoded-word look-alikes), literal lengths and integer widths; the fuel the client's reader gets for a
    response (`length + 1`) always suffices (`bt_fuel_le`). -/
theorem resp_fidelity_bodystructure (utf8 : Bool) (enc dec : QTab) (ext : Bool) (b : Body) (t r : Str)
    (hwf : RespSpec.wfBody ext b = true) (hok : BodyOK utf8 enc dec ext b) (hp : printBody utf8 enc ext b = some t) :
    readBody dec ((t ++ r).length + 1) (t ++ r) = some (RespSpec.canonBody ext b, r) :=
  bt_body_fidelity_top (bodyPieces utf8 enc dec) ext b hwf hok t r hp

/-- the same for any sufficient fuel (the nesting cap of the reader) -/
theorem resp_fidelity_bodystructure_fuel (utf8 : Bool) (enc dec : QTab) (ext : Bool) (b : Body) (t r : Str) (fuel : Nat)
    (hwf : RespSpec.wfBody ext b = true) (hok : BodyOK utf8 enc dec ext b) (hp : printBody utf8 enc ext b = some t)
    (hfuel : bt_fuel b ≤ fuel) :
    readBody dec fuel (t ++ r) = some (RespSpec.canonBody ext b, r) :=
  bt_body_fidelity (bodyPieces utf8 enc dec) ext b hwf hok t r hp fuel hfuel

/-- the BODYSTRUCTURE (extended) / BODY (non-extended) message data item of a FETCH response -/
theorem bodystructure_item_fidelity (utf8 : Bool) (enc dec : QTab) (ext : Bool) (b : Body) (t r : Str)
    (hwf : RespSpec.wfBody ext b = true) (hok : BodyOK utf8 enc dec ext b) (hp : printItemQ utf8 enc (Item.bs ext b) = some t) :
    readItemQ dec (t ++ r) = some (RespSpec.canonItem (Item.bs ext b), r) := by
  simp only [printItemQ, Option.map_eq_some_iff] at hp
  obtain ⟨bt, hbt, rfl⟩ := hp
  have hread := bt_body_fidelity_top (bodyPieces utf8 enc dec) ext b hwf hok bt r hbt
  obtain ⟨u, hu⟩ := bt_printBody_head utf8 enc ext b bt hbt
  have hsp : expectSP (32 :: (bt ++ r)) = some (bt ++ r) := by rw [hu]; exact expectSP_sp 40 (u ++ r) (by decide) (by decide)
  cases ext with
  | true =>
    have hspan : spanB isMsgAttNameChar (asc "BODYSTRUCTURE " ++ bt ++ r) = (asc "BODYSTRUCTURE", 32 :: (bt ++ r)) := by
      have := spanB_append isMsgAttNameChar (asc "BODYSTRUCTURE") (32 :: (bt ++ r)) (by decide) (StopsAt.cons _ (by decide))
      simpa [asc, List.append_assoc] using this
    have hE : asc "BODYSTRUCTURE" = 66 :: [79, 68, 89, 83, 84, 82, 85, 67, 84, 85, 82, 69] := by decide
    have hname : toUpper (66 :: [79, 68, 89, 83, 84, 82, 85, 67, 84, 85, 82, 69]) = 66 :: [79, 68, 89, 83, 84, 82, 85, 67, 84, 85, 82, 69] := by decide
    have hne : ¬ ((66 :: [79, 68, 89, 83, 84, 82, 85, 67, 84, 85, 82, 69] : Str) = asc "ENVELOPE") := by decide
    show readItemQ dec (asc "BODYSTRUCTURE " ++ bt ++ r) = _
    unfold readItemQ
    rw [hspan, hE]
    simp only [hname, hne, if_false, if_true, hsp, Option.bind_some, hread, Option.map_some, RespSpec.canonItem]
  | false =>
    have hspan : spanB isMsgAttNameChar (asc "BODY " ++ bt ++ r) = (asc "BODY", 32 :: (bt ++ r)) := by
      have := spanB_append isMsgAttNameChar (asc "BODY") (32 :: (bt ++ r)) (by decide) (StopsAt.cons _ (by decide))
      simpa [asc, List.append_assoc] using this
    have hE : asc "BODY" = 66 :: [79, 68, 89] := by decide
    have hname : toUpper (66 :: [79, 68, 89]) = 66 :: [79, 68, 89] := by decide
    have hne1 : ¬ ((66 :: [79, 68, 89] : Str) = asc "ENVELOPE") := by decide
    have hne2 : ¬ ((66 :: [79, 68, 89] : Str) = asc "BODYSTRUCTURE") := by decide
    have hb : ((66 :: [79, 68, 89] : Str) = asc "BODY") = True := eq_true (by decide)
    show readItemQ dec (asc "BODY " ++ bt ++ r) = _
    unfold readItemQ
    rw [hspan, hE]
    simp only [hname, hne1, hne2, hb, if_false, if_true, hsp, Option.bind_some, hread, Option.map_some, RespSpec.canonItem]

/-! ## LIST -/

/-- one `* LIST …` line (attributes, delimiter, mailbox, CHILDINFO, OLDNAME) is read as the canonical entry -/
theorem list_line_fidelity (utf8 : Bool) (d : ListData) (bytes : Str)
    (hwf : RespSpec.wfList none d = true) (hlen : d.mailbox.length < 4294967296 ∧ d.oldName.length < 4294967296)
    (hp : printListLine utf8 d = some bytes) :
    ReadsAs bytes (Event.list (RespSpec.canonList none d)) :=
  list_line utf8 d bytes hwf hlen hp

/-- LIST without RETURN (STATUS): the entries written through `ListWriter.WriteList` are what
    `ListCommand.Collect` returns, in order -/
theorem resp_fidelity_list (cfg : Cfg) (ds : List ListData) (bytes tag text : Str) (ht : IsTag tag) (hx : IsText text)
    (hwf : ∀ d ∈ ds, RespSpec.wfList none d = true)
    (hlen : ∀ d ∈ ds, d.mailbox.length < 4294967296 ∧ d.oldName.length < 4294967296)
    (hp : printList cfg none ds = some bytes) :
    (parseAll (bytes ++ (tag ++ asc " OK " ++ text ++ CRLFb))).map (deliverList false none) =
      some (ds.map (RespSpec.canonList none)) := by
  unfold printList at hp
  obtain ⟨ls, hl, hget, hflat⟩ := concatOpt_map (printListEntry cfg.quotedUTF8 none) ds bytes hp
  have hentry : ∀ d, printListEntry cfg.quotedUTF8 none d = printListLine cfg.quotedUTF8 d := by
    intro d
    unfold printListEntry
    cases h : printListLine cfg.quotedUTF8 d <;> simp [h, bind, Option.bind]
  have hall : AllRead ls (ds.map fun d => Event.list (RespSpec.canonList none d)) :=
    AllRead.of_get (printListEntry cfg.quotedUTF8 none) _ ds ls hl hget
      (fun d hd l hpl => list_line cfg.quotedUTF8 d l (hwf d hd) (hlen d hd) (by rw [← hentry]; exact hpl))
  have hlines := AllRead.append hall (AllRead.single (done_line tag text ht hx))
  have e : bytes ++ (tag ++ asc " OK " ++ text ++ CRLFb) = (ls ++ [tag ++ asc " OK " ++ text ++ CRLFb]).flatten := by
    simp [hflat]
  rw [e, parseAll_lines _ _ hlines]
  simp only [Option.map_some]
  congr 1
  have hm : (ds.map fun d => Event.list (RespSpec.canonList none d)) = (ds.map (RespSpec.canonList none)).map Event.list := by
    simp [List.map_map, Function.comp_def]
  rw [hm]
  exact list_deliver_plain _ tag (asc "OK") Code.none

/-- LIST with RETURN (STATUS): a LIST event followed by the STATUS event of the same mailbox is delivered
    as one entry carrying that status; an entry without STATUS is delivered when the next entry or the
    completion arrives -/
theorem list_status_routing (ds : List (ListData × Option StatusData)) (tag typ : Str) (code : Code)
    (hs : ∀ p ∈ ds, p.1.status = none) (hm : ∀ p ∈ ds, ∀ s, p.2 = some s → s.mailbox = p.1.mailbox) :
    deliverList true none (ds.flatMap list_entryEvents ++ [Event.done tag typ code]) = ds.map list_entryData :=
  list_deliver_status ds tag typ code hs hm

/-- LIST with RETURN (STATUS …), end to end: every entry is delivered with the status data the backend
    attached to it (filtered by the requested items), entries without status data without any -/
theorem resp_fidelity_list_status (cfg : Cfg) (o : StatusOpts) (ds : List ListData) (bytes tag text : Str)
    (ht : IsTag tag) (hx : IsText text)
    (hwf : ∀ d ∈ ds, RespSpec.wfList (some o) d = true)
    (hlen : ∀ d ∈ ds, d.mailbox.length < 4294967296 ∧ d.oldName.length < 4294967296)
    (hrange : ∀ d ∈ ds, ∀ s, d.status = some s → StatusInRange s)
    (hp : printList cfg (some o) ds = some bytes) :
    (parseAll (bytes ++ (tag ++ asc " OK " ++ text ++ CRLFb))).map (deliverList true none) =
      some (ds.map (RespSpec.canonList (some o))) :=
  list_status_fidelity cfg o ds bytes tag text ht hx hwf hlen hrange hp

/-! ## STATUS -/

/-- STATUS: every subset of requested items, APPENDLIMIT NIL included; the data is attributed to the
    command that named the mailbox (INBOX in any case) -/
theorem resp_fidelity_status (utf8 : Bool) (o : StatusOpts) (d : StatusData) (bytes tag text : Str)
    (ht : IsTag tag) (hx : IsText text)
    (hwf : RespSpec.wfStatus o d = true) (hr : StatusInRange d) (hp : printStatus utf8 o d = some bytes) :
    (parseAll (bytes ++ (tag ++ asc " OK " ++ text ++ CRLFb))).map (deliverStatus sameMailbox d.mailbox) =
      some (RespSpec.canonStatus o d) := by
  have hlines : AllRead [bytes, tag ++ asc " OK " ++ text ++ CRLFb]
      [Event.status (RespSpec.canonStatus o d), Event.done tag (asc "OK") Code.none] :=
    AllRead.cons (status_line utf8 o d bytes hwf hr hp) (AllRead.single (done_line tag text ht hx))
  have e : bytes ++ (tag ++ asc " OK " ++ text ++ CRLFb) = [bytes, tag ++ asc " OK " ++ text ++ CRLFb].flatten := by simp
  rw [e, parseAll_lines _ _ hlines]
  simp only [Option.map_some, status_deliver_self]

/-! ## SELECT -/

theorem resp_fidelity_select (cfg : Cfg) (mailbox : Str) (d : SelectData) (bytes tag : Str) (ro : Bool) (ht : IsTag tag)
    (hwf : RespSpec.wfSelect mailbox d = true)
    (hrange : d.num < 4294967296 ∧ d.uidNext < 4294967296 ∧ d.uidValidity < 4294967296 ∧
      (∀ l, d.list = some l → l.mailbox.length < 4294967296 ∧ l.oldName.length < 4294967296))
    (hp : printSelect cfg d = some bytes) :
    (parseAll (bytes ++ (tag ++ asc " OK " ++ asc (if ro then "[READ-ONLY] EXAMINE completed" else "[READ-WRITE] SELECT completed") ++ CRLFb))).map
      (deliverSelect sameMailbox mailbox) = some (RespSpec.canonSelect d) :=
  select_fidelity cfg mailbox d bytes tag ro ht hwf hrange hp

/-! ## SEARCH / ESEARCH -/

/-- SEARCH form (no RETURN option, IMAP4rev2 not enabled): only the numbers travel; the delivered set has
    exactly the members of the supplied one; UID/Min/Max/Count are not delivered (documented on imap.SearchData) -/
theorem resp_fidelity_search (cfg : Cfg) (uidMode : Bool) (stag : Str) (o : Option SearchOpts) (d : SearchData) (kind : Bool)
    (set : NumSet.Set) (ns : List Nat) (tag text : Str) (ht : IsTag tag) (hx : IsText text)
    (hes : isESearch cfg o = false) (hall : d.all = some (kind, set)) (hc : NumSet.Canon set) (hn : NumSet.nums set = some ns) :
    ∃ b, printSearch cfg stag o d = some b ∧
      (parseAll (b ++ (tag ++ asc " OK " ++ text ++ CRLFb))).map (deliverSearch uidMode) =
        some { all := some (uidMode, ns.foldl NumSet.addNum []), uid := false, min := 0, max := 0, count := 0 } ∧
      ∀ q, NumSet.contains (ns.foldl NumSet.addNum []) q = NumSet.contains set q := by
  obtain ⟨b, hb, hread⟩ := search_line_print cfg stag o d kind set ns hes hall hc hn
  refine ⟨b, hb, ?_, search_same_set set ns hc hn⟩
  have hlines : AllRead [b, tag ++ asc " OK " ++ text ++ CRLFb] [Event.search ns, Event.done tag (asc "OK") Code.none] :=
    AllRead.cons hread (AllRead.single (done_line tag text ht hx))
  have e : b ++ (tag ++ asc " OK " ++ text ++ CRLFb) = [b, tag ++ asc " OK " ++ text ++ CRLFb].flatten := by simp
  rw [e, parseAll_lines _ _ hlines]
  simp only [Option.map_some, search_deliver_search]

/-- ESEARCH form: the requested items are delivered (an empty result: no ALL, hence no set) -/
theorem resp_fidelity_esearch (cfg : Cfg) (uidMode : Bool) (stag : Str) (o : Option SearchOpts) (d : SearchData) (kind : Bool)
    (set : NumSet.Set) (tag text : Str) (hst : IsTag stag) (ht : IsTag tag) (hx : IsText text)
    (hes : isESearch cfg o = true) (hall : d.all = some (kind, set)) (hc : NumSet.Canon set) (hd : NumSet.dynamic set = false)
    (hmin : d.min < 4294967296) (hmax : d.max < 4294967296) (hcount : d.count < 4294967296) :
    ∃ b, printSearch cfg stag o d = some b ∧
      (parseAll (b ++ (tag ++ asc " OK " ++ text ++ CRLFb))).map (deliverSearch uidMode) =
        some { all := if (searchOpts o).all && !set.isEmpty then some (d.uid, set) else none, uid := d.uid,
               min := if (searchOpts o).min then d.min else 0, max := if (searchOpts o).max then d.max else 0,
               count := if (searchOpts o).count then d.count else 0 } := by
  obtain ⟨b, hb, hread⟩ := esearch_line cfg stag o d kind set hes hall hst hc hd hmin hmax hcount
  refine ⟨b, hb, ?_⟩
  have hlines := AllRead.cons hread (AllRead.single (done_line tag text ht hx))
  have e : b ++ (tag ++ asc " OK " ++ text ++ CRLFb) = [b, tag ++ asc " OK " ++ text ++ CRLFb].flatten := by simp
  rw [e, parseAll_lines _ _ hlines]
  simp only [Option.map_some, search_deliver_esearch]

/-! ## APPENDUID, COPYUID, MOVE -/

theorem resp_fidelity_append_some (tag text : Str) (ht : IsTag tag) (hx : IsText text) (d : AppendData)
    (hwf : RespSpec.wfAppend (some d) = true) :
    (parseAll (tag ++ asc " OK " ++ appendCodeText (some d) ++ text ++ CRLFb)).map deliverAppend =
      some (RespSpec.canonAppend (some d)) := by
  simp only [RespSpec.wfAppend, Bool.and_eq_true, decide_eq_true_eq] at hwf
  exact append_some_fidelity tag text ht hx d hwf.2 hwf.1.2 (by omega)

theorem resp_fidelity_append_none (tag text : Str) (ht : IsTag tag) (hx : IsText text) :
    (parseAll (tag ++ asc " OK " ++ appendCodeText none ++ text ++ CRLFb)).map deliverAppend =
      some (RespSpec.canonAppend none) :=
  append_none_fidelity tag text ht hx

theorem resp_fidelity_copy_some (tag text : Str) (ht : IsTag tag) (hx : IsText text) (d : CopyData)
    (hv : d.uidValidity < 4294967296)
    (hs : NumSet.Canon d.src) (hsne : d.src ≠ []) (hsd : NumSet.dynamic d.src = false)
    (hd : NumSet.Canon d.dst) (hdne : d.dst ≠ []) (hdd : NumSet.dynamic d.dst = false)
    (code : Str) (hc : copyCodeText (some d) = some code) :
    (parseAll (tag ++ asc " OK " ++ code ++ text ++ CRLFb)).map deliverCopy = some (RespSpec.canonCopy (some d)) :=
  copy_some_fidelity tag text ht hx d hv hs hsne hsd hd hdne hdd code hc

theorem resp_fidelity_copy_none (tag text : Str) (ht : IsTag tag) (hx : IsText text) (code : Str)
    (hc : copyCodeText none = some code) :
    (parseAll (tag ++ asc " OK " ++ code ++ text ++ CRLFb)).map deliverCopy = some (RespSpec.canonCopy none) :=
  copy_none_fidelity tag text ht hx code hc

/-- MOVE: the COPYUID data of the untagged OK and the expunged sequence numbers, in the order sent -/
theorem resp_fidelity_move_some (d : CopyData) (ex : List Nat) (tag text : Str) (ht : IsTag tag) (hx : IsText text)
    (hv : d.uidValidity < 4294967296)
    (hs : NumSet.Canon d.src) (hsne : d.src ≠ []) (hsd : NumSet.dynamic d.src = false)
    (hd : NumSet.Canon d.dst) (hdne : d.dst ≠ []) (hdd : NumSet.dynamic d.dst = false)
    (hex : ∀ n ∈ ex, n ≠ 0 ∧ n < 4294967296) (bytes : Str) (hp : printMove (some d) ex = some bytes) :
    (parseAll (bytes ++ (tag ++ asc " OK " ++ text ++ CRLFb))).map deliverMove = some (RespSpec.canonCopy (some d), ex) :=
  move_some_fidelity d ex tag text ht hx hv hs hsne hsd hd hdne hdd hex bytes hp

theorem resp_fidelity_move_none (ex : List Nat) (tag text : Str) (ht : IsTag tag) (hx : IsText text)
    (hex : ∀ n ∈ ex, n ≠ 0 ∧ n < 4294967296) (bytes : Str) (hp : printMove none ex = some bytes) :
    (parseAll (bytes ++ (tag ++ asc " OK " ++ text ++ CRLFb))).map deliverMove = some (RespSpec.canonCopy none, ex) :=
  move_none_fidelity ex tag text ht hx hex bytes hp

/-! ## COPYUID / MOVE / ESEARCH with arbitrary (not only canonical) number sets

A backend may hand over any list of static ranges (unsorted, overlapping, reversed); the client's
`ParseSet` normalises it (C15 `parse_sound`): the delivered set has exactly the same members. -/

theorem resp_fidelity_copy_any (tag text : Str) (ht : IsTag tag) (hx : IsText text) (d : CopyData)
    (hv : d.uidValidity < 4294967296)
    (hsne : d.src ≠ []) (hs : any_Static d.src) (hdne : d.dst ≠ []) (hd : any_Static d.dst)
    (code : Str) (hc : copyCodeText (some d) = some code) :
    ∃ d', (parseAll (tag ++ asc " OK " ++ code ++ text ++ CRLFb)).map deliverCopy = some d' ∧
      d'.uidValidity = d.uidValidity ∧
      (∀ q, 0 < q → q < 4294967296 → NumSet.contains d'.src q = RespSpec.memRanges d.src q) ∧
      (∀ q, 0 < q → q < 4294967296 → NumSet.contains d'.dst q = RespSpec.memRanges d.dst q) :=
  any_copy_fidelity tag text ht hx d hv hsne hs hdne hd code hc

theorem resp_fidelity_move_any (d : CopyData) (ex : List Nat) (tag text : Str) (ht : IsTag tag) (hx : IsText text)
    (hv : d.uidValidity < 4294967296)
    (hsne : d.src ≠ []) (hs : any_Static d.src) (hdne : d.dst ≠ []) (hd : any_Static d.dst)
    (hex : ∀ n ∈ ex, n ≠ 0 ∧ n < 4294967296) (bytes : Str) (hp : printMove (some d) ex = some bytes) :
    ∃ d', (parseAll (bytes ++ (tag ++ asc " OK " ++ text ++ CRLFb))).map deliverMove = some (d', ex) ∧
      d'.uidValidity = d.uidValidity ∧
      (∀ q, 0 < q → q < 4294967296 → NumSet.contains d'.src q = RespSpec.memRanges d.src q) ∧
      (∀ q, 0 < q → q < 4294967296 → NumSet.contains d'.dst q = RespSpec.memRanges d.dst q) :=
  any_move_fidelity d ex tag text ht hx hv hsne hs hdne hd hex bytes hp

theorem resp_fidelity_esearch_any (cfg : Cfg) (uidMode : Bool) (stag : Str) (o : Option SearchOpts) (d : SearchData) (kind : Bool)
    (set : NumSet.Set) (tag text : Str) (hst : IsTag stag) (ht : IsTag tag) (hx : IsText text)
    (hes : isESearch cfg o = true) (hall : d.all = some (kind, set)) (hs : any_Static set)
    (hmin : d.min < 4294967296) (hmax : d.max < 4294967296) (hcount : d.count < 4294967296) :
    ∃ b s', printSearch cfg stag o d = some b ∧ NumSet.dynamic s' = false ∧
      (∀ q, 0 < q → q < 4294967296 → NumSet.contains s' q = RespSpec.memRanges set q) ∧
      (parseAll (b ++ (tag ++ asc " OK " ++ text ++ CRLFb))).map (deliverSearch uidMode) =
        some { all := if (searchOpts o).all && !set.isEmpty then some (d.uid, s') else none, uid := d.uid,
               min := if (searchOpts o).min then d.min else 0, max := if (searchOpts o).max then d.max else 0,
               count := if (searchOpts o).count then d.count else 0 } :=
  any_esearch_fidelity cfg uidMode stag o d kind set tag text hst ht hx hes hall hs hmin hmax hcount

/-! ## NAMESPACE -/

theorem resp_fidelity_namespace (cfg : Cfg) (d : NamespaceData) (bytes tag text : Str) (ht : IsTag tag) (hx : IsText text)
    (hwf : RespSpec.wfNamespace d = true)
    (hlen : ∀ l, (d.personal = some l ∨ d.other = some l ∨ d.shared = some l) → ∀ x ∈ l, x.prefix_.length < 9223372036854775808)
    (hp : printNamespace cfg d = some bytes) :
    (parseAll (bytes ++ (tag ++ asc " OK " ++ text ++ CRLFb))).map deliverNamespace = some (RespSpec.canonNamespace d) :=
  namespace_fidelity cfg d bytes tag text ht hx hwf hlen hp

/-! ## EXPUNGE -/

/-- EXPUNGE: the sequence numbers the backend wrote through `ExpungeWriter.WriteExpunge` are what
    `ExpungeCommand.Collect` returns, in order (bytes of the whole command: the untagged lines and the
    tagged completion) -/
theorem resp_fidelity_expunge (l : List Nat) (tag text : Str) (ht : IsTag tag) (hx : IsText text)
    (hwf : RespSpec.wfExpunge l = true) :
    (parseAll (printExpunges l ++ (tag ++ asc " OK " ++ text ++ CRLFb))).map deliverExpunge = some l := by
  have hall : ∀ n ∈ l, 0 < n ∧ n < 4294967296 := by
    intro n hn
    have := List.all_eq_true.mp hwf n hn
    simpa using this
  have hlines : AllRead (l.map (fun n => star ++ [32] ++ encNumber n ++ asc " EXPUNGE\r\n") ++ [tag ++ asc " OK " ++ text ++ CRLFb])
      (l.map Event.expunge ++ [Event.done tag (asc "OK") Code.none]) :=
    AllRead.append (AllRead.map _ _ l (fun n hn => expunge_line n (by have := (hall n hn).1; omega) (hall n hn).2)) (AllRead.single (done_line tag text ht hx))
  have hflat : printExpunges l ++ (tag ++ asc " OK " ++ text ++ CRLFb) =
      (l.map (fun n => star ++ [32] ++ encNumber n ++ asc " EXPUNGE\r\n") ++ [tag ++ asc " OK " ++ text ++ CRLFb]).flatten := by
    simp [printExpunges, List.flatMap]
  rw [hflat, parseAll_lines _ _ hlines]
  simp only [Option.map_some, deliverExpunge]
  congr 1
  have hfm : ∀ (xs : List Nat), expungeNums (xs.map Event.expunge ++ [Event.done tag (asc "OK") Code.none]) = xs := by
    intro xs; induction xs with
    | nil => rfl
    | cons x t ih => simp only [List.map_cons, List.cons_append, expungeNums, List.filterMap_cons] at ih ⊢; rw [ih]
  rw [hfm]
  apply takeWhile_all
  intro n hn
  have := (hall n hn).1
  simp; omega

example : RespSpec.wfExpunge [3, 1, 4294967295] = true := by decide

/-! ## repaired defects -/

/-- after the repair the client reads `BINARY.SIZE[1] 42` -/
theorem binsize_repaired :
    (readItem (asc "BINARY.SIZE[1] 42)")).map (fun x => x.2) = some [41] := by
  decide

/-- before the repair the BINARY.SIZE branch met the opening bracket where it expected a number or `]` -/
theorem binsize_legacy_counterexample :
    (Legacy.readBinarySize (asc "[1] 42)")).map (fun x => x.2) = none := by
  decide

theorem inbox_case_repaired : sameMailbox (asc "inbox") (asc "INBOX") = true := by decide

/-- before the repair `Status("inbox")` / `Select("inbox")` did not recognise the server's answer about INBOX -/
theorem inbox_case_legacy_counterexample : Legacy.sameMailbox (asc "inbox") (asc "INBOX") = false := by decide

end GoImap.C03
