import GoImap.Model.Framing
import GoImap.Spec.Framing
import GoImap.Lemmas.FramingReply
import GoImap.Lemmas.FramingBridge
import GoImap.Lemmas.FramingLine
import GoImap.Lemmas.FramingQuoted
/-
  C04 — server command framing: literal payloads are never parsed as commands.
  Statements about Model/Framing.lean (the mirror of the repaired server) for every configuration,
  every state and EVERY octet stream, and about how its framing decisions relate to the RFC-side
  definitions of Spec/Framing.lean (`litHeader`: the literal header recogniser of RFC 9051 §4.3 /
  RFC 7888).

  Proved:
    * one_reply_per_command      every command the server parses and runs gets exactly one tagged reply,
                                 carrying its own tag; dropped_line_not_answered: a line without a usable
                                 tag / name (the connection is dropped) gets none
    * literal_header_agrees      whenever LiteralReader accepts, the octets it consumed are "{n}" / "{n+}"
                                 at the end of the line for the RFC recogniser too, with the same size and
                                 kind (n < 2^63); the only liberties are " CRLF" and a lone LF as line end
    * discarded_header_detected  DiscardLine flags an unread non-synchronising literal exactly when the RFC
                                 recogniser sees "{n+}" at the end of the discarded line
    * unread_nonsync_closes      a command that leaves a non-synchronising literal unread (refused by the
                                 4096 / APPEND / LITERAL+ checks, or skipped on a discarded line) puts the
                                 connection into logout: BYE, and (logout_stops) not one more octet is read
    * open_literal_blocks_text   while a literal is open (refused, payload not read) no primitive can
                                 consume an octet as command text
    * cont_only_when_accepting   acceptLiteral writes "+" exactly when it accepts a synchronising literal;
                                 refused_literal_no_cont / refused_append_no_cont: a refused literal never
                                 gets "+"
    * accept_only_small          checkBufferedLiteral lets a literal through only when it is ≤ 4096 octets
    * legacy_*_counterexample    the behaviour before each repair, on the replays of the findings ledger
                                 (F06 payload of a discarded / refused literal executed, F50 refused
                                 synchronising literal never answered, F51 APPEND never answered)
    * tags_agree_partial / no_payload_as_command_partial
                                 the end-to-end simulation against `frameLines` (the per-command function of
                                 `frame`), at full strength inside the classes `Covered`:
                                   (0) a command name outside the server's table,
                                   (i) the argument-less commands of the table: NOOP CHECK CAPABILITY LOGOUT
                                       STARTTLS(refused) UNAUTHENTICATE NAMESPACE CLOSE UNSELECT EXPUNGE,
                                       with ANY line tail (junk, literal headers of either kind, quoted text),
                                   (ii) LOGIN SELECT EXAMINE DELETE SUBSCRIBE UNSUBSCRIBE RENAME on a line whose
                                       quoted strings end on the line (as `strictLine` demands) and that
                                       contains no "{" — every argument is an atom or a quoted string
                                       (escapes included); wrong argument counts, junk after the arguments
                                       and "}" / "(" / "%" inside them included,
                                 on a strict line (printable US-ASCII, not ending in SP), with no continuation
                                 request pending at the end of the line. The server writes exactly one tagged
                                 reply and its tag is `frame`'s tag; every octet it consumes as command text
                                 has role `text` in `frame` (server roles ⊑ spec roles); unless the line ends in
                                 a non-synchronising literal header both end the command at the same octet
                                 (same unread input, same offset); no "+" is written.
                                 Not covered: CREATE / ENABLE / SEARCH / APPEND, any line with "{" in an
                                 argument-taking command (literals, class (iii)), AUTHENTICATE, IDLE, and
                                 the induction over a stream.
  The full statements, NOT proved:
      tags_agree            : for every cfg and every inp in the strict domain,
                              tags (serve cfg inp) is a prefix of tags (frame go inp), equal when the server
                              did not close, with go p := cont p ∈ serve cfg inp
      no_payload_as_command : rolesOf cfg inp is a prefix of (frame go inp).flatMap (·.roles)
  What is missing for them, precisely: (1) the `Shape` lemma (Lemmas/FramingLine.lean: the handler stays
  on the line; `command_line_generic` / `line_command_frame` then give the rest) for the handlers that
  read lists or literals (for atoms and quoted strings: `AtQ` / `StepQ` / `*_shapeQ` in
  Lemmas/FramingQuoted.lean) — the primitives of Lemmas/FramingLine.lean (`OnLine`: look, accept, func, expectAtom, SP,
  the command header) already stay on the line, `crlfP_at_eol` / `crlfP_mid` / `discardLine_line` settle the
  line end, `literal_header_agrees` the literal; what is not done is carrying the invariant through every
  handler (it is not closed under blind composition: a handler must not read after its ExpectCRLF, and
  a plain line end must not follow a literal header unnoticed — both true of every handler, neither
  proved), through an accepted literal (the payload, then the next line) and through the raw lines of
  AUTHENTICATE / IDLE; (2) that a continuation request identifies its line end (offsets of "+" strictly
  increase), needed to read `go` off the events; (3) the induction over the commands of a stream
  (`frameAll`). All of it is validated on every run by the oracle clauses 1–4 on the real server's
  transcripts and by the model/implementation tie. `whole_lines` (clause 4) is about the encoder,
  which is outside this model.
-/
namespace GoImap.C04
open GoImap.Framing

/-- a buffered literal is accepted only when it is at most 4096 octets -/
theorem accept_only_small (cfg : Cfg) (n : Nat) (ns : Bool) (s : S)
    (h : (checkBufferedLiteral cfg n ns s).1 = none) : n ≤ 4096 := by
  unfold checkBufferedLiteral at h
  by_cases hn : n > maxBuffered
  · simp [hn] at h
  · simpa [maxBuffered] using hn

/-- the continuation request is written exactly when a synchronising literal is accepted -/
theorem cont_only_when_accepting (cfg : Cfg) (n : Nat) (ns : Bool) (s : S) :
    let r := acceptLiteral cfg n ns s
    (r.2.evs = Event.cont s.pos :: s.evs ∧ ns = false ∧ r.1 = none) ∨ r.2.evs = s.evs := by
  unfold acceptLiteral
  cases ns
  · simp [S.emit]
  · right; simp only [Bool.true_and]; split <;> rfl

/-- a literal refused by Decoder.Literal (over 4096 octets, or malformed) gets no "+" -/
theorem refused_literal_no_cont (cfg : Cfg) (s s1 : S) (h : s.literal cfg = (none, s1)) (p : Nat)
    (hp : Event.cont p ∈ s1.evs) : Event.cont p ∈ s.evs :=
  Framing.refused_literal_no_cont cfg s s1 h p hp

/-- a literal refused by acceptLiteral (APPEND: non-synchronising over 4096 without LITERAL+)
    changes nothing: no "+", nothing consumed -/
theorem refused_append_no_cont (cfg : Cfg) (n : Nat) (ns : Bool) (s : S) (e : Err) (s1 : S)
    (h : acceptLiteral cfg n ns s = (some e, s1)) : s1 = s :=
  Framing.refused_append_no_cont cfg n ns s e s1 h

/-- Every command the server parses (tag and command name read) and runs to the end receives
    exactly one tagged reply, carrying its own tag — in every configuration, from every state, on
    every stream. -/
theorem one_reply_per_command (cfg : Cfg) (hfix : cfg.fx.append = true) (s s1 : S)
    (h : readCommand cfg s = (true, s1)) :
    ∃ tag name s2 cls new,
      cmdHeader s.reset = (some (tag, name), s2) ∧
      s1.evs = new ++ s.evs ∧
      new.filter isTagged = [Event.tagged tag cls] :=
  one_reply cfg hfix s s1 h

/-- a line the server cannot use as a command (and after which it drops the connection), or a
    command outside the model's table, adds no tagged reply -/
theorem dropped_line_not_answered (cfg : Cfg) (s s1 : S) (h : readCommand cfg s = (false, s1)) :
    ∃ new, s1.evs = new ++ s.evs ∧ new.filter isTagged = [] :=
  no_reply_when_dropped cfg s s1 h

/-- Whenever the server's LiteralReader accepts, what it consumed is a literal header at the end
    of the line for the RFC recogniser as well, announcing the same size and the same kind
    (`pre` = whatever precedes it on the line). The line end it accepted is CRLF, or one of the
    library's liberties: " CRLF", LF, " LF". -/
theorem literal_header_agrees (fx : Fixes) (s s1 : S) (n : Nat) (ns : Bool)
    (h : s.literalReader fx = (some (n, ns), s1)) :
    ∃ (hdr : List Nat) (sp cr : Bool),
      s.inp = hdr ++ (if sp then [32] else []) ++ (if cr then [13] else []) ++ [10] ++ s1.inp ∧
      n < 9223372036854775808 ∧
      ∀ pre, FramingSpec.litHeader (pre ++ hdr) = some (n, ns) := by
  obtain ⟨ds, sp, cr, hne, hdig, hval, hlt, hinp⟩ := literalReader_consumed h
  refine ⟨123 :: ds ++ (if ns then [43] else []) ++ [125], sp, cr, ?_, hlt, ?_⟩
  · rw [hinp]
  · intro pre
    have := litHeader_of_header pre ds ns hne hdig
    rw [hval] at this
    simpa [List.append_assoc] using this

/-- DiscardLine's test for a literal nobody is going to read is the RFC recogniser: the tail of
    the discarded line ends in "{" 1*DIGIT "+}" exactly when `litHeader` says so. -/
theorem discarded_header_detected (t : List Nat) :
    nonSyncSuffix t = true ↔ ∃ n, FramingSpec.litHeader t = some (n, true) :=
  nonSyncSuffix_iff_litHeader t

/-- A command that leaves a non-synchronising literal unread ends with the connection in the
    logout state (the tagged reply and BYE are written) … -/
theorem unread_nonsync_closes (cfg : Cfg) (hfix : cfg.fx.close = true) (tag : List Nat) (bu : Bool)
    (e : Option Err) (s : S) (h : (s.discardLine cfg.fx).unreadNonSync = true) :
    (finishCommand cfg tag bu e s).st = .logout :=
  Framing.unread_nonsync_closes cfg hfix tag bu e s h

/-- … and in the logout state the loop reads nothing more: its next step is the epilogue. -/
theorem logout_stops (cfg : Cfg) (fuel : Nat) (s : S) (h : s.st = .logout) :
    serveLoop cfg (fuel + 1) s = s.emit .close :=
  Framing.logout_stops cfg fuel s h

/-- while a literal is open (its payload was refused and is not going to be read by this
    command) nothing can be read as command text -/
theorem open_literal_blocks_text (s : S) (h : s.lit.isSome = true) :
    s.look.1 = none ∧ s.look.2.inp = s.inp ∧ s.look.2.pos = s.pos :=
  Framing.open_literal_blocks_text s h

/-- the classes of commands for which the end-to-end simulation is proved: (0) a command name
    outside the server's table, (i) the argument-less commands of the table, (ii) LOGIN, SELECT,
    EXAMINE, DELETE, SUBSCRIBE, UNSUBSCRIBE, RENAME on a line `l` whose quoted strings end on the
    line (the `quotePhase` conjunct of `strictLine`) and that has no "{": every argument an atom or a
    quoted string; too few, too many or malformed arguments included -/
def Covered (cfg : Cfg) (name l : List Nat) : Prop :=
  handlerOf cfg name = .unknown ∨
  name ∈ [k_NOOP, k_CHECK, k_CAPABILITY, k_LOGOUT, k_STARTTLS, k_UNAUTHENTICATE, k_NAMESPACE, k_CLOSE,
    k_UNSELECT, k_EXPUNGE] ∨
  (name ∈ [k_LOGIN, k_SELECT, k_EXAMINE, k_DELETE, k_SUBSCRIBE, k_UNSUBSCRIBE, k_RENAME] ∧
    FramingSpec.quotePhase false l = false ∧ 123 ∉ l)

theorem covered_frame (cfg : Cfg) (hfix : cfg.fx.append = true) (s0 : S) (l rest : List Nat)
    (hi : s0.inp = l ++ 13 :: 10 :: rest) (hp : ∀ b ∈ l, 32 ≤ b ∧ b ≤ 126) (hsp : l.getLast? ≠ some 32)
    (tag name : List Nat) (s2 : S) (hh : cmdHeader s0.reset = (some (tag, name), s2))
    (hc : Covered cfg name l)
    (go : Nat → Bool) (hgo : go (s0.pos + l.length + 2) = false) (fuel : Nat) (f0 : FramingSpec.Frame) :
    let R := FramingSpec.frameLines go (fuel + 1) true s0.pos s0.inp f0
    ∃ s1 new cls, readCommand cfg s0 = (true, s1) ∧
      s1.evs = new ++ s0.evs ∧ new.filter isTagged = [Event.tagged tag cls] ∧ (∀ p, Event.cont p ∉ new) ∧
      R.1.tag = some tag ∧
      s1.roles = List.replicate (l.length + 2) Role.text ++ s0.roles ∧
      (f0.roles ++ List.replicate (l.length + 2) FramingSpec.Role.text <+: R.1.roles) ∧
      ((FramingSpec.litHeader l = none ∨ ∃ n, FramingSpec.litHeader l = some (n, false)) →
        s1.inp = R.2 ∧ R.1.roles = f0.roles ++ List.replicate (l.length + 2) FramingSpec.Role.text ∧
          s1.pos = s0.pos + (l.length + 2)) := by
  rcases hc with hu | hn | ⟨hn, hq, hb⟩
  · obtain ⟨s1, new, h⟩ := unknown_command_frame cfg hfix s0 l rest hi hp tag name s2 hh hu go hgo fuel f0
    exact ⟨s1, new, .bad, h⟩
  · exact noarg_command_frame cfg hfix s0 l rest hi hp hsp tag name s2 hh (noArg_names cfg name hn) go hgo fuel f0
  · exact quoted_command_frame cfg hfix s0 l rest hi hp hsp hq hb tag name s2 hh (quoted_names cfg name hn)
      go hgo fuel f0

/-- tags_agree for the covered classes (see the header for the full statement): on the strict line
    `l` CRLF (printable US-ASCII, not ending in SP), with no "+" seen at its end, the server writes
    exactly one tagged reply and no continuation request, and the reply's tag is the tag `frameLines`
    assigns to the command. -/
theorem tags_agree_partial (cfg : Cfg) (hfix : cfg.fx.append = true) (s0 : S) (l rest : List Nat)
    (hi : s0.inp = l ++ 13 :: 10 :: rest) (hp : ∀ b ∈ l, 32 ≤ b ∧ b ≤ 126) (hsp : l.getLast? ≠ some 32)
    (tag name : List Nat) (s2 : S) (hh : cmdHeader s0.reset = (some (tag, name), s2))
    (hc : Covered cfg name l)
    (go : Nat → Bool) (hgo : go (s0.pos + l.length + 2) = false) (fuel : Nat) (f0 : FramingSpec.Frame) :
    ∃ s1 new cls, readCommand cfg s0 = (true, s1) ∧ s1.evs = new ++ s0.evs ∧
      new.filter isTagged = [Event.tagged tag cls] ∧ (∀ p, Event.cont p ∉ new) ∧
      (FramingSpec.frameLines go (fuel + 1) true s0.pos s0.inp f0).1.tag = some tag := by
  obtain ⟨s1, new, cls, h1, h2, h3, h4, h5, _⟩ :=
    covered_frame cfg hfix s0 l rest hi hp hsp tag name s2 hh hc go hgo fuel f0
  exact ⟨s1, new, cls, h1, h2, h3, h4, h5⟩

/-- no_payload_as_command for the covered classes: what the server consumed — the whole line and
    its CRLF, as command text — is command text for `frameLines` as well (server roles ⊑ spec roles);
    and unless the line ends in a non-synchronising literal header (then the server says BYE,
    `unread_nonsync_closes`) both stop at the same octet. -/
theorem no_payload_as_command_partial (cfg : Cfg) (hfix : cfg.fx.append = true) (s0 : S) (l rest : List Nat)
    (hi : s0.inp = l ++ 13 :: 10 :: rest) (hp : ∀ b ∈ l, 32 ≤ b ∧ b ≤ 126) (hsp : l.getLast? ≠ some 32)
    (tag name : List Nat) (s2 : S) (hh : cmdHeader s0.reset = (some (tag, name), s2))
    (hc : Covered cfg name l)
    (go : Nat → Bool) (hgo : go (s0.pos + l.length + 2) = false) (fuel : Nat) (f0 : FramingSpec.Frame) :
    let R := FramingSpec.frameLines go (fuel + 1) true s0.pos s0.inp f0
    ∃ s1, readCommand cfg s0 = (true, s1) ∧
      s1.roles = List.replicate (l.length + 2) Role.text ++ s0.roles ∧
      (f0.roles ++ List.replicate (l.length + 2) FramingSpec.Role.text <+: R.1.roles) ∧
      ((FramingSpec.litHeader l = none ∨ ∃ n, FramingSpec.litHeader l = some (n, false)) →
        s1.inp = R.2 ∧ R.1.roles = f0.roles ++ List.replicate (l.length + 2) FramingSpec.Role.text ∧
          s1.pos = s0.pos + (l.length + 2)) := by
  intro R
  obtain ⟨s1, new, cls, h1, _, _, _, _, h6, h7, h8⟩ :=
    covered_frame cfg hfix s0 l rest hi hp hsp tag name s2 hh hc go hgo fuel f0
  exact ⟨s1, h1, h6, h7, h8⟩

/-! ### the behaviour before the repairs (Legacy), on the replay inputs -/

/-- the events of a run without the ghost `dispatch` markers -/
def visible (l : List Event) : List Event :=
  l.filter fun e => match e with | .dispatch _ => false | _ => true

/-- `d NOOP {12+}⏎e DELETE x⏎` in the authenticated state -/
def discardedPayload : Framing.Bytes :=
  [100,32,78,79,79,80,32,123,49,50,43,125,13,10,101,32,68,69,76,69,84,69,32,120,13,10]

/-- F06b: before the repair the payload of the ignored literal was executed … -/
theorem legacy_discard_counterexample :
    Event.exec ⟨.delete, [[120]]⟩ ∈ Legacy.serve false true discardedPayload := by decide

/-- … the repaired server answers the command, says BYE and closes -/
theorem discard_repaired :
    visible (serve { plus := false, preauth := true } discardedPayload)
      = [.tagged [100] .bad, .bye, .close] := by decide

/-- `a APPEND m {104857601+}⏎b DELETE x⏎` in the authenticated state -/
def refusedAppend : Framing.Bytes :=
  [97,32,65,80,80,69,78,68,32,109,32,123,49,48,52,56,53,55,54,48,49,43,125,13,10,
   98,32,68,69,76,69,84,69,32,120,13,10]

/-- F06: the payload of a refused non-synchronising literal was executed -/
theorem legacy_refused_counterexample :
    Event.exec ⟨.delete, [[120]]⟩ ∈ Legacy.serve false true refusedAppend := by decide

theorem refused_repaired :
    visible (serve { plus := false, preauth := true } refusedAppend)
      = [.appendLit 104857601 false, .tagged [97] .no, .bye, .close] := by decide

/-- `a LOGIN {5000}⏎` -/
def refusedSync : Framing.Bytes := [97,32,76,79,71,73,78,32,123,53,48,48,48,125,13,10]

/-- F50: a refused synchronising literal was not answered: the handler went on to read an atom, so
    the first thing that happens is `eof` (the server is blocked reading; what follows `eof` is what
    it does once the client has gone) … -/
theorem legacy_stall_counterexample :
    (visible (Legacy.serve false false refusedSync)).head? = some .eof := by decide

/-- … the repaired server answers NO at once and waits for the next command -/
theorem stall_repaired :
    visible (serve { plus := false, preauth := false } refusedSync) = [.tagged [97] .no, .eof, .close] := by decide

/-- `a APPEND m {3}⏎abcXYZ⏎` in the authenticated state -/
def appendTrailing : Framing.Bytes :=
  [97,32,65,80,80,69,78,68,32,109,32,123,51,125,13,10,97,98,99,88,89,90,13,10]

/-- F51: APPEND with text after its literal stored the message and was never answered -/
theorem legacy_append_counterexample :
    (Legacy.serve false true appendTrailing).filter isTagged = [] := by decide

theorem append_repaired :
    (serve { plus := false, preauth := true } appendTrailing).filter isTagged = [.tagged [97] .bad] := by decide

end GoImap.C04
