import GoImap.Model.Framing
import GoImap.Spec.Framing
/-
  C04 — server command framing: literal payloads are never parsed as commands.

  Proved here (about Model/Framing.lean, the mirror of the repaired server):
    * accept_only_small        checkBufferedLiteral lets a literal through only when it is ≤ 4096 octets
    * cont_only_when_accepting acceptLiteral writes "+" exactly when it accepts a synchronising literal
    * legacy_*_counterexample  the behaviour before each repair, on the replay inputs of the findings
                               ledger (F06 discarded-line payload executed)
  Validated by the oracle on every run, not proved: clauses 1–4 of Spec/Framing.lean on the real
  server's output (checklib/prop_C04.py).
-/
namespace GoImap.C04
open GoImap.Framing

/-- a buffered literal is accepted only when it is at most 4096 octets -/
theorem accept_only_small (cfg : Cfg) (n : Nat) (ns : Bool) (s : S)
    (h : (checkBufferedLiteral cfg n ns s).1 = none) : n ≤ 4096 := by
  unfold checkBufferedLiteral at h
  by_cases hn : n > maxBuffered
  · simp [hn] at h
  · simpa [maxBuffered] using hn

/-- the continuation request is written exactly when a synchronising literal is accepted -/
theorem cont_only_when_accepting (cfg : Cfg) (n : Nat) (ns : Bool) (s : S) :
    let r := acceptLiteral cfg n ns s
    (r.2.evs = Event.cont s.pos :: s.evs ∧ ns = false ∧ r.1 = none) ∨ r.2.evs = s.evs := by
  unfold acceptLiteral
  cases ns
  · simp [S.emit]
  · right; simp only [Bool.true_and]; split <;> rfl

/-- `d NOOP {12+}⏎e DELETE x⏎` in the authenticated state -/
def discardedPayload : Framing.Bytes :=
  [100,32,78,79,79,80,32,123,49,50,43,125,13,10,101,32,68,69,76,69,84,69,32,120,13,10]

/-- F06: before the repair the payload of the ignored literal was executed … -/
theorem legacy_discard_counterexample :
    Event.exec ⟨.delete, [[120]]⟩ ∈ Legacy.serve false true discardedPayload := by decide

/-- … the repaired server answers the command, says BYE and closes -/
theorem discard_repaired :
    serve { plus := false, preauth := true } discardedPayload
      = [.tagged [100] .bad, .bye, .close] := by decide

end GoImap.C04
