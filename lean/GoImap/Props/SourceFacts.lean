/-
  Proof obligations regenerated from the source tree on every run.

  `GoImap/Gen/SourceFacts.lean` is written by `harness/facts` (go/ast) from the go-imap tree under
  check. The theorems below state what the hand-written models assume about those facts; they
  are closed by `decide`, so an edit of the Go code that changes one of the facts (a limit, the
  state a handler requires before it calls the backend, a handler that stops calling `checkState`)
  breaks a proof obligation even before any test input is generated.
-/
import GoImap.Gen.SourceFacts
import GoImap.Model.Wire
import GoImap.Model.Framing
import GoImap.Model.ClientParse
import GoImap.Model.CmdGrammar
namespace GoImap.SourceFactsProps
open GoImap.Gen.SourceFacts

/-- the limits the models use are the limits in the code -/
theorem limits_match_models :
    maxListDepth = GoImap.Wire.maxListDepth ∧ maxListDepth = GoImap.Framing.maxListDepth ∧
    maxListDepth = GoImap.ClientParse.maxListDepth ∧
    appendLimit = GoImap.Framing.appendLimit ∧ maxSearchKeyDepth = GoImap.Framing.maxSearchKeyDepth := by
  decide

/-- every literal-size threshold in the client, the server and the wire encoder is 4096, compared
    with `>` (sizes up to and including 4096 are the small case), and there are exactly the five
    known decision sites -/
theorem literal_thresholds :
    thresholds.map (fun t => (t.1, t.2.1, t.2.2.2.1, t.2.2.2.2)) =
      [("imapclient/client.go", "commandEncoder.Literal", ">", 4096),
       ("imapserver/conn.go", "Conn.acceptLiteral", ">", 4096),
       ("imapserver/conn.go", "Conn.checkBufferedLiteral", ">", 4096),
       ("internal/imapwire/encoder.go", "Encoder.stringLiteral", ">", 4096),
       ("internal/imapwire/encoder.go", "Encoder.validQuoted", ">", 4096)] ∧
    GoImap.Framing.maxBuffered = 4096 := by
  decide

/-- the limits of the command-grammar model (C02): buffered strings, list nesting, NOT/OR nesting -/
theorem cmd_grammar_limits :
    GoImap.CmdGrammar.maxBuffered = 4096 ∧
    (thresholds.filter fun t => t.2.1 = "Conn.checkBufferedLiteral").map (fun t => (t.2.2.2.1, t.2.2.2.2)) = [(">", GoImap.CmdGrammar.maxBuffered)] ∧
    maxListDepth = GoImap.CmdGrammar.maxListDepth ∧ maxSearchKeyDepth = GoImap.CmdGrammar.maxSearchKeyDepth := by
  decide

/-- RFC 9051 §3/§6: the least state in which each backend operation may be invoked
    ("" = no requirement: connection teardown and polling) -/
def requiredState : String → Option String
  | "Login" => some "NotAuthenticated"
  | "Select" | "Create" | "Delete" | "Rename" | "Subscribe" | "Unsubscribe" | "List" | "Status"
  | "Append" | "Namespace" | "Idle" | "Unauthenticate" => some "Authenticated"
  | "Expunge" | "Search" | "Fetch" | "Store" | "Copy" | "Move" => some "Selected"
  | "Unselect" => some "Selected"
  | "Poll" | "Close" => some ""
  | _ => none

/-- a recorded call is properly guarded: the last `checkState` before it asks for the state the RFC
    requires (credentials additionally consult `canAuth`). `Unselect` inside `handleSelect` is
    executed only under `c.state == Selected` after `checkState(Authenticated)`. -/
def guarded (c : String × String × String × String × Bool) : Bool :=
  match requiredState c.2.2.1 with
  | none => false
  | some st =>
    if c.2.2.1 = "Login" then c.2.2.2.1 = st && c.2.2.2.2
    else if c.2.2.1 = "Unselect" && c.2.1 = "Conn.handleSelect" then c.2.2.2.1 = "Authenticated"
    else c.2.2.2.1 = st

/-- every place where imapserver calls a Session method is preceded, in the same function, by the
    state check the RFC requires for that operation -/
theorem every_session_call_guarded : sessionCalls.all guarded = true := by decide

/-- all nineteen backend operations of the Session interfaces are reached from somewhere -/
theorem session_methods_covered :
    ["Login", "Select", "Create", "Delete", "Rename", "Subscribe", "Unsubscribe", "List", "Status", "Append",
     "Namespace", "Idle", "Unauthenticate", "Unselect", "Expunge", "Search", "Fetch", "Store", "Copy", "Move",
     "Poll", "Close"].all (fun m => sessionCalls.any (fun c => c.2.2.1 = m)) = true := by decide

end GoImap.SourceFactsProps
