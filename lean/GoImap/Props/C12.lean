/-
  C12 — the client routes responses to the right command and mirrors protocol state.
  Property theorems only (helper lemmas: Lemmas/ClientSM*.lean).
-/
import GoImap.Model.ClientSM
import GoImap.Spec.ClientSM
namespace GoImap.C12
open GoImap.ClientSM GoImap.ClientSpec

/-- F18: SELECT INBOX (3 messages, FLAGS 0 1, PERMANENTFLAGS 0 1 6), then an unsolicited FLAGS (0 1 2 3) -/
def trFlags : List Ev :=
  [.greet .preauth true, .submit (.select 0), .exists_ 3, .flags [0, 1], .permFlags [0, 1, 6],
   .tagged 1 .ok (.other 3), .flags [0, 1, 2, 3]]

/-- the shipped client stored the new flags as permanent flags and kept the old flags -/
theorem legacy_flags_counterexample :
    (Legacy.run trFlags).mbox = some ⟨0, 3, [0, 1], [0, 1, 2, 3]⟩ ∧
    (ref trFlags).mbox = some ⟨0, 3, [0, 1, 2, 3], [0, 1, 6]⟩ ∧
    (run trFlags).mbox = (ref trFlags).mbox ∧ Conformant trFlags := by decide

/-- F20: a mailbox is selected, then SELECT of another mailbox is answered NO -/
def trSelectNo : List Ev :=
  [.greet .preauth true, .submit (.select 0), .exists_ 3, .tagged 1 .ok .none,
   .submit (.select 1), .tagged 2 .no (.other 5)]

theorem legacy_select_counterexample :
    (Legacy.run trSelectNo).state = .selected ∧ (Legacy.run trSelectNo).mbox = some ⟨0, 3, [], []⟩ ∧
    (ref trSelectNo).state = .auth ∧ (ref trSelectNo).mbox = none ∧
    (run trSelectNo).state = .auth ∧ (run trSelectNo).mbox = none ∧ Conformant trSelectNo := by decide

end GoImap.C12
