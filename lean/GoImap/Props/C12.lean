/-
  C12 — the client routes responses to the right command and mirrors protocol state.
  Property theorems only (helper lemmas: Lemmas/ClientSM{List,Sim,Inv,Iso}.lean).

  Objects: `ClientSM.run` = the mirrored client (Model/ClientSM.lean, tied to imapclient after every
  step of every generated transcript); `ClientSpec.ref` = the RFC-level interpretation of a
  transcript and `Conformant` = what a conformant server / correct application may do
  (Spec/ClientSM.lean, written from RFC 9051 §3, §5.5, §6.3.2, §7).

  Proved, for ALL transcripts of any length:
    refines            view (run tr) = ref tr for conformant tr (everything the specification can see)
    mirror             state and mailbox summary equal the reference interpretation
    routing            completed commands (status, code, data), pending commands (data so far) and
                       unilateral data equal the reference interpretation
    complete_once      the tags 1..n handed out are, at every moment, each either completed or
                       pending, exactly once (no conformance needed)
    reply_status       a permitted tagged reply completes that tag with that status and code
    isolation          a NO/BAD (a refused literal included) removes only that command, keeps the
                       connection open, releases the encoder and — unless it answers a SELECT —
                       leaves state and mailbox alone (any reachable state, no conformance needed)
    usable             after that, a NOOP answered OK completes OK and changes nothing else
    selected_has_mailbox  state == selected implies Mailbox() != nil (the Go code relies on it)
  Counterexamples kept for the repaired defects (Legacy.*): F18 FLAGS, F19 refused literal,
  F20 SELECT NO, F29 mailbox after BYE.
  Validated by the oracle only (not a theorem): that the Go client behaves like `run`
  (correspondence), the response parser, the goroutine/channel plumbing of Wait().
-/
import GoImap.Lemmas.ClientSMIso
namespace GoImap.C12
open GoImap.ClientSM GoImap.ClientSpec GoImap.ClientLemmas

/-- on a conformant transcript the client is, in everything the specification can observe
    (state, mailbox, tag counter, pending commands with their data, outstanding literal, liveness,
    completions, unilateral data), exactly the reference interpretation -/
theorem refines (tr : List Ev) (h : Conformant tr) : view (run tr) = ref tr := sim tr h

theorem mirror (tr : List Ev) (h : Conformant tr) :
    (run tr).state = (ref tr).state ∧ (run tr).mbox = (ref tr).mbox := by
  have := sim tr h
  exact ⟨congrArg RSt.state this, congrArg RSt.mbox this⟩

theorem routing (tr : List Ev) (h : Conformant tr) :
    (run tr).done = (ref tr).done ∧ (run tr).pending = (ref tr).pend ∧ (run tr).uni = (ref tr).uni := by
  have := sim tr h
  exact ⟨congrArg RSt.done this, congrArg RSt.pend this, congrArg RSt.uni this⟩

/-- exactly once: completed tags followed by pending tags are a permutation of 1..cmdTag -/
theorem complete_once (tr : List Ev) :
    ((run tr).done.map (·.tag) ++ (run tr).pending.map (·.tag)).Perm (List.range' 1 (run tr).tagCtr) :=
  tagsOK_run tr

/-- ... with the status (and code) of the tagged response bearing its tag -/
theorem reply_status (tr : List Ev) (t : Nat) (s : Status) (code : Code)
    (h : Conformant (tr ++ [.tagged t s code])) :
    ∃ k d, (run (tr ++ [.tagged t s code])).done = (run tr).done ++ [⟨t, s, code.id, k, d⟩] := by
  obtain ⟨h1, h2⟩ := conformantFrom_append tr _ rinit h
  have e1 : view (run tr) = ref tr := sim tr h1
  have e2 : view (run (tr ++ [.tagged t s code])) = ref (tr ++ [.tagged t s code]) := sim _ h
  obtain ⟨k, d, hd⟩ := rstep_tagged_done (ref tr) t s code h2
  refine ⟨k, d, ?_⟩
  have a : (run (tr ++ [.tagged t s code])).done = (ref (tr ++ [.tagged t s code])).done := congrArg RSt.done e2
  have b : (run tr).done = (ref tr).done := congrArg RSt.done e1
  rw [a, b, ref_append, hd]

/-- a NO or BAD for the command with tag t (including the refusal of its literal, when the
    encoder is waiting for `+`): every other pending command stays, with its data, in order; the
    connection stays open; nothing is delivered to the unilateral handler; the encoder is released
    if it was waiting on t; and unless t was a SELECT the state and the mailbox are unchanged -/
theorem isolation (tr : List Ev) (t : Nat) (s : Status) (code : Code) (c : Cmd) (rest : List Cmd)
    (hopen : (run tr).closed = false) (hs : s = .no ∨ s = .bad)
    (hr : removeTag t (run tr).pending = some (c, rest)) :
    (∃ pre post, (run tr).pending = pre ++ c :: post ∧ rest = pre ++ post ∧ c.tag = t) ∧
    (run (tr ++ [.tagged t s code])).pending = rest ∧
    (run (tr ++ [.tagged t s code])).closed = false ∧
    (run (tr ++ [.tagged t s code])).uni = (run tr).uni ∧
    (run (tr ++ [.tagged t s code])).done = (run tr).done ++ [⟨t, s, code.id, c.kind, (applyCode code c).data⟩] ∧
    (run (tr ++ [.tagged t s code])).blocked = (if (run tr).blocked = some t then none else (run tr).blocked) ∧
    ((∀ mb, c.kind ≠ .select mb) →
      (run (tr ++ [.tagged t s code])).state = (run tr).state ∧
      (run (tr ++ [.tagged t s code])).mbox = (run tr).mbox) := by
  rw [run_append]
  obtain ⟨a, b, c', _, e, f, g⟩ := isolation_step (run tr) t s code c rest hopen hs hr
  exact ⟨removeTag_split t _ c rest hr, a, b, c', e, f, g⟩

/-- the connection is usable: with the encoder free, a NOOP submitted now and answered OK
    completes OK, nothing else changes -/
theorem usable (tr : List Ev) (hopen : (run tr).closed = false) (hfree : (run tr).blocked = none) :
    (run (tr ++ [.submit .plain] ++ [.tagged ((run tr).tagCtr + 1) .ok .none])).done =
        (run tr).done ++ [⟨(run tr).tagCtr + 1, .ok, 0, .plain, {}⟩] ∧
    (run (tr ++ [.submit .plain] ++ [.tagged ((run tr).tagCtr + 1) .ok .none])).pending = (run tr).pending ∧
    (run (tr ++ [.submit .plain] ++ [.tagged ((run tr).tagCtr + 1) .ok .none])).closed = false ∧
    (run (tr ++ [.submit .plain] ++ [.tagged ((run tr).tagCtr + 1) .ok .none])).state = (run tr).state ∧
    (run (tr ++ [.submit .plain] ++ [.tagged ((run tr).tagCtr + 1) .ok .none])).mbox = (run tr).mbox := by
  rw [run_append, run_append]
  exact usable_step (run tr) (tagsOK_run tr) hopen hfree

/-- Client.mailbox is non-nil whenever Client.state is selected (handleExists/handleExpunge/
    handleFlags dereference it under that condition) -/
theorem selected_has_mailbox (tr : List Ev) (h : (run tr).state = .selected) : (run tr).mbox.isSome = true :=
  hasMbox_run tr h

def trRefusedPrefix : List Ev := [.greet .ok true, .submit .plain, .begin .login]

/-! ### the hypotheses are satisfiable: a pipelined, out-of-order, interleaved transcript -/

/-- SELECT; then FETCH 1,2 ‖ STATUS 1 ‖ NOOP pipelined, answered STATUS, NOOP, FETCH, with an
    unsolicited EXISTS, an unsolicited FETCH of message 5 and FLAGS in between; STATUS refused -/
def trPipelined : List Ev :=
  [.greet .preauth true, .submit (.select 0), .exists_ 4, .flags [0, 3], .permFlags [0, 6], .tagged 1 .ok (.other 3),
   .submit (.fetch false [1, 2]), .submit (.status 1), .submit .plain,
   .fetch ⟨2, 0, [0]⟩, .exists_ 5, .status 1 7, .tagged 3 .no (.other 2), .fetch ⟨5, 0, [3]⟩,
   .tagged 4 .ok .none, .flags [0, 1, 3], .fetch ⟨1, 0, []⟩, .tagged 2 .ok .none]

example : Conformant trPipelined := by decide

example : (run trPipelined).mbox = some ⟨0, 5, [0, 1, 3], [0, 6]⟩ ∧
    (run trPipelined).uni = [.exists_ 5, .fetch ⟨5, 0, [3]⟩, .flags [0, 1, 3]] ∧
    (run trPipelined).done.map (fun d => (d.tag, d.status, d.code)) =
      [(1, .ok, 3), (3, .no, 2), (4, .ok, 0), (2, .ok, 0)] := by decide

/-- the hypotheses of `isolation` hold in a real situation: a NOOP pending, LOGIN waiting for `+` -/
example : (run (trRefusedPrefix)).closed = false ∧
    removeTag 2 (run trRefusedPrefix).pending = some (⟨2, .login, {}, []⟩, [⟨1, .plain, {}, []⟩]) ∧
    (run trRefusedPrefix).blocked = some 2 := by decide

/-! ### the repaired defects, kept as counterexamples about the shipped behaviour -/

/-- F18: SELECT INBOX (3 messages, FLAGS 0 1, PERMANENTFLAGS 0 1 6), then an unsolicited FLAGS (0 1 2 3) -/
def trFlags : List Ev :=
  [.greet .preauth true, .submit (.select 0), .exists_ 3, .flags [0, 1], .permFlags [0, 1, 6],
   .tagged 1 .ok (.other 3), .flags [0, 1, 2, 3]]

/-- the shipped client stored the new flags as permanent flags and kept the old flags -/
theorem legacy_flags_counterexample :
    (Legacy.run trFlags).mbox = some ⟨0, 3, [0, 1], [0, 1, 2, 3]⟩ ∧
    (ref trFlags).mbox = some ⟨0, 3, [0, 1, 2, 3], [0, 1, 6]⟩ ∧
    (run trFlags).mbox = (ref trFlags).mbox ∧ Conformant trFlags := by decide

/-- F19: LOGIN with a synchronising literal is refused (tagged NO instead of `+`) while a NOOP is
    pending; then another NOOP -/
def trRefused : List Ev :=
  [.greet .ok true, .submit .plain, .begin .login, .tagged 2 .no (.other 6), .tagged 1 .ok .none,
   .submit .plain, .tagged 3 .ok .none]

/-- the shipped client closed the connection: the pending NOOP completed with an error, the state
    became logout and the next NOOP failed -/
theorem legacy_flush_counterexample :
    (Legacy.run trRefused).state = .logout ∧ (Legacy.run trRefused).closed = true ∧
    (Legacy.run trRefused).done.map (fun d => (d.tag, d.status)) = [(2, .no), (1, .closed), (3, .closed)] ∧
    (run trRefused).state = .notAuth ∧ (run trRefused).closed = false ∧
    (run trRefused).done.map (fun d => (d.tag, d.status)) = [(2, .no), (1, .ok), (3, .ok)] ∧
    (ref trRefused).done.map (fun d => (d.tag, d.status)) = [(2, .no), (1, .ok), (3, .ok)] ∧
    Conformant trRefused := by decide

/-- F20: a mailbox is selected, then SELECT of another mailbox is answered NO -/
def trSelectNo : List Ev :=
  [.greet .preauth true, .submit (.select 0), .exists_ 3, .tagged 1 .ok .none,
   .submit (.select 1), .tagged 2 .no (.other 5)]

theorem legacy_select_counterexample :
    (Legacy.run trSelectNo).state = .selected ∧ (Legacy.run trSelectNo).mbox = some ⟨0, 3, [], []⟩ ∧
    (ref trSelectNo).state = .auth ∧ (ref trSelectNo).mbox = none ∧
    (run trSelectNo).state = .auth ∧ (run trSelectNo).mbox = none ∧ Conformant trSelectNo := by decide

/-- F29: a mailbox is selected, the server says BYE and closes -/
def trBye : List Ev :=
  [.greet .preauth true, .submit (.select 0), .exists_ 3, .tagged 1 .ok .none, .byeClose]

theorem legacy_close_counterexample :
    (Legacy.run trBye).state = .logout ∧ (Legacy.run trBye).mbox = some ⟨0, 3, [], []⟩ ∧
    (ref trBye).mbox = none ∧ (run trBye).mbox = none ∧ Conformant trBye := by decide

end GoImap.C12
