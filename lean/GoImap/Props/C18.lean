/-
  C18 — the client only uses syntax the server advertised and respects literal synchronisation.
  Property theorems only (helper lemmas: Lemmas/ClientSyntax{Caps,Scan,Run,Cmd}.lean).

  Proved here, for ALL capability sets, enabled sets, argument strings and server scripts:
    * `conforms` — END TO END: whatever the modelled client writes for any of its commands, with any
      arguments, against a server that answers each synchronising literal with `+`, NO or BAD in any
      pattern, is accepted by the independent scanner and rules of Spec/ClientSyntax (`checkCore`):
      the bytes are one well-formed command (or stop at a refused literal), every `{n+}` is allowed
      by the advertised set, every quoted string is free of NUL/CR/LF and 8-bit only where allowed,
      the payload of every `{n}` follows the server's continuation request, and nothing follows a
      tagged refusal. Hypotheses: the command is one of the modelled writers with a well-formed
      MODSEQ entry type (`cmdRawOK`), and the encoder did not itself refuse an argument (an invalid
      flag: the client then closes the connection; judged by the oracle at run time only).
    * `session_state`, `session_conforms` — the same at any point of a session: the client's record
      of capabilities / enabled extensions equals the server's state per the RFCs after any sequence
      of capability lists, ENABLED responses and UNAUTHENTICATE completions (RFC 8437 §3), and the
      command written then is legal for the server as it then stands.
    * `payload_after_cont`, `nothing_after_refusal` — the synchronisation clauses of `conforms`
      spelled out on the scanner's final state; `no_hang`, `no_stale_request` — the command always
      gets the `+` that answers it, and leaves no continuation request behind.
    * `nonsync_legal`, `append_nonsync_legal`, `quoted_legal` — the per-string decision of
      `Encoder.String` / `commandEncoder.Literal` (all strings, all configurations).
    * `caps_has`, `caps_has_table` — `CapSet.Has` is the RFC implication table.
    * `charset_rule`, `charset_parts` — SEARCH names CHARSET UTF-8 iff the server is not IMAP4rev2,
      UTF8=ACCEPT is not enabled and a BODY / TEXT / HEADER string is not ASCII.
    * `legacy_modseq_counterexample`, `legacy_leak_counterexample`, `legacy_stale_request_counterexample`
      — the three behaviours repaired in go-imap (MODSEQ entry name quoted unchecked; a literal's
      payload written after the command was refused; a continuation request queued for a completed
      command swallowing the next command's `+`) are rejected by the oracle, on concrete commands.

  Validated by the oracle at run time only (not proved): the two SEARCH CHARSET clauses of `check`
  on the scanned tokens (the model-level rule is `charset_rule`); commands aborted by the encoder;
  mailbox names that are not valid UTF-8 (outside the model).
-/
import GoImap.Lemmas.ClientSyntaxCmd
namespace GoImap.C18
open GoImap.Wire GoImap.ClientSyntax GoImap.ClientSyntaxLemmas
open GoImap.ClientSyntaxSpec (Server nonSyncLegal utf8Quoted available implies)

/-! ### end to end -/

/-- everything the modelled client writes, and when it writes it, is legal for the server -/
theorem conforms (caps enabled : List Cap) (tagNo : Nat) (c : Cmd) (script : List Act) (o : Outcome)
    (hc : cmdRawOK c = true) (h : exec caps enabled tagNo c script = some o) (hres : o.result ≠ .err) :
    ClientSyntaxSpec.checkCore ⟨caps, enabled⟩ (contsOf o.acts) (refusalsOf o.acts) false o.wire = .ok :=
  (exec_conforms caps enabled tagNo c script o hc h hres).1

/-- the hypotheses are satisfiable and the statement is about real traffic: LOGIN with two
    5000-byte arguments under LITERAL-, first literal granted, second refused -/
example :
    (exec [.imap4rev1, .literalMinus] [] 1 (.login (List.replicate 5000 97) (List.replicate 5000 98)) [.cont, .no]).map
      (fun o => (o.acts, o.result, o.wire.length)) = some ([(17, .cont), (5026, .no)], .no, 5026) := by
  decide +kernel

/-- the payload of a synchronising literal is on the wire only after the server's continuation
    request: the scanner, which fails with `payloadBeforeCont` / `syncUnanswered` when a byte follows
    a `{n}` header the server had not answered with `+` at exactly that offset, never fails -/
theorem payload_after_cont (caps enabled : List Cap) (tagNo : Nat) (c : Cmd) (script : List Act) (o : Outcome)
    (hc : cmdRawOK c = true) (h : exec caps enabled tagNo c script = some o) (hres : o.result ≠ .err) :
    ∀ f, (ClientSyntaxSpec.scan (contsOf o.acts) (refusalsOf o.acts) o.wire).mode ≠ .failed f := by
  intro f hf
  have := conforms caps enabled tagNo c script o hc h hres
  unfold ClientSyntaxSpec.checkCore ClientSyntaxSpec.verdictCore at this
  rw [hf] at this
  simp at this

/-- … and not at all after a tagged refusal: for the scanner the bytes end exactly at the refused
    header (one more byte would be `bytesAfterRefusal`) -/
theorem nothing_after_refusal (caps enabled : List Cap) (tagNo : Nat) (c : Cmd) (script : List Act) (o : Outcome)
    (hc : cmdRawOK c = true) (h : exec caps enabled tagNo c script = some o) (hno : o.result = .no ∨ o.result = .bad) :
    (ClientSyntaxSpec.scan (contsOf o.acts) (refusalsOf o.acts) o.wire).mode = .refused :=
  exec_refused_mode caps enabled tagNo c script o hc h hno

/-- the command always receives the `+` that answers its literal … -/
theorem no_hang (caps enabled : List Cap) (tagNo : Nat) (c : Cmd) (script : List Act) (o : Outcome)
    (hc : cmdRawOK c = true) (h : exec caps enabled tagNo c script = some o) (hres : o.result ≠ .err) :
    o.result ≠ .hang :=
  (exec_conforms caps enabled tagNo c script o hc h hres).2

/-- … and leaves no continuation request in `Client.contReqs` for a later command to trip over -/
theorem no_stale_request (caps enabled : List Cap) (tagNo : Nat) (c : Cmd) (script : List Act) (o : Outcome)
    (q : List Nat) (hc : cmdRawOK c = true) (h : execFrom [] caps enabled tagNo c script = some (o, q))
    (hres : o.result ≠ .err) : q = [] :=
  execFrom_queue_nil caps enabled tagNo c script o q hc h hres

/-! ### across a session -/

/-- what the server said that made the client take this step -/
def toSrv : SessStep → ClientSyntaxSpec.SrvEv
  | .setCaps l => .advertised l
  | .enabled l => .enabledResp l
  | .unauthDone => .unauthenticated

/-- the client's record of the negotiated state is the server's state per the RFCs: a capability
    list replaces the previous one, ENABLED adds, a successful UNAUTHENTICATE clears what was enabled -/
theorem session_state (steps : List SessStep) (s : Sess) (srv : Server)
    (hc : s.caps = srv.adv) (he : s.enabled = srv.enabled) :
    (s.run steps).caps = (srv.afterAll (steps.map toSrv)).adv ∧
      (s.run steps).enabled = (srv.afterAll (steps.map toSrv)).enabled := by
  induction steps generalizing s srv with
  | nil => exact ⟨hc, he⟩
  | cons st steps ih =>
    unfold Sess.run ClientSyntaxSpec.Server.afterAll
    simp only [List.map_cons, List.foldl_cons]
    apply ih
    · cases st <;> simp [Sess.step, toSrv, ClientSyntaxSpec.Server.after, hc]
    · cases st <;> simp [Sess.step, toSrv, ClientSyntaxSpec.Server.after, he]

/-- `conforms` at any point of a session: a command is legal for the server as the server stands
    when the command is written (the snapshot is taken with the encoder lock held), after any
    sequence of capability lists, ENABLED responses and UNAUTHENTICATE completions -/
theorem session_conforms (steps : List SessStep) (tagNo : Nat) (c : Cmd) (script : List Act) (o : Outcome)
    (hc : cmdRawOK c = true) (h : execIn (Sess.run {} steps) tagNo c script = some o) (hres : o.result ≠ .err) :
    ClientSyntaxSpec.checkCore (ClientSyntaxSpec.Server.afterAll ⟨[], []⟩ (steps.map toSrv))
      (contsOf o.acts) (refusalsOf o.acts) false o.wire = .ok := by
  obtain ⟨h1, h2⟩ := session_state steps {} ⟨[], []⟩ rfl rfl
  have := conforms (Sess.run {} steps).caps (Sess.run {} steps).enabled tagNo c script o hc h hres
  rw [h1, h2] at this
  exact this

/-- ENABLE, then UNAUTHENTICATE answered with a capability code: 8-bit goes into a literal again -/
example :
    (execIn (Sess.run {} [.setCaps [.imap4rev1, .enable, .utf8Accept], .enabled [.utf8Accept],
        .setCaps [.imap4rev1], .unauthDone]) 3 (.login [106, 195, 169] [120]) []).map (·.acts) = some [(14, .cont)] ∧
    (execIn (Sess.run {} [.setCaps [.imap4rev1, .enable, .utf8Accept], .enabled [.utf8Accept]])
        2 (.login [106, 195, 169] [120]) []).map (·.acts) = some [] := by decide +kernel

/-! ### the decisions -/

/-- `CapSet.Has` answers exactly what the RFCs say an advertised set makes available -/
theorem caps_has (set : List Cap) (c : Cap) : has set c = available set c :=
  has_eq_available set c

/-- the same on one advertised name: the whole 21 × 21 table, evaluated -/
theorem caps_has_table : ∀ x c : Cap, has [x] c = implies x c := by
  intro x c; cases x <;> cases c <;> rfl

/-- `Encoder.String` as configured by `beginCommand` uses a non-synchronising literal only where
    the server allowed it -/
theorem nonsync_legal (caps enabled : List Cap) (s : Wire.Bytes) (n : Nat)
    (h : rendering (cfgOf caps enabled) s = .nonSyncLit n) :
    n = s.length ∧ nonSyncLegal ⟨caps, enabled⟩ n = true := by
  unfold rendering at h
  by_cases hv : validQuoted (cfgOf caps enabled) s = true
  · simp [hv] at h
  · by_cases hs : needSync (cfgOf caps enabled) s.length = true
    · simp [hv, hs] at h
    · simp only [hv, hs] at h
      have hn : s.length = n := by simpa using h
      subst hn
      exact ⟨rfl, needSync_false_legal caps enabled _ (by simpa using hs)⟩

/-- the APPEND literal (`commandEncoder.Literal`) likewise -/
theorem append_nonsync_legal (caps enabled : List Cap) (n : Nat) (h : appendSync caps n = false) :
    nonSyncLegal ⟨caps, enabled⟩ n = true :=
  appendSync_false_legal caps enabled n h

/-- a string that `Encoder.String` puts in quotes has no NUL, CR or LF, and 8-bit bytes only with
    IMAP4rev2 advertised or UTF8=ACCEPT enabled -/
theorem quoted_legal (caps enabled : List Cap) (s : Wire.Bytes)
    (h : rendering (cfgOf caps enabled) s = .quoted) :
    (∀ b ∈ s, b ≠ 0 ∧ b ≠ 13 ∧ b ≠ 10) ∧ ((∃ b ∈ s, b ≥ 128) → utf8Quoted ⟨caps, enabled⟩ = true) := by
  have hv : validQuoted (cfgOf caps enabled) s = true := by
    unfold rendering at h
    by_cases hv : validQuoted (cfgOf caps enabled) s = true
    · exact hv
    · by_cases hs : needSync (cfgOf caps enabled) s.length = true <;> simp [hv, hs] at h
  have hb := validQuoted_bytes _ s hv
  constructor
  · intro b m; exact ⟨(hb b m).1, (hb b m).2.1, (hb b m).2.2.1⟩
  · intro ⟨b, m, h8⟩
    rw [← quotedUTF8_cfgOf]; exact (hb b m).2.2.2 h8

example : rendering (cfgOf [.imap4rev1, .literalMinus] []) (List.replicate 4096 0) = .nonSyncLit 4096 := by
  decide +kernel
example : rendering (cfgOf [.imap4rev1, .literalMinus] []) (List.replicate 4097 97) = .syncLit 4097 := by
  decide +kernel
example : rendering (cfgOf [.imap4rev2] []) [195, 169] = .quoted := by decide
example : rendering (cfgOf [.imap4rev1] []) [195, 169] = .syncLit 2 := by decide

/-- SEARCH names a charset exactly when it has to -/
theorem charset_rule (caps enabled : List Cap) (c : Crit) :
    sendsCharset caps enabled c =
      (!available caps .imap4rev2 && !available enabled .utf8Accept && !c.isASCII) := by
  unfold sendsCharset; rw [caps_has, caps_has]

/-- … and that is what decides whether `CHARSET UTF-8` is among the encoder calls -/
theorem charset_parts (caps enabled : List Cap) (uid : Bool) (c : Crit) :
    (Cmd.search uid c).parts caps enabled =
      [a (if uid then "UID SEARCH " else "SEARCH ")]
        ++ (if sendsCharset caps enabled c then [a "CHARSET UTF-8 "] else []) ++ c.parts := rfl

/-! ### the behaviour before the repairs -/

def srvOf (caps enabled : List Cap) : Server := ⟨caps, enabled⟩

def judge (caps enabled : List Cap) (o : Option Outcome) : Option ClientSyntaxSpec.Verdict :=
  o.map fun o =>
    ClientSyntaxSpec.check (srvOf caps enabled)
      ((o.acts.filter fun x => x.2 = .cont).map (·.1)) ((o.acts.filter fun x => x.2 ≠ .cont).map (·.1))
      (o.result = .err) o.wire

/-- as shipped, `SEARCH MODSEQ` quoted the entry name unchecked: a CR LF in it ends up inside a
    quoted string (and ends the command line early) -/
theorem legacy_modseq_counterexample :
    judge [.imap4rev1] [] (Legacy.exec [.imap4rev1] [] 1 (.search false (.modseq [97, 13, 10, 98] (ascii "all") 5)) [])
      = some .quotedCtl := by decide +kernel

/-- the repaired writer sends the same name as a literal -/
example :
    judge [.imap4rev1] [] (exec [.imap4rev1] [] 1 (.search false (.modseq [97, 13, 10, 98] (ascii "all") 5)) [])
      = some .ok := by decide +kernel

/-- as shipped, after the server refused the synchronising literal of the first LOGIN argument
    (4097 bytes: too long for LITERAL-), the payload of the second argument's non-synchronising
    literal was still written: bytes after a tagged refusal -/
theorem legacy_leak_counterexample :
    judge [.imap4rev1, .literalMinus] []
        (Legacy.exec [.imap4rev1, .literalMinus] [] 1 (.login (List.replicate 4097 97) [0]) [.no])
      = some (.structure_ .bytesAfterRefusal) := by decide +kernel

example :
    judge [.imap4rev1, .literalMinus] []
        (exec [.imap4rev1, .literalMinus] [] 1 (.login (List.replicate 4097 97) [0]) [.no])
      = some .ok := by decide +kernel

/-- as shipped, a command whose first literal was refused queued a continuation request for its
    second literal after it had completed; the `+` the server sent for the NEXT command's literal
    went to that stale request, and the next command never sent its payload -/
theorem legacy_stale_request_counterexample :
    (Legacy.execSeq [.imap4rev1] [] 1 (.login [10] [10]) [.no] (.login [10] [120]) [.cont]).map (·.result)
      = some .hang ∧
    judge [.imap4rev1] [] (Legacy.execSeq [.imap4rev1] [] 1 (.login [10] [10]) [.no] (.login [10] [120]) [.cont])
      = some (.structure_ .incomplete) := by decide +kernel

example :
    (execSeq [.imap4rev1] [] 1 (.login [10] [10]) [.no] (.login [10] [120]) [.cont]).map (·.result) = some .ok ∧
    judge [.imap4rev1] [] (execSeq [.imap4rev1] [] 1 (.login [10] [10]) [.no] (.login [10] [120]) [.cont])
      = some .ok := by decide +kernel

end GoImap.C18
