/-
  C10 — every client command terminates, whatever happens to the connection.
  Property theorems only; the transition system is GoImap/Model/ClientFault.lean, the property's
  predicate GoImap/Spec/ClientFault.lean.

  Status (phase 1): concrete theorems about the F13 / F13b transcripts and the basic bookkeeping
  lemma of closeWithError. The general theorems (fault_drains, incomplete_is_error) follow below
  once proved; until then they are validated by the oracle on every run only.
-/
import GoImap.Model.ClientFault
import GoImap.Spec.ClientFault
namespace GoImap.C10
open GoImap.ClientFault

/-- greeting; `FETCH 1 BODY[]` answered with a 5-byte literal; the connection is cut after 2 bytes
    of the literal; the caller sits in `Collect` -/
def litCut (legacy : Bool) (f : Fault) : Config :=
  { kinds := [.fetch]
    items := [.greet 37, .fetch 0 [.txt 32, .lit 5, .txt 3], .tagged 0 true 23 6]
    prog := [.greetWait, .issue 0, .collect 0]
    k := 37 + 32 + 2, fault := f, legacyLit := legacy }

/-- after `closeWithError` no command is pending -/
theorem failAll_no_pending (l : List Cmd) : ∀ x ∈ failAll l, pendingCmd x = false := by
  intro x hx
  simp only [failAll, List.mem_map] at hx
  obtain ⟨y, _, rfl⟩ := hx
  by_cases h : pendingCmd y = true
  · rw [if_pos h]
    simp [completeOne, pendingCmd]
  · rw [if_neg h]
    simpa using h

/-- F13 (repaired): with a read error, a deadline or a Close inside the literal everything drains -/
theorem lit_cut_drains :
    terminal (simulate (litCut false .rerr)) = true ∧ terminal (simulate (litCut false .sclose)) = true ∧
    terminal (simulate (litCut false .stimeout)) = true ∧ terminal (simulate (litCut false .werr)) = true ∧
    terminal (simulate (litCut false .eof)) = true := by decide +kernel

/-- F13 (as shipped): `fetchLiteralReader.Read` signalled the reader on io.EOF only. After a read
    error inside the literal the system is stuck for good: the reader waits for the literal's `done`,
    the caller for the message's items, Close for the reader; no rule is enabled and the state is
    not terminal. A clean EOF was harmless even then. -/
theorem legacy_lit_cut_counterexample :
    (terminal (simulate (litCut true .rerr)) = false ∧ next rules (simulate (litCut true .rerr)) = none) ∧
    (simulate (litCut true .sclose)).reader = .litWait ∧ (simulate (litCut true .sclose)).closer = .waiting ∧
    terminal (simulate (litCut true .eof)) = true := by decide +kernel

end GoImap.C10
