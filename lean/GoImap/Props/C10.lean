/-
  C10 — every client command terminates, whatever happens to the connection.
  Property theorems only. The transition system (reader goroutine, caller, Close, failing writer)
  is GoImap/Model/ClientFault.lean; the property's predicate GoImap/Spec/ClientFault.lean; the
  definitions used below (`mu`, `Inv`, `PostFault`, `Contract`, `Drains`, `Reach`) and all helper
  lemmas are in GoImap/Lemmas/ClientFault{Measure,Inv,Drain,Complete}.lean.

  Proved (for the model of the repaired client, all transcripts, all cut points, all faults):
    step_decreases        every step strictly decreases a natural-number measure (no infinite run)
    inv_reachable         the invariant holds in every state of the experiment (initial state, steps
                          of the system in any interleaving, injection of the fault)
    postFault_inject      after the injection the connection has failed or Close was requested
                          (write fault with a free encoder: after the failing write, postFault_fired)
    stuck_is_terminal     after the fault, a state without an enabled step is the terminal state
                          (deadlock freedom), given the caller's contract
    fault_drains          hence every run from a reachable post-fault state that respects the contract
                          is finite, can always be continued, and ends with every call returned, Close
                          returned and the reader gone  (`Drains`)
    incomplete_is_error   in every reachable state a command's result is success only if its tagged
                          completion was fully received (Spec.fullyReceived), + wait_reports_result
    lit_cut_drains, eager_auth_drains      concrete runs of the scheduler end in the terminal state
  Counterexamples kept for the repaired defects (Legacy flags of the model):
    legacy_lit_cut_counterexample   F13: read error inside a FETCH literal: reachable stuck state
    legacy_tag_counterexample       F13b: success reported for a completion cut before its CRLF;
                                    NewStartTLS stuck on upgradeDone
  The caller's contract is the explicit hypothesis `Contract` (streaming commands are consumed, the
  encoder is released); non-vacuity: contract_example.
  Not proved here, validated by the oracle on every run only: that the class recorded for *each
  phase* (not just Wait) equals the command's result — the model records `clsOf result` by
  construction in cRes; the Go scheduler's fairness; everything below net.Conn.
-/
import GoImap.Model.ClientFault
import GoImap.Spec.ClientFault
import GoImap.Lemmas.ClientFaultMeasure
import GoImap.Lemmas.ClientFaultInv
import GoImap.Lemmas.ClientFaultDrain
import GoImap.Lemmas.ClientFaultComplete
namespace GoImap.C10
open GoImap.ClientFault GoImap.ClientFaultLemmas

/-- every step of the system strictly decreases the measure `mu` (tokens left, phases left, where
    the caller is blocked, queued literal, reader alive, done signal, granted continuation
    requests, progress of Close and of the failing writer): there is no infinite run -/
theorem step_decreases (s s' : St) (h : Step s s') : mu s' < mu s :=
  ClientFaultLemmas.step_decreases s s' h

/-- the invariant holds in every state of the experiment on the repaired client -/
theorem inv_reachable (cfg : Config) (h1 : cfg.legacyLit = false) (h2 : cfg.legacyTag = false)
    (s : St) (hr : Reach cfg s) : Inv s := inv_reach h1 h2 hr

/-- a real fault (the connection is cut before the end of the transcript) leaves the connection
    failed or Close requested; for the write fault this needs the encoder to be held or the
    client handle to be missing (otherwise see `postFault_fired`) -/
theorem postFault_inject (cfg : Config) (s : St) (hI : Inv s) (hk : cfg.k < totalLen cfg.items)
    (hf : cfg.fault ≠ .none) (hw : cfg.fault = .werr → s.mutex = true ∨ hasStarttls cfg = true) :
    PostFault (inject cfg s) := by
  unfold inject
  by_cases hcl : s.closedLocal = true
  · have : (decide (cfg.k ≥ totalLen cfg.items) || s.closedLocal) = true := by simp [hcl]
    rw [if_pos this]
    exact Or.inl (by rw [(hI.closed hcl).2]; simp)
  · have : ¬ (decide (cfg.k ≥ totalLen cfg.items) || s.closedLocal) = true := by
      simp only [Bool.or_eq_true, decide_eq_true_eq, not_or]
      exact ⟨by omega, hcl⟩
    rw [if_neg this]
    cases hfa : cfg.fault with
    | none => exact absurd hfa hf
    | eof => exact Or.inl (by simp)
    | rerr => exact Or.inl (by simp)
    | sclose => exact Or.inr rfl
    | stimeout =>
      simp only
      split_ifs
      · exact Or.inl (by simp)
      · exact Or.inr rfl
    | werr =>
      simp only
      rcases hw hfa with h | h
      · split_ifs
        · exact Or.inr rfl
        · exact Or.inr rfl
      · rw [if_pos h]; exact Or.inr rfl

/-- the failing write itself (`closeWithError` from the writer's side) fails the connection -/
theorem postFault_fired (s s' : St) (h : pFire s = some s') : PostFault s' := by
  simp only [pFire] at h
  split_ifs at h
  simp only [Option.some.injEq] at h; subst h
  exact Or.inl (by simp [closeConn])

/-- deadlock freedom after the fault -/
theorem stuck_is_terminal (s : St) (hI : Inv s) (hP : PostFault s) (hC : Contract s)
    (hstuck : next rules s = none) : terminal s = true :=
  ClientFaultLemmas.stuck_is_terminal hI hP hC hstuck

/-- C10, liveness: from every reachable state in which the connection has failed (EOF, read error,
    expired deadline, failed write) or the caller has called Close, every run in which the caller
    honours the contract is finite, never gets stuck before the end, and ends in the terminal
    state: every call of the caller has returned, Close has returned, the reader has exited. -/
theorem fault_drains (cfg : Config) (h1 : cfg.legacyLit = false) (h2 : cfg.legacyTag = false)
    (s : St) (hr : Reach cfg s) (hP : PostFault s) (hC : Contract s) : Drains s :=
  drains_of_inv (mu s) s (Nat.le_refl _) (inv_reach h1 h2 hr) hP hC

/-- the same for any state satisfying the invariant -/
theorem fault_drains_inv (s : St) (hI : Inv s) (hP : PostFault s) (hC : Contract s) : Drains s :=
  drains_of_inv (mu s) s (Nat.le_refl _) hI hP hC

/-- C10, safety: in every reachable state of the experiment on the repaired client, a command
    whose result is success has had its tagged completion fully received — contrapositive: a
    command whose completion was not fully received does not report success -/
theorem incomplete_is_error (cfg : Config) (h2 : cfg.legacyTag = false) (s : St) (hr : Reach cfg s)
    (c : Nat) (x : Cmd) (hx : s.cmds[c]? = some x) (hres : x.result = some true) :
    ClientFaultSpec.fullyReceived (cfg.items.map DriveC10.toResp) cfg.k c = true := by
  have h := (reach_resOK hr).2 c x hx hres
  rw [h2] at h
  rcases h with h | h
  · exact tagged_mem_fullyReceived h
  · exact absurd h (tokenize_noEarly cfg.items cfg.k c true)

/-- what `Wait` (and the final Wait of Close / Collect / Authenticate) reports is the command's
    result: success is recorded only for a command whose result is success -/
theorem wait_reports_result (s s' : St) (c : Nat) (hp : s.pos = .res c) (h : cRes s = some s')
    (hok : s'.out = s.out ++ [Cls.ok]) : ∃ x, s.cmds[c]? = some x ∧ x.result = some true := by
  simp only [cRes, hp] at h
  split at h
  · rename_i x hx
    split at h
    · rename_i ok hres
      split_ifs at h with h1 h2
      · simp only [Option.some.injEq] at h; subst h
        simp at hok
      · simp only [Option.some.injEq] at h; subst h
        cases hpr : s.prog with
        | nil => simp [record, closeConn, hpr] at hok
        | cons a b => simp [record, closeConn, hpr] at hok
      · simp only [Option.some.injEq] at h; subst h
        cases hpr : s.prog with
        | nil => simp [record, hpr] at hok
        | cons a b =>
          simp only [record, hpr, List.append_cancel_left_eq, List.cons.injEq, and_true] at hok
          cases ok with
          | true => exact ⟨x, hx, hres⟩
          | false => simp [clsOf] at hok
    · simp at h
  · simp at h

/-! ## concrete transcripts -/

/-- greeting; `FETCH 1 BODY[]` answered with a 5-byte literal; the connection is cut after 2 bytes
    of the literal; the caller sits in `Collect` -/
def litCut (legacy : Bool) (f : Fault) : Config :=
  { kinds := [.fetch]
    items := [.greet 37, .fetch 0 [.txt 32, .lit 5, .txt 3], .tagged 0 true 23 6]
    prog := [.greetWait, .issue 0, .collect 0]
    k := 37 + 32 + 2, fault := f, legacyLit := legacy }

/-- F13 (repaired): with a read error, a deadline or a Close inside the literal everything drains -/
theorem lit_cut_drains :
    terminal (simulate (litCut false .rerr)) = true ∧ terminal (simulate (litCut false .sclose)) = true ∧
    terminal (simulate (litCut false .stimeout)) = true ∧ terminal (simulate (litCut false .werr)) = true ∧
    terminal (simulate (litCut false .eof)) = true := by decide +kernel

/-- F13 (as shipped): `fetchLiteralReader.Read` signalled the reader on io.EOF only. After a read
    error inside the literal the system is stuck for good: the reader waits for the literal's `done`,
    the caller for the message's items, Close for the reader; no rule is enabled and the state is
    not terminal. A clean EOF was harmless even then. -/
theorem legacy_lit_cut_counterexample :
    (terminal (simulate (litCut true .rerr)) = false ∧ next rules (simulate (litCut true .rerr)) = none) ∧
    (simulate (litCut true .sclose)).reader = .litWait ∧ (simulate (litCut true .sclose)).closer = .waiting ∧
    terminal (simulate (litCut true .eof)) = true := by decide +kernel

/-- greeting; NOOP; the tagged OK (22 bytes, "T1 OK " is 6) is cut after `got` of its bytes -/
def tagCut (legacy : Bool) (kind : Kind) (ph : Phase) (got : Nat) : Config :=
  { kinds := [kind]
    items := [.greet 37, .tagged 0 true 22 6]
    prog := [ph]
    k := 37 + got, fault := .eof, legacyTag := legacy }

/-- F13b (as shipped): `readResponseTagged` completed the command before the CRLF was read. A
    connection cut after "T1 OK " or between CR and LF made Wait report success although the
    completion was not fully received; NewStartTLS then waited for `upgradeDone` forever. The
    repaired model reports an error / drains in all four cases. -/
theorem legacy_tag_counterexample :
    -- Wait reports success for an incomplete completion
    (simulate (tagCut true .simple (.issue 0) 6)).cmds.map (·.result) = [some true] ∧
    (simulate (tagCut true .simple (.issue 0) 21)).cmds.map (·.result) = [some true] ∧
    ClientFaultSpec.fullyReceived ((tagCut true .simple (.issue 0) 21).items.map DriveC10.toResp)
      (tagCut true .simple (.issue 0) 21).k 0 = false ∧
    -- NewStartTLS is stuck
    (simulate (tagCut true .starttls (.starttls 0) 21)).pos = .tls 0 ∧
    terminal (simulate (tagCut true .starttls (.starttls 0) 21)) = false ∧
    -- repaired
    (simulate (tagCut false .simple (.issue 0) 6)).cmds.map (·.result) = [some false] ∧
    (simulate (tagCut false .simple (.issue 0) 21)).cmds.map (·.result) = [some false] ∧
    terminal (simulate (tagCut false .starttls (.starttls 0) 21)) = true := by decide +kernel

/-- AUTHENTICATE completed by the server right after its challenge (the continuation request for
    the SASL answer may be registered after the completion): every fault drains -/
def eagerAuth (f : Fault) : Config :=
  { kinds := [.auth]
    items := [.greet 37, .cont 0 4, .tagged 0 true 49 6, .line 17]
    prog := [.greetWait, .auth 0]
    k := 37 + 4 + 49 + 5, fault := f }

theorem eager_auth_drains :
    terminal (simulate (eagerAuth .eof)) = true ∧ terminal (simulate (eagerAuth .rerr)) = true ∧
    terminal (simulate (eagerAuth .sclose)) = true ∧ terminal (simulate (eagerAuth .stimeout)) = true ∧
    terminal (simulate (eagerAuth .werr)) = true ∧
    (simulate (eagerAuth .eof)).out = [.ret, .ok] := by decide +kernel

/-- the hypotheses of `fault_drains` are satisfiable: the state right after a read error was
    injected into the literal of `litCut` is reachable, post-fault and within the contract -/
theorem contract_example :
    let cfg := litCut false .rerr
    let s := inject cfg (run rulesNoFinal (fuelFor cfg) (initial cfg))
    Reach cfg s ∧ PostFault s ∧ Contract s ∧ terminal s = false := by
  intro cfg s
  have hfl : s.flight = some false := by decide +kernel
  have hpos : s.pos = .lit 0 true := by decide +kernel
  refine ⟨reach_injected cfg, Or.inl (by decide +kernel), ⟨?_, ?_⟩, by decide +kernel⟩
  · intro _ h; rw [hfl] at h; cases h
  · intro _ h; rw [hpos] at h; cases h

/-- … and therefore it drains -/
example : Drains (inject (litCut false .rerr)
    (run rulesNoFinal (fuelFor (litCut false .rerr)) (initial (litCut false .rerr)))) :=
  fault_drains (litCut false .rerr) rfl rfl _ contract_example.1 contract_example.2.1 contract_example.2.2.1

end GoImap.C10
