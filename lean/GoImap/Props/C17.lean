/-
  C17 — STARTTLS boundary: early plaintext is never treated as protected data.
  Property theorems only; helper lemmas live in GoImap/Lemmas/StartTLS.lean.

  Status (phase 1): decision table and the non-example; the switch theorems follow.
-/
import GoImap.Model.StartTLS
import GoImap.Spec.StartTLS
namespace GoImap.C17
open GoImap GoImap.StartTLS

/-- Decision table of `canAuth` / `availableCaps` / `canStartTLS` (imapserver/conn.go, capability.go,
    starttls.go), all 64 rows: credentials are accepted only in the not-authenticated state and only
    over TLS or with InsecureAuth; AUTH=PLAIN is advertised exactly when they are accepted; on a
    plaintext connection without InsecureAuth the listing carries LOGINDISABLED and no AUTH=; once TLS
    is active they are offered, LOGINDISABLED and STARTTLS are gone. -/
theorem no_plain_creds_table (c : Cfg) (st : CState) (tls : Bool) :
    let s : SrvSt := ⟨st, tls⟩
    (canAuth c s = true → (tls = true ∨ c.insecure = true) ∧ st = .notAuth) ∧
    ((availableCaps c s).authPlain = canAuth c s) ∧
    (tls = false → c.insecure = false → st = .notAuth →
      (availableCaps c s).loginDisabled = true ∧ (availableCaps c s).authPlain = false) ∧
    (tls = true → st = .notAuth →
      (availableCaps c s).authPlain = true ∧ (availableCaps c s).loginDisabled = false ∧
      (availableCaps c s).starttls = false) := by
  rcases c with ⟨i, t, p⟩
  cases i <;> cases t <;> cases p <;> cases st <;> cases tls <;> decide

def lineStartTLS : Bytes := [97, 32, 83, 84, 65, 82, 84, 84, 76, 83, 13, 10]        -- "a STARTTLS\r\n"
def lineLogin : Bytes := [98, 32, 76, 79, 71, 73, 78, 32, 117, 32, 112, 13, 10]     -- "b LOGIN u p\r\n"

/-- Non-example (NOT go-imap's behaviour): a reader that is not drained at the switch executes a
    LOGIN pipelined in the segment of the STARTTLS line, and accepts the credentials as if they had
    arrived inside TLS (CVE-2011-0411). -/
theorem keep_counterexample :
    (route .keep (serverExec ⟨false, true, false⟩) (RSt.init (srvInit ⟨false, true, false⟩))
        [lineStartTLS ++ lineLogin]).evs.map (·.2)
      = [.reply [97] .ok none, .call (.login [117] [112]) true,
         .reply [98] .ok (some ⟨false, false, false, true⟩)] := by
  decide

end GoImap.C17
