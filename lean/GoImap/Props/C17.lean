/-
  C17 — STARTTLS boundary: early plaintext is never treated as protected data.
  Property theorems only; definitions (`Word`, `startTLSLine`, `okLine`, `preauthLine`, `credEv`, `CredInv`,
  `Refusing`) and helper lemmas live in GoImap/Lemmas/StartTLS.lean and GoImap/Lemmas/StartTLSExec.lean.

  Proved (all at full strength, nothing partial):
    route_segmentation_independent   with a drained reader the router is the byte-wise scan of the concatenation
    server_switch                    ∀ segmentation of pre ++ "tag STARTTLS\r\n" ++ suffix: parser consumed exactly
                                     pre ++ line, TLS received exactly suffix, no event originates in suffix
    server_switch_no_exec            … and with a non-empty suffix the (trusted) TLS layer never completes a
                                     handshake, so nothing at all is executed after the line
    client_switch                    same for responses after the tagged OK of STARTTLS
    no_plain_creds_table             decision table canAuth / availableCaps / canStartTLS (64 rows)
    no_plain_creds                   along every plaintext run, in every segmentation, a credentials event implies
                                     InsecureAuth; and the handler never hands credentials over unless canAuth
    preauth_refused (+_new, _dial)   PREAUTH greeting ⇒ NewStartTLS and DialStartTLS = error whatever follows, no
                                     further command; dial_without_check_counterexample: the state a constructor
                                     without the check would hand out
    keep_counterexample, keep_client_counterexample
                                     the CVE-2011-0411 hand-over (not go-imap's) violates both switch theorems
  Validated by the oracle only (not modelled): crypto/tls rejecting a stream that starts with injected bytes
  (`tlsAccepts` states the assumption); TLS record framing of what the server writes after its OK.
  Unfinished targets: none.
-/
import GoImap.Model.StartTLS
import GoImap.Spec.StartTLS
import GoImap.Lemmas.StartTLS
import GoImap.Lemmas.StartTLSExec
namespace GoImap.C17
open GoImap GoImap.StartTLS GoImap.StartTLSLemmas

/-- With a drained reader (what go-imap does) the router does not depend on how the bytes were cut
    into segments. -/
theorem route_segmentation_independent {σ ε : Type} (exec : Exec σ ε) (x : σ) (segs segs' : List Bytes)
    (h : segs.flatten = segs'.flatten) :
    route .drain exec (RSt.init x) segs = route .drain exec (RSt.init x) segs' := by
  rw [route_drain_eq_scan exec segs _ (by simp [RSt.init]), route_drain_eq_scan exec segs' _ (by simp [RSt.init]), h]

/-- **Server side.** `pre` is any plaintext input that leaves the parser at a line boundary in plaintext
    mode; the STARTTLS line (any tag, any spelling of the keyword) is acceptable in the state reached
    (`canStartTLS`). For every segmentation of `pre ++ line ++ suffix`: the IMAP parser consumed exactly
    `pre ++ line` in plaintext mode, every byte of `suffix` — buffered or not — went to the TLS layer, the
    connection counts as TLS, the events are exactly those of `pre ++ line` and each originates inside it. -/
theorem server_switch (c : Cfg) (pre tag kw suffix : Bytes) (segs : List Bytes)
    (hflat : segs.flatten = pre ++ startTLSLine tag kw ++ suffix)
    (hpre : (scan .drain (serverExec c) (RSt.init (srvInit c)) pre).mode = .plain ∧
            (scan .drain (serverExec c) (RSt.init (srvInit c)) pre).cur = [])
    (htag : Word tag) (hkw : Word kw) (hup : kw.map upper = kSTARTTLS)
    (hcan : canStartTLS c (scan .drain (serverExec c) (RSt.init (srvInit c)) pre).st = true) :
    let r := route .drain (serverExec c) (RSt.init (srvInit c)) segs
    r.mode = .tls ∧ r.plain = pre ++ startTLSLine tag kw ∧ r.tls = suffix ∧ r.st.tls = true ∧
      r.evs = (scan .drain (serverExec c) (RSt.init (srvInit c)) (pre ++ startTLSLine tag kw)).evs ∧
      (∀ e ∈ r.evs, e.1 < (pre ++ startTLSLine tag kw).length) := by
  have hline : startTLSLine tag kw = (tag ++ 32 :: (kw ++ [13])) ++ [10] := by simp [startTLSLine]
  have hbody : ∀ b ∈ tag ++ 32 :: (kw ++ [13]), b ≠ 10 := by
    intro b hb
    simp only [List.mem_append, List.mem_cons, List.not_mem_nil, or_false] at hb
    rcases hb with hb | rfl | hb | rfl
    · exact word_no_lf htag b hb
    · decide
    · exact word_no_lf hkw b hb
    · decide
  have hex := serverExec_starttls c (scan .drain (serverExec c) (RSt.init (srvInit c)) pre).st tag kw htag hkw hup hcan
  rw [hline] at hflat hex ⊢
  have hsw : (serverExec c (scan .drain (serverExec c) (RSt.init (srvInit c)) pre).st
      ((tag ++ 32 :: (kw ++ [13])) ++ [10])).2.2 = .switch := by rw [hex]
  obtain ⟨h1, h2, h3, h4, h5⟩ := switch_generic (serverExec c) (srvInit c) pre _ suffix segs hflat hpre hbody hsw
  refine ⟨h1, h2, h3, ?_, h4, h5⟩
  -- the protocol state after the line is the handler's
  have hr : route .drain (serverExec c) (RSt.init (srvInit c)) segs
      = scan .drain (serverExec c) (RSt.init (srvInit c)) (pre ++ ((tag ++ 32 :: (kw ++ [13])) ++ [10]) ++ suffix) := by
    rw [route_drain_eq_scan _ segs _ (by simp [RSt.init]), hflat]
  show (route .drain (serverExec c) (RSt.init (srvInit c)) segs).st.tls = true
  rw [hr, scan_append, scan_append]
  generalize hs1 : scan .drain (serverExec c) (RSt.init (srvInit c)) pre = s1 at *
  have hs2 := scan_noLF .drain (serverExec c) _ s1 hpre.1 hbody
  have hstep : scan .drain (serverExec c) s1 ((tag ++ 32 :: (kw ++ [13])) ++ [10])
      = stepByte .drain (serverExec c) (scan .drain (serverExec c) s1 (tag ++ 32 :: (kw ++ [13]))) 10 := by
    rw [scan_append]; rfl
  have hs3 := stepByte_LF .drain (serverExec c) (scan .drain (serverExec c) s1 (tag ++ 32 :: (kw ++ [13])))
    (by rw [hs2]; exact hpre.1)
  have hcur : (scan .drain (serverExec c) s1 (tag ++ 32 :: (kw ++ [13]))).cur = tag ++ 32 :: (kw ++ [13]) := by
    rw [hs2]; simp [hpre.2]
  have hst : (scan .drain (serverExec c) s1 (tag ++ 32 :: (kw ++ [13]))).st = s1.st := by rw [hs2]
  rw [hcur, hst, hex] at hs3
  rw [hstep, hs3, scan_tls .drain (serverExec c) suffix _ rfl]

/-- … consequently, when anything at all was injected after the line, the TLS layer (trusted: a handshake
    over a stream that starts with foreign bytes fails) never completes a handshake and the whole case
    executes nothing but `pre ++ line`: no command inside TLS, no event from the suffix. -/
theorem server_switch_no_exec (c : Cfg) (pre tag kw suffix : Bytes) (segs : List Bytes) (hs : Bool) (post : Bytes)
    (hflat : segs.flatten = pre ++ startTLSLine tag kw ++ suffix)
    (hpre : (scan .drain (serverExec c) (RSt.init (srvInit c)) pre).mode = .plain ∧
            (scan .drain (serverExec c) (RSt.init (srvInit c)) pre).cur = [])
    (htag : Word tag) (hkw : Word kw) (hup : kw.map upper = kSTARTTLS)
    (hcan : canStartTLS c (scan .drain (serverExec c) (RSt.init (srvInit c)) pre).st = true)
    (hinj : suffix ≠ []) :
    let run := runServer .drain c segs hs post
    run.accepted = true ∧ run.hsOK = false ∧ run.post = [] ∧
      run.r.evs = (scan .drain (serverExec c) (RSt.init (srvInit c)) (pre ++ startTLSLine tag kw)).evs := by
  obtain ⟨_, _, h3, h4, h5, _⟩ := server_switch c pre tag kw suffix segs hflat hpre htag hkw hup hcan
  have hne : suffix.isEmpty = false := by cases suffix with | nil => exact absurd rfl hinj | cons _ _ => rfl
  simp only [runServer, h3, h4, tlsAccepts, hne, Bool.and_false, Bool.false_eq_true, if_false]
  exact ⟨trivial, trivial, by simp [RSt.init], h5⟩

/-- **Client side.** `pre` is any plaintext response stream after which the STARTTLS command (tag `tag`) is
    still pending and the parser is at a line boundary; `tag OK text` completes it. For every segmentation
    of `pre ++ line ++ suffix`: the response parser consumed exactly `pre ++ line`, every byte of `suffix`
    went to the TLS layer, and no event (nothing handed to the caller) originates in `suffix`. -/
theorem client_switch (tag0 pre tag w suffix : Bytes) (segs : List Bytes)
    (hflat : segs.flatten = pre ++ okLine tag w ++ suffix)
    (hpre : (scan .drain clientExec (RSt.init (cliInit tag0)) pre).mode = .plain ∧
            (scan .drain clientExec (RSt.init (cliInit tag0)) pre).cur = [])
    (htag : Word tag) (hstar : tag ≠ kStar) (hw : Word w) (hcode : w.head? ≠ some 91)
    (hpend : (scan .drain clientExec (RSt.init (cliInit tag0)) pre).st.pending = true)
    (hstart : (scan .drain clientExec (RSt.init (cliInit tag0)) pre).st.startTag = tag) :
    let r := route .drain clientExec (RSt.init (cliInit tag0)) segs
    r.mode = .tls ∧ r.plain = pre ++ okLine tag w ∧ r.tls = suffix ∧
      r.evs = (scan .drain clientExec (RSt.init (cliInit tag0)) (pre ++ okLine tag w)).evs ∧
      (∀ e ∈ r.evs, e.1 < (pre ++ okLine tag w).length) := by
  have hline : okLine tag w = (tag ++ 32 :: (kOK ++ 32 :: (w ++ [13]))) ++ [10] := by simp [okLine]
  have hbody : ∀ b ∈ tag ++ 32 :: (kOK ++ 32 :: (w ++ [13])), b ≠ 10 := by
    intro b hb
    simp only [List.mem_append, List.mem_cons, List.not_mem_nil, or_false] at hb
    rcases hb with hb | rfl | hb | rfl | hb | rfl
    · exact word_no_lf htag b hb
    · decide
    · revert b; decide
    · decide
    · exact word_no_lf hw b hb
    · decide
  have hex := clientExec_ok (scan .drain clientExec (RSt.init (cliInit tag0)) pre).st tag w htag hstar hw hcode hpend hstart
  rw [hline] at hflat hex ⊢
  have hsw : (clientExec (scan .drain clientExec (RSt.init (cliInit tag0)) pre).st
      ((tag ++ 32 :: (kOK ++ 32 :: (w ++ [13]))) ++ [10])).2.2 = .switch := by rw [hex]
  exact switch_generic clientExec (cliInit tag0) pre _ suffix segs hflat hpre hbody hsw

/-- Decision table of `canAuth` / `availableCaps` / `canStartTLS` (imapserver/conn.go, capability.go,
    starttls.go), all 64 rows: credentials are accepted only in the not-authenticated state and only
    over TLS or with InsecureAuth; AUTH=PLAIN is advertised exactly when they are accepted; on a
    plaintext connection without InsecureAuth the listing carries LOGINDISABLED and no AUTH=; once TLS
    is active they are offered, LOGINDISABLED and STARTTLS are gone. -/
theorem no_plain_creds_table (c : Cfg) (st : CState) (tls : Bool) :
    let s : SrvSt := ⟨st, tls⟩
    (canAuth c s = true → (tls = true ∨ c.insecure = true) ∧ st = .notAuth) ∧
    ((availableCaps c s).authPlain = canAuth c s) ∧
    (tls = false → c.insecure = false → st = .notAuth →
      (availableCaps c s).loginDisabled = true ∧ (availableCaps c s).authPlain = false) ∧
    (tls = true → st = .notAuth →
      (availableCaps c s).authPlain = true ∧ (availableCaps c s).loginDisabled = false ∧
      (availableCaps c s).starttls = false) := by
  rcases c with ⟨i, t, p⟩
  cases i <;> cases t <;> cases p <;> cases st <;> cases tls <;> decide

/-- The handler of any line hands credentials (LOGIN arguments, a SASL response) to the session only when
    `canAuth` holds; and along the whole raw-socket run of any input in any segmentation, a credentials
    event implies that the server was configured with InsecureAuth (with a drained reader nothing is
    executed on the raw socket once TLS is active). -/
theorem no_plain_creds (c : Cfg) :
    (∀ s line, ∀ ev ∈ (serverExec c s line).2.1, credEv ev = true → canAuth c s = true) ∧
    (∀ segs : List Bytes, ∀ e ∈ (route .drain (serverExec c) (RSt.init (srvInit c)) segs).evs,
        credEv e.2 = true → c.insecure = true) := by
  refine ⟨fun s line => (serverExec_ok c s line).1, ?_⟩
  intro segs
  rw [route_drain_eq_scan _ segs _ (by simp [RSt.init])]
  exact (scan_credInv c _ _ (credInv_init c)).2.2

/-- A client that upgrades — through either constructor, `NewStartTLS` or `DialStartTLS` — refuses a
    pre-authenticated greeting: whatever follows `* PREAUTH text` (the
    tagged OK, injected responses, anything) in whatever segmentation, with or without a handshake,
    NewStartTLS returns an error, and it puts no further command on the wire. -/
theorem preauth_refused (k : Ctor) (tag w rest : Bytes) (segs : List Bytes) (hs : Bool)
    (hw : Word w) (hcode : w.head? ≠ some 91) (hflat : segs.flatten = preauthLine w ++ rest) :
    (runClient .drain k tag segs hs).result = .error ∧ furtherCommands (runClient .drain k tag segs hs).r.st = [] := by
  refine ⟨?_, rfl⟩
  show construct k (route .drain clientExec (RSt.init (cliInit tag)) segs).st = .error
  have hk : ∀ s, construct k s = newStartTLS s := by intro s; cases k <;> rfl
  rw [hk]
  apply newStartTLS_refusing
  rw [route_drain_eq_scan _ segs _ (by simp [RSt.init]), hflat, scan_append]
  apply scan_refusing
  -- the greeting line itself
  have hline : preauthLine w = (kStar ++ 32 :: (kPREAUTH ++ 32 :: (w ++ [13]))) ++ [10] := by simp [preauthLine]
  have hbody : ∀ b ∈ kStar ++ 32 :: (kPREAUTH ++ 32 :: (w ++ [13])), b ≠ 10 := by
    intro b hb
    simp only [List.mem_append, List.mem_cons, List.not_mem_nil, or_false] at hb
    rcases hb with hb | rfl | hb | rfl | hb | rfl
    · revert b; decide
    · decide
    · revert b; decide
    · decide
    · exact word_no_lf hw b hb
    · decide
  have hex := clientExec_preauth (cliInit tag) w hw hcode rfl
  rw [hline] at hex ⊢
  rw [scan_append, scan_noLF .drain clientExec _ (RSt.init (cliInit tag)) rfl hbody]
  rw [scan_cons, scan_nil, stepByte_LF .drain clientExec _ rfl]
  simp only [RSt.init, List.nil_append]
  rw [hex]
  exact ⟨rfl, by simp⟩

def lineStartTLS : Bytes := [97, 32, 83, 84, 65, 82, 84, 84, 76, 83, 13, 10]        -- "a STARTTLS\r\n"
def lineLogin : Bytes := [98, 32, 76, 79, 71, 73, 78, 32, 117, 32, 112, 13, 10]     -- "b LOGIN u p\r\n"
def lineGreet : Bytes := [42, 32, 79, 75, 32, 104, 105, 13, 10]                     -- "* OK hi\r\n"
def lineT1OK : Bytes := [84, 49, 32, 79, 75, 32, 103, 111, 13, 10]                  -- "T1 OK go\r\n"
def line5Exists : Bytes := [42, 32, 53, 32, 69, 88, 73, 83, 84, 83, 13, 10]         -- "* 5 EXISTS\r\n"

/-- the two constructors instantiated -/
theorem preauth_refused_new (tag w rest : Bytes) (segs : List Bytes) (hs : Bool)
    (hw : Word w) (hcode : w.head? ≠ some 91) (hflat : segs.flatten = preauthLine w ++ rest) :
    (runClient .drain .newStartTLS tag segs hs).result = .error :=
  (preauth_refused .newStartTLS tag w rest segs hs hw hcode hflat).1

theorem preauth_refused_dial (tag w rest : Bytes) (segs : List Bytes) (hs : Bool)
    (hw : Word w) (hcode : w.head? ≠ some 91) (hflat : segs.flatten = preauthLine w ++ rest) :
    (runClient .drain .dialStartTLS tag segs hs).result = .error :=
  (preauth_refused .dialStartTLS tag w rest segs hs hw hcode hflat).1

/-- Non-example: a `DialStartTLS` that calls `New` + `startTLS` itself and returns the client as soon as
    the command completed (no state check) hands out an authenticated client on `* PREAUTH` + tagged OK -/
theorem dial_without_check_counterexample :
    let r := route .drain clientExec (RSt.init (cliInit [84, 49]))
      [[42, 32, 80, 82, 69, 65, 85, 84, 72, 32, 104, 105, 13, 10] ++ lineT1OK]
    r.st.result = some .ok ∧ r.st.state = .auth ∧ construct .dialStartTLS r.st = .error := by
  decide

/-- Non-example (NOT go-imap's behaviour): a reader that is not drained at the switch executes a
    LOGIN pipelined in the segment of the STARTTLS line, and accepts the credentials as if they had
    arrived inside TLS (CVE-2011-0411) — `server_switch` fails for `Handover.keep`. -/
theorem keep_counterexample :
    (route .keep (serverExec ⟨false, true, false⟩) (RSt.init (srvInit ⟨false, true, false⟩))
        [lineStartTLS ++ lineLogin]).evs
      = [(11, .reply [97] .ok none), (24, .call (.login [117] [112]) true),
         (24, .reply [98] .ok (some ⟨false, false, false, true⟩))] ∧
    (route .drain (serverExec ⟨false, true, false⟩) (RSt.init (srvInit ⟨false, true, false⟩))
        [lineStartTLS ++ lineLogin]).evs = [(11, .reply [97] .ok none)] := by
  decide

/-- the same on the client: an `EXISTS` appended to the tagged OK in the same segment is handed to the
    caller by an undrained reader, and is not by go-imap's -/
theorem keep_client_counterexample :
    ((route .keep clientExec (RSt.init (cliInit [84, 49])) [lineGreet, lineT1OK ++ line5Exists]).evs.map (·.2)).contains (.exists_ 5) = true ∧
    ((route .drain clientExec (RSt.init (cliInit [84, 49])) [lineGreet, lineT1OK ++ line5Exists]).evs.map (·.2)).contains (.exists_ 5) = false ∧
    (route .drain clientExec (RSt.init (cliInit [84, 49])) [lineGreet, lineT1OK ++ line5Exists]).tls = line5Exists := by
  decide

/-! ### the hypotheses are satisfiable (non-vacuity) -/

example : Word [97] ∧ Word kSTARTTLS ∧ kSTARTTLS.map upper = kSTARTTLS := by
  refine ⟨⟨by decide, by decide⟩, ⟨by decide, by decide⟩, by decide⟩

/-- `server_switch` applies to: pre = "p CAPABILITY\r\n", line "a starttls\r\n", server with TLS, no InsecureAuth -/
example :
    let c : Cfg := ⟨false, true, false⟩
    let pre : Bytes := [112, 32, 67, 65, 80, 65, 66, 73, 76, 73, 84, 89, 13, 10]
    ((scan .drain (serverExec c) (RSt.init (srvInit c)) pre).mode = .plain ∧
     (scan .drain (serverExec c) (RSt.init (srvInit c)) pre).cur = []) ∧
    canStartTLS c (scan .drain (serverExec c) (RSt.init (srvInit c)) pre).st = true ∧
    ([115, 116, 97, 114, 116, 116, 108, 115] : Bytes).map upper = kSTARTTLS := by
  decide

/-- `client_switch` applies to: pre = "* OK hi\r\n", tag T1 -/
example :
    ((scan .drain clientExec (RSt.init (cliInit [84, 49])) lineGreet).mode = .plain ∧
     (scan .drain clientExec (RSt.init (cliInit [84, 49])) lineGreet).cur = []) ∧
    (scan .drain clientExec (RSt.init (cliInit [84, 49])) lineGreet).st.pending = true ∧
    (scan .drain clientExec (RSt.init (cliInit [84, 49])) lineGreet).st.startTag = [84, 49] := by
  decide

end GoImap.C17
