/-
  C08 — on-the-wire mailbox view consistency across sessions.
  Property theorems only; definitions used in the statements (`judge`, `Reach`, `GInv`, `ViewRel`,
  `seqNums`, `kQuiet`/`kSeq`/`kStart`, `runAll`) and all helper lemmas live in GoImap/Lemmas/Views*.lean.

  Setting. `Views.exec {}` is the mirror of the server + in-memory backend for one command of one
  connection (Model/Views.lean, over C07's tracker mirror). `ViewsSpec.stepView` folds the response the
  connection receives into its ANNOUNCED VIEW, rebuilt from the wire only (Spec/Views.lean), and fails
  exactly when one of the property's clauses is violated; `judge` runs a whole history this way and is
  what the differential driver evaluates on the implementation's events. `Reach nmb nconn st A`: the
  state `st` and the announced views `A` are reached by some history from the initial state.

  Status: all five targets of DESIGN §5.8 proved for ALL histories (any number of mailboxes and
  connections, any interleaving of APPEND / SELECT / CLOSE / UNSELECT / STORE / EXPUNGE / UID EXPUNGE / COPY /
  MOVE / FETCH / SEARCH / NOOP / IDLE..DONE, UID and non-UID, every number set incl. "*"):
    oracle_accepts, no_panic        the oracle never fails on the model, the model never panics
    in_range                        clause 1 (corollary of C07's encode_spec / poll_expected via `GInv`)
    no_expunge_in                   clause 2 (corollary of C07's poll_no_expunge)
    shrink_only_by_expunge          clause 3a
    each_removed_once               clause 3b: labels never repeat; with noop_sync and 3a, the EXPUNGE events
                                    between two NOOPs remove exactly the messages that left the mailbox
    noop_sync                       clause 4 (corollary of C07's noop_sync): same length, every labelled
                                    slot carries the UID at that position
    check_point_sync                clause 4 as the oracle evaluates it: after NOOP and UID FETCH 1:* (UID) the
                                    announced view is literally the mailbox's UID list, every slot labelled
    no_expunge_in_poll, legacy_move_counterexample, legacy_fetch_counterexample (findings F09/F10)
  Partial by design, not by proof: "*" under a stale view is resolved as the code does (against the
  server's count, DESIGN §7 Q1).
-/
import GoImap.Model.Views
import GoImap.Spec.Views
import GoImap.Lemmas.ViewsSync
import GoImap.Props.C07
namespace GoImap.C08
open GoImap.Tracker GoImap.TrackerSpec GoImap.TrackerLemmas GoImap.Views GoImap.ViewsSpec GoImap.ViewsLemmas

/-- the poll that follows a FETCH, STORE or SEARCH that is not a UID command (allowExpunge = false)
    sends no EXPUNGE to the connection — in any state -/
theorem no_expunge_in_poll {st st' : Views.St} {c : Nat} {evs : List Ev}
    (h : pollConn st c false = some (st', evs)) : ∀ k, Ev.expunge k ∉ evs := by
  rcases pollConn_some h with ⟨rfl, _, _⟩ | ⟨cn, m, b, t, out, _, _, _, hstep, rfl, _⟩
  · intro k hk; cases hk
  · apply render_no_expunge
    simp only [step] at hstep
    split at hstep
    · simp only [Option.some.injEq, Prod.mk.injEq] at hstep
      obtain ⟨_, rfl⟩ := hstep
      intro u hu; cases hu
    · simp only [Option.some.injEq, Prod.mk.injEq] at hstep
      obtain ⟨_, rfl⟩ := hstep
      exact (C07.poll_no_expunge _).1

/-! ## all histories -/

/-- for every history, with any number of mailboxes and connections, the oracle accepts everything
    the model puts on the wire: `judge` never fails -/
theorem oracle_accepts (nmb nconn : Nat) (ops : List (Nat × Cmd)) :
    ∃ st A, judge {} (Views.init nmb nconn) (List.replicate nconn []) ops = .ok (st, A) := by
  obtain ⟨st, A, _, h, _⟩ := judge_accepts ops (ginv_init nmb nconn)
  exact ⟨st, A, h⟩

example : ∃ st A, judge {} (Views.init 2 2) [[], []]
    [(0, .append 0 1), (0, .select 0), (1, .select 0), (1, .expunge), (0, .fetch false [(1, 0)] true false),
     (0, .noop)] = .ok (st, A) ∧ A = [[], []] := ⟨_, _, rfl, by decide⟩

/-- a history leaving connection 0 with a stale view: it was announced three messages; meanwhile
    connection 1 expunged the first one and appended a fourth -/
def demoOps : List (Nat × Cmd) :=
  [(0, .append 0 1), (0, .append 0 0), (0, .append 0 0), (0, .select 0), (1, .select 0), (1, .expunge), (1, .append 0 4)]

/-- the hypotheses of the theorems below are satisfiable in a non-trivial way: in the state reached by
    `demoOps`, `FETCH 1:* (FLAGS)` on connection 0 answers for its messages 2 and 3 (the server's 1 and 2;
    the server's third message is not announced yet and is skipped), and NOOP then reports the expunge
    of its message 1 and the new count -/
example : ∃ st A, Reach 2 2 st A ∧ A.getD 0 [] = [none, none, none] ∧
    (exec {} st 0 (.fetch false [(1, 0)] true false)).2.evs = [.fetch 2 2 (some 0), .fetch 3 3 (some 0)] ∧
    (exec {} st 0 .noop).2.evs = [.expunge 1, .exists_ 3] :=
  ⟨_, _, ⟨demoOps, rfl⟩, by decide, by decide, by decide⟩

/-- every state reached by a history carries the invariant: each mailbox's tracker is in C07's `Inv`
    with a ghost mailbox, each selected connection's announced view is its ghost session's view -/
theorem reach_inv {nmb nconn : Nat} {st : Views.St} {A : List View} (h : Reach nmb nconn st A) :
    ∃ G, GInv st G A := reach_ginv h

/-- in a reachable state no command makes the model panic (the tracker's range checks, a missing
    session, a misaligned payload never happen), and the oracle accepts its response -/
theorem no_panic {nmb nconn : Nat} {st : Views.St} {A : List View} (h : Reach nmb nconn st A) (c : Nat) (cmd : Cmd) :
    (exec {} st c cmd).2.status ≠ .crash ∧
    ∃ Ac, stepView (kindOf cmd) (exec {} st c cmd).2 (A.getD c []) = .ok Ac := by
  obtain ⟨G, hG⟩ := reach_ginv h
  obtain ⟨h1, _, Ac, h2, _⟩ := exec_accepts hG c cmd
  exact ⟨h1, Ac, h2⟩

/-- what the response of a command is folded into: the view before it (the empty view for SELECT) with
    the oracle's parameters for the kind of command; always defined in a reachable state -/
theorem response_accepted {nmb nconn : Nat} {st : Views.St} {A : List View} (h : Reach nmb nconn st A) (c : Nat)
    (cmd : Cmd) :
    ∃ v', applyEvs (kQuiet (kindOf cmd)) (kSeq (kindOf cmd)) (kStart (kindOf cmd) (A.getD c []))
      (exec {} st c cmd).2.evs = .ok v' := by
  obtain ⟨G, hG⟩ := reach_ginv h
  obtain ⟨hcr, _, Ac, hv, _, hskip⟩ := exec_accepts hG c cmd
  cases hs : (exec {} st c cmd).2.status with
  | skip => rw [hskip hs]; exact ⟨_, rfl⟩
  | crash => exact absurd hs hcr
  | ok => simp only [stepView, hs] at hv; exact afterResp_ok hv
  | no => simp only [stepView, hs] at hv; exact afterResp_ok hv
  | bad => simp only [stepView, hs] at hv; exact afterResp_ok hv
  | cont => simp only [stepView, hs] at hv; exact afterResp_ok hv

/-- clause 1. Every sequence number the server sends — in a FETCH, an EXPUNGE, the results of a SEARCH
    that is not a UID command — lies between 1 and the count announced on that connection AT THAT
    MOMENT: `vm` is the announced view after the events `pre` that precede the event `e` in the response -/
theorem in_range {nmb nconn : Nat} {st : Views.St} {A : List View} (h : Reach nmb nconn st A) (c : Nat) (cmd : Cmd)
    {pre post : List Ev} {e : Ev} (hsplit : (exec {} st c cmd).2.evs = pre ++ e :: post) :
    ∃ vm, applyEvs (kQuiet (kindOf cmd)) (kSeq (kindOf cmd)) (kStart (kindOf cmd) (A.getD c [])) pre = .ok vm ∧
      ∀ n ∈ seqNums (kSeq (kindOf cmd)) e, 1 ≤ n ∧ n ≤ vm.length := by
  obtain ⟨v', hv⟩ := response_accepted h c cmd
  rw [hsplit] at hv
  obtain ⟨vm, vm', h1, h2, _⟩ := applyEvs_split hv
  exact ⟨vm, h1, applyEv_inRange h2⟩

/-- clause 2. While answering a FETCH, STORE or SEARCH that is not a UID command no EXPUNGE is sent -/
theorem no_expunge_in {nmb nconn : Nat} {st : Views.St} {A : List View} (h : Reach nmb nconn st A) (c : Nat)
    (cmd : Cmd) (hk : kindOf cmd = .quiet) : ∀ k, Ev.expunge k ∉ (exec {} st c cmd).2.evs := by
  obtain ⟨v', hv⟩ := response_accepted h c cmd
  rw [hk] at hv
  exact applyEvs_quiet hv

example : kindOf (.store false [(1, 0)] .add 1 false) = .quiet ∧ kindOf (.fetch false [(0, 0)] true true) = .quiet ∧
    kindOf (.search false ⟨some [(2, 0)], none, 0, 1⟩ true) = .quiet ∧ kindOf (.fetch true [(1, 0)] false false) = .other :=
  ⟨rfl, rfl, rfl, rfl⟩

/-- clause 3a. The announced count shrinks only through EXPUNGE: an EXPUNGE removes exactly one
    announced slot, every other event leaves the count or lets it grow -/
theorem shrink_only_by_expunge {nmb nconn : Nat} {st : Views.St} {A : List View} (h : Reach nmb nconn st A) (c : Nat)
    (cmd : Cmd) {pre post : List Ev} {e : Ev} (hsplit : (exec {} st c cmd).2.evs = pre ++ e :: post) :
    ∃ vm vm', applyEvs (kQuiet (kindOf cmd)) (kSeq (kindOf cmd)) (kStart (kindOf cmd) (A.getD c [])) pre = .ok vm ∧
      applyEv (kQuiet (kindOf cmd)) (kSeq (kindOf cmd)) vm e = .ok vm' ∧
      ((∃ k, e = .expunge k ∧ vm'.length + 1 = vm.length) ∨ ((∀ k, e ≠ .expunge k) ∧ vm.length ≤ vm'.length)) := by
  obtain ⟨v', hv⟩ := response_accepted h c cmd
  rw [hsplit] at hv
  obtain ⟨vm, vm', h1, h2, _⟩ := applyEvs_split hv
  exact ⟨vm, vm', h1, h2, applyEv_length h2⟩

/-- clause 4. After NOOP on a connection that has a mailbox selected, the announced view IS the
    mailbox's message list: the same number of slots, and every slot that carries a label carries the
    UID of the message at that position -/
theorem noop_sync {nmb nconn : Nat} {st : Views.St} {A : List View} (h : Reach nmb nconn st A) {c : Nat} {cn : Conn}
    (hc : st.conns[c]? = some cn) (hi : cn.idle = false) {m : Nat} (hs : cn.sel = some m) :
    ∃ Ac b, stepView .other (exec {} st c .noop).2 (A.getD c []) = .ok Ac ∧
      (exec {} st c .noop).1.mb[m]? = some b ∧ Ac.length = b.msgs.length ∧
      ∀ (j u : Nat), Ac[j]? = some (some u) → (b.msgs[j]?).map (·.uid) = some u := by
  obtain ⟨G, hG⟩ := reach_ginv h
  obtain ⟨r, hr⟩ := pollConn_some_of_ginv hG c true
  obtain ⟨st', evs⟩ := r
  have hex : exec {} st c .noop = (st', Views.ok evs) := by
    have hc' : getConn st c = some cn := hc
    simp only [exec, exec?, hc', hi, hr]
  obtain ⟨G', Ac, hacc, h', hsync⟩ := ginv_poll hG hr false true (by intro hh; cases hh)
  obtain ⟨g', _, hg', _, _, _, _, hv⟩ := hsync rfl cn m hc hs
  have hmlt : m < st'.mb.length := by rw [h'.mlen]; exact (List.getElem?_eq_some_iff.mp hg').1
  have hb : st'.mb[m]? = some st'.mb[m] := List.getElem?_eq_getElem hmlt
  have hmb := h'.mb m _ g' hb hg'
  refine ⟨Ac, st'.mb[m], ?_, ?_, ?_, ?_⟩
  · rw [hex]; simpa [stepView, Views.ok, afterResp] using hacc
  · rw [hex]; exact hb
  · rw [hv.length, msgs_length hmb]
  · intro j u hj
    obtain ⟨i, hi', hu⟩ := hv.label j hj
    have h1 : (st'.mb[m].msgs.map (·.uid))[j]? = some u := by
      rw [hmb.uids]; simp [hi', hu]
    simpa using h1

/-- clause 4 as evaluated at the harness's check points: NOOP, then UID FETCH 1:* (UID) on the same
    connection; the announced view rebuilt from those responses is exactly the mailbox's UID list -/
theorem check_point_sync {nmb nconn : Nat} {st : Views.St} {A : List View} (h : Reach nmb nconn st A) {c : Nat}
    {cn : Conn} (hc : st.conns[c]? = some cn) (hi : cn.idle = false) {m : Nat} (hs : cn.sel = some m) :
    ∃ Ac1 Ac2 b, stepView .other (exec {} st c .noop).2 (A.getD c []) = .ok Ac1 ∧
      stepView .other (exec {} (exec {} st c .noop).1 c (.fetch true [(1, 0)] false false)).2 Ac1 = .ok Ac2 ∧
      (exec {} (exec {} st c .noop).1 c (.fetch true [(1, 0)] false false)).1.mb[m]? = some b ∧
      Ac2 = b.msgs.map fun x => some x.uid := by
  obtain ⟨G, hG⟩ := reach_ginv h
  exact check_point hG hc hi hs

/-- clause 3b. In a reachable state the labels of an announced view are pairwise distinct: no message
    ever occupies two announced slots, so an EXPUNGE (which removes exactly one slot,
    `shrink_only_by_expunge`, within range, `in_range`) cannot report a message a second time; and by
    `noop_sync` after NOOP exactly the mailbox's messages are left, so none went unreported -/
theorem each_removed_once {nmb nconn : Nat} {st : Views.St} {A : List View} (h : Reach nmb nconn st A) (c : Nat) :
    ((A.getD c []).filterMap id).Nodup := by
  obtain ⟨G, hG⟩ := reach_ginv h
  by_cases hc : c < st.conns.length
  · have hcn : st.conns[c]? = some st.conns[c] := List.getElem?_eq_getElem hc
    have hci := hG.conn c _ hcn
    unfold ConnInv at hci
    cases hs : st.conns[c].sel with
    | none => rw [hs] at hci; rw [hci.1]; exact List.nodup_nil
    | some m =>
      rw [hs] at hci
      obtain ⟨g, gs, hg, hgs, _, hv, _⟩ := hci
      have hmlt : m < st.mb.length := by rw [hG.mlen]; exact (List.getElem?_eq_some_iff.mp hg).1
      have hmb := hG.mb m _ g (List.getElem?_eq_getElem hmlt) hg
      obtain ⟨s, _, _, _, hnd, _⟩ := sess_pair hmb hgs
      exact hv.labels_nodup (List.nodup_append.mp hnd).1
  · have : A.getD c [] = [] := by
      have : A.length ≤ c := by rw [← hG.clen]; omega
      simp [List.getD, List.getElem?_eq_none this]
    rw [this]; exact List.nodup_nil

/-! ## the shipped behaviour before the repairs -/

/-- the history of finding F09: three messages, SELECT, `MOVE 2` to the other mailbox -/
def f09 : List (Nat × Cmd) :=
  [(0, .append 0 0), (0, .append 0 0), (0, .append 0 0), (0, .select 0), (0, .move false [(2, 2)] 1)]

/-- before ff6340e MOVE wrote `* 3 EXPUNGE` itself (a re-encoded number) and the queued `* 2 EXPUNGE`
    followed: one removed message is reported twice and the announced count ends one too low, which
    the oracle rejects at the next synchronisation (`judge` over NOOP + UID FETCH 1:* fails with a
    number above the count). The repaired code sends the one EXPUNGE. -/
theorem legacy_move_counterexample :
    ((runAll { legacyMove := true } (Views.init 2 1) f09).2.map (·.evs)).getLast? =
      some [.copyuid [2] [1], .expunge 3, .expunge 2] ∧
    ((runAll {} (Views.init 2 1) f09).2.map (·.evs)).getLast? = some [.copyuid [2] [1], .expunge 2] ∧
    (judge { legacyMove := true } (Views.init 2 1) [[]] (f09 ++ [(0, .fetch true [(1, 0)] false false)])).toOption = none := by
  decide

/-- the history of finding F10: connection 0 has one message announced, connection 1 appends a
    second one, connection 0 asks `UID FETCH 1:*` -/
def f10 : List (Nat × Cmd) :=
  [(0, .append 0 0), (0, .select 0), (1, .append 0 0), (0, .fetch true [(1, 0)] false false)]

/-- before eb5339c the message not yet announced was sent as `* 0 FETCH`, which the oracle rejects
    (clause 1: 0 is not between 1 and the announced count); the repaired code skips it and announces
    it with the poll that follows -/
theorem legacy_fetch_counterexample :
    ((runAll { legacyFetch := true } (Views.init 2 2) f10).2.map (·.evs)).getLast? =
      some [.fetch 1 1 none, .fetch 0 2 none, .exists_ 2] ∧
    applyEvs false true [none] [.fetch 1 1 none, .fetch 0 2 none, .exists_ 2] =
      .error "fetch-number-out-of-range" ∧
    ((runAll {} (Views.init 2 2) f10).2.map (·.evs)).getLast? = some [.fetch 1 1 none, .exists_ 2] ∧
    applyEvs false true [none] [.fetch 1 1 none, .exists_ 2] = .ok [some 1, none] :=
  ⟨by decide, rfl, by decide, rfl⟩

end GoImap.C08
