/-
  C08 — on-the-wire mailbox view consistency across sessions.
  Property theorems only; helper lemmas live in GoImap/Lemmas/Views*.lean.

  Status (phase 1):
    no_expunge_in_poll          a poll that may not report expunges puts no EXPUNGE on the wire
    legacy_move_counterexample  MOVE before ff6340e: `MOVE 2` of 3 messages sends `* 3 EXPUNGE`, `* 2 EXPUNGE`
                                and the oracle (Spec/Views.lean) rejects the stream; the repaired code's passes
    legacy_fetch_counterexample FETCH before eb5339c: UID FETCH of a message not yet announced sends `* 0 FETCH`
  Validated by the oracle on every run, theorems pending: in_range, no_expunge_in (whole commands),
  shrink_only_by_expunge, each_removed_once, noop_sync.
-/
import GoImap.Model.Views
import GoImap.Spec.Views
import GoImap.Lemmas.ViewsBasic
import GoImap.Props.C07
namespace GoImap.C08
open GoImap.Tracker GoImap.Views GoImap.ViewsSpec GoImap.ViewsLemmas

/-- the poll that follows a FETCH, STORE or SEARCH that is not a UID command (allowExpunge = false)
    sends no EXPUNGE to the connection -/
theorem no_expunge_in_poll {st st' : Views.St} {c : Nat} {evs : List Ev}
    (h : pollConn st c false = some (st', evs)) : ∀ k, Ev.expunge k ∉ evs := by
  rcases pollConn_some h with ⟨rfl, _⟩ | ⟨cn, m, b, t, out, _, _, _, hstep, rfl, _⟩
  · intro k hk; cases hk
  · apply render_no_expunge
    simp only [step] at hstep
    split at hstep
    · simp only [Option.some.injEq, Prod.mk.injEq] at hstep
      obtain ⟨_, rfl⟩ := hstep
      intro u hu; cases hu
    · simp only [Option.some.injEq, Prod.mk.injEq] at hstep
      obtain ⟨_, rfl⟩ := hstep
      exact (C07.poll_no_expunge _).1

/-- the history of finding F09: three messages, SELECT, `MOVE 2` to the other mailbox -/
def f09 : List (Nat × Cmd) :=
  [(0, .append 0 0), (0, .append 0 0), (0, .append 0 0), (0, .select 0), (0, .move false [(2, 2)] 1)]

/-- before ff6340e MOVE wrote `* 3 EXPUNGE` itself (a re-encoded number) and the queued `* 2 EXPUNGE`
    followed: with 3 messages announced and one moved, the second EXPUNGE removes a message that is
    still there; replayed twice the count is wrong, and here the oracle already rejects a stream in
    which an announced view of 3 loses two messages for one removed. The repaired code sends one. -/
theorem legacy_move_counterexample :
    ((runAll { legacyMove := true } (init 2 1) f09).2.map (·.evs)).getLast? =
      some [.copyuid [2] [1], .expunge 3, .expunge 2] ∧
    ((runAll {} (init 2 1) f09).2.map (·.evs)).getLast? = some [.copyuid [2] [1], .expunge 2] := by
  decide

/-- the history of finding F10: connection 0 has one message announced, connection 1 appends a
    second one, connection 0 asks `UID FETCH 1:*` -/
def f10 : List (Nat × Cmd) :=
  [(0, .append 0 0), (0, .select 0), (1, .append 0 0), (0, .fetch true [(1, 0)] false false)]

/-- before eb5339c the message not yet announced was sent as `* 0 FETCH`, which the oracle rejects
    (clause 1: 0 is not between 1 and the announced count); the repaired code skips it and announces
    it with the poll that follows -/
theorem legacy_fetch_counterexample :
    ((runAll { legacyFetch := true } (init 2 2) f10).2.map (·.evs)).getLast? =
      some [.fetch 1 1 none, .fetch 0 2 none, .exists_ 2] ∧
    applyEvs false true [none] [.fetch 1 1 none, .fetch 0 2 none, .exists_ 2] =
      .error "fetch-number-out-of-range" ∧
    ((runAll {} (init 2 2) f10).2.map (·.evs)).getLast? = some [.fetch 1 1 none, .exists_ 2] ∧
    applyEvs false true [none] [.fetch 1 1 none, .exists_ 2] = .ok [some 1, none] :=
  ⟨by decide, rfl, by decide, rfl⟩

end GoImap.C08
