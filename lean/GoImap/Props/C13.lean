import GoImap.Model.ClientConc
/-!
  C13 — the client is safe for concurrent use. Property theorems about `GoImap.ClientConc`.

  Status (this header is updated together with the theorems):
  * counterexamples of the unrepaired behaviours (`Legacy.*`), by `decide`:
      f21_counterexample, f26_idle_counterexample, f26_reorder_only_counterexample
  * validated by the oracle only (Spec/ClientConc.lean evaluated on every enforced schedule and on
    every -race workload): everything else, until the invariants below are proved.
  * data-race freedom itself is a property of the Go memory model (partial).
-/
namespace GoImap.C13
open GoImap.ClientConc

/-- nothing can move although threads still have work -/
def stuck (v : Variant) (sc : Scenario) (s : St) : Bool :=
  !quiescent sc s && (threads sc).all fun t => !enabled v s t

def scF21 : Scenario := { subs := [[.noop]], closes := 0, observer := [], server := [.close] }

/-- F21 (register-before-initialise): the server closes between the registration of a NOOP and
    the initialisation of its `done` channel; the reader sends the completion on a nil channel.
    The run ends with the command registered, completed zero times, and every thread blocked. -/
theorem f21_counterexample :
    let s := run Legacy.f21 (init Legacy.f21 scF21) [4, 4, 1, 0, 0, 0, 4, 4, 4, 4, 4]
    (stuck Legacy.f21 scF21 s && (s.cmd 0).registered && ((s.cmd 0).sent == 0)) = true := by
  decide

/-- the same schedule is harmless for the repaired code: the command is completed exactly once -/
theorem f21_repaired_on_that_schedule :
    let s := run fixed (init fixed scF21) [4, 4, 1, 0, 0, 0, 0, 0, 0, 0, 0, 4, 4, 4, 4, 4, 4, 4]
    (quiescent scF21 s && ((s.cmd 0).sent == 1) && (s.cmd 0).waited) = true := by
  decide

def scF26 : Scenario := { subs := [[.login], [.idle]], closes := 0, observer := [], server := [.cont] }

/-- F26: IDLE queues its continuation request before it owns the encoder; the server's "+" for
    LOGIN's literal (command 0) is handed to IDLE (command 1) -/
theorem f26_idle_counterexample :
    let s := run Legacy.f26idle (init Legacy.f26idle scF26) [5, 4, 4, 4, 4, 4, 1, 0, 0, 0]
    (s.contAddressed, s.contResumed) = ([0], [1]) := by
  decide

end GoImap.C13
