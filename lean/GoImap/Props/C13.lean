import GoImap.Model.ClientConc
import GoImap.Lemmas.ClientConcTags
import GoImap.Lemmas.ClientConcOnce
import GoImap.Lemmas.ClientConcKeep
import GoImap.Lemmas.ClientConcSend
import GoImap.Lemmas.ClientConcPend
import GoImap.Lemmas.ClientConcClose
import GoImap.Lemmas.ClientConcCont
import GoImap.Lemmas.ClientConcNoPanic
import GoImap.Lemmas.ClientConcUnambRun
/-!
  C13 — the client is safe for concurrent use. Property theorems about `GoImap.ClientConc`
  (Model/ClientConc.lean: one step per c.mutex / c.encMutex critical section or channel operation,
  N submitters, the reader, a closer, an observer, the IDLE supervisors, the server end of the
  connection; schedules are lists of thread ids; every theorem below quantifies over ALL schedules
  and ALL scenarios). `fixed` = the repaired tree (main); `Legacy.*` = behaviours kept on record.

  Modelling conventions that the theorems rely on (each is sequential-code order of ONE goroutine,
  stated in `exec`, validated by the enforced schedules on every run: if one were wrong the model
  would stall where the code moves): a command id is registered once; the instructions between
  encMutex.Lock and Unlock are executed by the lock's owner; a literal header / IDLE line is
  flushed right after its continuation request was registered; flush() treats an *imap.Error as
  the command's own (the command has left pendingCmds).

  Proved for every variant:
    tags_unique              two registered commands with the same tag are the same command
    complete_at_most_once    never twice: at most one completion per command, none while queued
    no_completion_lost       conservation: a registered command is queued, or exactly one thread
                             holds the instruction that will complete it, or it is completed once
    quiescent_no_pending     in every terminal state (all client threads finished) pendingCmds is
                             empty: a queued command is always taken care of by the reader's loop,
                             by a pending closeWithError, or by its own writer's next flush
    complete_exactly_once    in every terminal state every registered command has been completed
                             exactly once (no hypothesis left)
    every_step_decreases     the measure `mu` strictly decreases on every step that changes the
                             state: there are no infinite runs
  Proved for variants that initialise before registering (`fixed`):
    completion_never_blocks  the send of a completion finds an existing channel with a free buffer
    reader_reaches_close     the reader's program is empty only after close(decCh); once the
                             connection is closed none of its instructions is ever blocked
    no_panic                 the model never reaches the panic state (no send on a closed channel,
                             no second close of a done / FETCH / continuation-request channel)
    closer_never_stuck       while Close has not returned, the reader or the closer is enabled
    no_stuck_closer          from every reachable state the reader and the closer alone make Close
                             return within `mu` steps (all other steps only decrease `mu`): Close
                             returns in every schedule that keeps scheduling these two threads
  Proved for variants that register continuation requests under the encoder lock (`fixed`):
    contreq_fifo             literal headers / IDLE lines reach the wire in the order their
                             requests were registered, and requests are granted in that order
  Proved for variants with all three continuation-request repairs (`fixed`):
    contreq_unambiguous      requests of two different commands never coexist in the queue
  guarded_fields             lockset discipline of the model's field-access table
  Counterexamples of the unrepaired behaviours, by `decide`: f21_counterexample,
    f21_lockset_counterexample, f26_idle_counterexample, contreq_fifo_legacy_counterexample,
    contreq_unambiguous_legacy_counterexample,
    f26_reorder_only_counterexample, late_contreq_counterexample (0d4c77c),
    f26_enabled_lockset_counterexample; plus the same schedules on the repaired model.

  Partial / not proved (validated by the oracle on every enforced schedule and -race workload):
    * that the "+" the reader consumes is the one the SERVER meant for that command (the server's
      view of the wire) is not stated in Lean; contreq_fifo and contreq_unambiguous give the client
      side of it, the oracle clause `continuation-request-misrouted` judges every run
    * data-race freedom itself is a property of the Go memory model: Lean proves the lockset
      discipline of the table (guarded_fields), the -race workloads support that the table is complete
-/
namespace GoImap.C13
open GoImap.ClientConc

/-- nothing can move although threads still have work -/
def stuck (v : Variant) (sc : Scenario) (s : St) : Bool :=
  !quiescent sc s && (threads sc).all fun t => !enabled v s t

def scF21 : Scenario := { subs := [[.noop]], closes := 0, observer := [], server := [.close] }

/-- F21 (register-before-initialise): the server closes between the registration of a NOOP and
    the initialisation of its `done` channel; the reader sends the completion on a nil channel.
    The run ends with the command registered, completed zero times, and every thread blocked. -/
theorem f21_counterexample :
    let s := run Legacy.f21 (init Legacy.f21 scF21) [4, 4, 1, 0, 0, 0, 4, 4, 4, 4, 4]
    (stuck Legacy.f21 scF21 s && (s.cmd 0).registered && ((s.cmd 0).sent == 0)) = true := by
  decide

/-- the same schedule is harmless for the repaired code: the command is completed exactly once -/
theorem f21_repaired_on_that_schedule :
    let s := run fixed (init fixed scF21) [4, 4, 1, 0, 0, 0, 0, 0, 0, 0, 0, 4, 4, 4, 4, 4, 4, 4]
    (quiescent scF21 s && ((s.cmd 0).sent == 1) && (s.cmd 0).waited) = true := by
  decide

def scF26 : Scenario := { subs := [[.login], [.idle]], closes := 0, observer := [], server := [.cont] }

/-- F26: IDLE queues its continuation request before it owns the encoder; the server's "+" for
    LOGIN's literal (command 0) is handed to IDLE (command 1) -/
theorem f26_idle_counterexample :
    let s := run Legacy.f26idle (init Legacy.f26idle scF26) [5, 4, 4, 4, 4, 4, 1, 0, 0, 0]
    (s.contAddressed, s.contResumed) = ([0], [1]) := by
  decide



def scReorder : Scenario := { subs := [[.idle]], closes := 0, observer := [], server := [.close] }

/-- the obvious repair of F26 alone (register the IDLE continuation request after beginCommand,
    closeWithError NOT cancelling the requests still queued) hangs: the server closes after IDLE
    has been registered; the reader completes it before its continuation request exists; the
    request is then queued, nobody will ever cancel it, and idle() waits for it forever while
    holding encMutex. (The repaired code cancels every queued request in closeWithError.) -/
theorem f26_reorder_only_counterexample :
    let s := run Legacy.f26reorderOnly (init Legacy.f26reorderOnly scReorder) [4, 4, 4, 1, 0, 0, 0, 0, 0, 0, 0, 4, 4, 4]
    (stuck Legacy.f26reorderOnly scReorder s && s.enc.isSome && ((s.cmd 0).sent == 1)) = true := by
  decide

/-- the repaired code gets through on the same schedule -/
theorem f26_repaired_on_that_schedule :
    let s := run fixed (init fixed scReorder) [4, 4, 4, 1, 0, 0, 0, 0, 0, 0, 0, 0, 4, 4, 4, 4, 4, 4, 4]
    (quiescent scReorder s && s.enc.isNone && ((s.cmd 0).sent == 1)) = true := by
  decide


def scLate : Scenario :=
  { subs := [[.login2], [.login]], closes := 0, observer := [], server := [.reply .no true, .cont] }

/-- before 0d4c77c: the first literal of a LOGIN with two literals is refused with NO; the command
    writer still registers the continuation request of the second literal, for a command that is
    over; it stays queued and takes the "+" the server sends for the NEXT command's literal
    (addressed to command 1, handed to command 0) -/
theorem late_contreq_counterexample :
    let s := run Legacy.lateContReq (init Legacy.lateContReq scLate)
      [4, 4, 4, 4, 4, 1, 0, 0, 0, 0, 0, 0, 0, 0, 4, 4, 4, 4, 4, 4, 4, 5, 5, 5, 5, 5, 1, 0, 0, 0, 0, 0]
    (s.contAddressed, s.contResumed) = ([1], [0]) := by
  decide

/-- the repaired code cancels that request at once: the "+" reaches the command it was sent for -/
theorem late_contreq_repaired_on_that_schedule :
    let s := run fixed (init fixed scLate)
      [4, 4, 4, 4, 4, 1, 0, 0, 0, 0, 0, 0, 0, 0, 4, 4, 4, 4, 4, 4, 4, 5, 5, 5, 5, 5, 1, 0, 0, 0, 0, 0]
    (s.contAddressed, s.contResumed) = ([1], [1]) := by
  decide

/-! ### theorems for all schedules -/

/-- tags stay unique: in every reachable state of every variant, two registered commands with the
    same tag are the same command (and every allocated tag is between 1 and the counter) -/
theorem tags_unique (v : Variant) (sc : Scenario) (sched : List Nat) :
    let s := run v (init v sc) sched
    (∀ c d, (s.cmd c).registered = true → (s.cmd d).registered = true →
        (s.cmd c).ltag = (s.cmd d).ltag → c = d) ∧
    (∀ c, (s.cmd c).registered = true → 1 ≤ (s.cmd c).ltag ∧ (s.cmd c).ltag ≤ s.cmdTag) := by
  intro s
  have h := tagOK_run v sched (init v sc) (tagOK_init v sc)
  exact ⟨h.inj, fun c hc => ⟨h.pos c hc, h.le c⟩⟩

/-- never twice: at every point of every schedule every command has been completed at most once
    (`sent` counts the sends on its `done` channel), an unregistered command not at all, and a
    command that is still queued or about to be completed not yet -/
theorem complete_at_most_once (v : Variant) (sc : Scenario) (sched : List Nat) :
    let s := run v (init v sc) sched
    (∀ c, (s.cmd c).sent ≤ 1) ∧
    (∀ c, (s.cmd c).registered = false → (s.cmd c).sent = 0) ∧
    (∀ c, c ∈ s.pending → (s.cmd c).sent = 0) ∧
    s.pending.Nodup := by
  intro s
  have h := once_run v sched (init v sc) (once_init v sc)
  exact ⟨h.le, fun c hc => (h.unreg c hc).2.1, fun c hc => (h.pend c hc).1, h.nodup⟩

/-- non-vacuity: a schedule on which two commands are registered, answered and completed -/
example :
    let sc : Scenario := { subs := [[.noop], [.fetch]], closes := 0, observer := [], server := [.reply .ok true, .reply .ok true] }
    let s := run fixed (init fixed sc) [4, 4, 4, 4, 5, 5, 5, 5, 1, 1, 0, 0, 0, 0, 0, 0, 0, 0, 0, 0, 0, 0, 0, 0, 0, 4, 5, 5]
    ((s.cmd 0).sent, (s.cmd 1).sent, (s.cmd 0).ltag, (s.cmd 1).ltag) = (1, 1, 1, 2) := by
  decide


/-- never zero times, part 1 (conservation): at every point of every schedule a registered command
    is still queued in pendingCmds, or exactly one thread holds the instruction that will send its
    completion, or its completion has been sent exactly once -/
theorem no_completion_lost (v : Variant) (sc : Scenario) (sched : List Nat) :
    let s := run v (init v sc) sched
    ∀ c, (s.cmd c).registered = true →
      (c ∈ s.pending ∧ (s.cmd c).sent = 0) ∨
      ((∃ t, toks c (s.prog t) = 1 ∧ ∀ u, u ≠ t → toks c (s.prog u) = 0) ∧ (s.cmd c).sent = 0) ∨
      (s.cmd c).sent = 1 := by
  intro s c hc
  have hk := (keep_run v sched (init v sc) (shape_init v sc) (keep_init v sc)).1
  have ho := once_run v sched (init v sc) (once_init v sc)
  rcases hk c hc with h1 | ⟨t, h2⟩ | h3
  · exact Or.inl ⟨h1, (ho.pend c h1).1⟩
  · obtain ⟨a1, a2, a3⟩ := ho.tok c t h2
    exact Or.inr (Or.inl ⟨⟨t, a2, a3⟩, a1⟩)
  · have h4 := ho.le c
    exact Or.inr (Or.inr (Nat.le_antisymm h4 h3))

/-- every thread of the client (everything but the server end) has run to the end of its program -/
def AllDone (s : St) : Prop := ∀ t, t ≠ tServer → s.prog t = []

/-- in every terminal state of every schedule nothing is left in pendingCmds: a queued command is
    always taken care of by the reader's loop, by a pending closeWithError, or by its own writer's
    next flush -/
theorem quiescent_no_pending (v : Variant) (sc : Scenario) (sched : List Nat) :
    let s := run v (init v sc) sched
    AllDone s → s.pending = [] :=
  no_pending_of_all_done v sc sched

/-- exactly once: in every terminal state of every schedule every registered command has been
    completed exactly once (by its tagged reply or by closeWithError) -/
theorem complete_exactly_once (v : Variant) (sc : Scenario) (sched : List Nat) :
    let s := run v (init v sc) sched
    AllDone s → ∀ c, (s.cmd c).registered = true → (s.cmd c).sent = 1 := by
  intro s hq c hc
  rcases no_completion_lost v sc sched c hc with h1 | h2 | h3
  · have : c ∈ s.pending := h1.1
    rw [quiescent_no_pending v sc sched hq] at this; cases this
  · obtain ⟨⟨t, ht, _⟩, _⟩ := h2
    have hne : s.prog t ≠ [] := by intro e; rw [e] at ht; cases ht
    have hsrv := srvOnly_run v sched (init v sc) (srvOnly_init v sc)
    by_cases hts : t = tServer
    · subst hts
      -- the server thread only holds server actions, none of which is a token
      have : toks c (s.prog tServer) = 0 := by
        have : ∀ p : List Instr, (∀ x, x ∈ p → ∃ a, x = Instr.srv a) → toks c p = 0 := by
          intro p
          induction p with
          | nil => intro _; rfl
          | cons x p ih =>
            intro hx
            obtain ⟨a, e⟩ := hx x List.mem_cons_self
            rw [toks_cons, ih (fun y hy => hx y (List.mem_cons_of_mem _ hy)), e]; rfl
        exact this _ hsrv
      rw [this] at ht; cases ht
    · exact absurd (hq t hts) hne
  · exact h3

/-- no_panic: the repaired model never reaches the panic state, in any schedule: a completion is
    sent while `closeDone` of the same command is still ahead (the channel is open), `closeDone` and
    `closeMsgs` of a command occur once, a continuation request is granted once and never after it
    was cancelled -/
theorem no_panic (v : Variant) (hv : v.initFirst = true) (sc : Scenario) (sched : List Nat) :
    (run v (init v sc) sched).crashed = false :=
  never_crashes v hv sc sched.length sched rfl

/-- the reader always reaches `close(decCh)`: its program consists of reader and completion
    instructions only; when it is empty `decCh` and the connection are closed; and (repaired code)
    once the connection is closed none of its instructions is ever blocked -/
theorem reader_reaches_close (v : Variant) (hv : v.initFirst = true) (sc : Scenario) (sched : List Nat) :
    let s := run v (init v sc) sched
    (s.prog tReader = [] → s.decClosed = true ∧ s.connClosed = true) ∧
    (s.connClosed = true → s.prog tReader ≠ [] → enabled v s tReader = true) := by
  intro s
  have h := closeCtx_run v hv sched (init v sc) (closeCtx_init v sc)
  refine ⟨fun he => ?_, fun hc hne => reader_enabled v s h.rd h.send h.once (no_panic v hv sc sched) hc hne⟩
  have hl := h.rd.last
  rw [he] at hl
  exact hl

/-- no_stuck_closer, part 1: every step that changes the state strictly decreases the measure `mu`
    (there are no infinite runs: every fair schedule reaches a state in which nothing is enabled) -/
theorem every_step_decreases (v : Variant) (s : St) (t : Nat) :
    (enabled v s t = true → mu (step v s t) < mu s) ∧ (enabled v s t = false → step v s t = s) :=
  ⟨step_decreases v s t, step_eq_of_not_enabled v s t⟩

/-- no_stuck_closer, part 2: as long as `Close` has not returned, the reader or the closer is
    enabled: `Close` is never stuck -/
theorem closer_never_stuck (v : Variant) (hv : v.initFirst = true) (sc : Scenario) (sched : List Nat) :
    let s := run v (init v sc) sched
    s.prog tCloser ≠ [] → enabled v s tReader = true ∨ enabled v s tCloser = true := by
  intro s hne
  exact closer_progress v s (closeCtx_run v hv sched (init v sc) (closeCtx_init v sc))
    (no_panic v hv sc sched) hne

/-- no_stuck_closer: from every reachable state of the repaired model, the reader and the closer
    alone bring `Close` to return in at most `mu` steps, whatever the other threads did before; all
    other steps only decrease `mu`. Hence `Client.Close` returns in every schedule that keeps
    scheduling these two threads. -/
theorem no_stuck_closer (v : Variant) (hv : v.initFirst = true) (sc : Scenario) (sched : List Nat) :
    let s := run v (init v sc) sched
    ∃ more : List Nat, (∀ t, t ∈ more → t = tReader ∨ t = tCloser) ∧ more.length ≤ mu s ∧
      (run v (init v sc) (sched ++ more)).prog tCloser = [] := by
  intro s
  obtain ⟨more, h1, h2, h3⟩ := close_returns_from v hv (mu s) s
    (closeCtx_run v hv sched (init v sc) (closeCtx_init v sc)) (Nat.le_refl _)
  refine ⟨more, h1, h2, ?_⟩
  rw [run_append]
  rcases h3 with h3 | h3
  · exact h3
  · have := no_panic v hv sc (sched ++ more)
    rw [run_append] at this
    rw [this] at h3; cases h3

/-- part of no_stuck_closer: in the repaired code (any variant that initialises before registering)
    a completion is never blocked, so neither the reader nor Close can hang the way F21 did.
    Whenever the next instruction of a thread is the send of a completion, the `done` channel it
    loaded is not nil (`b = true`) and nothing has been sent on it (its buffer of capacity 1 is
    free); the channel of every registered command exists. -/
theorem completion_never_blocks (v : Variant) (hv : v.initFirst = true) (sc : Scenario) (sched : List Nat) :
    let s := run v (init v sc) sched
    (∀ t c r b rest, s.prog t = .send c r b :: rest → b = true ∧ (s.cmd c).sent = 0) ∧
    (∀ c, (s.cmd c).registered = true → (s.cmd c).chanInit = true) := by
  intro s
  obtain ⟨hsend, honce⟩ := sendInv_run v hv sched (init v sc) (once_init v sc) (sendInv_init v sc)
  refine ⟨fun t c r b rest hs => ⟨?_, ?_⟩, hsend.init⟩
  · have := hsend.ok t
    rw [hs] at this
    simp only [sendOK, List.all_cons, Bool.and_eq_true] at this
    exact this.1
  · have ht : 1 ≤ toks c (s.prog t) := by rw [hs, toks_cons]; simp [isTok]
    exact (honce.tok c t ht).1

example : fixed.initFirst = true := rfl


/-- contreq_fifo (repaired model: continuation requests are registered by the goroutine that owns
    the encoder). `regLog` is the sequence of commands for which a continuation request was
    registered. (1) The literal headers / IDLE lines appear on the wire in registration order;
    (2) the requests granted so far by the reader, followed by those still queued, are in
    registration order as well: a "+" always goes to the earliest registered request that is still
    outstanding, and that is the request whose header is the earliest one on the wire not yet
    continued. -/
theorem contreq_fifo (v : Variant) (hv : v.idleUnderEnc = true) (sc : Scenario) (sched : List Nat) :
    let s := run v (init v sc) sched
    (wireHeads s.wire).Sublist s.regLog ∧
    (s.contResumed ++ s.contReqs.map Prod.snd).Sublist s.regLog := by
  intro s
  have h := contInv_run v hv sched (init v sc) (contInv_init v sc)
  exact ⟨h.heads_sub, h.fifo⟩

example : fixed.idleUnderEnc = true := rfl

def scOrder : Scenario :=
  { subs := [[.login], [.idle]], closes := 0, observer := [], server := [.cont, .reply .no true] }

/-- F26 again, as the failure of contreq_fifo (1): IDLE (command 1) registers its request first but
    LOGIN (command 0), which owns the encoder, sends its header first; the queue order [1, 0] is
    the reverse of the wire order [0, 1], and the "+" meant for LOGIN is granted to IDLE -/
theorem contreq_fifo_legacy_counterexample :
    let s := run Legacy.f26idle (init Legacy.f26idle scOrder)
      [5, 4, 4, 4, 4, 4, 1, 0, 0, 0, 0, 0, 1, 0, 0, 0, 0, 0, 0, 0, 0, 4, 4, 5, 5, 5, 5]
    (s.regLog, wireHeads s.wire, s.contAddressed, s.contResumed) = ([1, 0], [0, 1], [0], [1]) := by
  decide


/-- contreq_unambiguous (repaired model): requests of two different commands never coexist in the
    continuation-request queue, in any state of any schedule; so the request a "+" is matched to
    (the head of the queue) can only belong to the one command that is waiting for a continuation.
    The owner of the encoder lock cannot release it while one of its requests is queued. -/
theorem contreq_unambiguous (v : Variant) (h1 : v.idleUnderEnc = true) (h2 : v.cancelOnClose = true)
    (h3 : v.cancelIfCompleted = true) (sc : Scenario) (sched : List Nat) :
    let s := run v (init v sc) sched
    ∀ e1 e2, e1 ∈ s.contReqs → e2 ∈ s.contReqs → e1.2 = e2.2 := by
  intro s
  exact unamb_same s (unamb_run v h1 h2 h3 sc sched.length sched rfl)

example : fixed.idleUnderEnc = true ∧ fixed.cancelOnClose = true ∧ fixed.cancelIfCompleted = true :=
  ⟨rfl, rfl, rfl⟩

/-- F26 once more: in the unrepaired order the requests of IDLE (command 1) and of LOGIN
    (command 0) sit in the queue together, IDLE's in front -/
theorem contreq_unambiguous_legacy_counterexample :
    let s := run Legacy.f26idle (init Legacy.f26idle scF26) [5, 4, 4, 4, 4]
    s.contReqs.map Prod.snd = [1, 0] := by
  decide

/-! ### the lockset discipline of the model's field-access table -/

/-- every field of `Client`/`Command` that is written after `New` is accessed only under
    `c.mutex`, or written only before its object is published (Command.tag, Command.done) -/
theorem guarded_fields : guardedAll fixed = true := by decide

/-- F21: tag/done were written after the command had been published in pendingCmds -/
theorem f21_lockset_counterexample :
    guardedField Legacy.f21 .cmdDone = false ∧ guardedField Legacy.f21 .cmdTagField = false := by decide

/-- F26: search() read c.enabled without the mutex that handleEnabled holds when writing it -/
theorem f26_enabled_lockset_counterexample : guardedField Legacy.f26enabled .enabled = false := by decide

end GoImap.C13
