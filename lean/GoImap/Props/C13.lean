import GoImap.Model.ClientConc
import GoImap.Lemmas.ClientConcTags
import GoImap.Lemmas.ClientConcOnce
/-!
  C13 — the client is safe for concurrent use. Property theorems about `GoImap.ClientConc`.

  Status (this header is updated together with the theorems):
  * counterexamples of the unrepaired behaviours (`Legacy.*`), by `decide`:
      f21_counterexample, f26_idle_counterexample, f26_reorder_only_counterexample
  * validated by the oracle only (Spec/ClientConc.lean evaluated on every enforced schedule and on
    every -race workload): everything else, until the invariants below are proved.
  * data-race freedom itself is a property of the Go memory model (partial).
-/
namespace GoImap.C13
open GoImap.ClientConc

/-- nothing can move although threads still have work -/
def stuck (v : Variant) (sc : Scenario) (s : St) : Bool :=
  !quiescent sc s && (threads sc).all fun t => !enabled v s t

def scF21 : Scenario := { subs := [[.noop]], closes := 0, observer := [], server := [.close] }

/-- F21 (register-before-initialise): the server closes between the registration of a NOOP and
    the initialisation of its `done` channel; the reader sends the completion on a nil channel.
    The run ends with the command registered, completed zero times, and every thread blocked. -/
theorem f21_counterexample :
    let s := run Legacy.f21 (init Legacy.f21 scF21) [4, 4, 1, 0, 0, 0, 4, 4, 4, 4, 4]
    (stuck Legacy.f21 scF21 s && (s.cmd 0).registered && ((s.cmd 0).sent == 0)) = true := by
  decide

/-- the same schedule is harmless for the repaired code: the command is completed exactly once -/
theorem f21_repaired_on_that_schedule :
    let s := run fixed (init fixed scF21) [4, 4, 1, 0, 0, 0, 0, 0, 0, 0, 0, 4, 4, 4, 4, 4, 4, 4]
    (quiescent scF21 s && ((s.cmd 0).sent == 1) && (s.cmd 0).waited) = true := by
  decide

def scF26 : Scenario := { subs := [[.login], [.idle]], closes := 0, observer := [], server := [.cont] }

/-- F26: IDLE queues its continuation request before it owns the encoder; the server's "+" for
    LOGIN's literal (command 0) is handed to IDLE (command 1) -/
theorem f26_idle_counterexample :
    let s := run Legacy.f26idle (init Legacy.f26idle scF26) [5, 4, 4, 4, 4, 4, 1, 0, 0, 0]
    (s.contAddressed, s.contResumed) = ([0], [1]) := by
  decide


/-! ### theorems for all schedules -/

/-- tags stay unique: in every reachable state of every variant, two registered commands with the
    same tag are the same command (and every allocated tag is between 1 and the counter) -/
theorem tags_unique (v : Variant) (sc : Scenario) (sched : List Nat) :
    let s := run v (init v sc) sched
    (∀ c d, (s.cmd c).registered = true → (s.cmd d).registered = true →
        (s.cmd c).ltag = (s.cmd d).ltag → c = d) ∧
    (∀ c, (s.cmd c).registered = true → 1 ≤ (s.cmd c).ltag ∧ (s.cmd c).ltag ≤ s.cmdTag) := by
  intro s
  have h := tagOK_run v sched (init v sc) (tagOK_init v sc)
  exact ⟨h.inj, fun c hc => ⟨h.pos c hc, h.le c⟩⟩

/-- never twice: at every point of every schedule every command has been completed at most once
    (`sent` counts the sends on its `done` channel), an unregistered command not at all, and a
    command that is still queued or about to be completed not yet -/
theorem complete_at_most_once (v : Variant) (sc : Scenario) (sched : List Nat) :
    let s := run v (init v sc) sched
    (∀ c, (s.cmd c).sent ≤ 1) ∧
    (∀ c, (s.cmd c).registered = false → (s.cmd c).sent = 0) ∧
    (∀ c, c ∈ s.pending → (s.cmd c).sent = 0) ∧
    s.pending.Nodup := by
  intro s
  have h := once_run v sched (init v sc) (once_init v sc)
  exact ⟨h.le, fun c hc => (h.unreg c hc).2.1, fun c hc => (h.pend c hc).1, h.nodup⟩

/-- non-vacuity: a schedule on which two commands are registered, answered and completed -/
example :
    let sc : Scenario := { subs := [[.noop], [.fetch]], closes := 0, observer := [], server := [.reply .ok true, .reply .ok true] }
    let s := run fixed (init fixed sc) [4, 4, 4, 4, 5, 5, 5, 5, 1, 1, 0, 0, 0, 0, 0, 0, 0, 0, 0, 0, 0, 0, 0, 0, 0, 4, 5, 5]
    ((s.cmd 0).sent, (s.cmd 1).sent, (s.cmd 0).ltag, (s.cmd 1).ltag) = (1, 1, 1, 2) := by
  decide

/-! ### the lockset discipline of the model's field-access table -/

/-- every field of `Client`/`Command` that is written after `New` is accessed only under
    `c.mutex`, or written only before its object is published (Command.tag, Command.done) -/
theorem guarded_fields : guardedAll fixed = true := by decide

/-- F21: tag/done were written after the command had been published in pendingCmds -/
theorem f21_lockset_counterexample :
    guardedField Legacy.f21 .cmdDone = false ∧ guardedField Legacy.f21 .cmdTagField = false := by decide

/-- F26: search() read c.enabled without the mutex that handleEnabled holds when writing it -/
theorem f26_enabled_lockset_counterexample : guardedField Legacy.f26enabled .enabled = false := by decide

end GoImap.C13
