/-
  C20 — LIST wildcard matching follows IMAP semantics.  Property theorems only.

  Proved here: matchList_iff, matchNFA_iff, matchList_eq_matchNFA, MatchList_iff_delim,
  MatchList_iff_nodelim, MatchList_iff, MatchList_resolved, star_matches_all, pct_no_delim,
  literal_only.
  Delimiters whose UTF-8 encoding has more than one byte (a genuine defect, repaired by a "fix:"
  commit: the loop compared `string(name[j])`, one BYTE converted to a rune, with the delimiter
  string): legacy_multibyte_cross_counterexample / legacy_latin1_stop_counterexample show the shipped
  matcher violating the semantics, multibyte_repaired that the repaired one does not;
  matchListS_iff: the repaired matcher (`matchListS`, delimiter STRING of any length) accepts exactly
  `MatchesS` — '%' stands for a sequence inside which no delimiter starts; pctS_not_infix: "%" alone
  matches exactly the names of which the delimiter is not a contiguous part; matchesS_single /
  MatchListS_single / MatchListS_nodelim: for a one-byte or absent delimiter the repaired matcher IS
  the one all theorems above speak of, so they carry over to what the driver runs (`matchListTopS`).
  Not proved: that the byte-level `MatchesS` equals the rune-level semantics for valid UTF-8 (UTF-8
  is self-synchronising); the rune-level oracle `Spec.runeOracle` judges every case of every run.
-/
import GoImap.Lemmas.ListMatchTop
import GoImap.Lemmas.ListMatchS
namespace GoImap.C20
open GoImap.ListMatch GoImap.ListMatchSpec GoImap.ListMatchLemmas

/-- the recursive matcher of list.go accepts exactly the names the wildcard semantics accepts:
    every pattern, every name, any single-byte delimiter or none -/
theorem matchList_iff (delim : Option B) (pat name : List B) :
    matchList delim pat name = true ↔ Matches delim pat name := by
  induction pat generalizing name with
  | nil =>
    simp only [matchList]
    constructor
    · intro h; have : name = [] := by simpa using h
      subst this; exact .nil
    · intro h; cases h; rfl
  | cons c ps ih =>
    simp only [matchList]
    by_cases hw : isWild c = true
    · simp only [hw, if_true]
      rw [expand_iff]
      have hc : c = 42 ∨ c = 37 := by simpa [isWild] using hw
      constructor
      · rintro ⟨pre, suf, rfl, hk, hp⟩
        have hm := (ih suf).mp hk
        rcases hc with rfl | rfl
        · exact .star ps pre suf _ rfl hm
        · exact .pct ps pre suf _ rfl (hp (by simp)) hm
      · intro h
        rcases hc with rfl | rfl
        · cases h with
          | lit _ _ _ hnw _ => simp [isWild] at hnw
          | star _ pre ns _ he hm => exact ⟨pre, ns, he, (ih ns).mpr hm, by simp⟩
        · cases h with
          | lit _ _ _ hnw _ => simp [isWild] at hnw
          | pct _ pre ns _ he hd hm => exact ⟨pre, ns, he, (ih ns).mpr hm, fun _ => hd⟩
    · have hw' : isWild c = false := by simpa using hw
      simp only [hw', Bool.false_eq_true, if_false]
      cases name with
      | nil =>
        simp only
        constructor
        · intro h; cases h
        · intro h; cases h <;> simp_all [isWild]
      | cons n ns =>
        simp only [Bool.and_eq_true, decide_eq_true_eq]
        constructor
        · rintro ⟨rfl, h⟩; exact .lit _ _ _ hw' ((ih ns).mp h)
        · intro h
          cases h with
          | lit _ _ _ _ hm => exact ⟨rfl, (ih ns).mpr hm⟩
          | star _ pre ns' _ _ _ => simp [isWild] at hw'
          | pct _ pre ns' _ _ _ _ => simp [isWild] at hw'


/-- non-vacuity: a concrete pattern with both wildcards matches / does not match as expected -/
example : matchList (some 47) [97, 37, 47, 42] [97, 98, 47, 99, 47, 100] = true := by decide
example : matchList (some 47) [97, 37] [97, 47, 98] = false := by decide

/-- the independent position-set matcher of the Spec decides the same relation -/
theorem matchNFA_iff (delim : Option B) (pat name : List B) :
    matchNFA delim pat name = true ↔ Matches delim pat name :=
  matchNFA_iff_matches delim pat name

/-- the recursive matcher of list.go and the position-set matcher agree on every input -/
theorem matchList_eq_matchNFA (delim : Option B) (pat name : List B) :
    matchList delim pat name = matchNFA delim pat name := by
  rw [Bool.eq_iff_iff, matchList_iff, matchNFA_iff]

/-! ### top level: `MatchList(name, delim, reference, pattern)` -/

/-- single-byte delimiter `d`: `MatchList` implements the documented resolution of
    (reference, pattern) -/
theorem MatchList_iff_delim (name : List B) (d : B) (reference pattern : List B) :
    matchListTop name [d] (some d) reference pattern = resolveMatch name (some d) reference pattern :=
  top_delim_of name d reference pattern (matchList_eq_matchNFA (some d))

/-- no delimiter (rune 0) -/
theorem MatchList_iff_nodelim (name : List B) (reference pattern : List B) :
    matchListTop name [] none reference pattern = resolveMatch name none reference pattern :=
  top_nodelim_of name reference pattern (matchList_eq_matchNFA none)

/-- the delimiter string Go builds from an absent / single-byte delimiter -/
def delimStrOf : Option B → List B
  | some d => [d]
  | none => []

/-- both cases at once -/
theorem MatchList_iff (name : List B) (delim : Option B) (reference pattern : List B) :
    matchListTop name (delimStrOf delim) delim reference pattern =
      resolveMatch name delim reference pattern := by
  cases delim with
  | none => exact MatchList_iff_nodelim name reference pattern
  | some d => exact MatchList_iff_delim name d reference pattern

/-- the reference as it is compared with the name: completed by the delimiter unless it is empty
    or already ends with it -/
def completeRef (delim : Option B) (reference : List B) : List B :=
  match delim with
  | some d => if reference = [] ∨ reference.getLast? = some d then reference else reference ++ [d]
  | none => reference

/-- relational reading of LIST's (reference, pattern) resolution, in terms of `Matches` only:
    a pattern starting with the delimiter is absolute (the reference is ignored and the rest of the
    pattern is matched against the whole name); otherwise the completed reference must be a prefix
    of the name and the pattern is matched against what follows it -/
def Resolved (delim : Option B) (reference pattern name : List B) : Prop :=
  (∃ d ps, delim = some d ∧ pattern = d :: ps ∧ Matches delim ps name) ∨
  ((∀ d, delim = some d → pattern.head? ≠ some d) ∧
    ∃ rest, name = completeRef delim reference ++ rest ∧ Matches delim pattern rest)

theorem MatchList_resolved (name : List B) (delim : Option B) (reference pattern : List B) :
    matchListTop name (delimStrOf delim) delim reference pattern = true ↔
      Resolved delim reference pattern name := by
  rw [MatchList_iff]
  cases delim with
  | none =>
    rw [resolveMatch_none, resolveRel_none_iff]
    simp [Resolved, completeRef]
  | some d =>
    by_cases hp : pattern.head? = some d
    · obtain ⟨ps, rfl⟩ : ∃ ps, pattern = d :: ps := by
        cases pattern with
        | nil => simp at hp
        | cons p ps => exact ⟨ps, by simpa using hp⟩
      rw [resolveMatch_abs, matchNFA_iff]
      simp [Resolved]
    · rw [resolveMatch_rel_some _ _ _ _ hp, resolveRel_some_iff]
      have hne : ∀ ps, pattern ≠ d :: ps := by
        rintro ps rfl; simp at hp
      simp [Resolved, completeRef, hp, hne]

/-- non-vacuity: absolute pattern, relative pattern with completed reference, no delimiter -/
example : matchListTop [97, 47, 98] [47] (some 47) [120] [47, 97, 47, 37] = true := by decide
example : matchListTop [97, 47, 98, 47, 99] [47] (some 47) [97] [37, 47, 99] = true := by decide
example : matchListTop [97, 47, 98, 47, 99] [47] (some 47) [97] [37] = false := by decide
example : matchListTop [97, 98, 99] [] none [97] [37] = true := by decide
example : Resolved (some 47) [97] [37, 47, 99] [97, 47, 98, 47, 99] :=
  (MatchList_resolved _ (some 47) _ _).mp (by decide)
example : ¬ Resolved (some 47) [97] [37] [97, 47, 98, 47, 99] := fun h =>
  absurd ((MatchList_resolved _ (some 47) _ _).mpr h) (by decide)

/-! ### sanity theorems: what the wildcards mean -/

/-- "*" matches every name -/
theorem star_matches_all (delim : Option B) (name : List B) : Matches delim [42] name :=
  .star [] name [] name (by simp) .nil

/-- "%" matches exactly the names without a delimiter -/
theorem pct_no_delim (d : B) (name : List B) : Matches (some d) [37] name ↔ d ∉ name := by
  constructor
  · intro h
    cases h with
    | lit _ _ _ hnw _ => simp [isWild] at hnw
    | pct _ pre ns _ he hd hm =>
      have := Matches.nil_pat hm
      subst this
      subst he
      simpa using hd d rfl
  · intro h
    exact .pct [] name [] name (by simp) (by rintro d' hd'; cases hd'; exact h) .nil

/-- a pattern without wildcards matches itself only -/
theorem literal_only (delim : Option B) (pat name : List B) (hlit : ∀ c ∈ pat, isWild c = false) :
    Matches delim pat name ↔ name = pat := by
  induction pat generalizing name with
  | nil =>
    constructor
    · intro h; exact Matches.nil_pat h
    · rintro rfl; exact .nil
  | cons c ps ih =>
    have hc : isWild c = false := hlit c (by simp)
    have ih' := fun nm => ih nm (fun x hx => hlit x (List.mem_cons_of_mem _ hx))
    constructor
    · intro h
      cases h with
      | lit _ _ ns _ hm => rw [(ih' ns).mp hm]
      | star _ _ _ _ _ _ => simp [isWild] at hc
      | pct _ _ _ _ _ _ _ => simp [isWild] at hc
    · rintro rfl
      exact .lit c ps ps hc ((ih' ps).mpr rfl)

example : Matches (some 47) [37] [97, 98] := (pct_no_delim 47 _).mpr (by decide)
example : ¬ Matches (some 47) [37] [97, 47, 98] := fun h => absurd ((pct_no_delim 47 _).mp h) (by decide)
example : Matches (some 47) [97, 47, 98] [97, 47, 98] :=
  (literal_only _ _ _ (by decide)).mpr rfl
example : ¬ Matches (some 47) [97, 47, 98] [97, 47, 99] := fun h =>
  absurd ((literal_only _ _ _ (by decide)).mp h) (by decide)

/-! ### delimiters of any length: the repaired matcher -/

/-- the repaired recursive matcher accepts exactly the names the byte-level wildcard semantics for a
    delimiter string accepts: every pattern, every name, every delimiter string -/
theorem matchListS_iff (delim : List B) (pat name : List B) :
    matchListS delim pat name = true ↔ MatchesS delim pat name := by
  induction pat generalizing name with
  | nil =>
    simp only [matchListS]
    constructor
    · intro h; have : name = [] := by simpa using h
      subst this; exact .nil
    · intro h; cases h; rfl
  | cons c ps ih =>
    simp only [matchListS]
    by_cases hw : isWild c = true
    · simp only [hw, if_true]
      rw [expandS_iff]
      have hc : c = 42 ∨ c = 37 := by simpa [isWild] using hw
      constructor
      · rintro ⟨pre, suf, rfl, hk, hp⟩
        have hm := (ih suf).mp hk
        rcases hc with rfl | rfl
        · exact .star ps pre suf _ rfl hm
        · exact .pct ps pre suf _ rfl (hp (by simp)) hm
      · intro h
        rcases hc with rfl | rfl
        · cases h with
          | lit _ _ _ hnw _ => simp [isWild] at hnw
          | star _ pre ns _ he hm => exact ⟨pre, ns, he, (ih ns).mpr hm, by simp⟩
        · cases h with
          | lit _ _ _ hnw _ => simp [isWild] at hnw
          | pct _ pre ns _ he hd hm => exact ⟨pre, ns, he, (ih ns).mpr hm, fun _ => hd⟩
    · have hw' : isWild c = false := by simpa using hw
      simp only [hw', Bool.false_eq_true, if_false]
      cases name with
      | nil =>
        simp only
        constructor
        · intro h; cases h
        · intro h; cases h <;> simp_all [isWild]
      | cons n ns =>
        simp only [Bool.and_eq_true, decide_eq_true_eq]
        constructor
        · rintro ⟨rfl, h⟩; exact .lit _ _ _ hw' ((ih ns).mp h)
        · intro h
          cases h with
          | lit _ _ _ _ hm => exact ⟨rfl, (ih ns).mpr hm⟩
          | star _ pre ns' _ _ _ => simp [isWild] at hw'
          | pct _ pre ns' _ _ _ _ => simp [isWild] at hw'

/-- for a one-byte delimiter the two semantics are the same relation -/
theorem matchesS_single (d : B) (pat name : List B) :
    MatchesS [d] pat name ↔ Matches (some d) pat name := by
  rw [← matchListS_iff, ← matchList_iff, matchListS_single]

/-- … and with no delimiter -/
theorem matchesS_nil (pat name : List B) : MatchesS [] pat name ↔ Matches none pat name := by
  rw [← matchListS_iff, ← matchList_iff, matchListS_nil]

/-- what the driver runs (`matchListTopS`, the repaired `MatchList`) is, for a one-byte delimiter,
    the function of `MatchList_iff_delim` / `MatchList_resolved` -/
theorem MatchListS_single (name : List B) (d : B) (reference pattern : List B) :
    matchListTopS name [d] reference pattern = resolveMatch name (some d) reference pattern := by
  rw [matchListTopS_single, MatchList_iff_delim]

theorem MatchListS_nodelim (name : List B) (reference pattern : List B) :
    matchListTopS name [] reference pattern = resolveMatch name none reference pattern := by
  rw [matchListTopS_nil, MatchList_iff_nodelim]

/-- "%" alone matches exactly the names of which the delimiter string is not a contiguous part -/
theorem pctS_not_infix (delim name : List B) (hd : delim ≠ []) :
    MatchesS delim [37] name ↔ ¬ delim <:+: name := by
  rw [← noStart_all_iff delim name hd]
  constructor
  · intro h
    cases h with
    | lit _ _ _ hnw _ => simp [isWild] at hnw
    | pct _ pre ns _ he hns hm =>
      cases hm
      subst he
      simpa using hns hd
  · intro h
    exact .pct [] name [] name (by simp) (fun _ => h) .nil

/-- the shipped matcher with the delimiter U+2192 "→" (E2 86 92; no byte can equal it, so
    `delimByte = none`): "%" matched "a→b", which contains the delimiter -/
theorem legacy_multibyte_cross_counterexample :
    matchListTop [97, 226, 134, 146, 98] [226, 134, 146] none [] [37] = true ∧
    ¬ MatchesS [226, 134, 146] [37] [97, 226, 134, 146, 98] := by
  refine ⟨by decide, fun h => ?_⟩
  exact (pctS_not_infix _ _ (by decide)).mp h ⟨[97], [98], by decide⟩

/-- the shipped matcher with the delimiter U+00B7 "·" (C2 B7; `string(byte 0xB7) == "·"`, so
    `delimByte = some 183`): "%" refused "a÷b" (61 C3 B7 62), which does not contain the delimiter -/
theorem legacy_latin1_stop_counterexample :
    matchListTop [97, 195, 183, 98] [194, 183] (some 183) [] [37] = false ∧
    MatchesS [194, 183] [37] [97, 195, 183, 98] := by
  refine ⟨by decide, (pctS_not_infix _ _ (by decide)).mpr ?_⟩
  rw [← noStart_all_iff _ _ (by decide)]
  decide

/-- the repaired matcher on the same two inputs -/
theorem multibyte_repaired :
    matchListTopS [97, 226, 134, 146, 98] [226, 134, 146] [] [37] = false ∧
    matchListTopS [97, 195, 183, 98] [194, 183] [] [37] = true := by decide

/-- non-vacuity: a multi-byte delimiter, '%' up to it, the delimiter, then '*' -/
example : matchListS [226, 134, 146] [37, 226, 134, 146, 42] [97, 226, 134, 146, 98, 226, 134, 146, 99] = true := by decide
example : MatchesS [226, 134, 146] [37, 226, 134, 146, 42] [97, 226, 134, 146, 98, 226, 134, 146, 99] :=
  (matchListS_iff _ _ _).mp (by decide)
example : ¬ MatchesS [226, 134, 146] [97, 37] [97, 226, 134, 146, 98] := fun h =>
  absurd ((matchListS_iff _ _ _).mpr h) (by decide)

end GoImap.C20
