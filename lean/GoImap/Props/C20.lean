/-
  C20 — LIST wildcard matching follows IMAP semantics.  Property theorems only.
-/
import GoImap.Lemmas.ListMatch
namespace GoImap.C20
open GoImap.ListMatch GoImap.ListMatchSpec GoImap.ListMatchLemmas

/-- the recursive matcher of list.go accepts exactly the names the wildcard semantics accepts:
    every pattern, every name, any single-byte delimiter or none -/
theorem matchList_iff (delim : Option B) (pat name : List B) :
    matchList delim pat name = true ↔ Matches delim pat name := by
  induction pat generalizing name with
  | nil =>
    simp only [matchList]
    constructor
    · intro h; have : name = [] := by simpa using h
      subst this; exact .nil
    · intro h; cases h; rfl
  | cons c ps ih =>
    simp only [matchList]
    by_cases hw : isWild c = true
    · simp only [hw, if_true]
      rw [expand_iff]
      have hc : c = 42 ∨ c = 37 := by simpa [isWild] using hw
      constructor
      · rintro ⟨pre, suf, rfl, hk, hp⟩
        have hm := (ih suf).mp hk
        rcases hc with rfl | rfl
        · exact .star ps pre suf _ rfl hm
        · exact .pct ps pre suf _ rfl (hp (by simp)) hm
      · intro h
        rcases hc with rfl | rfl
        · cases h with
          | lit _ _ _ hnw _ => simp [isWild] at hnw
          | star _ pre ns _ he hm => exact ⟨pre, ns, he, (ih ns).mpr hm, by simp⟩
        · cases h with
          | lit _ _ _ hnw _ => simp [isWild] at hnw
          | pct _ pre ns _ he hd hm => exact ⟨pre, ns, he, (ih ns).mpr hm, fun _ => hd⟩
    · have hw' : isWild c = false := by simpa using hw
      simp only [hw', Bool.false_eq_true, if_false]
      cases name with
      | nil =>
        simp only
        constructor
        · intro h; cases h
        · intro h; cases h <;> simp_all [isWild]
      | cons n ns =>
        simp only [Bool.and_eq_true, decide_eq_true_eq]
        constructor
        · rintro ⟨rfl, h⟩; exact .lit _ _ _ hw' ((ih ns).mp h)
        · intro h
          cases h with
          | lit _ _ _ _ hm => exact ⟨rfl, (ih ns).mpr hm⟩
          | star _ pre ns' _ _ _ => simp [isWild] at hw'
          | pct _ pre ns' _ _ _ _ => simp [isWild] at hw'


/-- non-vacuity: a concrete pattern with both wildcards matches / does not match as expected -/
example : matchList (some 47) [97, 37, 47, 42] [97, 98, 47, 99, 47, 100] = true := by decide
example : matchList (some 47) [97, 37] [97, 47, 98] = false := by decide

end GoImap.C20
