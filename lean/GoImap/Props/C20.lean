/-
  C20 — LIST wildcard matching follows IMAP semantics.  Property theorems only.

  Proved here: matchList_iff, matchNFA_iff, matchList_eq_matchNFA, MatchList_iff_delim,
  MatchList_iff_nodelim, MatchList_iff, MatchList_resolved, star_matches_all, pct_no_delim,
  literal_only.
  Left out (not modelled, so not stated): delimiters whose UTF-8 encoding has more than one byte
  (`delimStr.length > 1`, `delimByte = none`); the Spec's `resolveMatch` is only defined for a
  single-byte or absent delimiter.
-/
import GoImap.Lemmas.ListMatchTop
namespace GoImap.C20
open GoImap.ListMatch GoImap.ListMatchSpec GoImap.ListMatchLemmas

/-- the recursive matcher of list.go accepts exactly the names the wildcard semantics accepts:
    every pattern, every name, any single-byte delimiter or none -/
theorem matchList_iff (delim : Option B) (pat name : List B) :
    matchList delim pat name = true ↔ Matches delim pat name := by
  induction pat generalizing name with
  | nil =>
    simp only [matchList]
    constructor
    · intro h; have : name = [] := by simpa using h
      subst this; exact .nil
    · intro h; cases h; rfl
  | cons c ps ih =>
    simp only [matchList]
    by_cases hw : isWild c = true
    · simp only [hw, if_true]
      rw [expand_iff]
      have hc : c = 42 ∨ c = 37 := by simpa [isWild] using hw
      constructor
      · rintro ⟨pre, suf, rfl, hk, hp⟩
        have hm := (ih suf).mp hk
        rcases hc with rfl | rfl
        · exact .star ps pre suf _ rfl hm
        · exact .pct ps pre suf _ rfl (hp (by simp)) hm
      · intro h
        rcases hc with rfl | rfl
        · cases h with
          | lit _ _ _ hnw _ => simp [isWild] at hnw
          | star _ pre ns _ he hm => exact ⟨pre, ns, he, (ih ns).mpr hm, by simp⟩
        · cases h with
          | lit _ _ _ hnw _ => simp [isWild] at hnw
          | pct _ pre ns _ he hd hm => exact ⟨pre, ns, he, (ih ns).mpr hm, fun _ => hd⟩
    · have hw' : isWild c = false := by simpa using hw
      simp only [hw', Bool.false_eq_true, if_false]
      cases name with
      | nil =>
        simp only
        constructor
        · intro h; cases h
        · intro h; cases h <;> simp_all [isWild]
      | cons n ns =>
        simp only [Bool.and_eq_true, decide_eq_true_eq]
        constructor
        · rintro ⟨rfl, h⟩; exact .lit _ _ _ hw' ((ih ns).mp h)
        · intro h
          cases h with
          | lit _ _ _ _ hm => exact ⟨rfl, (ih ns).mpr hm⟩
          | star _ pre ns' _ _ _ => simp [isWild] at hw'
          | pct _ pre ns' _ _ _ _ => simp [isWild] at hw'


/-- non-vacuity: a concrete pattern with both wildcards matches / does not match as expected -/
example : matchList (some 47) [97, 37, 47, 42] [97, 98, 47, 99, 47, 100] = true := by decide
example : matchList (some 47) [97, 37] [97, 47, 98] = false := by decide

/-- the independent position-set matcher of the Spec decides the same relation -/
theorem matchNFA_iff (delim : Option B) (pat name : List B) :
    matchNFA delim pat name = true ↔ Matches delim pat name :=
  matchNFA_iff_matches delim pat name

/-- the recursive matcher of list.go and the position-set matcher agree on every input -/
theorem matchList_eq_matchNFA (delim : Option B) (pat name : List B) :
    matchList delim pat name = matchNFA delim pat name := by
  rw [Bool.eq_iff_iff, matchList_iff, matchNFA_iff]

/-! ### top level: `MatchList(name, delim, reference, pattern)` -/

/-- single-byte delimiter `d`: `MatchList` implements the documented resolution of
    (reference, pattern) -/
theorem MatchList_iff_delim (name : List B) (d : B) (reference pattern : List B) :
    matchListTop name [d] (some d) reference pattern = resolveMatch name (some d) reference pattern :=
  top_delim_of name d reference pattern (matchList_eq_matchNFA (some d))

/-- no delimiter (rune 0) -/
theorem MatchList_iff_nodelim (name : List B) (reference pattern : List B) :
    matchListTop name [] none reference pattern = resolveMatch name none reference pattern :=
  top_nodelim_of name reference pattern (matchList_eq_matchNFA none)

/-- the delimiter string Go builds from an absent / single-byte delimiter -/
def delimStrOf : Option B → List B
  | some d => [d]
  | none => []

/-- both cases at once -/
theorem MatchList_iff (name : List B) (delim : Option B) (reference pattern : List B) :
    matchListTop name (delimStrOf delim) delim reference pattern =
      resolveMatch name delim reference pattern := by
  cases delim with
  | none => exact MatchList_iff_nodelim name reference pattern
  | some d => exact MatchList_iff_delim name d reference pattern

/-- the reference as it is compared with the name: completed by the delimiter unless it is empty
    or already ends with it -/
def completeRef (delim : Option B) (reference : List B) : List B :=
  match delim with
  | some d => if reference = [] ∨ reference.getLast? = some d then reference else reference ++ [d]
  | none => reference

/-- relational reading of LIST's (reference, pattern) resolution, in terms of `Matches` only:
    a pattern starting with the delimiter is absolute (the reference is ignored and the rest of the
    pattern is matched against the whole name); otherwise the completed reference must be a prefix
    of the name and the pattern is matched against what follows it -/
def Resolved (delim : Option B) (reference pattern name : List B) : Prop :=
  (∃ d ps, delim = some d ∧ pattern = d :: ps ∧ Matches delim ps name) ∨
  ((∀ d, delim = some d → pattern.head? ≠ some d) ∧
    ∃ rest, name = completeRef delim reference ++ rest ∧ Matches delim pattern rest)

theorem MatchList_resolved (name : List B) (delim : Option B) (reference pattern : List B) :
    matchListTop name (delimStrOf delim) delim reference pattern = true ↔
      Resolved delim reference pattern name := by
  rw [MatchList_iff]
  cases delim with
  | none =>
    rw [resolveMatch_none, resolveRel_none_iff]
    simp [Resolved, completeRef]
  | some d =>
    by_cases hp : pattern.head? = some d
    · obtain ⟨ps, rfl⟩ : ∃ ps, pattern = d :: ps := by
        cases pattern with
        | nil => simp at hp
        | cons p ps => exact ⟨ps, by simpa using hp⟩
      rw [resolveMatch_abs, matchNFA_iff]
      simp [Resolved]
    · rw [resolveMatch_rel_some _ _ _ _ hp, resolveRel_some_iff]
      have hne : ∀ ps, pattern ≠ d :: ps := by
        rintro ps rfl; simp at hp
      simp [Resolved, completeRef, hp, hne]

/-- non-vacuity: absolute pattern, relative pattern with completed reference, no delimiter -/
example : matchListTop [97, 47, 98] [47] (some 47) [120] [47, 97, 47, 37] = true := by decide
example : matchListTop [97, 47, 98, 47, 99] [47] (some 47) [97] [37, 47, 99] = true := by decide
example : matchListTop [97, 47, 98, 47, 99] [47] (some 47) [97] [37] = false := by decide
example : matchListTop [97, 98, 99] [] none [97] [37] = true := by decide
example : Resolved (some 47) [97] [37, 47, 99] [97, 47, 98, 47, 99] :=
  (MatchList_resolved _ (some 47) _ _).mp (by decide)
example : ¬ Resolved (some 47) [97] [37] [97, 47, 98, 47, 99] := fun h =>
  absurd ((MatchList_resolved _ (some 47) _ _).mpr h) (by decide)

/-! ### sanity theorems: what the wildcards mean -/

/-- "*" matches every name -/
theorem star_matches_all (delim : Option B) (name : List B) : Matches delim [42] name :=
  .star [] name [] name (by simp) .nil

/-- "%" matches exactly the names without a delimiter -/
theorem pct_no_delim (d : B) (name : List B) : Matches (some d) [37] name ↔ d ∉ name := by
  constructor
  · intro h
    cases h with
    | lit _ _ _ hnw _ => simp [isWild] at hnw
    | pct _ pre ns _ he hd hm =>
      have := Matches.nil_pat hm
      subst this
      subst he
      simpa using hd d rfl
  · intro h
    exact .pct [] name [] name (by simp) (by rintro d' hd'; cases hd'; exact h) .nil

/-- a pattern without wildcards matches itself only -/
theorem literal_only (delim : Option B) (pat name : List B) (hlit : ∀ c ∈ pat, isWild c = false) :
    Matches delim pat name ↔ name = pat := by
  induction pat generalizing name with
  | nil =>
    constructor
    · intro h; exact Matches.nil_pat h
    · rintro rfl; exact .nil
  | cons c ps ih =>
    have hc : isWild c = false := hlit c (by simp)
    have ih' := fun nm => ih nm (fun x hx => hlit x (List.mem_cons_of_mem _ hx))
    constructor
    · intro h
      cases h with
      | lit _ _ ns _ hm => rw [(ih' ns).mp hm]
      | star _ _ _ _ _ _ => simp [isWild] at hc
      | pct _ _ _ _ _ _ _ => simp [isWild] at hc
    · rintro rfl
      exact .lit c ps ps hc ((ih' ps).mpr rfl)

example : Matches (some 47) [37] [97, 98] := (pct_no_delim 47 _).mpr (by decide)
example : ¬ Matches (some 47) [37] [97, 47, 98] := fun h => absurd ((pct_no_delim 47 _).mp h) (by decide)
example : Matches (some 47) [97, 47, 98] [97, 47, 98] :=
  (literal_only _ _ _ (by decide)).mpr rfl
example : ¬ Matches (some 47) [97, 47, 98] [97, 47, 99] := fun h =>
  absurd ((literal_only _ _ _ (by decide)).mp h) (by decide)

end GoImap.C20
