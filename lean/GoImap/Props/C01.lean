/-
  C01 — wire encoder/decoder round trip for every IMAP data value.
  Property theorems only; helper lemmas live in GoImap/Lemmas/Wire*.lean.
-/
import GoImap.Model.Wire
import GoImap.Spec.Wire
import GoImap.Lemmas.Wire
namespace GoImap.C01
open GoImap.Wire GoImap.WireSpec

/-- every byte string survives `Encoder.Quoted` → `Decoder.Quoted`, whatever follows it, and
    exactly its bytes are consumed -/
theorem quoted_rt (s rest : Wire.Bytes) (e : Option Err) (l : List (Nat × Bool)) :
    decQuoted ⟨encQuoted s ++ rest, e, l⟩ = (true, s, ⟨rest, e, l⟩) := by
  rw [encQuoted_append]
  simp [decQuoted, acceptByte, unq_quoteBody]

example : decQuoted ⟨encQuoted [34, 92, 0, 13, 10, 255] ++ [32, 120], none, []⟩ =
    (true, [34, 92, 0, 13, 10, 255], ⟨[32, 120], none, []⟩) := quoted_rt _ _ _ _

/-- a negative `Number64` is refused -/
theorem number64_refuse (v : Int) (hv : v < 0) (e : Enc) : (encNumber64 v e).err = true := by
  simp [encNumber64, hv, Enc.setErr]

/-- an empty number set is refused -/
theorem numset_refuse (e : Enc) : (encNumSet (.set []) e).err = true := by
  simp [encNumSet, NumSetV.text, NumSet.toChars, Enc.setErr]

/-- `Number64` as shipped wrote "-5", which the peer's `ExpectNumber64` rejects -/
theorem legacy_number64_counterexample :
    (Legacy.encNumber64 (-5) {}).err = false ∧ (Legacy.encNumber64 (-5) {}).out = [45, 53] ∧
    (expectNumber64 ⟨[45, 53, 13, 10], none, []⟩).1 = false ∧ (encNumber64 (-5) {}).err = true := by
  decide

/-- `isValidFlag` as shipped accepted a lone backslash — not an RFC 9051 flag — and the bare "\"
    it wrote is rejected by the peer's `ExpectFlag` -/
theorem legacy_flag_counterexample :
    ValidFlag [92] = false ∧ ValidAttr [92] = false ∧
    (Legacy.encFlag [92] {}).err = false ∧ (Legacy.encFlag [92] {}).out = [92] ∧
    (Legacy.encAttr [92] {}).err = false ∧
    (expectFlag ⟨[92, 13, 10], none, []⟩).1 = false ∧
    (encFlag [92] {}).err = true ∧ (encAttr [92] {}).err = true := by
  decide

end GoImap.C01
