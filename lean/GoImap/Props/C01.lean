/-
  C01 — wire encoder/decoder round trip for every IMAP data value.
  Property theorems only; definitions used in the statements (`strBytes`, `strLits`, `mboxBytes`,
  `valBytes`, `Value.OK`, `Value.fuel`) and helper lemmas live in GoImap/Lemmas/Wire*.lean.

  Everything is stated for every configuration `cfg = (side, quotedUTF8, literalMinus, literalPlus)`
  — all eight modes, both directions — and for the decoder of the peer side `cfg.side.peer`.
  A decoder state is ⟨unread input, dec.err, literal-hook calls⟩; "consumes exactly the bytes written"
  is the unread input being the `rest` that was appended, "no error" is `dec.err` staying `none`.

  Proved (all at full strength, nothing partial):
    quoted_rt                      Quoted → Quoted, any bytes, any rest
    string_rt, string_sync         String → ExpectAString / ExpectString / String, any byte string below
                                   2^63 bytes, any rest; the encoder waits exactly for a synchronising
                                   literal, right after its header; the peer's hook sees size and nonSync
    number_rt, number64_rt, modseq_rt, number64_refuse
    flag_rt, flag_star_rt, attr_rt, flag_refuse, attr_refuse   (refusal ⇔ not an RFC 9051 flag, 7-bit)
    canonical_table, canon_flag_fold, canon_flag_id            the canonicalisation touches only the case of
                                   well-known flags / attributes
    mailbox_rt                     valid UTF-8 names, INBOX folding (uses C16 dec_enc + UTF-8 layer)
    numset_rt, searchres_rt, numset_refuse                     (uses C15.parse_print)
    list_rt, list_cap, list_refuse value trees of strings / numbers / lists; the depth cap 1000 counts
                                   non-empty lists only
    legacy_number64_counterexample, legacy_flag_counterexample  the two repaired defects
    legacy_unicode_flag_counterexample  the flag lookup used Unicode lower-casing (U+0130 → i); repaired
    legacy_astring_counterexample  ExpectAString used to go on after a malformed literal header (repaired
                                   under C04; the model follows the repaired decoder)
    string_wellformed              what String writes is accepted by the strict RFC 9051 string reader of
                                   Spec/Wire.lean, denotes the string, and obeys RFC 7888's literal rules
  Validated by the oracle only (not theorems): the same well-formedness for mailbox names (astring whose
  content is canonical modified UTF-7) and sequence-set texts; decoder-side: ExpectMailbox accepts a
  name ⇔ the RFC-side `Utf7Spec.specDecode` does.  Flags with bytes ≥ 0x80 are covered by flag_rt
  (the refusal theorems are about 7-bit flags, which is all RFC 9051 allows).
  Side conditions on `rest` are the grammar's separators: a number is followed by a non-digit, an
  atom-like token (flag, INBOX, sequence set) by a byte that cannot continue it.
-/
import GoImap.Model.Wire
import GoImap.Spec.Wire
import GoImap.Lemmas.Wire
import GoImap.Lemmas.WireString
import GoImap.Lemmas.WireFlag
import GoImap.Lemmas.WireNumSet
import GoImap.Lemmas.WireMailbox
import GoImap.Lemmas.WireList
import GoImap.Lemmas.WireWellFormed
import GoImap.Props.C15
namespace GoImap.C01
open GoImap.Wire GoImap.WireSpec

/-! ### strings -/

/-- every byte string survives `Encoder.Quoted` → `Decoder.Quoted`, whatever follows it, and
    exactly its bytes are consumed -/
theorem quoted_rt (s rest : Wire.Bytes) (e : Option Err) (l : List (Nat × Bool)) :
    decQuoted ⟨encQuoted s ++ rest, e, l⟩ = (true, s, ⟨rest, e, l⟩) := by
  rw [encQuoted_append]
  simp [decQuoted, acceptByte, unq_quoteBody]

example : decQuoted ⟨encQuoted [34, 92, 0, 13, 10, 255] ++ [32, 120], none, []⟩ =
    (true, [34, 92, 0, 13, 10, 255], ⟨[32, 120], none, []⟩) := quoted_rt _ _ _ _

/-- `Encoder.String` never refuses, and the peer's `ExpectAString`, `ExpectString` and `String`
    return the string, leave exactly `rest`, set no error, and report the literal (if one was used)
    with its size and whether it was non-synchronising — for every mode and direction -/
theorem string_rt (cfg : Cfg) (s rest : Wire.Bytes) (hlen : s.length < lim63) :
    (encString cfg s {}).err = false ∧
    expectAString cfg.side.peer ⟨(encString cfg s {}).out ++ rest, none, []⟩ =
      (true, s, ⟨rest, none, strLits cfg s⟩) ∧
    expectString cfg.side.peer ⟨(encString cfg s {}).out ++ rest, none, []⟩ =
      (true, s, ⟨rest, none, strLits cfg s⟩) ∧
    decString cfg.side.peer ⟨(encString cfg s {}).out ++ rest, none, []⟩ =
      (true, s, ⟨rest, none, strLits cfg s⟩) := by
  obtain ⟨h1, h2, _⟩ := encString_ok cfg s {} rfl
  have hout : (encString cfg s {}).out = Wire.strBytes cfg s := by simpa using h2
  rw [hout]
  exact ⟨h1, by simpa using expectAString_strBytes cfg s rest hlen none [],
    by simpa using expectString_strBytes cfg s rest hlen none [],
    by simpa using decString_strBytes cfg s rest hlen none []⟩

/-- literal synchronisation: the encoder stops and waits exactly when the string needs a literal
    that the negotiated mode does not allow to be non-synchronising (a client without LITERAL+,
    and without LITERAL- or above 4096 bytes), the wait point is right after the literal header,
    and the peer is told "non-synchronising" exactly for a client literal sent without waiting -/
theorem string_sync (cfg : Cfg) (s : Wire.Bytes) :
    (encString cfg s {}).waits =
      (if !validQuoted cfg s && needSync cfg s.length then [(litHeader cfg s.length true).length] else []) ∧
    (needSync cfg s.length = true ↔
      cfg.side = .client ∧ cfg.literalPlus = false ∧ (cfg.literalMinus = false ∨ s.length > 4096)) ∧
    strLits cfg s = (if validQuoted cfg s then []
      else [(s.length, decide (cfg.side = .client) && !needSync cfg s.length)]) := by
  refine ⟨by simpa using (encString_ok cfg s {} rfl).2.2, ?_, rfl⟩
  simp only [needSync, Bool.and_eq_true, Bool.or_eq_true, decide_eq_true_eq, Bool.not_eq_true',
    and_assoc]
  constructor
  · rintro ⟨h1, h2, h3⟩; exact ⟨h1, h3, h2⟩
  · rintro ⟨h1, h2, h3⟩; exact ⟨h1, h3, h2⟩

/-- what `Encoder.String` writes is well-formed RFC 9051 `string` syntax (strict reader of
    Spec/Wire.lean: no NUL/CR/LF and — unless UTF-8 quoting was negotiated — no 8-bit byte inside
    quotes, only quoted-specials escaped, a literal header followed by exactly that many bytes)
    denoting `s`, and it is framed as RFC 7888 allows under the negotiated mode: a non-synchronising
    literal only from a client with LITERAL+ or (LITERAL- and at most 4096 bytes), and otherwise the
    encoder waited right after the header -/
theorem string_wellformed (cfg : Cfg) (s rest : Wire.Bytes) (hlen : s.length < lim63) :
    ∃ fr, rString cfg.quotedUTF8 ((encString cfg s {}).out ++ rest) = some (s, rest, fr) ∧
      framingAllowed cfg 0 fr (encString cfg s {}).waits = true := by
  obtain ⟨_, h2, h3⟩ := encString_ok cfg s {} rfl
  have hout : (encString cfg s {}).out = Wire.strBytes cfg s := by simpa using h2
  rw [hout, h3]
  unfold Wire.strBytes
  by_cases hv : validQuoted cfg s = true
  · refine ⟨.quoted, ?_, by simp [hv, framingAllowed]⟩
    have hall := hv
    unfold validQuoted at hall
    simp only [Bool.and_eq_true] at hall
    simp only [hv, if_true]
    exact rString_quoted cfg.quotedUTF8 s rest hall.2
  · have hv' : validQuoted cfg s = false := by simpa using hv
    simp only [hv', Bool.false_eq_true, if_false, Bool.not_false, Bool.true_and]
    refine ⟨_, rString_literal cfg cfg.quotedUTF8 (needSync cfg s.length) s rest hlen, ?_⟩
    cases hside : cfg.side with
    | server =>
      have hs : needSync cfg s.length = false := needSync_server cfg _ hside
      simp [framingAllowed, hside, hs]
    | client =>
      cases hs : needSync cfg s.length with
      | true =>
        have := litHeader_length cfg s.length true
        simp [framingAllowed, hside, this]
      | false =>
        have hmode : (cfg.literalPlus || (cfg.literalMinus && decide (s.length ≤ 4096))) = true := by
          simp only [needSync, hside, decide_true, Bool.true_and, Bool.and_eq_false_iff,
            Bool.or_eq_false_iff, decide_eq_false_iff_not, Nat.not_lt,
            Bool.not_eq_eq_eq_not] at hs
          simp only [Bool.or_eq_true, Bool.and_eq_true, decide_eq_true_eq]
          rcases hs with ⟨h1, h2⟩ | h
          · right
            exact ⟨by simpa using h1, by omega⟩
          · left; simpa using h
        simp [framingAllowed, hside, hmode]

-- a 3-byte string with a NUL: literal; client without LITERAL±: synchronising, wait after "{3}\r\n"
example : (encString ⟨.client, false, false, false⟩ [97, 0, 98] {}).waits = [5] ∧
    (encString ⟨.client, false, false, false⟩ [97, 0, 98] {}).out = [123, 51, 125, 13, 10, 97, 0, 98] ∧
    (encString ⟨.client, false, true, false⟩ [97, 0, 98] {}).out = [123, 51, 43, 125, 13, 10, 97, 0, 98] ∧
    (encString ⟨.server, false, false, false⟩ [97, 0, 98] {}).out = [123, 51, 125, 13, 10, 97, 0, 98] ∧
    (encString ⟨.client, true, false, false⟩ [97, 233] {}).out = [34, 97, 233, 34] := by decide

/-! ### numbers -/

/-- `Encoder.Number` (uint32) → `ExpectNumber` -/
theorem number_rt (v : Nat) (hv : v < 4294967296) (c : Nat) (r : Wire.Bytes) (hc : isDigit c = false) :
    (encNumber v {}).err = false ∧
    expectNumber ⟨(encNumber v {}).out ++ c :: r, none, []⟩ = (true, v, ⟨c :: r, none, []⟩) := by
  refine ⟨rfl, ?_⟩
  have : (encNumber v {}).out = digits v := by simp [encNumber, Enc.write]
  rw [this]
  exact expectNumberLim_digits lim32 v hv c r hc none []

/-- `Encoder.Number64` (int64 ≥ 0) → `ExpectNumber64` -/
theorem number64_rt (v : Int) (h0 : 0 ≤ v) (hv : v < 9223372036854775808) (c : Nat) (r : Wire.Bytes)
    (hc : isDigit c = false) :
    (encNumber64 v {}).err = false ∧
    expectNumber64 ⟨(encNumber64 v {}).out ++ c :: r, none, []⟩ =
      (true, v.natAbs, ⟨c :: r, none, []⟩) ∧ Int.ofNat v.natAbs = v := by
  have hn : ¬ v < 0 := by omega
  have hout : (encNumber64 v {}).out = digits v.natAbs := by
    simp [encNumber64, hn, Enc.write, intDigits_nonneg v h0]
  refine ⟨by simp [encNumber64, hn, Enc.write], ?_, Int.natAbs_of_nonneg h0⟩
  rw [hout]
  exact expectNumberLim_digits lim63 v.natAbs (by unfold lim63; omega) c r hc none []

/-- `Encoder.ModSeq` (uint64) → `ExpectModSeq` -/
theorem modseq_rt (v : Nat) (hv : v < 18446744073709551616) (c : Nat) (r : Wire.Bytes)
    (hc : isDigit c = false) :
    expectModSeq ⟨(encNumber v {}).out ++ c :: r, none, []⟩ = (true, v, ⟨c :: r, none, []⟩) := by
  have : (encNumber v {}).out = digits v := by simp [encNumber, Enc.write]
  rw [this]
  exact expectNumberLim_digits lim64 v hv c r hc none []

/-- a negative `Number64` is refused -/
theorem number64_refuse (v : Int) (hv : v < 0) (e : Enc) : (encNumber64 v e).err = true := by
  simp [encNumber64, hv, Enc.setErr]

example : expectNumber64 ⟨(encNumber64 9223372036854775807 {}).out ++ [13, 10], none, []⟩ =
    (true, 9223372036854775807, ⟨[13, 10], none, []⟩) :=
  (number64_rt 9223372036854775807 (by decide) (by decide) 13 [10] (by decide)).2.1

/-! ### flags and mailbox attributes -/

/-- an accepted flag other than `\*` is read back by `ExpectFlag` as its canonical form (the
    well-known flags case-normalised, everything else unchanged) -/
theorem flag_rt (f : Wire.Bytes) (hne : f ≠ [92, 42]) (hacc : (encFlag f {}).err = false)
    (c : Nat) (r : Wire.Bytes) (hc : isAtomChar c = false) :
    expectFlag ⟨(encFlag f {}).out ++ c :: r, none, []⟩ = (true, canonicalFlag f, ⟨c :: r, none, []⟩) := by
  have hv : isValidFlag f = true := by
    cases h : isValidFlag f with
    | true => rfl
    | false => simp [encFlag, hne, h, Enc.setErr] at hacc
  have hout : (encFlag f {}).out = f := by simp [encFlag, hv, Enc.write]
  rw [hout]
  exact expectFlag_valid f hv c r hc none []

/-- `\*` (flag-perm) -/
theorem flag_star_rt (rest : Wire.Bytes) :
    (encFlag [92, 42] {}).err = false ∧
    expectFlag ⟨(encFlag [92, 42] {}).out ++ rest, none, []⟩ = (true, [92, 42], ⟨rest, none, []⟩) := by
  refine ⟨by decide, ?_⟩
  have : (encFlag [92, 42] {}).out = [92, 42] := by decide
  rw [this]
  exact expectFlag_star rest none []

/-- an accepted mailbox attribute is read back by `ExpectMailboxAttr` as its canonical form -/
theorem attr_rt (f : Wire.Bytes) (hacc : (encAttr f {}).err = false)
    (c : Nat) (r : Wire.Bytes) (hc : isAtomChar c = false) :
    expectMailboxAttr ⟨(encAttr f {}).out ++ c :: r, none, []⟩ =
      (true, canonicalMailboxAttr (canonicalFlag f), ⟨c :: r, none, []⟩) := by
  have hv : isValidFlag f = true := by
    cases h : isValidFlag f with
    | true => rfl
    | false => simp [encAttr, h, Enc.setErr] at hacc
  have hh : ¬ (f.head? ≠ some 92) := by
    intro hh; simp [encAttr, hh, Enc.setErr] at hacc
  have hout : (encAttr f {}).out = f := by simp [encAttr, hv, hh, Enc.write]
  rw [hout]
  unfold expectMailboxAttr
  rw [expectFlag_valid f hv c r hc none []]

/-- the canonical form differs from the flag at most in the case of ASCII letters, and is a fixed
    point on the canonical spellings -/
theorem canonical_table :
    (∀ t ∈ wellKnownFlags, canonicalFlag t = t ∧ canonicalFlag (lowerAscii t) = t) ∧
    (∀ t ∈ wellKnownAttrs, canonicalMailboxAttr t = t ∧ canonicalMailboxAttr (lowerAscii t) = t) := by
  decide +kernel

/-- canonicalisation changes at most the case of ASCII letters … -/
theorem canon_flag_fold (f : Wire.Bytes) :
    lowerAscii (canonicalFlag f) = lowerAscii f ∧
    lowerAscii (canonicalMailboxAttr f) = lowerAscii f :=
  ⟨canonIn_fold wellKnownFlags f, canonIn_fold wellKnownAttrs f⟩

/-- … and leaves everything that is not a well-known flag / attribute (in any case mix) alone -/
theorem canon_flag_id (f : Wire.Bytes) :
    ((∀ t ∈ wellKnownFlags, lowerAscii t ≠ lowerAscii f) → canonicalFlag f = f) ∧
    ((∀ t ∈ wellKnownAttrs, lowerAscii t ≠ lowerAscii f) → canonicalMailboxAttr f = f) :=
  ⟨canonIn_id wellKnownFlags f, canonIn_id wellKnownAttrs f⟩

/-- refused ⇔ not representable, for 7-bit flags, judged against RFC 9051's `flag-perm` -/
theorem flag_refuse (f : Wire.Bytes) (h7 : sevenBit f = true) (e : Enc) (he : e.err = false) :
    (encFlag f e).err = true ↔ ValidFlag f = false := by
  unfold encFlag ValidFlag
  rw [isValidFlag_eq_rfc f h7]
  by_cases hs : f = [92, 42]
  · subst hs; simp [Enc.write, he]
  · cases hv : (isAtom f || isBackslashAtom f) with
    | true =>
      simp only [Bool.or_eq_true] at hv
      rcases hv with hv | hv <;> simp [hs, hv, Enc.write, he]
    | false =>
      simp only [Bool.or_eq_false_iff] at hv
      simp [hs, hv.1, hv.2, Enc.setErr]

/-- refused ⇔ not representable, for 7-bit attributes, judged against RFC 9051's `"\" atom` -/
theorem attr_refuse (f : Wire.Bytes) (h7 : sevenBit f = true) (e : Enc) (he : e.err = false) :
    (encAttr f e).err = true ↔ ValidAttr f = false := by
  unfold encAttr ValidAttr
  rw [isValidFlag_eq_rfc f h7]
  cases hb : isBackslashAtom f with
  | true =>
    have := isBackslashAtom_head f hb
    simp [this, Enc.write, he]
  | false =>
    by_cases hh : f.head? = some 92
    · cases ha : isAtom f with
      | true => exact absurd hh (isAtom_head f ha)
      | false => simp [hh, Enc.setErr]
    · simp [hh, Enc.setErr]

example : (encFlag [92, 83, 69, 69, 78] {}).err = false ∧
    expectFlag ⟨[92, 83, 69, 69, 78] ++ [41], none, []⟩ = (true, [92, 83, 101, 101, 110], ⟨[41], none, []⟩) := by
  decide

/-! ### mailbox names -/

/-- a valid-UTF-8 mailbox name (`cps` = its scalar values) is never refused and is read back by the
    peer's `ExpectMailbox` as itself — as `INBOX` when it is INBOX in any case mix — in every mode -/
theorem mailbox_rt (cfg : Cfg) (name : Wire.Bytes) (cps : List Nat) (hutf8 : Utf7.utf8dec name = some cps)
    (hlen : (Utf7.encode cps).length < lim63) (c : Nat) (r : Wire.Bytes) (hc : isAtomChar c = false) :
    ∃ e1, encMailbox cfg name {} = some e1 ∧ e1.err = false ∧
      expectMailbox cfg.side.peer ⟨e1.out ++ c :: r, none, []⟩ =
        (true, if equalFoldInbox name then inboxBytes else name, ⟨c :: r, none, mboxLits cfg name cps⟩) := by
  obtain ⟨e1, h1, h2, h3⟩ := encMailbox_ok cfg name cps hutf8 {} rfl
  refine ⟨e1, h1, h2, ?_⟩
  have : e1.out = mboxBytes cfg name cps := by simpa using h3
  rw [this]
  simpa using expectMailbox_mboxBytes cfg name cps hutf8 hlen c r hc []

-- "Entwürfe" → "Entw&APw-rfe" and back; "inbox" → INBOX
example : (encMailbox ⟨.client, false, false, false⟩ [69, 110, 116, 119, 195, 188, 114, 102, 101] {}).map Enc.out =
    some [34, 69, 110, 116, 119, 38, 65, 80, 119, 45, 114, 102, 101, 34] := by decide
example : encMailbox ⟨.server, true, false, false⟩ [105, 110, 98, 111, 120] {} =
    some ⟨[73, 78, 66, 79, 88], [], false⟩ := by decide

/-! ### number sets -/

/-- a non-empty canonical number set is read back by `ExpectNumSet` as itself -/
theorem numset_rt (s : NumSet.Set) (hcanon : NumSetSpec.canonical s = true) (hne : s ≠ [])
    (c : Nat) (r : Wire.Bytes) (hc : isNumSetChar c = false) :
    (encNumSet (.set s) {}).err = false ∧
    expectNumSet ⟨(encNumSet (.set s) {}).out ++ c :: r, none, []⟩ = (true, .set s, ⟨c :: r, none, []⟩) := by
  have hparse := GoImap.C15.parse_print s hcanon hne
  have htext : (NumSetV.set s).text ≠ [] := by
    intro h
    exact toChars_ne_nil s hne (List.map_eq_nil_iff.1 h)
  have hout : (encNumSet (.set s) {}).out = (NumSetV.set s).text := by
    simp [encNumSet, htext, Enc.write]
  refine ⟨by simp [encNumSet, htext, Enc.write], ?_⟩
  rw [hout]
  exact expectNumSet_text s hparse hne c r hc none []

/-- the SEARCHRES marker `$` -/
theorem searchres_rt (rest : Wire.Bytes) :
    (encNumSet .searchRes {}).err = false ∧
    expectNumSet ⟨(encNumSet .searchRes {}).out ++ rest, none, []⟩ = (true, .searchRes, ⟨rest, none, []⟩) := by
  refine ⟨by decide, ?_⟩
  have : (encNumSet .searchRes {}).out = [36] := by decide
  rw [this]
  simp [expectNumSet, acceptByte]

/-- an empty number set is refused -/
theorem numset_refuse (e : Enc) : (encNumSet (.set []) e).err = true := by
  simp [encNumSet, NumSetV.text, NumSet.toChars, Enc.setErr]

example : NumSetSpec.canonical [⟨1, 3⟩, ⟨5, 5⟩, ⟨9, 0⟩] = true ∧
    (encNumSet (.set [⟨1, 3⟩, ⟨5, 5⟩, ⟨9, 0⟩]) {}).out = [49, 58, 51, 44, 53, 44, 57, 58, 42] := by
  refine ⟨by decide, by decide +kernel⟩

/-! ### nested lists -/

/-- a value tree (strings, non-negative numbers, lists) whose nesting of non-empty lists stays below
    the cap is never refused and is read back as itself, consuming exactly its bytes, in every mode -/
theorem list_rt (cfg : Cfg) (v : Value) (hok : v.OK) (hdepth : v.depth < maxListDepth)
    (fuel : Nat) (hfuel : v.fuel ≤ fuel) (c : Nat) (r : Wire.Bytes) (hc : isDigit c = false) :
    (encValue cfg v {}).err = false ∧
    ∃ l', readValue cfg.side.peer fuel 0 ⟨(encValue cfg v {}).out ++ c :: r, none, []⟩ =
      (.ok v, ⟨c :: r, none, l'⟩) := by
  obtain ⟨h1, h2⟩ := encValue_ok cfg v {} hok rfl
  refine ⟨h1, ?_⟩
  have : (encValue cfg v {}).out = valBytes cfg v := by simpa using h2
  rw [this]
  exact readValue_rt cfg v fuel 0 c r none [] hok hfuel (by omega) hc

/-- at the cap or beyond, the reader stops with the depth error (never a wrong value) -/
theorem list_cap (cfg : Cfg) (v : Value) (hok : v.OK) (hdepth : v.depth ≥ maxListDepth)
    (fuel : Nat) (hfuel : v.fuel ≤ fuel) (c : Nat) (r : Wire.Bytes) (hc : isDigit c = false) :
    ∃ s', readValue cfg.side.peer fuel 0 ⟨(encValue cfg v {}).out ++ c :: r, none, []⟩ =
      (.error .depth, s') := by
  obtain ⟨_, h2⟩ := encValue_ok cfg v {} hok rfl
  have : (encValue cfg v {}).out = valBytes cfg v := by simpa using h2
  rw [this]
  exact readValue_capped cfg v fuel 0 c r none [] hok hfuel (by decide) (by omega) hc

/-- a negative number anywhere in the tree makes the encoder refuse the whole value -/
theorem list_refuse (cfg : Cfg) (v : Value) (e : Enc) (h : Value.representable v = false) :
    (encValue cfg v e).err = true :=
  encValue_refuse cfg v e h

/-- an empty list does not count towards the depth: `(())` has depth 1 -/
example : Value.depth (.list (.cons (.list .nil) .nil)) = 1 ∧
    Value.depth (.list (.cons (.list (.cons (.num 7) .nil)) .nil)) = 2 := by decide

example : (encValue ⟨.server, false, false, false⟩ (.list (.cons (.str [97]) (.cons (.num 5) (.cons (.list .nil) .nil)))) {}).out =
    [40, 34, 97, 34, 32, 53, 32, 40, 41, 41] := by decide

/-! ### the two repaired defects -/

/-- `Number64` as shipped wrote "-5", which the peer's `ExpectNumber64` rejects -/
theorem legacy_number64_counterexample :
    (Legacy.encNumber64 (-5) {}).err = false ∧ (Legacy.encNumber64 (-5) {}).out = [45, 53] ∧
    (expectNumber64 ⟨[45, 53, 13, 10], none, []⟩).1 = false ∧ (encNumber64 (-5) {}).err = true := by
  decide

/-- `isValidFlag` as shipped accepted a lone backslash — not an RFC 9051 flag — and the bare "\"
    it wrote is rejected by the peer's `ExpectFlag` -/
theorem legacy_flag_counterexample :
    ValidFlag [92] = false ∧ ValidAttr [92] = false ∧
    (Legacy.encFlag [92] {}).err = false ∧ (Legacy.encFlag [92] {}).out = [92] ∧
    (Legacy.encAttr [92] {}).err = false ∧
    (expectFlag ⟨[92, 13, 10], none, []⟩).1 = false ∧
    (encFlag [92] {}).err = true ∧ (encAttr [92] {}).err = true := by
  decide

/-- `ExpectAString` as shipped, on `{abc def`: the brace of the malformed literal is consumed, the
    error is recorded, and yet the atom `abc` was returned as a successful astring; now it fails -/
theorem legacy_astring_counterexample :
    Legacy.expectAString .server ⟨[123, 97, 98, 99, 32, 100], none, []⟩ =
      (true, [97, 98, 99], ⟨[32, 100], some .expect, []⟩) ∧
    expectAString .server ⟨[123, 97, 98, 99, 32, 100], none, []⟩ =
      (false, [], ⟨[97, 98, 99, 32, 100], some .expect, []⟩) := by
  decide

/-- the flag lookup as shipped lower-cased with Go's Unicode `strings.ToLower`: the keyword
    `$İmportant` (U+0130, which the encoder writes verbatim) was decoded as `$Important`, and
    `\Subscrİbed` as `\Subscribed`; with ASCII-only folding they come back unchanged -/
theorem legacy_unicode_flag_counterexample :
    Legacy.canonicalFlag [36, 196, 176, 109, 112, 111, 114, 116, 97, 110, 116] =
      [36, 73, 109, 112, 111, 114, 116, 97, 110, 116] ∧
    canonicalFlag [36, 196, 176, 109, 112, 111, 114, 116, 97, 110, 116] =
      [36, 196, 176, 109, 112, 111, 114, 116, 97, 110, 116] ∧
    (encFlag [36, 196, 176, 109, 112, 111, 114, 116, 97, 110, 116] {}).err = false ∧
    Legacy.canonicalMailboxAttr [92, 83, 117, 98, 115, 99, 114, 196, 176, 98, 101, 100] =
      [92, 83, 117, 98, 115, 99, 114, 105, 98, 101, 100] ∧
    canonicalMailboxAttr [92, 83, 117, 98, 115, 99, 114, 196, 176, 98, 101, 100] =
      [92, 83, 117, 98, 115, 99, 114, 196, 176, 98, 101, 100] := by
  decide +kernel

end GoImap.C01
