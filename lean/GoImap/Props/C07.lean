/-
  C07 — sequence-number translation between a client's view and the mailbox.
  Property theorems only.
-/
import GoImap.Model.Tracker
import GoImap.Spec.Tracker
namespace GoImap.C07
open GoImap.Tracker GoImap.TrackerSpec

/-- translating 0 yields 0 on both sides, whatever is queued -/
theorem decode_zero (q : List Upd) (n : Nat) : decode q n 0 = 0 := by simp [decode]
theorem encode_zero (q : List Upd) (n : Nat) : encode q n 0 = 0 := by simp [encode]

theorem takeWhile_all {α} (p : α → Bool) : (l : List α) → ∀ x ∈ l.takeWhile p, p x = true
  | [], x, h => by simp at h
  | a :: l, x, h => by
    simp only [List.takeWhile] at h
    split at h
    · rcases List.mem_cons.mp h with rfl | h'
      · assumption
      · exact takeWhile_all p l x h'
    · simp at h

theorem takeWhile_drop {α} (p : α → Bool) : (l : List α) → l.takeWhile p ++ l.drop (l.takeWhile p).length = l
  | [] => by simp
  | a :: l => by
    simp only [List.takeWhile]
    split
    · simp [takeWhile_drop p l]
    · simp

/-- a poll that may not report expunges emits none and keeps the rest queued in order -/
theorem poll_no_expunge (q : List Upd) :
    (∀ u ∈ (pollSplit q false).1, ∀ k, u ≠ .expunge k) ∧ (pollSplit q false).1 ++ (pollSplit q false).2 = q := by
  constructor
  · intro u hu k hk
    simp only [pollSplit] at hu
    have := takeWhile_all _ _ _ hu
    subst hk
    simp at this
  · simp only [pollSplit, Bool.false_eq_true, if_false]
    exact takeWhile_drop _ q

/-- a poll that may report expunges emits the whole queue, in order -/
theorem poll_all (q : List Upd) : pollSplit q true = (q, []) := by simp [pollSplit]

/-- the shipped EncodeSeqNum (before the repair) was wrong for an EXISTS update adding more than one
    message: 2 messages, QueueNumMessages(5): server message 3 is unknown to the client, yet it
    was translated to 3 -/
theorem legacy_encode_counterexample :
    Legacy.encode [.exists_ 2 5] 5 3 = 3 ∧ encode [.exists_ 2 5] 5 3 = 0 := by decide

end GoImap.C07
