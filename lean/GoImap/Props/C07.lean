/-
  C07 — sequence-number translation between a client's view and the mailbox.
  Property theorems only; definitions (`Inv`, `SessInv`, `SessRel`, `appended`, `dueOf`, `run`, `grun`,
  `updIds`, the demo states) and helper lemmas live in GoImap/Lemmas/Tracker{Basic,Loops,Inv,Step,Ids}.lean.

  Status: all seven targets proved, nothing partial.
    1/2  inv_init, inv_step, inv_reachable, poll_prefix, poll_expected, inv_pending_ids_lt
    3    decode_spec (+ decode_eq_zero_iff, decode_table)
    4    encode_spec (+ encode_eq_zero_iff, encode_table)
    5    roundtrip, roundtrip_symm
    6    fetch_target, fetch_target_queued, noop_sync
    7    legacy_encode_spec_counterexample, legacy_encode_spec_false
  Unfinished targets: none.
-/
import GoImap.Model.Tracker
import GoImap.Spec.Tracker
import GoImap.Lemmas.TrackerLoops
import GoImap.Lemmas.TrackerStep
import GoImap.Lemmas.TrackerIds
namespace GoImap.C07
open GoImap.Tracker GoImap.TrackerSpec GoImap.TrackerLemmas

/-- translating 0 yields 0 on both sides, whatever is queued -/
theorem decode_zero (q : List Upd) (n : Nat) : decode q n 0 = 0 := by simp [decode]
theorem encode_zero (q : List Upd) (n : Nat) : encode q n 0 = 0 := by simp [encode]

/-- a poll that may not report expunges emits none and keeps the rest queued in order -/
theorem poll_no_expunge (q : List Upd) :
    (∀ u ∈ (pollSplit q false).1, ∀ k, u ≠ .expunge k) ∧ (pollSplit q false).1 ++ (pollSplit q false).2 = q := by
  constructor
  · intro u hu k hk
    simp only [pollSplit] at hu
    have := takeWhile_all _ _ _ hu
    subst hk
    simp at this
  · simp only [pollSplit, Bool.false_eq_true, if_false]
    exact takeWhile_drop _ q

/-- a poll that may report expunges emits the whole queue, in order -/
theorem poll_all (q : List Upd) : pollSplit q true = (q, []) := by simp [pollSplit]

/-- the shipped EncodeSeqNum (before the repair) was wrong for an EXISTS update adding more than one
    message: 2 messages, QueueNumMessages(5): server message 3 is unknown to the client, yet it
    was translated to 3 -/
theorem legacy_encode_counterexample :
    Legacy.encode [.exists_ 2 5] 5 3 = 3 ∧ encode [.exists_ 2 5] 5 3 = 0 := by decide

/-! ## 1/2 — the correspondence invariant

`Inv st g` (GoImap/Lemmas/TrackerInv.lean):
  * `st.n = g.mbox.length`, `g.mbox.Nodup`, every id of `g.mbox` is `< g.next`;
  * `SessRel (SessInv g.mbox g.next) st.sess g.sess`: same sessions in the same order, and for each
    pair `s.id = gs.id`, `deliverAll gs.view gs.pending = some (s.queue, g.mbox)` (the concrete queue is
    exactly what the pending ghost updates deliver from the view, and applying them to the view
    yields the mailbox), `(gs.view ++ appended gs.pending).Nodup`, all those ids `< g.next`. -/

/-- a fresh tracker corresponds to the fresh ghost mailbox -/
theorem inv_init (n : Nat) : Inv (init n) (ginit n) := TrackerLemmas.inv_init n

/-- every ghost-valid call is accepted by the tracker (no panic), emits exactly the updates the
    ghost session is owed, and keeps the correspondence -/
theorem inv_step {st : St} {g : GSt} (h : Inv st g) (op : Op) {g' : GSt} {outG : List Upd}
    (hg : gstep g op = some (g', outG)) :
    ∃ st', step st op = some (st', outG) ∧ Inv st' g' := TrackerLemmas.inv_step h op hg

example : ∃ st', step demoSt (.expunge 4) = some (st', []) ∧
    Inv st' ⟨[0, 2, 3], 5, [⟨1, [0, 1], [.exists_ [2, 3, 4], .expunge 1, .expunge 4]⟩]⟩ :=
  inv_step demo_inv (.expunge 4) rfl

/-- along any history of ghost-valid calls from a fresh tracker, the tracker never panics, every
    call emits exactly the ghost's expected updates, and the correspondence holds at the end -/
theorem inv_reachable (n : Nat) (ops : List Op) {g' : GSt} {outs : List (List Upd)}
    (hg : grun (ginit n) ops = some (g', outs)) :
    ∃ st', run (init n) ops = some (st', outs) ∧ Inv st' g' :=
  inv_run ops (TrackerLemmas.inv_init n) hg

example : ∃ st', run (init 2) demo2Ops = some (st', [[], [], [], [], [], [], [.exists_ 2 5]]) ∧
    Inv st' demo2G := inv_reachable 2 demo2Ops demo2_grun

/-- what a poll emits is a prefix of the session's queue, in order, the rest stays queued; without
    permission to report expunges none is emitted; with permission the whole queue is -/
theorem poll_prefix {st st' : St} {id : Nat} {allow : Bool} {out : List Upd} {s : Sess}
    (hs : st.sess.find? (·.id = id) = some s)
    (hstep : step st (.poll id allow) = some (st', out)) :
    ∃ rest, s.queue = out ++ rest ∧
      (allow = false → ∀ u ∈ out, ∀ k, u ≠ .expunge k) ∧
      (allow = true → rest = []) ∧
      (∀ s' ∈ st'.sess, s'.id = id → s'.queue = rest) ∧ st'.n = st.n := by
  simp only [step, hs, Option.some.injEq, Prod.mk.injEq] at hstep
  obtain ⟨rfl, rfl⟩ := hstep
  refine ⟨(pollSplit s.queue allow).2, ?_, ?_, ?_, ?_, rfl⟩
  · cases allow
    · exact (poll_no_expunge s.queue).2.symm
    · simp [poll_all]
  · intro ha; subst ha; exact (poll_no_expunge s.queue).1
  · intro ha; subst ha; simp [poll_all]
  · intro s' hs' hid
    simp only [List.mem_map] at hs'
    obtain ⟨x, _, rfl⟩ := hs'
    by_cases hx : x.id = id
    · simp [hx]
    · rw [if_neg hx] at hid; exact absurd hid hx

example : demoSt.sess.find? (·.id = 1) = some ⟨1, [.exists_ 2 5, .expunge 2]⟩ ∧
    step demoSt (.poll 1 false) = some (⟨4, [⟨1, [.expunge 2]⟩]⟩, [.exists_ 2 5]) := ⟨rfl, rfl⟩

/-- the updates a poll emits are the delivery, in the numbering of the session's current view, of
    the pending ghost updates that are due (all of them, or those before the first expunge) -/
theorem poll_expected {st : St} {g g' : GSt} (h : Inv st g) {id : Nat} {allow : Bool}
    {out : List Upd} {gs : GSess} (hgs : g.sess.find? (·.id = id) = some gs)
    (hg : gstep g (.poll id allow) = some (g', out)) :
    ∃ st' v', step st (.poll id allow) = some (st', out) ∧
      deliverAll gs.view (dueOf gs.pending allow) = some (out, v') := by
  obtain ⟨st', hst, _⟩ := TrackerLemmas.inv_step h _ hg
  simp only [gstep, hgs] at hg
  simp only [dueOf]
  split at hg
  · cases hg
  · rename_i o v' hd
    simp only [Option.some.injEq, Prod.mk.injEq] at hg
    exact ⟨st', v', hst, by rw [hd, hg.2]⟩

example : ∃ st' v', step demoSt (.poll 1 false) = some (st', [.exists_ 2 5]) ∧
    deliverAll [0, 1] (dueOf [.exists_ [2, 3, 4], .expunge 1] false) = some ([.exists_ 2 5], v') :=
  poll_expected demo_inv (id := 1) (gs := ⟨1, [0, 1], [.exists_ [2, 3, 4], .expunge 1]⟩) rfl rfl

/-- every identity in a session's view or named by one of its pending updates (expunged, flagged,
    appended) has been handed out already -/
theorem inv_pending_ids_lt {st : St} {g : GSt} (h : Inv st g) {gs : GSess} (hgs : gs ∈ g.sess) :
    (∀ x : Nat, x ∈ gs.view → x < g.next) ∧
    ∀ u ∈ gs.pending, ∀ x : Nat, x ∈ updIds u → x < g.next := by
  obtain ⟨s, _, _, hdel, _, hlt⟩ := h.sess.of_mem_right hgs
  exact ⟨fun x hx => hlt x (List.mem_append_left _ hx),
    fun u hu x hx => hlt x (deliverAll_ids _ hdel u hu x hx)⟩

example : (⟨1, [0, 1, 2, 3, 4], [.expunge 1, .fetch 3, .expunge 0]⟩ : GSess) ∈ demo2G.sess :=
  List.mem_cons_self

/-! ## 3 — DecodeSeqNum -/

/-- client number `c` of a session is translated to the server number of the same message,
    0 when that message is gone -/
theorem decode_spec {st : St} {g : GSt} (h : Inv st g) {i : Nat} {s : Sess} {gs : GSess}
    (hs : st.sess[i]? = some s) (hgs : g.sess[i]? = some gs) {c : Nat}
    (h1 : 1 ≤ c) (h2 : c ≤ gs.view.length) :
    decode s.queue st.n c = posOf (gs.view[c - 1]'(by omega)) g.mbox := by
  obtain ⟨_, hdel, hnd, _⟩ := h.sess.getElem? i hs hgs
  rw [h.count]
  exact decode_deliverAll hdel hnd h1 h2

example : decode [.exists_ 2 5, .expunge 2] 4 1 = posOf 0 [0, 2, 3, 4] :=
  decode_spec demo_inv (i := 0) rfl rfl (c := 1) (by decide) (by decide)
example : decode [.expunge 2, .fetch 3, .expunge 1] 3 4 = posOf 3 [2, 3, 4] :=
  decode_spec demo2_inv (i := 0) rfl rfl (c := 4) (by decide) (by decide)

/-- the translation is 0 exactly when the message is no longer in the mailbox -/
theorem decode_eq_zero_iff {st : St} {g : GSt} (h : Inv st g) {i : Nat} {s : Sess} {gs : GSess}
    (hs : st.sess[i]? = some s) (hgs : g.sess[i]? = some gs) {c : Nat}
    (h1 : 1 ≤ c) (h2 : c ≤ gs.view.length) :
    decode s.queue st.n c = 0 ↔ gs.view[c - 1]'(by omega) ∉ g.mbox := by
  rw [decode_spec h hs hgs h1 h2, posOf_eq_zero_iff]

/-- the whole decode table of a session is the expected one (`expectDecode`, the oracle the
    differential driver compares the implementation against) -/
theorem decode_table {st : St} {g : GSt} (h : Inv st g) {i : Nat} {s : Sess} {gs : GSess}
    (hs : st.sess[i]? = some s) (hgs : g.sess[i]? = some gs) :
    (List.range gs.view.length).map (fun j => decode s.queue st.n (j + 1)) = expectDecode g gs := by
  apply List.ext_getElem
  · simp [expectDecode]
  · intro j hj1 hj2
    simp only [List.length_map, List.length_range] at hj1
    have := decode_spec h hs hgs (c := j + 1) (by omega) (by omega)
    simpa [expectDecode] using this

example : [1, 0] = expectDecode demoG ⟨1, [0, 1], [.exists_ [2, 3, 4], .expunge 1]⟩ :=
  decode_table demo_inv (i := 0) rfl rfl

/-! ## 4 — EncodeSeqNum -/

/-- server number `k` is translated to the number under which the session's client knows the same
    message, 0 when the client does not know it yet -/
theorem encode_spec {st : St} {g : GSt} (h : Inv st g) {i : Nat} {s : Sess} {gs : GSess}
    (hs : st.sess[i]? = some s) (hgs : g.sess[i]? = some gs) {k : Nat}
    (h1 : 1 ≤ k) (h2 : k ≤ g.mbox.length) :
    encode s.queue st.n k = posOf (g.mbox[k - 1]'(by omega)) gs.view := by
  obtain ⟨_, hdel, hnd, _⟩ := h.sess.getElem? i hs hgs
  rw [h.count]
  exact encode_deliverAll hdel hnd h1 h2

example : encode [.exists_ 2 5, .expunge 2] 4 2 = posOf 2 [0, 1] :=
  encode_spec demo_inv (i := 0) rfl rfl (k := 2) (by decide) (by decide)
example : encode [.expunge 2, .fetch 3, .expunge 1] 3 2 = posOf 3 [0, 1, 2, 3, 4] :=
  encode_spec demo2_inv (i := 0) rfl rfl (k := 2) (by decide) (by decide)

/-- the translation is 0 exactly when the client has not been told about the message -/
theorem encode_eq_zero_iff {st : St} {g : GSt} (h : Inv st g) {i : Nat} {s : Sess} {gs : GSess}
    (hs : st.sess[i]? = some s) (hgs : g.sess[i]? = some gs) {k : Nat}
    (h1 : 1 ≤ k) (h2 : k ≤ g.mbox.length) :
    encode s.queue st.n k = 0 ↔ g.mbox[k - 1]'(by omega) ∉ gs.view := by
  rw [encode_spec h hs hgs h1 h2, posOf_eq_zero_iff]

/-- the whole encode table of a session is the expected one (`expectEncode`) -/
theorem encode_table {st : St} {g : GSt} (h : Inv st g) {i : Nat} {s : Sess} {gs : GSess}
    (hs : st.sess[i]? = some s) (hgs : g.sess[i]? = some gs) :
    (List.range g.mbox.length).map (fun j => encode s.queue st.n (j + 1)) = expectEncode g gs := by
  apply List.ext_getElem
  · simp [expectEncode]
  · intro j hj1 hj2
    simp only [List.length_map, List.length_range] at hj1
    have := encode_spec h hs hgs (k := j + 1) (by omega) (by omega)
    simpa [expectEncode] using this

example : [1, 0, 0, 0] = expectEncode demoG ⟨1, [0, 1], [.exists_ [2, 3, 4], .expunge 1]⟩ :=
  encode_table demo_inv (i := 0) rfl rfl

/-! ## 5 — round trip -/

/-- a client number that decodes to a live server number encodes back to itself -/
theorem roundtrip {st : St} {g : GSt} (h : Inv st g) {i : Nat} {s : Sess} {gs : GSess}
    (hs : st.sess[i]? = some s) (hgs : g.sess[i]? = some gs) {c k : Nat}
    (h1 : 1 ≤ c) (h2 : c ≤ gs.view.length)
    (hk : decode s.queue st.n c = k) (hk0 : k ≠ 0) : encode s.queue st.n k = c := by
  obtain ⟨_, _, hnd, _⟩ := h.sess.getElem? i hs hgs
  have hv : gs.view.Nodup := (List.nodup_append.mp hnd).1
  rw [decode_spec h hs hgs h1 h2] at hk
  obtain ⟨hk1, hk2, hget⟩ := getElem?_of_posOf hk hk0
  rw [encode_spec h hs hgs hk1 hk2]
  have : g.mbox[k - 1]'(by omega) = gs.view[c - 1]'(by omega) := by
    rw [List.getElem?_eq_getElem (by omega)] at hget
    exact Option.some.inj hget
  rw [this]
  exact posOf_getElem hv h1 h2

example : encode [.exists_ 2 5, .expunge 2] 4 1 = 1 :=
  roundtrip demo_inv (i := 0) rfl rfl (c := 1) (k := 1) (by decide) (by decide) (by decide) (by decide)

/-- a server number that encodes to a number the client knows decodes back to itself -/
theorem roundtrip_symm {st : St} {g : GSt} (h : Inv st g) {i : Nat} {s : Sess} {gs : GSess}
    (hs : st.sess[i]? = some s) (hgs : g.sess[i]? = some gs) {c k : Nat}
    (h1 : 1 ≤ k) (h2 : k ≤ g.mbox.length)
    (hc : encode s.queue st.n k = c) (hc0 : c ≠ 0) : decode s.queue st.n c = k := by
  rw [encode_spec h hs hgs h1 h2] at hc
  obtain ⟨hc1, hc2, hget⟩ := getElem?_of_posOf hc hc0
  rw [decode_spec h hs hgs hc1 hc2]
  have : gs.view[c - 1]'(by omega) = g.mbox[k - 1]'(by omega) := by
    rw [List.getElem?_eq_getElem (by omega)] at hget
    exact Option.some.inj hget
  rw [this]
  exact posOf_getElem h.nodup h1 h2

example : decode [.expunge 2, .fetch 3, .expunge 1] 3 4 = 2 :=
  roundtrip_symm demo2_inv (i := 0) rfl rfl (c := 4) (k := 2) (by decide) (by decide) (by decide)
    (by decide)

/-! ## 6 — FETCH targets, NOOP synchronises -/

/-- a delivered flag update names, in the view at delivery time, the identity it was queued for -/
theorem fetch_target {v v' : List Id} {id : Id} {x : Upd}
    (h : deliver v (.fetch id) = some (x, v')) :
    ∃ p, x = .fetch p ∧ 1 ≤ p ∧ p ≤ v.length ∧ v[p - 1]? = some id ∧ v' = v := by
  obtain ⟨hp, rfl, rfl⟩ := deliver_fetch h
  obtain ⟨h1, h2, h3⟩ := getElem?_of_posOf rfl hp
  exact ⟨_, rfl, h1, h2, h3, rfl⟩

example : deliver [0, 2, 3, 4] (.fetch 3) = some (.fetch 3, [0, 2, 3, 4]) := rfl

/-- the same for a flag update sitting anywhere in a session's queue: the concrete queue entry at
    that place is a `.fetch p`, and `p` is the number of the queued identity in the view the client
    has once the earlier entries have been delivered -/
theorem fetch_target_queued {st : St} {g : GSt} (h : Inv st g) {i : Nat} {s : Sess} {gs : GSess}
    (hs : st.sess[i]? = some s) (hgs : g.sess[i]? = some gs) {pre post : List GUpd} {id : Id}
    (hsplit : gs.pending = pre ++ .fetch id :: post) :
    ∃ qpre vmid p qpost, deliverAll gs.view pre = some (qpre, vmid) ∧
      s.queue = qpre ++ .fetch p :: qpost ∧ qpre.length = pre.length ∧
      1 ≤ p ∧ vmid[p - 1]? = some id := by
  obtain ⟨_, hdel, _, _⟩ := h.sess.getElem? i hs hgs
  rw [hsplit] at hdel
  obtain ⟨q1, v1, q2, hd1, hd2, hq⟩ := deliverAll_append_some pre hdel
  obtain ⟨x, v', xs, hdx, _, rfl⟩ := deliverAll_cons_some hd2
  obtain ⟨p, rfl, hp1, _, hp3, _⟩ := fetch_target hdx
  exact ⟨q1, v1, p, xs, hd1, hq, deliverAll_length pre hd1, hp1, hp3⟩

example : ∃ qpre vmid p qpost, deliverAll [0, 1, 2, 3, 4] [.expunge 1] = some (qpre, vmid) ∧
    [Upd.expunge 2, .fetch 3, .expunge 1] = qpre ++ .fetch p :: qpost ∧ qpre.length = 1 ∧
    1 ≤ p ∧ vmid[p - 1]? = some 3 :=
  fetch_target_queued demo2_inv (i := 0) (pre := [.expunge 1]) (post := [.expunge 0]) rfl rfl rfl

/-- after a poll that may report everything (NOOP), the session's view is the mailbox and nothing
    is pending -/
theorem noop_sync {st : St} {g g' : GSt} (h : Inv st g) {id : Nat} {out : List Upd}
    (hg : gstep g (.poll id true) = some (g', out)) :
    g'.mbox = g.mbox ∧ ∀ gs' ∈ g'.sess, gs'.id = id → gs'.view = g'.mbox ∧ gs'.pending = [] := by
  have hp : ∀ (s : Sess) (gs : GSess), SessInv g.mbox g.next s gs →
      decide (s.id = id) = decide (gs.id = id) := by
    intro s gs hs
    have : s.id = gs.id := hs.1
    rw [this]
  rcases SessRel.find? hp h.sess with ⟨_, hfg⟩ | ⟨s, gs, _, hfg, hs⟩
  · simp only [gstep, hfg, Option.some.injEq, Prod.mk.injEq] at hg
    obtain ⟨rfl, rfl⟩ := hg
    refine ⟨rfl, ?_⟩
    intro gs' hmem hid
    have := List.find?_eq_none.mp hfg gs' hmem
    simp [hid] at this
  · have hdel := hs.2.1
    simp only [gstep, hfg, if_true, hdel, Option.some.injEq, Prod.mk.injEq] at hg
    obtain ⟨rfl, rfl⟩ := hg
    refine ⟨rfl, ?_⟩
    intro gs' hmem hid
    simp only [List.mem_map] at hmem
    obtain ⟨x, _, rfl⟩ := hmem
    by_cases hx : x.id = id
    · simp [hx]
    · rw [if_neg hx] at hid; exact absurd hid hx

example : ∃ g' out, gstep demoG (.poll 1 true) = some (g', out) ∧
    g'.sess.map (·.view) = [[0, 2, 3, 4]] ∧ out = [.exists_ 2 5, .expunge 2] :=
  ⟨_, _, rfl, rfl, rfl⟩

/-- and on the concrete side both translations are then the identity on `1..n` -/
theorem noop_sync_identity (n c : Nat) (h1 : 1 ≤ c) (h2 : c ≤ n) :
    decode [] n c = c ∧ encode [] n c = c := by
  have h0 : c ≠ 0 := by omega
  have h3 : ¬ c > n := by omega
  simp [decode, encode, decLoop, encLoop, h0, h3]

/-! ## 7 — the shipped EncodeSeqNum does not meet the specification -/

/-- the statement of `encode_spec` is false for `Legacy.encode`: a reachable state in the invariant
    (2 messages, one session, `QueueNumMessages 5`), server number 3 names an identity the client
    does not know, yet the legacy translation answers 3 instead of 0 -/
theorem legacy_encode_spec_counterexample :
    ∃ (st : St) (g : GSt) (s : Sess) (gs : GSess) (k : Nat) (x : Id),
      Inv st g ∧ st.sess[0]? = some s ∧ g.sess[0]? = some gs ∧ 1 ≤ k ∧ k ≤ g.mbox.length ∧
      g.mbox[k - 1]? = some x ∧ posOf x gs.view = 0 ∧ Legacy.encode s.queue st.n k = 3 ∧
      encode s.queue st.n k = 0 := by
  have hg : grun (ginit 2) [.newSession 1, .numMessages 5] =
      some (⟨[0, 1, 2, 3, 4], 5, [⟨1, [0, 1], [.exists_ [2, 3, 4]]⟩]⟩, [[], []]) := rfl
  obtain ⟨st', h1, h2⟩ := inv_reachable 2 _ hg
  have hr : run (init 2) [.newSession 1, .numMessages 5] =
      some (⟨5, [⟨1, [.exists_ 2 5]⟩]⟩, [[], []]) := rfl
  rw [hr] at h1
  simp only [Option.some.injEq, Prod.mk.injEq, and_true] at h1
  subst h1
  exact ⟨_, _, ⟨1, [.exists_ 2 5]⟩, ⟨1, [0, 1], [.exists_ [2, 3, 4]]⟩, 3, 2, h2, rfl, rfl,
    by decide, by decide, rfl, by decide, by decide, by decide⟩

/-- hence the universally quantified statement of `encode_spec`, read for `Legacy.encode`, is false -/
theorem legacy_encode_spec_false :
    ¬ ∀ (st : St) (g : GSt) (i : Nat) (s : Sess) (gs : GSess) (k : Nat), Inv st g →
        st.sess[i]? = some s → g.sess[i]? = some gs → (h1 : 1 ≤ k) → (h2 : k ≤ g.mbox.length) →
        Legacy.encode s.queue st.n k = posOf (g.mbox[k - 1]'(by omega)) gs.view := by
  intro hall
  obtain ⟨st, g, s, gs, k, x, hinv, hs, hgs, h1, h2, hx, hp, hl, _⟩ :=
    legacy_encode_spec_counterexample
  have := hall st g 0 s gs k hinv hs hgs h1 h2
  have hget : g.mbox[k - 1]'(by omega) = x := by
    rw [List.getElem?_eq_getElem (by omega)] at hx; exact Option.some.inj hx
  rw [hget, hp, hl] at this
  cases this

end GoImap.C07
