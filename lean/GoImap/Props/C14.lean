import GoImap.Lemmas.Locks
/-
  C14 — concurrent sessions on shared mailboxes never deadlock or race.

  PROVED here (for every number of threads, every lock program, every schedule):
    * ordered_no_deadlock      a system whose every nesting "instance a held while instance b is
                               acquired" satisfies rank (cls a) < rank (cls b) has no reachable
                               deadlock state
    * ordered_all_complete     ... and every reachable state can be run to completion; a schedule
                               is never longer than the number of lock operations (step_consumes)
    * acyclicCheck_sound       the executable check on a class graph produces such a rank
    * graph_no_deadlock        the two combined: nestings inside a graph that passes the check
    * copy_move_no_deadlock    the repaired COPY/MOVE lock programs, any sessions, any mailboxes
    * legacy_copy_deadlock_counterexample / legacy_copy_not_ordered
                               the shipped COPY: two sessions copying 0→1 and 1→0 reach a deadlock,
                               and no rank on classes orders a Mailbox→Mailbox nesting
  The INSTANCE (Props/C14Instance.lean, rebuilt by `./check C14` on every run): the class graph
  recorded from the tree being checked passes the check (`observed_graph_ordered`, by `decide`),
  hence `observed_no_deadlock`.

  VALIDATED BY THE ORACLE ONLY (not provable in this model): that the recorded graph contains
  every nesting the code can perform (coverage of the sweep, printed in the evidence); absence of
  data races (`-race` runs, thorough tier); blocking that is not a mutex (channel operations in
  SessionTracker.Idle / handleIdle, network writes under Conn.encMutex — a peer that stops reading
  blocks its own connection's writers until the write deadline).
-/
namespace GoImap.C14
open GoImap.Locks GoImap.LocksSpec

/-- a system at its start: nobody holds anything, every program is well nested -/
def Initial (s0 : State) : Prop := ∀ t ∈ s0, t.held = [] ∧ WellNested [] t.prog

theorem initial_inv (rank : Nat → Nat) (cls : Nat → Nat) (s0 : State) (hinit : Initial s0)
    (hord : ∀ t ∈ s0, ∀ q ∈ nestings [] t.prog, rank (cls q.1) < rank (cls q.2)) :
    Inv (fun l => rank (cls l)) s0 := by
  intro t ht
  obtain ⟨hh, hw⟩ := hinit t ht
  rw [hh]
  exact ordered_of_nestings (fun l => rank (cls l)) t.prog [] hw (hord t ht)

/-- General theorem. `cls` maps lock instances to lock classes, `rank` orders the classes. -/
theorem ordered_no_deadlock (rank : Nat → Nat) (cls : Nat → Nat) (s0 s : State) (hinit : Initial s0)
    (hord : ∀ t ∈ s0, ∀ q ∈ nestings [] t.prog, rank (cls q.1) < rank (cls q.2))
    (hr : Reachable s0 s) : ¬ Deadlock s := by
  intro hd
  have hinv := inv_reachable _ s0 s (initial_inv rank cls s0 hinit hord) hr
  obtain ⟨t, ht, hen⟩ := inv_progress _ s hinv hd.1
  exact hd.2 t ht hen

/-- every step executes exactly one lock operation, so no schedule is longer than `remaining s0` -/
theorem step_consumes (s s' : State) (st : Step s s') : remaining s' + 1 = remaining s :=
  step_remaining s s' st

/-- "every command completes": from every reachable state the system can be run to the end -/
theorem ordered_all_complete (rank : Nat → Nat) (cls : Nat → Nat) (s0 s : State) (hinit : Initial s0)
    (hord : ∀ t ∈ s0, ∀ q ∈ nestings [] t.prog, rank (cls q.1) < rank (cls q.2))
    (hr : Reachable s0 s) : ∃ s', Reachable s s' ∧ AllDone s' :=
  inv_completes _ (remaining s) s rfl (inv_reachable _ s0 s (initial_inv rank cls s0 hinit hord) hr)

/-- the executable graph check yields a strict rank on the classes -/
theorem acyclicCheck_sound (es : List (Nat × Nat)) (h : acyclicCheck es = true) :
    ∃ rank : Nat → Nat, ∀ e ∈ es, rank e.1 < rank e.2 :=
  ⟨rankOf (computeRank es), orderedBy_sound _ es h⟩

/-- a graph with a self-loop (same-class nesting) never passes -/
theorem acyclicCheck_self_loop (es : List (Nat × Nat)) (c : Nat) (hc : (c, c) ∈ es) :
    acyclicCheck es = false := by
  cases h : acyclicCheck es with
  | false => rfl
  | true =>
    obtain ⟨rank, hr⟩ := acyclicCheck_sound es h
    exact absurd (hr (c, c) hc) (Nat.lt_irrefl _)

/-- nestings that stay inside a class graph passing the check cannot deadlock -/
theorem graph_no_deadlock (es : List (Nat × Nat)) (hes : acyclicCheck es = true) (cls : Nat → Nat)
    (s0 s : State) (hinit : Initial s0)
    (hedges : ∀ t ∈ s0, ∀ q ∈ nestings [] t.prog, (cls q.1, cls q.2) ∈ es)
    (hr : Reachable s0 s) : ¬ Deadlock s := by
  obtain ⟨rank, hrank⟩ := acyclicCheck_sound es hes
  exact ordered_no_deadlock rank cls s0 s hinit
    (fun t ht q hq => hrank (cls q.1, cls q.2) (hedges t ht q hq)) hr

/-- the repaired COPY and MOVE never hold two mailboxes: any number of sessions copying and moving
    between any mailboxes (Mailbox.mutex only) is deadlock free -/
theorem copy_move_no_deadlock (s0 s : State)
    (hprog : ∀ t ∈ s0, t.held = [] ∧ ∃ a b, t.prog = copyProg a b ∨ t.prog = moveProg a b)
    (hr : Reachable s0 s) : ¬ Deadlock s := by
  refine ordered_no_deadlock id id s0 s ?_ ?_ hr
  · intro t ht
    obtain ⟨hh, a, b, hp | hp⟩ := hprog t ht <;> refine ⟨hh, ?_⟩ <;> rw [hp] <;>
      simp [copyProg, moveProg, WellNested]
  · intro t ht q hq
    obtain ⟨_, a, b, hp | hp⟩ := hprog t ht <;> rw [hp] at hq <;>
      simp [copyProg, moveProg, nestings] at hq

example : Initial [⟨copyProg 0 1, []⟩, ⟨moveProg 1 0, []⟩, ⟨copyProg 1 0, []⟩] := by
  intro t ht
  simp only [List.mem_cons, List.mem_nil_iff, or_false] at ht
  rcases ht with rfl | rfl | rfl <;> simp [copyProg, moveProg, WellNested]

/-! ### the shipped behaviour (repaired by f6cf682 in imapmemserver/session.go) -/

/-- two sessions copying 0→1 and 1→0 with the shipped lock program -/
def legacySystem : State := [⟨Legacy.copyProg 0 1, []⟩, ⟨Legacy.copyProg 1 0, []⟩]

/-- both took their source mailbox -/
def legacyStuck : State :=
  [⟨[.acq 1, .rel 1, .rel 0], [0]⟩, ⟨[.acq 0, .rel 0, .rel 1], [1]⟩]

theorem legacy_copy_deadlock_counterexample :
    ∃ s, Reachable legacySystem s ∧ Deadlock s := by
  refine ⟨legacyStuck, ?_, ?_⟩
  · have s1 : Step legacySystem [⟨[.acq 1, .rel 1, .rel 0], [0]⟩, ⟨Legacy.copyProg 1 0, []⟩] :=
      Step.mk [] ⟨Legacy.copyProg 0 1, []⟩ [⟨Legacy.copyProg 1 0, []⟩] (by decide)
    have s2 : Step [⟨[.acq 1, .rel 1, .rel 0], [0]⟩, ⟨Legacy.copyProg 1 0, []⟩] legacyStuck :=
      Step.mk [⟨[.acq 1, .rel 1, .rel 0], [0]⟩] ⟨Legacy.copyProg 1 0, []⟩ [] (by decide)
    exact Reachable.step (Reachable.step Reachable.refl s1) s2
  · refine ⟨⟨⟨[.acq 1, .rel 1, .rel 0], [0]⟩, by simp [legacyStuck], by simp⟩, ?_⟩
    intro t ht
    simp only [legacyStuck, List.mem_cons, List.mem_nil_iff, or_false] at ht
    rcases ht with rfl | rfl <;> decide

/-- whatever the rank, a nesting of two instances of the same class violates the discipline -/
theorem legacy_copy_not_ordered (rank : Nat → Nat) (cls : Nat → Nat) (h : cls 0 = cls 1) :
    ¬ ∀ q ∈ nestings [] (Legacy.copyProg 0 1), rank (cls q.1) < rank (cls q.2) := by
  intro hall
  have := hall (0, 1) (by simp [Legacy.copyProg, nestings])
  simp only [h] at this
  exact Nat.lt_irrefl _ this

/-- the class graph of the shipped code (Mailbox → Mailbox) fails the check -/
theorem legacy_graph_rejected : acyclicCheck [(0, 0)] = false := by decide

end GoImap.C14
