/-
  Shared helpers for the executable models and the line-protocol driver. Core Lean only.
-/
namespace GoImap

abbrev Bytes := List UInt8

def hexDigit (n : Nat) : Char :=
  if n < 10 then Char.ofNat (48 + n) else Char.ofNat (87 + n)

def hexVal? (c : Char) : Option Nat :=
  if '0' ≤ c ∧ c ≤ '9' then some (c.toNat - 48)
  else if 'a' ≤ c ∧ c ≤ 'f' then some (c.toNat - 87)
  else if 'A' ≤ c ∧ c ≤ 'F' then some (c.toNat - 55)
  else none

def hexEncode (b : Bytes) : String :=
  String.ofList (b.flatMap fun x => [hexDigit (x.toNat / 16), hexDigit (x.toNat % 16)])

def hexDecodeAux : List Char → Bytes → Option Bytes
  | [], acc => some acc.reverse
  | [_], _ => none
  | a :: b :: rest, acc =>
    match hexVal? a, hexVal? b with
    | some x, some y => hexDecodeAux rest (UInt8.ofNat (x * 16 + y) :: acc)
    | _, _ => none

/-- "-" stands for the empty byte string so that fields are never empty. -/
def hexDecode? (s : String) : Option Bytes :=
  if s = "-" then some [] else hexDecodeAux s.toList []

def hexEnc (b : Bytes) : String := if b.isEmpty then "-" else hexEncode b

def strBytes (s : String) : Bytes := s.toUTF8.toList

/-- ASCII rendering of bytes (only used for digits and punctuation produced by models). -/
def bytesAscii (b : Bytes) : String := String.ofList (b.map fun x => Char.ofNat x.toNat)

def splitOnChar (s : String) (c : Char) : List String :=
  (s.splitOn (String.singleton c))

def natOfDigits? (cs : List Char) : Option Nat :=
  if cs.isEmpty then none else
  cs.foldl (fun acc c => match acc with
    | none => none
    | some n => if '0' ≤ c ∧ c ≤ '9' then some (n * 10 + (c.toNat - 48)) else none) (some 0)

def parseNat? (s : String) : Option Nat := natOfDigits? s.toList

def parseInt? (s : String) : Option Int :=
  match s.toList with
  | '-' :: rest => (natOfDigits? rest).map fun n => - (Int.ofNat n)
  | cs => (natOfDigits? cs).map Int.ofNat

def boolStr (b : Bool) : String := if b then "1" else "0"

def joinWith (sep : String) (l : List String) : String := sep.intercalate l

end GoImap
