/-
  Driver for C03. One case line (fields after the property id):

    id  family  cfg  stream  request  supplied  outcome  delivered  wire(hex)

  `request`, `supplied`, `delivered` are vals (see harness/cmd/verifh/c03val.go):
    V ::= N<dec> | M<dec> | S<hex> | A<name> | _ | ( V* )

  The driver (1) evaluates the oracle of Spec/RespGrammar.lean on what the implementation delivered:
  for a well-formed supplied value the command must succeed and `norm delivered = canon supplied`;
  for an ill-formed one only "no crash" is judged; (2) compares the bytes on the wire with `printResp`
  and the delivery with `parseResp` of those bytes for the families the model covers.
-/
import GoImap.Spec.RespGrammar
import GoImap.Model.RespGrammar
import GoImap.Model.RespBody
import GoImap.Util
namespace GoImap.DriveC03
open GoImap GoImap.Resp GoImap.RespSpec

inductive Val where
  | num (n : Int)
  | str (s : Str)
  | atom (a : String)
  | nil
  | list (l : List Val)
deriving Inhabited

def hexStr? (s : String) : Option Str := (hexDecode? s).map fun b => b.map UInt8.toNat

partial def parseV : List String → Option (Val × List String)
  | [] => none
  | tok :: rest =>
    match tok.toList with
    | ['('] =>
      let rec go (acc : List Val) (ts : List String) : Option (Val × List String) :=
        match ts with
        | ")" :: r => some (.list acc.reverse, r)
        | [] => none
        | ts => match parseV ts with
          | some (v, r) => go (v :: acc) r
          | none => none
      go [] rest
    | ['_'] => some (.nil, rest)
    | 'N' :: d => (natOfDigits? d).map fun n => (.num n, rest)
    | 'M' :: d => (natOfDigits? d).map fun n => (.num (-(n : Int)), rest)
    | 'S' :: h => (hexStr? (String.ofList h)).map fun s => (.str s, rest)
    | 'A' :: a => some (.atom (String.ofList a), rest)
    | _ => none

def val? (s : String) : Option Val :=
  match parseV (s.splitOn " ") with
  | some (v, []) => some v
  | _ => none

/-! ### val -> typed values -/

def vNat : Val → Option Nat
  | .num n => if 0 ≤ n then some n.toNat else none
  | _ => none
def vInt : Val → Option Int
  | .num n => some n
  | _ => none
def vBool : Val → Option Bool
  | .num n => some (n != 0)
  | _ => none
def vStr : Val → Option Str
  | .str s => some s
  | _ => none
def vList {α : Type} (f : Val → Option α) : Val → Option (List α)
  | .list l => l.mapM f
  | _ => none
def vOpt {α : Type} (f : Val → Option α) : Val → Option (Option α)
  | .nil => some none
  | v => (f v).map some

def vTime : Val → Option DateTime
  | .list [u, o, ns, y, mo, d, h, mi, s, wd, _zoneName] => vTime (.list [u, o, ns, y, mo, d, h, mi, s, wd])
  | .list [u, o, ns, y, mo, d, h, mi, s, wd] => do
    pure { unix := ← vInt u, off := ← vInt o, ns := ← vNat ns, year := ← vInt y, month := ← vNat mo, day := ← vNat d,
           hour := ← vNat h, min := ← vNat mi, sec := ← vNat s, wd := ← vNat wd }
  | _ => none

def vAddr : Val → Option Address
  | .list [n, m, h] => do pure { name := ← vStr n, mailbox := ← vStr m, host := ← vStr h }
  | _ => none

def vEnvelope : Val → Option Envelope
  | .list [d, s, f, se, r, t, c, b, irt, mid] => do
    pure { date := ← vOpt vTime d, subject := ← vStr s, from_ := ← vOpt (vList vAddr) f, sender := ← vOpt (vList vAddr) se,
           replyTo := ← vOpt (vList vAddr) r, to := ← vOpt (vList vAddr) t, cc := ← vOpt (vList vAddr) c,
           bcc := ← vOpt (vList vAddr) b, inReplyTo := ← vOpt (vList vStr) irt, messageID := ← vStr mid }
  | _ => none

def vPair : Val → Option (Str × Str)
  | .list [k, v] => do pure (← vStr k, ← vStr v)
  | _ => none

def vParams (v : Val) : Option Params := vOpt (vList vPair) v

def vDisp : Val → Option Disposition
  | .list [v, p] => do pure { value := ← vStr v, params := ← vParams p }
  | _ => none

def vSingleExt : Val → Option SingleExt
  | .list [d, l, loc] => do pure { disp := ← vOpt vDisp d, lang := ← vOpt (vList vStr) l, loc := ← vStr loc }
  | _ => none

def vMultiExt : Val → Option MultiExt
  | .list [p, d, l, loc] => do
    pure { params := ← vParams p, disp := ← vOpt vDisp d, lang := ← vOpt (vList vStr) l, loc := ← vStr loc }
  | _ => none

partial def vBody : Val → Option Body
  | .list [.atom "P", ty, st, p, id, de, en, sz, msg, text, ext] => do
    let h : SingleHdr := { type := ← vStr ty, subtype := ← vStr st, params := ← vParams p, id := ← vStr id, desc := ← vStr de,
                           enc := ← vStr en, size := ← vNat sz }
    let m ← match msg with
      | .nil => some MsgOpt.none
      | .list [e, b, n] => do pure (MsgOpt.some (← vOpt vEnvelope e) (← vBody b) (← vInt n))
      | _ => none
    let t ← match text with
      | .nil => some none
      | .list [n] => (vInt n).map some
      | _ => none
    pure (.single h m t (← vOpt vSingleExt ext))
  | .list [.atom "M", .list ch, st, ext] => do
    let cs ← ch.mapM vBody
    pure (.multi (BodyList.ofList cs) (← vStr st) (← vOpt vMultiExt ext))
  | _ => none

def vPartial : Val → Option Partial
  | .list [o, s] => do pure { offset := ← vInt o, size := ← vInt s }
  | _ => none

def vSection : Val → Option Section
  | .list [sp, pa, hf, hfn, pr, pk] => do
    pure { spec := ← vStr sp, part := ← vList vInt pa, fields := ← vList vStr hf, fieldsNot := ← vList vStr hfn,
           partial_ := ← vOpt vPartial pr, peek := ← vBool pk }
  | _ => none

def vBinSection : Val → Option BinSection
  | .list [pa, pr, pk] => do pure { part := ← vList vInt pa, partial_ := ← vOpt vPartial pr, peek := ← vBool pk }
  | _ => none

def vItem : Val → Option Item
  | .list [.atom "uid", n] => (vNat n).map Item.uid
  | .list [.atom "flags", l] => (vList vStr l).map Item.flags
  | .list [.atom "date", t] => (vOpt vTime t).map Item.date
  | .list [.atom "size", n] => (vInt n).map Item.size
  | .list [.atom "env", e] => (vOpt vEnvelope e).map Item.env
  | .list [.atom "bs", x, b] => do pure (Item.bs (← vBool x) (← vBody b))
  | .list [.atom "sec", s, d] => do pure (Item.sec (← vSection s) (← vStr d))
  | .list [.atom "bin", s, d] => do pure (Item.bin (← vBinSection s) (← vStr d))
  | .list [.atom "binsize", p, n] => do pure (Item.binsize (← vList vInt p) (← vNat n))
  | .list (.atom a :: _) => some (Item.other a)
  | _ => none

def vMsg : Val → Option Msg
  | .list [s, items] => do pure { seq := ← vNat s, items := ← vList vItem items }
  | _ => none

def vStatusOpts : Val → Option StatusOpts
  | .list [a, b, c, d, e, f, g, h] => do
    pure { messages := ← vBool a, uidNext := ← vBool b, uidValidity := ← vBool c, unseen := ← vBool d, deleted := ← vBool e,
           size := ← vBool f, appendLimit := ← vBool g, deletedStorage := ← vBool h }
  | _ => none

def vStatus : Val → Option StatusData
  | .list [m, a, b, c, d, e, f, g, h] => do
    pure { mailbox := ← vStr m, messages := ← vOpt vNat a, uidNext := ← vNat b, uidValidity := ← vNat c, unseen := ← vOpt vNat d,
           deleted := ← vOpt vNat e, size := ← vOpt vInt f, appendLimit := ← vOpt vNat g, deletedStorage := ← vOpt vInt h }
  | _ => none

def vListData : Val → Option ListData
  | .list [av, dl, mb, ci, on, st] => do
    pure { attrs := ← vList vStr av, delim := ← vInt dl, mailbox := ← vStr mb, childInfo := ← vOpt vBool ci, oldName := ← vStr on,
           status := ← vOpt vStatus st }
  | _ => none

def vSelect : Val → Option SelectData
  | .list [f, p, n, un, uv, l] => do
    pure { flags := ← vList vStr f, permFlags := ← vList vStr p, num := ← vNat n, uidNext := ← vNat un, uidValidity := ← vNat uv,
           list := ← vOpt vListData l }
  | _ => none

def vRange : Val → Option NumSet.Range
  | .list [a, b] => do pure ⟨← vNat a, ← vNat b⟩
  | _ => none

def vNumSet : Val → Option (Bool × NumSet.Set)
  | .list [.atom k, rs] => do pure (k == "uid", ← vList vRange rs)
  | _ => none

def vSearch : Val → Option SearchData
  | .list [a, u, mi, ma, c] => do
    pure { all := ← vOpt vNumSet a, uid := ← vBool u, min := ← vNat mi, max := ← vNat ma, count := ← vNat c }
  | _ => none

def vSearchOpts : Val → Option SearchOpts
  | .list [a, b, c, d] => do pure { min := ← vBool a, max := ← vBool b, all := ← vBool c, count := ← vBool d }
  | _ => none

def vAppend : Val → Option AppendData
  | .list [v, u] => do pure { uidValidity := ← vNat v, uid := ← vNat u }
  | _ => none

def vCopy : Val → Option CopyData
  | .list [v, s, d] => do pure { uidValidity := ← vNat v, src := ← vList vRange s, dst := ← vList vRange d }
  | _ => none

def vNs : Val → Option NsDescr
  | .list [p, d] => do pure { prefix_ := ← vStr p, delim := ← vInt d }
  | _ => none

def vNamespace : Val → Option NamespaceData
  | .list [p, o, s] => do
    pure { personal := ← vOpt (vList vNs) p, other := ← vOpt (vList vNs) o, shared := ← vOpt (vList vNs) s }
  | _ => none

def vCfg : String → Option Cfg
  | "plain" => some .plain
  | "utf8" => some .utf8
  | "rev2" => some .rev2
  | _ => none

/-! ### equality of delivered data (times: instant and zone) -/

def eqEnvelope (a b : Envelope) : Bool :=
  sameTime a.date b.date && decide ({ a with date := none } = { b with date := none })

def eqEnvOpt : Option Envelope → Option Envelope → Bool
  | none, none => true
  | some a, some b => eqEnvelope a b
  | _, _ => false

mutual
  def eqBody : Body → Body → Bool
    | .single h m t x, .single h' m' t' x' => decide (h = h') && eqMsg m m' && t == t' && decide (x = x')
    | .multi c s x, .multi c' s' x' => eqBodies c c' && s == s' && decide (x = x')
    | _, _ => false
  def eqMsg : MsgOpt → MsgOpt → Bool
    | .none, .none => true
    | .some e b n, .some e' b' n' => eqEnvOpt e e' && eqBody b b' && n == n'
    | _, _ => false
  def eqBodies : BodyList → BodyList → Bool
    | .nil, .nil => true
    | .cons b t, .cons b' t' => eqBody b b' && eqBodies t t'
    | _, _ => false
end

def eqItem : Item → Item → Bool
  | .uid a, .uid b => a == b
  | .flags a, .flags b => a == b
  | .date a, .date b => sameTime a b
  | .size a, .size b => a == b
  | .env a, .env b => eqEnvOpt a b
  | .bs x a, .bs y b => x == y && eqBody a b
  | .sec s d, .sec s' d' => decide (s = s') && d == d'
  | .bin s d, .bin s' d' => decide (s = s') && d == d'
  | .binsize p n, .binsize p' n' => p == p' && n == n'
  | _, _ => false

def itemName : Item → String
  | .uid _ => "uid" | .flags _ => "flags" | .date _ => "date" | .size _ => "size" | .env _ => "env" | .bs _ _ => "bs"
  | .sec _ _ => "sec" | .bin _ _ => "bin" | .binsize _ _ => "binsize" | .other n => n

/-- first difference between two item lists, as a clause detail -/
def diffItems (want got : List Item) (i : Nat := 0) : Option String :=
  match want, got with
  | [], [] => none
  | w :: ws, g :: gs => if eqItem w g then diffItems ws gs (i + 1) else some s!"item{i}:{itemName w}"
  | w :: _, [] => some s!"item{i}:{itemName w}-missing"
  | [], g :: _ => some s!"item{i}:{itemName g}-extra"

def diffMsgs (want got : List Msg) (i : Nat := 0) : Option String :=
  match want, got with
  | [], [] => none
  | w :: ws, g :: gs =>
    if w.seq != g.seq then some s!"msg{i}:seq" else
    match diffItems w.items g.items with
    | some d => some s!"msg{i}:{d}"
    | none => diffMsgs ws gs (i + 1)
  | _ :: _, [] => some s!"msg{i}:missing"
  | [], _ :: _ => some s!"msg{i}:extra"

/-- is `a` a permutation of `b` under `eq` -/
def permBy {α : Type} (eq : α → α → Bool) : List α → List α → Bool
  | [], [] => true
  | [], _ :: _ => false
  | x :: xs, ys =>
    match ys.findIdx? (eq x) with
    | some i => permBy eq xs (ys.eraseIdx i)
    | none => false

/-- delivered Collect buffer: ( seq uid flags date size env bs ( sec* ) ( bin* ) ( binsize* ) ) -/
def vCollected : Val → Option Collected
  | .list [s, u, f, d, z, e, b, secs, bins, bz] => do
    let pairS : Val → Option (Section × Str) := fun v => match v with
      | .list [x, y] => do pure (← vSection x, ← vStr y)
      | _ => none
    let pairB : Val → Option (BinSection × Str) := fun v => match v with
      | .list [x, y] => do pure (← vBinSection x, ← vStr y)
      | _ => none
    let pairZ : Val → Option (List Int × Nat) := fun v => match v with
      | .list [x, y] => do pure (← vList vInt x, ← vNat y)
      | _ => none
    pure { seq := ← vNat s, uid := ← vNat u, flags := ← vList vStr f, date := ← vOpt vTime d, size := ← vInt z,
           env := ← vOpt vEnvelope e, bs := ← vOpt vBody b, secs := ← vList pairS secs, bins := ← vList pairB bins,
           binsizes := ← vList pairZ bz }
  | _ => none

def eqCollected (w g : Collected) : Option String :=
  if w.seq != g.seq then some "seq" else
  if w.uid != g.uid then some "uid" else
  if w.flags != g.flags then some "flags" else
  if !sameTime w.date g.date then some "date" else
  if w.size != g.size then some "size" else
  if !(match w.env, g.env with | none, none => true | some a, some b => eqEnvelope a b | _, _ => false) then some "env" else
  if !(match w.bs, g.bs with | none, none => true | some a, some b => eqBody a b | _, _ => false) then some "bs" else
  if !permBy (fun (a b : Section × Str) => decide (a.1 = b.1) && a.2 == b.2) w.secs g.secs then some "sec" else
  if !permBy (fun (a b : BinSection × Str) => decide (a.1 = b.1) && a.2 == b.2) w.bins g.bins then some "bin" else
  if w.binsizes != g.binsizes then some "binsize" else none

def normCollected (c : Collected) : Collected :=
  { c with env := c.env.map normEnvelope, bs := c.bs.map normBody }

/-- the Collect view of a canonical message: the env field of the buffer is nil when no ENVELOPE item was sent -/
def collectCanon (m : Msg) : Collected := collect m

def diffCollected (want : List Msg) (got : List Collected) (i : Nat := 0) : Option String :=
  match want, got with
  | [], [] => none
  | w :: ws, g :: gs =>
    match eqCollected (collectCanon w) (normCollected g) with
    | some d => some s!"msg{i}:{d}"
    | none => diffCollected ws gs (i + 1)
  | _ :: _, [] => some s!"msg{i}:missing"
  | [], _ :: _ => some s!"msg{i}:extra"

def firstDiffIdx {α : Type} (eq : α → α → Bool) (want got : List α) (i : Nat := 0) : Option Nat :=
  match want, got with
  | [], [] => none
  | w :: ws, g :: gs => if eq w g then firstDiffIdx eq ws gs (i + 1) else some i
  | _, _ => some i

/-! ### the oracle -/

structure Verdict where
  wf : Bool                 -- supplied value is in the documented domain of the writer API
  diff : Option String      -- none: delivered = canon supplied

/-- family-specific judgement; `none` = the line could not be decoded -/
def judge (family : String) (cfg : Cfg) (req sup del : Val) (outcomeOk : Bool) : Option Verdict :=
  match family with
  | "fetch" =>
    match req with
    | .list [um, ext, .atom mode, _chunk] => do
      let uidMode ← vBool um
      let reqExt ← vOpt vBool ext
      let ms ← vList vMsg sup
      let wf := wfFetch uidMode reqExt ms
      if !outcomeOk then pure { wf, diff := some "no-delivery" } else
      let want := canonMsgs ms
      if mode == "collect" then
        let got ← vList vCollected del
        pure { wf, diff := diffCollected want got }
      else
        let got ← vList vMsg del
        pure { wf, diff := diffMsgs want (normMsgs got) }
    | _ => none
  | "list" =>
    match req with
    | .list [so] => do
      let so ← vOpt vStatusOpts so
      let ls ← vList vListData sup
      let wf := ls.all (wfList so)
      if !outcomeOk then pure { wf, diff := some "no-delivery" } else
      let got ← vList vListData del
      let want := ls.map (canonList so)
      pure { wf, diff := (firstDiffIdx (fun (a b : ListData) => decide (a = b)) want got).map fun i => s!"entry{i}" }
    | _ => none
  | "status" =>
    match req with
    | .list [so] => do
      let so ← vStatusOpts so
      let d ← vStatus sup
      let wf := wfStatus so d
      if !outcomeOk then pure { wf, diff := some "no-delivery" } else
      let got ← vStatus del
      pure { wf, diff := if canonStatus so d = got then none else some "status" }
    | _ => none
  | "select" =>
    match req with
    | .list [_ro, mb] => do
      let mb ← vStr mb
      let d ← vSelect sup
      let wf := wfSelect mb d
      if !outcomeOk then pure { wf, diff := some "no-delivery" } else
      let got ← vSelect del
      let want := canonSelect d
      let clause :=
        if want.flags != got.flags then some "flags" else
        if want.permFlags != got.permFlags then some "permanent-flags" else
        if want.num != got.num then some "exists" else
        if want.uidNext != got.uidNext then some "uidnext" else
        if want.uidValidity != got.uidValidity then some "uidvalidity" else
        if want.list != got.list then some "list" else none
      pure { wf, diff := clause }
    | _ => none
  | "search" =>
    match req with
    | .list [um, so] => do
      let uidMode ← vBool um
      let so ← vOpt vSearchOpts so
      let d ← vSearch sup
      let wf := wfSearch uidMode cfg so d
      if !outcomeOk then pure { wf, diff := some "no-delivery" } else
      let got ← vSearch del
      pure { wf, diff := if sameSearch (canonSearch cfg so d) got then none else some "search-data" }
    | _ => none
  | "append" => do
    let d ← vOpt vAppend sup
    let wf := wfAppend d
    if !outcomeOk then pure { wf, diff := some "no-delivery" } else
    let got ← vAppend del
    pure { wf, diff := if canonAppend d = got then none else some "appenduid" }
  | "copy" => do
    let d ← vOpt vCopy sup
    let wf := wfCopy d
    if !outcomeOk then pure { wf, diff := some "no-delivery" } else
    let got ← vCopy del
    pure { wf, diff := if sameCopy (canonCopy d) got then none else some "copyuid" }
  | "move" =>
    match sup, del with
    | .list [cd, ex], .list [gcd, gex] => do
      let d ← vOpt vCopy cd
      let ex ← vList vNat ex
      let wf := wfCopy d && wfExpunge ex
      if !outcomeOk then pure { wf, diff := some "no-delivery" } else
      let got ← vCopy gcd
      let gex ← vList vNat gex
      pure { wf, diff := if !sameCopy (canonCopy d) got then some "copyuid" else if ex != gex then some "expunge" else none }
    | .list [cd, ex], .nil => do
      let d ← vOpt vCopy cd
      let ex ← vList vNat ex
      pure { wf := wfCopy d && wfExpunge ex, diff := some "no-delivery" }
    | _, _ => none
  | "namespace" => do
    let d ← vNamespace sup
    let wf := wfNamespace d
    if !outcomeOk then pure { wf, diff := some "no-delivery" } else
    let got ← vNamespace del
    pure { wf, diff := if canonNamespace d = canonNamespace got then none else some "namespace" }
  | "expunge" => do
    let ex ← vList vNat sup
    let wf := wfExpunge ex
    if !outcomeOk then pure { wf, diff := some "no-delivery" } else
    let got ← vList vNat del
    pure { wf, diff := if ex = got then none else some "expunge" }
  | "caps" => do
    let want ← vList vStr sup
    if !outcomeOk then pure { wf := true, diff := some "no-delivery" } else
    let got ← vList vStr del
    pure { wf := true, diff := if want.all got.contains then none else some "capability-missing" }
  | _ => none

/-- pipelined commands: request `( ( Afamily req )* )`, supplied `( sup* )`, delivered `( ( Aoutcome del )* )`.
    Routing clause: every command receives exactly (the canonical form of) the data the backend wrote while
    answering it — i.e. each step is judged by its own family's oracle. -/
def judgePipe (cfg : Cfg) (req sup del : Val) : Option Verdict :=
  match req, sup, del with
  | .list rs, .list ss, .list ds =>
    if rs.length != ss.length || rs.length != ds.length then none else
    let rec go (i : Nat) (rs ss ds : List Val) (acc : Verdict) : Option Verdict :=
      match rs, ss, ds with
      | .list [.atom fam, r] :: rs', s :: ss', .list [.atom out, d] :: ds' =>
        match judge fam cfg r s d (out == "ok") with
        | none => none
        | some v =>
          let diff := match acc.diff, v.diff with
            | some x, _ => some x
            | none, some x => some s!"step{i}:{fam}:{x}"
            | none, none => none
          go (i + 1) rs' ss' ds' { wf := acc.wf && v.wf, diff }
      | [], [], [] => some acc
      | _, _, _ => none
    go 0 rs ss ds { wf := true, diff := none }
  | .list rs, .list _, .nil =>
    -- nothing was delivered at all (the harness gave up): judged by the outcome
    some { wf := true, diff := some s!"no-delivery:{rs.length}-commands" }
  | _, _, _ => none

/-! ### correspondence with the model -/

/-- split the bytes of a command's responses into everything before the final (tagged) line and that line without CRLF -/
def splitLast (w : Str) : Option (Str × Str) :=
  match w.reverse with
  | 10 :: 13 :: rest =>
    let rec go (acc : Str) (r : Str) : Str × Str :=
      match r with
      | 10 :: 13 :: more => ((10 :: 13 :: more).reverse, acc)
      | c :: more => go (c :: acc) more
      | [] => ([], acc)
    some (go [] rest)
  | _ => none

def firstMismatch (a b : Str) (i : Nat := 0) : Option Nat :=
  match a, b with
  | [], [] => none
  | x :: xs, y :: ys => if x == y then firstMismatch xs ys (i + 1) else some i
  | _, _ => some i

def tagOf (line : Str) : Str := (spanB (· != 32) line).1

def hasHeaderItems (ms : List Msg) : Bool :=
  ms.any fun m => m.items.any fun it => match it with | .env _ => true | .bs _ _ => true | _ => false

def hasUnmodelled (ms : List Msg) : Bool :=
  ms.any fun m => m.items.any fun it => match it with | .other _ => true | _ => false

/-- ( ( AE s enc ) ( AD w dec ) … ): the mime package's answers for the strings of the case -/
def vQTab (v : Val) : Option (QTab × QTab) :=
  match v with
  | .list l =>
    l.foldlM (fun (acc : QTab × QTab) e =>
      match e with
      | .list [.atom "E", .str a, .str b] => some (acc.1 ++ [(a, b)], acc.2)
      | .list [.atom "D", .str a, .str b] => some (acc.1, acc.2 ++ [(a, b)])
      | _ => none) ([], [])
  | _ => none

structure ModelRes where
  print : Option Str            -- expected bytes before the tagged line (none: outside the model)
  done : Str                    -- expected tagged line after "<tag> OK "
  parse : Option String         -- none: parse model agrees with the delivery; some d: differs

/-- (agree, model output) -/
def modelCheck (family : String) (cfg : Cfg) (req sup del : Val) (wire : Str) (qtab : QTab × QTab) : Bool × String :=
  match splitLast wire with
  | none => (true, "skipped:no-complete-response")
  | some (body, last) =>
    let tag := tagOf last
    let evs := parseAll wire
    let res : Option ModelRes :=
      match family with
      | "fetch" =>
        match req with
        | .list [um, _ext, .atom mode, _chunk] => do
          let uidMode ← vBool um
          let ms ← vList vMsg sup
          if hasUnmodelled ms then none else
          let hdr := hasHeaderItems ms
          let evs := if hdr then parseFetchQ qtab.2 (wire.length + 1) wire else evs
          let parse : Option String :=
            match evs with
            | none => some "parse-fails"
            | some evs =>
              let got := deliverFetch uidMode evs
              if mode == "collect" then (vList vCollected del).bind fun d => (diffCollected got d)
              else match vList vMsg del with
                | some d => diffMsgs got d
                | none => some "bad-delivery"
          pure { print := if hdr then printFetchQ cfg qtab.1 ms else printFetch cfg ms,
                 done := asc (if uidMode then "UID FETCH completed" else "FETCH completed"), parse }
        | _ => none
      | "list" =>
        match req with
        | .list [so] => do
          let so ← vOpt vStatusOpts so
          let ls ← vList vListData sup
          let got ← vList vListData del
          let parse := match evs with
            | none => some "parse-fails"
            | some evs => if deliverList so.isSome none evs = got then none else some "list-differs"
          pure { print := printList cfg so ls, done := asc "LIST completed", parse }
        | _ => none
      | "status" =>
        match req with
        | .list [so] => do
          let so ← vStatusOpts so
          let d ← vStatus sup
          let got ← vStatus del
          let parse := match evs with
            | none => some "parse-fails"
            | some evs => if deliverStatus sameMailbox d.mailbox evs = got then none else some "status-differs"
          pure { print := printStatus cfg.quotedUTF8 so d, done := asc "STATUS completed", parse }
        | _ => none
      | "select" =>
        match req with
        | .list [ro, mb] => do
          let ro ← vBool ro
          let mb ← vStr mb
          let d ← vSelect sup
          let got ← vSelect del
          let parse := match evs with
            | none => some "parse-fails"
            | some evs => if deliverSelect sameMailbox mb evs = got then none else some "select-differs"
          pure { print := printSelect cfg d, done := asc (if ro then "[READ-ONLY] EXAMINE completed" else "[READ-WRITE] SELECT completed"), parse }
        | _ => none
      | "search" =>
        match req with
        | .list [um, so] => do
          let uidMode ← vBool um
          let so ← vOpt vSearchOpts so
          let d ← vSearch sup
          let got ← vSearch del
          let parse := match evs with
            | none => some "parse-fails"
            | some evs =>
              let m := deliverSearch uidMode evs
              if m.uid == got.uid && m.min == got.min && m.max == got.max && m.count == got.count &&
                 (match m.all, got.all with
                  | some (k, a), some (k', b) => k == k' && a == b
                  | none, none => true
                  | _, _ => false) then none else some "search-differs"
          pure { print := printSearch cfg tag so d, done := asc (if uidMode then "UID SEARCH completed" else "SEARCH completed"), parse }
        | _ => none
      | "append" => do
        let d ← vOpt vAppend sup
        let got ← vAppend del
        let parse := match evs with
          | none => some "parse-fails"
          | some evs => if deliverAppend evs = got then none else some "append-differs"
        pure { print := some [], done := appendCodeText d ++ asc "APPEND completed", parse }
      | "copy" => do
        let d ← vOpt vCopy sup
        let got ← vCopy del
        let code ← copyCodeText d
        let parse := match evs with
          | none => some "parse-fails"
          | some evs =>
            let m := deliverCopy evs
            if m.uidValidity == got.uidValidity && m.src == got.src && m.dst == got.dst then none else some "copy-differs"
        pure { print := some [], done := code ++ asc "COPY completed", parse }
      | "move" =>
        match sup, del with
        | .list [cd, ex], .list [gcd, gex] => do
          let d ← vOpt vCopy cd
          let ex ← vList vNat ex
          let got ← vCopy gcd
          let gex ← vList vNat gex
          let parse := match evs with
            | none => some "parse-fails"
            | some evs =>
              let (m, mex) := deliverMove evs
              if m.uidValidity == got.uidValidity && m.src == got.src && m.dst == got.dst && mex == gex then none else some "move-differs"
          pure { print := printMove d ex, done := asc "MOVE completed", parse }
        | _, _ => none
      | "namespace" => do
        let d ← vNamespace sup
        let got ← vNamespace del
        let parse := match evs with
          | none => some "parse-fails"
          | some evs => if deliverNamespace evs = got then none else some "namespace-differs"
        pure { print := printNamespace cfg d, done := asc "NAMESPACE completed", parse }
      | "expunge" =>
        match req with
        | .list [um] => do
          let uidMode ← vBool um
          let ex ← vList vNat sup
          let got ← vList vNat del
          let parse := match evs with
            | none => some "parse-fails"
            | some evs => if deliverExpunge evs = got then none else some "expunge-differs"
          pure { print := some (printExpunges ex), done := asc (if uidMode then "UID EXPUNGE completed" else "EXPUNGE completed"), parse }
        | _ => none
      | _ => none
    match res with
    | none => (true, s!"unmodelled:{family}")
    | some r =>
      let pr : Option String :=
        match r.print with
        | none => none
        | some exp =>
          match firstMismatch (exp ++ tag ++ asc " OK " ++ r.done ++ [13, 10]) (body ++ last ++ [13, 10]) with
          | none => none
          | some i => some s!"print-differs@byte{i}"
      match pr, r.parse with
      | none, none => (true, if r.print.isSome then "print=ok parse=ok" else "print=outside-model parse=ok")
      | some d, _ => (false, d)
      | none, some d => (false, s!"parse:{d}")

def handle (f : List String) : String :=
  match f with
  | id :: family :: cfgS :: _stream :: reqS :: supS :: outcome :: delS :: wireS :: more =>
    let qtab : QTab × QTab := match more with
      | [q] => ((val? q).bind vQTab).getD ([], [])
      | _ => ([], [])
    match vCfg cfgS, val? reqS, val? supS, val? delS, hexStr? wireS with
    | some cfg, some req, some sup, some del, some wire =>
      let (agree, modelOut) := if outcome == "ok" then modelCheck family cfg req sup del wire qtab else (true, "skipped:outcome")
      match (if family == "pipe" then judgePipe cfg req sup del else judge family cfg req sup del (outcome == "ok")) with
      | none => s!"{id}\t0\tfail:bad-line\t-"
      | some v =>
        let orc :=
          if outcome == "panic" || outcome == "hang" then s!"fail:crash@{outcome}"
          else if !v.wf then "ok"                              -- outside the writer API's domain: only "no crash" is judged
          else match v.diff with
            | none => "ok"
            | some d => if outcome == "ok" then s!"fail:delivered-differs@{family}:{d}" else s!"fail:not-delivered@{family}:{outcome}"
        -- the mirror claims the writer API's documented domain only: outside it a difference is reported but not counted
        s!"{id}\t{boolStr (agree || !v.wf)}\t{orc}\t{if v.wf then "wf" else "illformed"} {modelOut}"
    | _, _, _, _, _ => s!"{id}\t0\tfail:bad-line\t-"
  | id :: _ => s!"{id}\t0\tfail:bad-line\t-"
  | [] => "?\t0\tfail:bad-line\t-"

end GoImap.DriveC03
