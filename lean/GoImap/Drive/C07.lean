import GoImap.Model.Tracker
import GoImap.Spec.Tracker
namespace GoImap.DriveC07
open GoImap GoImap.Tracker GoImap.TrackerSpec

def parseOp? (s : String) : Option Op :=
  match s.toList with
  | 'N' :: r => (natOfDigits? r).map Op.newSession
  | 'C' :: r => (natOfDigits? r).map Op.close
  | 'n' :: r => (natOfDigits? r).map Op.numMessages
  | 'e' :: r => (natOfDigits? r).map Op.expunge
  | ['m'] => some Op.mailboxFlags
  | 'f' :: r =>
    match splitOnChar (String.ofList r) ':' with
    | [k, "-"] => (parseNat? k).map fun k => Op.messageFlags k none
    | [k, src] => do pure (Op.messageFlags (← parseNat? k) (some (← parseNat? src)))
    | _ => none
  | 'p' :: r =>
    match splitOnChar (String.ofList r) ':' with
    | [id, a] => (parseNat? id).map fun id => Op.poll id (a == "1")
    | _ => none
  | _ => none

def showUpd : Upd → String
  | .expunge k => s!"E{k}"
  | .exists_ _ n => s!"X{n}"
  | .mflags => "F"
  | .fetch k => s!"M{k}"

def showEmitted (l : List Upd) : String := joinWith "," (l.map showUpd)

def dots (l : List Nat) : String := joinWith "." (l.map toString)

/-- translation tables of every session for numbers 0..q -/
def tables (st : St) (q : Nat) : String :=
  joinWith "/" (st.sess.map fun s =>
    s!"{s.id}:d{dots ((List.range (q + 1)).map (decode s.queue st.n))}:e{dots ((List.range (q + 1)).map (encode s.queue st.n))}")

structure ImplSess where
  id : Nat
  dec : List Nat
  enc : List Nat

def parseTables? (s : String) : Option (List ImplSess) :=
  if s.isEmpty then some [] else
  (splitOnChar s '/').mapM fun e =>
    match splitOnChar e ':' with
    | [id, d, en] => do
      let id ← parseNat? id
      let d ← ((splitOnChar (String.ofList (d.toList.drop 1)) '.').mapM parseNat?)
      let en ← ((splitOnChar (String.ofList (en.toList.drop 1)) '.').mapM parseNat?)
      pure ⟨id, d, en⟩
    | _ => none

/-- oracle for one step: emitted updates equal what the ghost sessions are owed, and the
    implementation's translation tables identify the same messages as the ghost ids -/
def oracleStep (g : GSt) (expectOut : List Upd) (implOut : String) (impl : List ImplSess) : Option String :=
  if showEmitted expectOut != implOut then some "poll-emits-wrong-updates"
  else
    g.sess.findSome? fun s =>
      match impl.find? (·.id = s.id) with
      | none => some "missing-session-table"
      | some t =>
        let wantD := expectDecode g s
        let wantE := expectEncode g s
        -- entries 1..|view| of decode, 1..|mbox| of encode (entry 0 is the query for 0)
        if t.dec.head? != some 0 || t.enc.head? != some 0 then some "zero-not-mapped-to-zero"
        else if (t.dec.drop 1).take wantD.length != wantD then some s!"decode-identifies-other-message(session{s.id})"
        else if (t.enc.drop 1).take wantE.length != wantE then some s!"encode-identifies-other-message(session{s.id})"
        else none

def runHist (n0 q : Nat) (ops : List Op) (obs : List String) : String × Bool × String :=
  let rec go (st : Option St) (g : Option GSt) (ops : List Op) (obs : List String) (i : Nat)
      (acc : List String) (agree : Bool) (orc : Option String) : List String × Bool × Option String :=
    match ops, obs with
    | [], _ => (acc.reverse, agree, orc)
    | _ :: _, [] => (acc.reverse, false, some "missing-observation")
    | op :: ops', ob :: obs' =>
      let (implOut, implTab) := match splitOnChar ob '|' with
        | [a, b] => (a, b)
        | _ => ("?", "")
      -- model
      let (st', m) := match st with
        | none => (none, "dead")
        | some s => match step s op with
          | none => (none, "panic|")
          | some (s', out) => (some s', s!"{showEmitted out}|{tables s' q}")
      -- ghost oracle
      let (g', orc') := match orc, g with
        | some e, _ => (g, some e)
        | none, none => (none, none)
        | none, some gs => match gstep gs op with
          | none => (none, none)      -- operation outside the property's domain (invalid number)
          | some (gs', expectOut) =>
            if implOut == "panic" then (some gs', some s!"panic@step{i}")
            else match parseTables? implTab with
              | none => (some gs', some s!"unparsable-observation@step{i}")
              | some t => (some gs', (oracleStep gs' expectOut implOut t).map fun e => s!"{e}@step{i}")
      go st' g' ops' obs' (i + 1) (m :: acc) (agree && m == ob) orc'
  let (ms, agree, orc) := go (some (init n0)) (some (ginit n0)) ops obs 1 [] true none
  (joinWith ";" ms, agree, match orc with | none => "ok" | some e => "fail:" ++ e)

def handle (f : List String) : String :=
  match f with
  | [id, "hist", n0, q, ops, obs] =>
    match parseNat? n0, parseNat? q, (splitOnChar ops ';').mapM parseOp? with
    | some n0, some q, some os =>
      let (m, agree, orc) := runHist n0 q os (splitOnChar obs ';')
      s!"{id}\t{boolStr agree}\t{orc}\t{m}"
    | _, _, _ => s!"{id}\t0\tfail:bad-line\t-"
  | id :: _ => s!"{id}\t0\tfail:bad-line\t-"
  | [] => "?\t0\tfail:bad-line\t-"

end GoImap.DriveC07
