import GoImap.Model.Views
import GoImap.Spec.Views
namespace GoImap.DriveC08
open GoImap GoImap.Views GoImap.ViewsSpec

/-! ### tokens -/

def parseNum? (s : String) : Option Nat := if s = "*" then some 0 else parseNat? s

def parseSet? (s : String) : Option NSet :=
  (splitOnChar s ',').mapM fun item =>
    match splitOnChar item ':' with
    | [a] => (parseNum? a).map fun x => (x, x)
    | [a, b] => do pure (← parseNum? a, ← parseNum? b)
    | _ => none

def parseOptSet? (s : String) : Option (Option NSet) :=
  if s = "-" then some none else (parseSet? s).map some

def flagMask (s : String) : Nat :=
  s.toList.foldl (fun acc c => acc ||| (if c = 'd' then 1 else if c = 's' then 2 else if c = 'f' then 4 else 0)) 0

def flagStr (m : Nat) : String :=
  (if m &&& 1 == 1 then "d" else "") ++ (if m &&& 2 == 2 then "s" else "") ++ (if m &&& 4 == 4 then "f" else "")

def parseBool? (s : String) : Option Bool := if s = "1" then some true else if s = "0" then some false else none

inductive Op where
  | cmd (c : Nat) (k : Cmd)
  | check (c : Nat)

/-- `<conn> <letter> args…`, connection numbers 1-based -/
def parseOp? (s : String) : Option Op :=
  match splitOnChar s ' ' with
  | c :: rest =>
    match parseNat? c with
    | none => none
    | some 0 => none
    | some (c + 1) =>
      match rest with
      | ["A", m, fl] => (parseNat? m).map fun m => .cmd c (.append m (flagMask fl))
      | ["S", m] => (parseNat? m).map fun m => .cmd c (.select m)
      | ["C"] => some (.cmd c .close)
      | ["U"] => some (.cmd c .unselect)
      | ["T", u, set, op, fl, sil] => do
        let op ← (if op = "s" then some StoreOp.set else if op = "a" then some .add else if op = "d" then some .del else none)
        pure (.cmd c (.store (← parseBool? u) (← parseSet? set) op (flagMask fl) (← parseBool? sil)))
      | ["E"] => some (.cmd c .expunge)
      | ["X", set] => (parseSet? set).map fun s => .cmd c (.uidExpunge s)
      | ["Y", u, set, m] => do pure (.cmd c (.copy (← parseBool? u) (← parseSet? set) (← parseNat? m)))
      | ["M", u, set, m] => do pure (.cmd c (.move (← parseBool? u) (← parseSet? set) (← parseNat? m)))
      | ["F", u, set, wf, ms] => do
        pure (.cmd c (.fetch (← parseBool? u) (← parseSet? set) (← parseBool? wf) (← parseBool? ms)))
      | ["Q", u, sq, us, has, hn, ext] => do
        pure (.cmd c (.search (← parseBool? u) ⟨← parseOptSet? sq, ← parseOptSet? us, flagMask has, flagMask hn⟩ (← parseBool? ext)))
      | ["N"] => some (.cmd c .noop)
      | ["I"] => some (.cmd c .idle)
      | ["D"] => some (.cmd c .done)
      | ["K"] => some (.check c)
      | _ => none
  | [] => none

/-! ### responses as text -/

def dots (l : List Nat) : String := joinWith "." (l.map toString)

def showEv : Ev → String
  | .exists_ n => s!"X{n}"
  | .expunge k => s!"E{k}"
  | .fetch k u none => s!"F{k}:{u}:-"
  | .fetch k u (some f) => s!"F{k}:{u}:({flagStr f})"
  | .search ks => s!"S{dots ks}"
  | .esearch all mn mx cnt => s!"R{dots all},{mn},{mx},{cnt}"
  | .copyuid s d => s!"C{dots s}/{dots d}"
  | .uidnext n => s!"N{n}"

def showStatus (r : Resp) : String :=
  match r.status with
  | .ok =>
    match r.appendUid, r.copyUid with
    | some u, _ => s!"OK:A{u}"
    | none, some (s, d) => s!"OK:C{dots s}/{dots d}"
    | none, none => "OK"
  | .no => "NO"
  | .bad => "BAD"
  | .cont => "+"
  | .skip => "-"
  | .crash => "PANIC"

def showResp (r : Resp) : String := joinWith "|" (showStatus r :: r.evs.map showEv)

def showActual (l : List Msg) : String := "A" ++ joinWith "." (l.map fun m => s!"{m.uid}({flagStr m.flags})")

def parseDots? (s : String) : Option (List Nat) :=
  if s.isEmpty then some [] else (splitOnChar s '.').mapM parseNat?

def parseEv? (s : String) : Option Ev :=
  match s.toList with
  | 'X' :: r => (natOfDigits? r).map Ev.exists_
  | 'E' :: r => (natOfDigits? r).map Ev.expunge
  | 'N' :: r => (natOfDigits? r).map Ev.uidnext
  | 'S' :: r => (parseDots? (String.ofList r)).map Ev.search
  | 'F' :: r =>
    match splitOnChar (String.ofList r) ':' with
    | [k, u, f] => do
      let fl : Option Nat := if f = "-" then none else some (flagMask f)
      pure (Ev.fetch (← parseNat? k) (← parseNat? u) fl)
    | _ => none
  | 'R' :: r =>
    match splitOnChar (String.ofList r) ',' with
    | [a, mn, mx, c] => do pure (Ev.esearch (← parseDots? a) (← parseNat? mn) (← parseNat? mx) (← parseNat? c))
    | _ => none
  | 'C' :: r =>
    match splitOnChar (String.ofList r) '/' with
    | [a, b] => do pure (Ev.copyuid (← parseDots? a) (← parseDots? b))
    | _ => none
  | _ => none

/-- status word and events of an observed response; `none` = not a response the tokenizer understood -/
def parseObs? (s : String) : Option (String × List Ev) :=
  match splitOnChar s '|' with
  | st :: evs => (evs.mapM parseEv?).map fun e => (st, e)
  | [] => none

def parseActual? (s : String) : Option (List Nat) :=
  match s.toList with
  | 'A' :: r =>
    if r.isEmpty then some [] else
    (splitOnChar (String.ofList r) '.').mapM fun e => natOfDigits? (e.toList.takeWhile (· != '('))
  | _ => none

/-! ### the oracle on the implementation's events -/

def statusOk (st : String) : Bool := st = "OK" || st.startsWith "OK:"

/-- applies one observed response to the connection's view -/
def judgeResp (views : List View) (c : Nat) (k : Kind) (obs : String) : Except String (List View) :=
  if obs = "-" then .ok views else
  match parseObs? obs with
  | none => .error "unparsable-response"
  | some (st, evs) =>
    if st = "PANIC" then .error "connection-crashed" else
    match afterResp k (statusOk st) (views.getD c []) evs with
    | .error e => .error e
    | .ok v => .ok (views.set c v)

def judgeOp (views : List View) (op : Op) (obs : String) : Except String (List View) :=
  match op with
  | .cmd c k => judgeResp views c (kindOf k) obs
  | .check c =>
    if obs = "-" then .ok views else
    match splitOnChar obs '~' with
    | [o1, o2, a] =>
      match judgeResp views c .other o1 with
      | .error e => .error e
      | .ok v1 =>
        match judgeResp v1 c .other o2 with
        | .error e => .error e
        | .ok v2 =>
          match parseActual? a with
          | none => .error "unparsable-response"
          | some act =>
            let v := v2.getD c []
            if synced v act then .ok v2 else .error s!"view-after-noop-differs-from-mailbox({syncDiff v act})"
    | _ => .error "unparsable-response"

/-! ### the model on the same history -/

def modelOp (v : Variant) (st : St) : Op → St × String
  | .cmd c k => let (st', r) := exec v st c k; (st', showResp r)
  | .check c =>
    match getConn st c with
    | none => (st, "-")
    | some cn =>
      if cn.idle || cn.sel.isNone then (st, "-") else
      let (st1, r1) := exec v st c .noop
      let (st2, r2) := exec v st1 c (.fetch true [(1, 0)] false false)
      (st2, s!"{showResp r1}~{showResp r2}~{showActual ((actual st2 c).getD [])}")

def runHist (nconn : Nat) (ops : List Op) (obs : List String) : String × Bool × String :=
  let rec go (st : St) (views : List View) (ops : List Op) (obs : List String) (i : Nat)
      (acc : List String) (agree : Bool) (orc : Option String) : List String × Bool × Option String :=
    match ops, obs with
    | [], _ => (acc.reverse, agree, orc)
    | _ :: _, [] => (acc.reverse, false, orc.orElse fun _ => some "missing-observation")
    | op :: ops', ob :: obs' =>
      let (st', m) := modelOp {} st op
      let (views', orc') := match orc with
        | some e => (views, some e)
        | none => match judgeOp views op ob with
          | .ok v => (v, none)
          | .error e => (views, some s!"{e}@step{i}")
      go st' views' ops' obs' (i + 1) (m :: acc) (agree && m == ob) orc'
  let (ms, agree, orc) := go (init 2 nconn) (List.replicate nconn []) ops obs 1 [] true none
  (joinWith ";" ms, agree, match orc with | none => "ok" | some e => "fail:" ++ e)

def handle (f : List String) : String :=
  match f with
  | [id, "hist", nconn, ops, obs] =>
    match parseNat? nconn, (splitOnChar ops ';').mapM parseOp? with
    | some n, some os =>
      let (m, agree, orc) := runHist n os (splitOnChar obs ';')
      s!"{id}\t{boolStr agree}\t{orc}\t{m}"
    | _, _ => s!"{id}\t0\tfail:bad-line\t-"
  | id :: _ => s!"{id}\t0\tfail:bad-line\t-"
  | [] => "?\t0\tfail:bad-line\t-"

end GoImap.DriveC08
