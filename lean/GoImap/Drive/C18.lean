import GoImap.Model.ClientSyntax
import GoImap.Spec.ClientSyntax
namespace GoImap.DriveC18
open GoImap GoImap.ClientSyntax

abbrev B := ClientSyntax.Bytes

/-- run-length hex: '.'-separated tokens `<hex>` or `<hex>*<n>`; "-" = empty -/
def unrle? (s : String) : Option B :=
  if s = "-" then some [] else
  (splitOnChar s '.').foldlM (init := ([] : B)) fun acc t =>
    match splitOnChar t '*' with
    | [h] => (hexDecode? h).map fun u => acc ++ u.map UInt8.toNat
    | [h, n] => do
      let u ← hexDecode? h
      let k ← parseNat? n
      let unit := u.map UInt8.toNat
      pure (acc ++ (List.replicate k unit).flatten)
    | _ => none

def hexN (b : B) : String := hexEnc (b.map UInt8.ofNat)

def capOfName : String → Cap
  | "IMAP4rev1" => .imap4rev1 | "IMAP4rev2" => .imap4rev2 | "NAMESPACE" => .namespace_
  | "UNSELECT" => .unselect | "UIDPLUS" => .uidPlus | "ESEARCH" => .esearch | "SEARCHRES" => .searchRes
  | "ENABLE" => .enable | "IDLE" => .idle | "SASL-IR" => .saslIR | "LIST-EXTENDED" => .listExtended
  | "LIST-STATUS" => .listStatus | "MOVE" => .move | "LITERAL-" => .literalMinus
  | "STATUS=SIZE" => .statusSize | "LITERAL+" => .literalPlus | "CONDSTORE" => .condStore
  | "QRESYNC" => .qresync | "UTF8=ACCEPT" => .utf8Accept | "UTF8=ONLY" => .utf8Only
  | _ => .other

def caps? (s : String) : List Cap := if s = "-" then [] else (splitOnChar s ',').map capOfName

def act? : Char → Option Act
  | 'p' => some .cont | 'P' => some .cont | 'n' => some .no | 'b' => some .bad
  | _ => none

def actChar : Act → Char
  | .cont => 'p' | .no => 'n' | .bad => 'b'

def actsStr (l : List (Nat × Act)) : String :=
  if l.isEmpty then "-" else joinWith "," (l.map fun (o, a) => s!"{o}:{actChar a}")

def acts? (s : String) : Option (List (Nat × Act)) :=
  if s = "-" then some [] else
  (splitOnChar s ',').mapM fun t =>
    match splitOnChar t ':' with
    | [o, k] => do
      let o ← parseNat? o
      let a ← (match k.toList with | [c] => act? c | _ => none)
      pure (o, a)
    | _ => none

def crit? (kind : String) (args : List B) : Option Crit :=
  match kind, args with
  | "body", [x] => some (.body x)
  | "text", [x] => some (.text x)
  | "header", [k, v] => some (.header k v)
  | "subject", [v] => some (.header (ascii "Subject") v)
  | "keyword", [f] => some (.keyword f)
  | "unkeyword", [f] => some (.unkeyword f)
  | "modseq", [n] => some (.modseq n (ascii "all") 5)
  | "notbody", [x] => some (.not (.body x))
  | "orbody", [x, y] => some (.or (.body x) (.text y))
  | _, _ => none

def cmd? (kind : String) (args : List B) : Option Cmd :=
  match kind, args with
  | "login", [u, p] => some (.login u p)
  | "select", [m] => some (.select m false)
  | "examine", [m] => some (.select m true)
  | "create", [m] => some (.create m)
  | "delete", [m] => some (.delete m)
  | "rename", [x, y] => some (.rename x y)
  | "subscribe", [m] => some (.subscribe m)
  | "unsubscribe", [m] => some (.unsubscribe m)
  | "list", [r, p] => some (.list r p)
  | "status", [m] => some (.status m)
  | "copy", [m] => some (.copy m)
  | "move", [m] => some (.move m)
  | "append", [m, p] => some (.append m p)
  | "getmetadata", [m, e] => some (.getMetadata m e)
  | "setmetadata", [m, k, v] => some (.setMetadata m k v)
  | "getquota", [r] => some (.getQuota r)
  | "getquotaroot", [m] => some (.getQuotaRoot m)
  | "setquota", [r] => some (.setQuota r)
  | "fetchhdr", [f] => some (.fetchHeader f)
  | "store", [f] => some (.store f)
  | "sort", [x] => some (.sort (.body x))
  | "thread", [x] => some (.thread (.body x))
  | "uidsearch-body", [x] => some (.search true (.body x))
  | k, as =>
    if k.startsWith "search-" then (crit? (k.drop 7).toString as).map (Cmd.search false) else none

/-- one event of a session prefix, as the harness names it → the client-side steps (in the order
    the Go code performs them) and what the server said (in the order it said it) -/
def event? (tok : String) : Option (List SessStep × List ClientSyntaxSpec.SrvEv) :=
  match splitOnChar tok ':' with
  | ["e"] => some ([.enabled [.utf8Accept]], [.enabledResp [.utf8Accept]])
  | [k, l] =>
    let cl := caps? l
    -- a further ENABLE answered `* ENABLED <names>`: handleEnabled adds them / the server turned them on
    if k = "E" then some ([.enabled cl], [.enabledResp cl]) else
    if k = "g" || k = "c" || k = "l" || k = "L" || k = "h" then some ([.setCaps cl], [.advertised cl])
    -- UNAUTHENTICATE answered `OK [CAPABILITY …]`: setCaps from the code, then completeCommand
    else if k = "u" then some ([.setCaps cl, .unauthDone], [.advertised cl, .unauthenticated])
    -- answered plain OK: completeCommand, then the client's own CAPABILITY command
    else if k = "U" then some ([.unauthDone, .setCaps cl], [.unauthenticated, .advertised cl])
    else none
  | _ => none

def events? (s : String) : Option (List SessStep × List ClientSyntaxSpec.SrvEv) :=
  (splitOnChar s ';').foldlM (init := (([], []) : List SessStep × List ClientSyntaxSpec.SrvEv)) fun acc t =>
    (event? t).map fun (a, b) => (acc.1 ++ a, acc.2 ++ b)

def resultStr : Result → String
  | .ok => "ok" | .no => "no" | .bad => "bad" | .err => "err" | .hang => "err"

def statusStr : Result → String
  | .err => "eof" | .hang => "timeout" | _ => "done"

def failStr : ClientSyntaxSpec.Fail → String
  | .badLiteralHeader => "bad-literal-header" | .bareCR => "bare-cr" | .bareLF => "bare-lf"
  | .trailingBytes => "bytes-after-the-command" | .incomplete => "incomplete-command"
  | .payloadBeforeCont => "payload-before-continuation-request"
  | .syncUnanswered => "synchronising-literal-unanswered"
  | .bytesAfterRefusal => "bytes-after-refused-literal"

def verdictStr : ClientSyntaxSpec.Verdict → String
  | .ok => "ok"
  | .structure_ f => "fail:" ++ failStr f
  | .quotedCtl => "fail:nul-cr-lf-in-quoted-string"
  | .quoted8bit => "fail:8bit-in-quoted-string-not-allowed"
  | .nonSyncIllegal => "fail:non-synchronising-literal-not-allowed"
  | .charsetAfterUtf8Accept => "fail:search-charset-after-utf8-accept"
  | .eightBitSearchWithoutCharset => "fail:8bit-search-without-charset"

/-- compact rendering of an outcome (the wire is shown by length and a 48-byte prefix) -/
def showOutcome (w : B) (acts : List (Nat × Act)) (status result : String) : String :=
  s!"{w.length}:{hexN (w.take 48)}|{actsStr acts}|{status}|{result}"

def handle (f : List String) : String :=
  match f with
  | [id, "has", caps, q, impl] =>
    let set := caps? caps
    let c := capOfName q
    let m := boolStr (has set c)
    let orc := if boolStr (ClientSyntaxSpec.available set c) == impl then "ok" else "fail:capability-implication"
    s!"{id}\t{boolStr (m == impl)}\t{orc}\t{m}"
  | [id, "cmd", caps, en, kind, args, script, wire, acts, status, result] =>
    let adv := caps? caps
    let enabled : List Cap := if en == "1" then [.utf8Accept] else []
    match (splitOnChar args '|').mapM unrle?, script.toList.mapM act?, unrle? wire, acts? acts with
    | some as, some sc, some w, some ia =>
      -- the oracle, on what the implementation wrote
      let srv : ClientSyntaxSpec.Server := { adv := adv, enabled := enabled }
      let conts := (ia.filter fun x => x.2 = .cont).map (·.1)
      let refusals := (ia.filter fun x => x.2 ≠ .cont).map (·.1)
      let orc := verdictStr (ClientSyntaxSpec.check srv conts refusals (status == "eof") w)
      match cmd? kind as with
      | none => s!"{id}\t0\tfail:bad-line\t-"
      | some c =>
        match exec adv enabled (if en == "1" then 2 else 1) c sc with
        | none => s!"{id}\t1\t{orc}\tunmodelled"
        | some o =>
          let mstatus := statusStr o.result
          let agree := o.wire == w && o.acts == ia && mstatus == status && resultStr o.result == result
          s!"{id}\t{boolStr agree}\t{orc}\t{showOutcome o.wire o.acts mstatus (resultStr o.result)}"
    | _, _, _, _ => s!"{id}\t0\tfail:bad-line\t-"
  | [id, "sess", evs, tag, kind, args, script, wire, acts, status, result] =>
    match events? evs, parseNat? tag, (splitOnChar args '|').mapM unrle?, script.toList.mapM act?, unrle? wire, acts? acts with
    | some (steps, said), some tagNo, some as, some sc, some w, some ia =>
      -- the oracle: the server's state per the RFCs when the command was written
      let srv := ClientSyntaxSpec.Server.afterAll { adv := [], enabled := [] } said
      let conts := (ia.filter fun x => x.2 = .cont).map (·.1)
      let refusals := (ia.filter fun x => x.2 ≠ .cont).map (·.1)
      let orc := verdictStr (ClientSyntaxSpec.check srv conts refusals (status == "eof") w)
      match cmd? kind as with
      | none => s!"{id}\t0\tfail:bad-line\t-"
      | some c =>
        match execIn (Sess.run {} steps) tagNo c sc with
        | none => s!"{id}\t1\t{orc}\tunmodelled"
        | some o =>
          let mstatus := statusStr o.result
          let agree := o.wire == w && o.acts == ia && mstatus == status && resultStr o.result == result
          s!"{id}\t{boolStr agree}\t{orc}\t{showOutcome o.wire o.acts mstatus (resultStr o.result)}"
    | _, _, _, _, _, _ => s!"{id}\t0\tfail:bad-line\t-"
  | [id, "seq", caps, en, kind0, args0, script0, kind, args, script, wire, acts, status, result] =>
    let adv := caps? caps
    let enabled : List Cap := if en == "1" then [.utf8Accept] else []
    match (splitOnChar args0 '|').mapM unrle?, script0.toList.mapM act?,
          (splitOnChar args '|').mapM unrle?, script.toList.mapM act?, unrle? wire, acts? acts with
    | some as0, some sc0, some as, some sc, some w, some ia =>
      let srv : ClientSyntaxSpec.Server := { adv := adv, enabled := enabled }
      let conts := (ia.filter fun x => x.2 = .cont).map (·.1)
      let refusals := (ia.filter fun x => x.2 ≠ .cont).map (·.1)
      let orc := verdictStr (ClientSyntaxSpec.check srv conts refusals (status == "eof") w)
      match cmd? kind0 as0, cmd? kind as with
      | some c0, some c =>
        match execSeq adv enabled (if en == "1" then 2 else 1) c0 sc0 c sc with
        | none => s!"{id}\t1\t{orc}\tunmodelled"
        | some o =>
          let mstatus := statusStr o.result
          let agree := o.wire == w && o.acts == ia && mstatus == status && resultStr o.result == result
          s!"{id}\t{boolStr agree}\t{orc}\t{showOutcome o.wire o.acts mstatus (resultStr o.result)}"
      | _, _ => s!"{id}\t0\tfail:bad-line\t-"
    | _, _, _, _, _, _ => s!"{id}\t0\tfail:bad-line\t-"
  | id :: _ => s!"{id}\t0\tfail:bad-line\t-"
  | [] => "?\t0\tfail:bad-line\t-"

end GoImap.DriveC18
