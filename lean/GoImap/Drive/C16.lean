import GoImap.Model.Utf7
import GoImap.Spec.Utf7
namespace GoImap.DriveC16
open GoImap GoImap.Utf7 GoImap.Utf7Spec

def toN (b : Bytes) : BytesN := b.map UInt8.toNat
def hexN (b : BytesN) : String := hexEnc (b.map UInt8.ofNat)
def csv (l : List Nat) : String := joinWith "," (l.map toString)
def parseCsv? (s : String) : Option (List Nat) :=
  if s.isEmpty then some [] else (splitOnChar s ',').mapM parseNat?

def errStr : TErr → String
  | .ok => "nil" | .shortDst => "shortdst" | .shortSrc => "shortsrc" | .invalid => "invalid" | .unmodelled => "unmodelled"

structure Call where
  start : Nat
  stop : Nat
  cap : Nat
  eof : Bool

def parseCall? (s : String) : Option Call :=
  match splitOnChar s ',' with
  | [a, b, c, d] => do pure ⟨← parseNat? a, ← parseNat? b, ← parseNat? c, d == "1"⟩
  | _ => none

def showRes (r : TRes) : String := s!"{r.nDst},{r.nSrc},{errStr r.err},{hexN r.out}"

/-- replay the recorded Transform calls on the model, threading the decoder's ascii flag -/
def replayDec (src : BytesN) : List Call → Bool → List String → List String × Bool
  | [], _, acc => (acc.reverse, false)
  | c :: cs, ascii, acc =>
    let r := decTransform c.cap c.eof ascii ((src.drop c.start).take (c.stop - c.start))
    replayDec src cs r.ascii (showRes r :: acc)

def replayEnc (src : BytesN) : List Call → List String → List String × Bool
  | [], acc => (acc.reverse, false)
  | c :: cs, acc =>
    let r := encTransform c.cap c.eof ((src.drop c.start).take (c.stop - c.start))
    if r.err == .unmodelled then (acc.reverse, true)
    else replayEnc src cs (showRes r :: acc)

def handle (f : List String) : String :=
  match f with
  | [id, "enc", hex, impl] =>
    match hexDecode? hex with
    | none => s!"{id}\t0\tfail:bad-line\t-"
    | some b =>
      match utf8dec (toN b) with
      | none =>
        -- invalid UTF-8 is outside the property; only "no panic, printable output" is judged
        let orc := match impl.splitOn ":" with
          | ["ok", h] => match hexDecode? h with
            | some o => if (toN o).all printable then "ok" else "fail:unprintable-output"
            | none => "fail:bad-line"
          | _ => if impl == "panic" then "fail:panic" else "ok"
        s!"{id}\t1\t{orc}\tunmodelled"
      | some cps =>
        let m := "ok:" ++ hexN (encode cps)
        let orc := match impl.splitOn ":" with
          | ["ok", h] => match hexDecode? h with
            | some o =>
              let o := toN o
              if !o.all printable then "fail:unprintable-output"
              else if specDecode o != some cps then "fail:does-not-decode-back"
              else if !padsZero o then "fail:nonzero-pad-bits"
              else "ok"
            | none => "fail:bad-line"
          | _ => if impl == "panic" then "fail:panic" else "fail:valid-utf8-refused"
        s!"{id}\t{boolStr (m == impl)}\t{orc}\t{m}"
  | [id, "dec", hex, impl] =>
    match hexDecode? hex with
    | none => s!"{id}\t0\tfail:bad-line\t-"
    | some b =>
      let m := match decode (toN b) with
        | none => "err"
        | some cps => "ok:" ++ csv cps
      let spec := match specDecode (toN b) with
        | none => "err"
        | some cps => "ok:" ++ csv cps
      let orc :=
        if impl == "panic" then "fail:panic"
        else if impl == "invalidutf8" then "fail:invalid-utf8-output"
        else if impl == spec then "ok"
        else if spec == "err" then "fail:malformed-accepted"
        else if impl == "err" then "fail:wellformed-rejected"
        else "fail:decoded-wrongly"
      s!"{id}\t{boolStr (m == impl)}\t{orc}\t{m}"
  | [id, "dect", hex, calls, results, final] =>
    match hexDecode? hex, (if calls.isEmpty then some [] else (splitOnChar calls ';').mapM parseCall?) with
    | some b, some cs =>
      let src := toN b
      let (ms, _) := replayDec src cs true []
      let m := joinWith ";" ms
      -- oracle: chunking must not change the outcome of the one-shot specification
      let outs := (splitOnChar results ';').filterMap fun r =>
        match splitOnChar r ',' with
        | [_, _, _, h] => hexDecode? h
        | _ => none
      let whole := toN (outs.flatten)
      let orc := match final, specDecode src with
        | "done", some cps => if whole == cps.flatMap utf8enc then "ok" else "fail:chunked-output-differs"
        | "done", none => "fail:chunked-accepts-malformed"
        | "invalid", none => "ok"
        | "invalid", some _ => "fail:chunked-rejects-wellformed"
        | "panic", _ => "fail:panic"
        | "stuck", _ => "fail:no-progress"
        | _, _ => "ok"
      s!"{id}\t{boolStr (m == results)}\t{orc}\t{m}"
    | _, _ => s!"{id}\t0\tfail:bad-line\t-"
  | [id, "enct", hex, calls, results, final] =>
    match hexDecode? hex, (if calls.isEmpty then some [] else (splitOnChar calls ';').mapM parseCall?) with
    | some b, some cs =>
      let src := toN b
      let (ms, unm) := replayEnc src cs []
      let m := joinWith ";" ms
      let outs := (splitOnChar results ';').filterMap fun r =>
        match splitOnChar r ',' with
        | [_, _, _, h] => hexDecode? h
        | _ => none
      let whole := toN (outs.flatten)
      let orc := match final, utf8dec src with
        | "done", some cps =>
          if !whole.all printable then "fail:unprintable-output"
          else if specDecode whole == some cps then "ok" else "fail:chunked-output-does-not-decode-back"
        | "panic", _ => "fail:panic"
        | "stuck", _ => "fail:no-progress"
        | "invalid", some _ => "fail:valid-utf8-refused"
        | _, _ => "ok"
      s!"{id}\t{boolStr (unm || m == results)}\t{orc}\t{if unm then "unmodelled" else m}"
    | _, _ => s!"{id}\t0\tfail:bad-line\t-"
  | id :: _ => s!"{id}\t0\tfail:bad-line\t-"
  | [] => "?\t0\tfail:bad-line\t-"

end GoImap.DriveC16
