import GoImap.Model.Mailbox
import GoImap.Spec.Mailbox
import GoImap.Drive.C19
namespace GoImap.DriveC09
open GoImap GoImap.Mailbox

def hexStr? (s : String) : Option Str := DriveC19.hexStr? s
def showHex (s : Str) : String := DriveC19.showHex s

def sortStrs (l : List String) : List String := l.mergeSort fun a b => decide (a ≤ b)

/-! ### rendering (the canonical response text of harness/cmd/verifh/c09.go) -/

def showNums (l : List Nat) : String := if l.isEmpty then "-" else joinWith "." (l.map toString)
def showFlags (l : List Str) : String := if l.isEmpty then "-" else joinWith "+" (sortStrs (l.map showHex))
def showOptNat : Option Nat → String
  | none => "-"
  | some n => toString n

def showSection (s : Section) (origin : Option Nat) : String :=
  let part := if s.part.isEmpty then "-" else joinWith "." (s.part.map toString)
  let spec := match s.spec with | .none => "-" | .header => "H" | .text => "T" | .mime => "M"
  let fields := if s.fields.isEmpty then "-" else (if s.fieldsNot then "n" else "f") ++ joinWith "+" (s.fields.map showHex)
  s!"{part}/{spec}/{fields}/{showOptNat origin}"

def showAtt : Att → String
  | .uid n => s!"u{n}"
  | .flags l => "f" ++ showFlags l
  | .date t z => if t == nowDate then "dnow" else s!"d{t}/{z}"
  | .size n => s!"s{n}"
  | .section s origin data =>
    match s.obsolete with
    | 1 => "rRFC822=" ++ showHex data
    | 2 => "rRFC822.HEADER=" ++ showHex data
    | 3 => "rRFC822.TEXT=" ++ showHex data
    | _ => "b" ++ showSection s origin ++ "=" ++ showHex data
  | .opaque s origin => "b" ++ showSection s origin ++ "=*"

def showKey : StatusKey → String
  | .messages => "MESSAGES" | .uidnext => "UIDNEXT" | .uidvalidity => "UIDVALIDITY" | .unseen => "UNSEEN"
  | .deleted => "DELETED" | .size => "SIZE" | .appendlimit => "APPENDLIMIT" | .deletedStorage => "DELETED-STORAGE"
  | .recent => "RECENT"

def showItem : Item → String
  | .exists_ n => s!"X{n}"
  | .recent n => s!"Q{n}"
  | .expunge n => s!"E{n}"
  | .fetch seq atts => s!"F{seq}(" ++ joinWith "," (sortStrs (atts.map showAtt)) ++ ")"
  | .search nums => "S" ++ showNums nums
  | .esearch uid all mn mx cnt =>
    s!"R{if uid then "u" else "s"}/{showNums all}/{showOptNat mn}/{showOptNat mx}/{showOptNat cnt}"
  | .list attrs name => "L" ++ showFlags attrs ++ "/" ++ showHex name
  | .status name kv =>
    let l := sortStrs (kv.map fun (k, v) => showKey k ++ "=" ++ (match v with | none => "NIL" | some n => toString n))
    "T" ++ showHex name ++ "/" ++ (if l.isEmpty then "-" else joinWith "," l)
  | .copyuid v s d => s!"C{v}/{showNums s}/{showNums d}"
  | .uidvalidity n => s!"V{n}"
  | .uidnext n => s!"N{n}"
  | .flags l => "G" ++ showFlags l
  | .permflags l => "P" ++ showFlags l
  | .closed => "K"
  | .unknown s => "?" ++ s

def showResp (isList : Bool) (r : Resp) : String :=
  match r.status with
  | .panic => "PANIC"
  | st =>
    let s := match st with | .ok => "OK" | .no => "NO" | .bad => "BAD" | .panic => "PANIC"
    let c := match r.code with
      | .none => ""
      | .named n => ":" ++ n
      | .appenduid v u => s!":APPENDUID/{v}/{u}"
      | .copyuid v a b => s!":COPYUID/{v}/{showNums a}/{showNums b}"
      | .garbled => ":?"
    let items := r.items.map showItem
    joinWith "|" ((s ++ c) :: (if isList then sortStrs items else items))

/-! ### parsing responses (for the oracle) -/

def nums? (s : String) : Option (List Nat) :=
  if s == "-" then some [] else (splitOnChar s '.').mapM parseNat?

def flags? (s : String) : Option (List Str) :=
  if s == "-" then some [] else (splitOnChar s '+').mapM hexStr?

def optNat? (s : String) : Option (Option Nat) :=
  if s == "-" then some none else (parseNat? s).map some

def dropS (s : String) (n : Nat) : String := String.ofList (s.toList.drop n)

def section? (s : String) : Option (Section × Option Nat) :=
  match splitOnChar s '/' with
  | [part, spec, fields, origin] => do
    let part ← if part == "-" then some [] else (splitOnChar part '.').mapM parseNat?
    let spec ← match spec with | "-" => some Spec.none | "H" => some .header | "T" => some .text | "M" => some .mime | _ => none
    let (fl, nt) ← if fields == "-" then some ([], false) else
      ((splitOnChar (dropS fields 1) '+').mapM hexStr?).map fun l => (l, fields.toList.head? == some 'n')
    let origin ← optNat? origin
    pure ({ part := part, spec := spec, fields := fl, fieldsNot := nt }, origin)
  | _ => none

def att? (s : String) : Option Att :=
  match s.toList with
  | 'u' :: r => (natOfDigits? r).map Att.uid
  | 'f' :: r => (flags? (String.ofList r)).map Att.flags
  | 's' :: r => (natOfDigits? r).map Att.size
  | 'd' :: r =>
    if String.ofList r == "now" then some (.date nowDate 0) else
    match splitOnChar (String.ofList r) '/' with
    | [t, z] => do pure (.date (← parseInt? t) (← parseInt? z))
    | _ => none
  | 'r' :: r =>
    match splitOnChar (String.ofList r) '=' with
    | [name, d] => do
      let o ← match name with | "RFC822" => some 1 | "RFC822.HEADER" => some 2 | "RFC822.TEXT" => some 3 | _ => none
      pure (.section { obsolete := o } none (← hexStr? d))
    | _ => none
  | 'b' :: r =>
    match splitOnChar (String.ofList r) '=' with
    | [lab, d] => do
      let (sec, origin) ← section? lab
      if d == "*" then pure (.opaque sec origin) else pure (.section sec origin (← hexStr? d))
    | _ => none
  | _ => none

def key? : String → Option StatusKey
  | "MESSAGES" => some .messages | "UIDNEXT" => some .uidnext | "UIDVALIDITY" => some .uidvalidity
  | "UNSEEN" => some .unseen | "DELETED" => some .deleted | "SIZE" => some .size | "APPENDLIMIT" => some .appendlimit
  | "DELETED-STORAGE" => some .deletedStorage | "RECENT" => some .recent | _ => none

def kv? (e : String) : Option (StatusKey × Option Nat) :=
  match splitOnChar e '=' with
  | [k, v] => do
    let k ← key? k
    if v == "NIL" then pure (k, none) else pure (k, some (← parseNat? v))
  | _ => none

def item? (s : String) : Item :=
  let rest := dropS s 1
  let r : Option Item := match s.toList.head? with
    | some 'X' => (parseNat? rest).map Item.exists_
    | some 'Q' => (parseNat? rest).map Item.recent
    | some 'E' => (parseNat? rest).map Item.expunge
    | some 'V' => (parseNat? rest).map Item.uidvalidity
    | some 'N' => (parseNat? rest).map Item.uidnext
    | some 'G' => (flags? rest).map Item.flags
    | some 'P' => (flags? rest).map Item.permflags
    | some 'K' => if rest.isEmpty then some .closed else none
    | some '!' => some (.unknown "incomplete")
    | some 'S' => (nums? rest).map Item.search
    | some 'F' =>
      match splitOnChar rest '(' with
      | [seq, atts] => do
        let seq ← parseNat? seq
        let body := String.ofList (atts.toList.dropLast)
        let al ← if body.isEmpty then some [] else (splitOnChar body ',').mapM att?
        pure (.fetch seq al)
      | _ => none
    | some 'R' =>
      match splitOnChar rest '/' with
      | [k, all, mn, mx, cnt] => do pure (.esearch (k == "u") (← nums? all) (← optNat? mn) (← optNat? mx) (← optNat? cnt))
      | _ => none
    | some 'L' =>
      match splitOnChar rest '/' with
      | [a, n] => do pure (.list (← flags? a) (← hexStr? n))
      | _ => none
    | some 'T' =>
      match splitOnChar rest '/' with
      | [n, kv] => do
        let l ← if kv == "-" then some [] else (splitOnChar kv ',').mapM kv?
        pure (.status (← hexStr? n) l)
      | _ => none
    | some 'C' =>
      match splitOnChar rest '/' with
      | [v, a, b] => do pure (.copyuid (← parseNat? v) (← nums? a) (← nums? b))
      | _ => none
    | _ => none
  r.getD (.unknown rest)

def resp? (s : String) : Resp :=
  match splitOnChar s '|' with
  | [] => ⟨.panic, .none, []⟩
  | t :: items =>
    if t == "PANIC" then panicResp else
    let (st, code) := match splitOnChar t ':' with
      | [a] => (a, "")
      | a :: rest => (a, joinWith ":" rest)
      | [] => ("", "")
    let status := match st with | "OK" => Status.ok | "NO" => .no | "BAD" => .bad | _ => .panic
    let c : Code :=
      if code.isEmpty then .none else
      match splitOnChar code '/' with
      | ["APPENDUID", v, u] => match parseNat? v, parseNat? u with
        | some v, some u => .appenduid v u
        | _, _ => .garbled
      | ["COPYUID", v, a, b] => match parseNat? v, nums? a, nums? b with
        | some v, some a, some b => .copyuid v a b
        | _, _, _ => .garbled
      | [n] => if n == "?" then .garbled else .named n
      | _ => .garbled
    ⟨status, c, items.map item?⟩

/-! ### parsing op tokens -/

def list? (s : String) : List String := if s == "_" then [] else splitOnChar s ','

def ranges? (s : String) : Option NumSet.Set := DriveC15.parseRanges? s '-'

def statusItems? (s : String) : Option StatusItems := ((list? s).mapM key?).map StatusItems.mk

def fetchItem? (o : FetchOpts) (s : String) : Option FetchOpts :=
  match s with
  | "FLAGS" => some { o with flags := true }
  | "UID" => some o
  | "SIZE" => some { o with size := true }
  | "DATE" => some { o with date := true }
  | "FAST" | "ALL" | "FULL" => some { o with flags := true, date := true, size := true }   -- ENVELOPE / BODY of ALL / FULL: outside the model
  | "BS" | "BD" | "ENV" => some o     -- BODYSTRUCTURE, BODY, ENVELOPE: outside the model (the harness drops them), oracle-only
  | "RFC822" => some { o with sections := o.sections ++ [{ obsolete := 1 }] }
  | "RFC822.HEADER" => some { o with sections := o.sections ++ [{ obsolete := 2, spec := .header, peek := true }] }
  | "RFC822.TEXT" => some { o with sections := o.sections ++ [{ obsolete := 3, spec := .text }] }
  | _ =>
    match splitOnChar (dropS s 1) '/' with
    | [peek, part, spec, fields, range] => do
      let (sec, _) ← section? s!"{part}/{spec}/{fields}/-"
      let rg ← if range == "-" then some none else
        match splitOnChar range '.' with
        | [a, b] => do pure (some ((← parseNat? a), (← parseNat? b)))
        | _ => none
      pure { o with sections := o.sections ++ [{ sec with peek := peek == "1", range := rg }] }
    | _ => none

def hdrs? (s : String) : Option (List (Str × Str)) :=
  (list? s).mapM fun kv => match splitOnChar kv ':' with
    | [k, v] => do pure ((← hexStr? k), (← hexStr? v))
    | _ => none

def cmd? (w : List String) : Option Cmd :=
  match w with
  | ["CREATE", n] => (hexStr? n).map Cmd.create
  | ["DELETE", n] => (hexStr? n).map Cmd.delete
  | ["RENAME", a, b] => do pure (.rename (← hexStr? a) (← hexStr? b))
  | ["SUB", n] => (hexStr? n).map Cmd.subscribe
  | ["UNSUB", n] => (hexStr? n).map Cmd.unsubscribe
  | ["LIST", ss, ref, paren, pats, st] => do
    let st ← if st == "_" then some none else (statusItems? st).map some
    pure (.list (ss == "1") (← hexStr? ref) (paren == "1") (← (list? pats).mapM hexStr?) st)
  | ["STATUS", n, items] => do pure (.status (← hexStr? n) (← statusItems? items))
  | ["APPEND", n, flags, date, hdrs, body, sd, se] => do
    let d ← if date == "_" then some none else
      match splitOnChar date '/' with
      | [l, z] => do pure (some ((← parseInt? l), (← parseInt? z)))
      | _ => none
    pure (.append (← hexStr? n) (← (list? flags).mapM hexStr?) d (← hdrs? hdrs) (← hexStr? body) (← parseInt? sd) (se == "1"))
  | ["SELECT", n] => (hexStr? n).map fun n => Cmd.select n false
  | ["EXAMINE", n] => (hexStr? n).map fun n => Cmd.select n true
  | ["CLOSE"] => some .close
  | ["UNSELECT"] => some .unselect
  | ["NOOP"] => some .noop
  | ["EXPUNGE"] => some .expunge
  | ["UIDEXPUNGE", s] => (ranges? s).map Cmd.uidExpunge
  | ["STORE", u, s, op, sil, fl] => do
    let op ← match op with | "set" => some StoreOp.set | "add" => some .add | "del" => some .del | _ => none
    pure (.store (u == "u") (← ranges? s) op (sil == "1") (← (list? fl).mapM hexStr?))
  | ["COPY", u, s, d] => do pure (.copy (u == "u") (← ranges? s) (← hexStr? d))
  | ["MOVE", u, s, d] => do pure (.move (u == "u") (← ranges? s) (← hexStr? d))
  | "SEARCH" :: u :: ret :: keys => do
    let r : Option RetOpts := if ret == "_" then none else
      some { min := ret.toList.contains 'n', max := ret.toList.contains 'x', all := ret.toList.contains 'a',
             count := ret.toList.contains 'c' }
    let ks ← DriveC19.keys? (joinWith " " keys)
    pure (.search (u == "u") r ks)
  | "FETCH" :: u :: s :: items => do
    let o ← items.foldlM fetchItem? ({} : FetchOpts)
    pure (.fetch (u == "u") (← ranges? s) o)
  | _ => none

def op? (s : String) : Option (Nat × Cmd × Bool) :=
  match (s.splitOn " ").filter (· ≠ "") with
  | c :: w => do
    let cid ← parseNat? (dropS c 1)
    let cmd ← cmd? w
    pure (cid, cmd, w.head? == some "LIST")
  | [] => none

/-- model vs implementation for one response: equal text, except that a section the model marks as not
    modelled (`b<label>=*`) matches whatever bytes the implementation returned under the same label -/
def attAgree (m ob : String) : Bool :=
  m == ob || (m.endsWith "=*" && (splitOnChar m '=').head? == (splitOnChar ob '=').head?)

def itemAgree (m ob : String) : Bool :=
  m == ob ||
    (m.startsWith "F" && ob.startsWith "F" &&
      match splitOnChar m '(', splitOnChar ob '(' with
      | [ms, ma], [os, oa] =>
        ms == os && (let a := splitOnChar ma ','; let b := splitOnChar oa ','
                     a.length == b.length && (a.zip b).all fun (x, y) => attAgree (x.dropEndWhile (· == ')')).toString (y.dropEndWhile (· == ')')).toString)
      | _, _ => false)

def respAgree (m ob : String) : Bool :=
  m == ob || (let a := splitOnChar m '|'; let b := splitOnChar ob '|'
              a.length == b.length && (a.zip b).all fun (x, y) => itemAgree x y)

/-- replay the history on the model, compare every step, run the oracle on the implementation's responses -/
def runHist (nconn : Nat) (ops : List (Nat × Cmd × Bool)) (obs : List String) : String × Bool × String :=
  let rec go (st : St) (g : MailboxSpec.G) (ops : List (Nat × Cmd × Bool)) (obs : List String) (i : Nat)
      (acc : List String) (agree : Bool) (orc : Option String) (dead : Bool) : List String × Bool × Option String :=
    match ops, obs with
    | [], _ => (acc.reverse, agree, orc)
    | _ :: _, [] => (acc.reverse, false, orc.orElse fun _ => some "missing-observation")
    | (cid, cmd, isList) :: ops', ob :: obs' =>
      let (st', m) := if dead then (st, "DEAD") else
        let (s', r) := step {} st cid cmd
        (s', showResp isList r)
      let (g', orc') := match orc with
        | some e => (g, some e)
        | none =>
          match MailboxSpec.check g cid cmd (resp? ob) with
          | (g2, none) => (g2, none)
          | (g2, some e) => (g2, some s!"{e}@step{i}")
      go st' g' ops' obs' (i + 1) (m :: acc) (agree && respAgree m ob) orc' (dead || m == "PANIC")
  let (ms, agree, orc) := go (init nconn) (MailboxSpec.ginit nconn) ops obs 1 [] true none false
  (joinWith ";" ms, agree, match orc with | none => "ok" | some e => "fail:" ++ e)

def handle (f : List String) : String :=
  match f with
  | [id, "hist", nconn, ops, obs] =>
    match parseNat? nconn, (splitOnChar ops ';').mapM op? with
    | some n, some os =>
      let (m, agree, orc) := runHist n os (splitOnChar obs ';')
      s!"{id}\t{boolStr agree}\t{orc}\t{m}"
    | _, _ => s!"{id}\t0\tfail:bad-line\t-"
  | id :: _ => s!"{id}\t0\tfail:bad-line\t-"
  | [] => "?\t0\tfail:bad-line\t-"

end GoImap.DriveC09
