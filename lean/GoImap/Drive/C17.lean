import GoImap.Model.StartTLS
import GoImap.Spec.StartTLS
namespace GoImap.DriveC17
open GoImap GoImap.StartTLS GoImap.StartTLSSpec

/-! ## rendering shared with harness/cmd/verifh/c17.go -/

def insertSorted (x : String) : List String → List String
  | [] => [x]
  | y :: ys => if x < y then x :: y :: ys else y :: insertSorted x ys

def sortStrs (l : List String) : List String := l.foldl (fun acc x => insertSorted x acc) []

def dash (sep : String) (l : List String) : String := if l.isEmpty then "-" else joinWith sep l

def showCaps (l : List String) : String := dash "," (sortStrs l)

def showStatus : Status → String
  | .ok => "OK" | .no => "NO" | .bad => "BAD"

def showItem? : SEv → Option String
  | .reply t s none => some s!"R{hexEncode t}:{showStatus s}"
  | .reply t s (some c) => some s!"R{hexEncode t}:{showStatus s}:{showCaps (capNames c)}"
  | .capsData c => some s!"C:{showCaps (capNames c)}"
  | .bye => some "B"
  | .unmodelled => some "UNMODELLED"
  | .call _ _ => none

def showCall? (sasl : List (Bytes × Bytes × Bytes)) : SEv → Option String
  | .call (.login u p) t => some s!"L:{hexEnc u}:{hexEnc p}:{boolStr t}"
  | .call (.auth tok) t =>
    match sasl.find? (·.1 = tok) with
    | some (_, u, p) => some s!"L:{hexEnc u}:{hexEnc p}:{boolStr t}"
    | none => some s!"A:{hexEnc tok}:{boolStr t}"
  | .call (.delete m) t => some s!"D:{hexEnc m}:{boolStr t}"
  | .call .poll t => some s!"P:{boolStr t}"
  | _ => none

/-! ## parsing -/

def parseCuts? (s : String) : Option (List Nat) :=
  if s = "-" then some [] else (splitOnChar s '.').mapM parseNat?

/-- cut `data` into segments of the given lengths; a remainder becomes a last segment -/
def segments : List Nat → Bytes → List Bytes
  | [], d => if d.isEmpty then [] else [d]
  | n :: ns, d => if n = 0 then segments ns d else
    if d.isEmpty then [] else d.take n :: segments ns (d.drop n)

def parseSasl? (s : String) : Option (List (Bytes × Bytes × Bytes)) :=
  if s = "-" then some [] else
  (splitOnChar s ',').mapM fun e =>
    match splitOnChar e '=' with
    | [tok, up] =>
      match splitOnChar up ':' with
      | [u, p] => do pure (← hexDecode? tok, ← hexDecode? u, ← hexDecode? p)
      | _ => none
    | _ => none

def capsOfStr (s : String) : List String := if s = "-" then [] else splitOnChar s ','

def parseItem (s : String) : ObsItem :=
  match s.toList with
  | 'R' :: _ =>
    match splitOnChar (String.ofList (s.toList.drop 1)) ':' with
    | [t, st] => match hexDecode? t with
      | some tb => .reply tb st none
      | none => .other
    | [t, st, caps] => match hexDecode? t with
      | some tb => .reply tb st (some (capsOfStr caps))
      | none => .other
    | _ => .other
  | 'C' :: ':' :: r => .caps (capsOfStr (String.ofList r))
  | ['B'] => .bye
  | _ => .other

def parseItems (s : String) : List ObsItem := if s = "-" then [] else (splitOnChar s ';').map parseItem

def parseCall (s : String) : ObsCall :=
  match splitOnChar s ':' with
  | ["L", u, p, t] => match hexDecode? u, hexDecode? p with
    | some ub, some pb => .want (.login ub pb) (t == "1")
    | _, _ => .other
  | ["D", m, t] => match hexDecode? m with
    | some mb => .want (.delete mb) (t == "1")
    | none => .other
  | ["P", t] => .poll (t == "1")
  | _ => .other

def parseCalls (s : String) : List ObsCall := if s = "-" then [] else (splitOnChar s ';').map parseCall

/-! ## server cases -/

def srvModel (cfg : Cfg) (segs : List Bytes) (hs : Bool) (post : Bytes) (sasl : List (Bytes × Bytes × Bytes)) : String :=
  let run := runServer .drain cfg segs hs post
  let raw := run.r.evs.map (·.2)
  let greet := (if cfg.preauth then "PREAUTH:" else "OK:") ++ showCaps (capNames (availableCaps cfg (srvInit cfg)))
  let hsres := if !run.accepted || !hs then "none" else if run.hsOK then "ok" else "fail"
  let calls := (raw ++ run.post).filterMap (showCall? sasl)
  joinWith "|" [greet, dash ";" (raw.filterMap showItem?), "framed", hsres, dash ";" (run.post.filterMap showItem?), dash ";" calls, "eof"]

def handleSrv (id : String) (f : List String) : String :=
  match f with
  | [cfgS, preH, lineH, sufH, cutsS, _timing, hsS, postH, saslS, greet, trans, afterH, hsres, ptrans, calls, end_] =>
    match cfgS.toList, hexDecode? preH, hexDecode? lineH, hexDecode? sufH, parseCuts? cutsS, hexDecode? postH,
          parseSasl? saslS, hexDecode? afterH with
    | [i, t, p], some pre, some line, some suffix, some cuts, some post, some sasl, some after =>
      let cfg : Cfg := ⟨i == '1', t == '1', p == '1'⟩
      let stream := pre ++ line ++ suffix
      let model := srvModel cfg (segments cuts stream) (hsS == "1") post sasl
      let obs : SrvObs := {
        insecure := cfg.insecure, tlsCfg := cfg.tlsCfg, preauth := cfg.preauth,
        pre := pre, line := line, suffix := suffix, post := post, sasl := sasl,
        greetCaps := capsOfStr (String.ofList ((greet.toList.dropWhile (· ≠ ':')).drop 1)),
        trans := parseItems trans, after := after, ptrans := parseItems ptrans, calls := parseCalls calls }
      let afterClass := if tlsFramed after then "framed" else "plain"
      let impl := joinWith "|" [greet, trans, afterClass, hsres, ptrans, calls, end_]
      let orc := if end_ != "eof" then "fail:timeout" else
        match srvOracle obs with
        | none => "ok"
        | some e => "fail:" ++ e
      s!"{id}\t{boolStr (impl == model)}\t{orc}\t{model}"
    | _, _, _, _, _, _, _, _ => s!"{id}\t0\tfail:bad-line\t-"
  | _ => s!"{id}\t0\tfail:bad-line\t-"

/-! ## client cases -/

def greetLine (g : String) : Bytes :=
  if g = "ok" then strBytes "* OK hello\r\n"
  else if g = "preauth" then strBytes "* PREAUTH hello\r\n"
  else if g = "bye" then strBytes "* BYE hello\r\n"
  else []

def existsEvs (l : List CEv) : List Nat := l.filterMap fun | .exists_ n => some n | _ => none

def lastCaps (l : List CEv) : Option (List Bytes) :=
  l.foldl (fun acc e => match e with | .caps c => some c | _ => acc) none

structure CliExpect where
  result : String     -- client | error | either
  delivered : String
  caps : String
  noop : String
  tlscmds : String    -- "*" = any subset of CAPABILITY
  wire : String       -- what the client may write after the STARTTLS command: "tls" records only, or "*" (no switch: plaintext goes on)

def cliExpect (k : Ctor) (tag : Bytes) (segs : List Bytes) (hs : Bool) (tlsScript : Bytes) : CliExpect × Bool :=
  let run := runClient .drain k tag segs hs
  let evs := run.r.evs.map (·.2)
  let unmod := evs.contains .unmodelled
  let usable := run.result == .client && run.hsOK
  let inTLS := (scan .drain clientExec (RSt.init run.r.st) tlsScript).evs.map (·.2)
  let del := existsEvs evs ++ (if usable then existsEvs inTLS else [])
  ({ result := if run.result == .error then "error" else if run.hsOK then "client" else "either",
     delivered := dash ";" (del.map fun n => s!"E{n}"),
     caps := if usable then (match lastCaps inTLS with
       | some c => showCaps (c.map bytesAscii)
       | none => "nil") else "-",
     noop := if usable then "ok" else "-",
     tlscmds := if usable then "CAPABILITY,NOOP" else if run.hsOK then "*" else "-",
     wire := if run.r.st.tls then "tls" else "*" }, unmod)

def showExpect (e : CliExpect) : String :=
  joinWith "|" [e.result, e.delivered, e.caps, e.noop, "STARTTLS", e.wire, e.tlscmds, "ok"]

def handleCli (k : Ctor) (id : String) (f : List String) : String :=
  match f with
  | [greetF, preH, reply, sufH, cutsS, hsS, scriptH, tagH, result, delivered, caps, noop, plaincmds, cafterH, tlscmds, end_] =>
    -- "greeting.e": the greeting was written before the STARTTLS command was read, as a segment of its own
    let early := greetF.endsWith ".e"
    let greet := if early then (greetF.dropEnd 2).toString else greetF
    match hexDecode? preH, hexDecode? sufH, parseCuts? cutsS, hexDecode? scriptH, hexDecode? tagH, hexDecode? cafterH with
    | some pre, some suffix, some cuts, some script, some tag, some cafter =>
      if tag == strBytes "?" then
        -- the client never sent STARTTLS: only possible when an early BYE made it give up first
        let ok := early && greet == "bye" && result == "error" && delivered == "-"
        let orc := if result == "client" then "fail:bye-greeting-accepted" else "ok"
        s!"{id}\t{boolStr ok}\t{orc}\terror|-|-|-|-|*|-|ok"
      else
      let rest := pre ++ tag ++ strBytes (" " ++ reply ++ " begin\r\n") ++ suffix
      let segs := if early then greetLine greet :: segments cuts rest else segments cuts (greetLine greet ++ rest)
      let (e, unmod) := cliExpect k tag segs (hsS == "1") script
      let plainOK := plaincmds == "STARTTLS" || (early && plaincmds == "CAPABILITY,STARTTLS")
      let resOK := e.result == result || (e.result == "either" && (result == "client" || result == "error"))
      let tlsOK := e.tlscmds == tlscmds || (e.tlscmds == "*" && (tlscmds == "-" || tlscmds == "CAPABILITY"))
      let agree := !unmod && resOK && e.delivered == delivered && e.caps == caps && e.noop == noop &&
        plainOK && (e.wire == "*" || tlsFramedPrefix cafter) && tlsOK && (end_ == "ok" || end_ == "hang13")
      let obs : CliObs := {
        greet := greet, reply := reply, pre := pre, suffix := suffix, tlsScript := script,
        result := if result == "client" then .client else .error,
        delivered := (if delivered = "-" then [] else splitOnChar delivered ';').map fun s =>
          match s.toList with
          | 'E' :: r => (natOfDigits? r).getD 0
          | _ => 0,
        caps := if caps = "-" || caps = "nil" then none else some (capsOfStr caps),
        noopOK := noop == "ok" }
      let delKnown := (if delivered = "-" then [] else splitOnChar delivered ';').all fun s => s.toList.head? == some 'E'
      let orc :=
        if end_ == "timeout" && greet == "preauth" then "fail:preauth-refusal-never-returns"
        else if end_ == "timeout" then "fail:timeout"
        else if !delKnown then "fail:injected-plaintext-delivered"
        else match cliOracle obs with
        | none => "ok"
        | some c => "fail:" ++ c
      s!"{id}\t{boolStr agree}\t{orc}\t{showExpect e}"
    | _, _, _, _, _, _ => s!"{id}\t0\tfail:bad-line\t-"
  | _ => s!"{id}\t0\tfail:bad-line\t-"

def handle (f : List String) : String :=
  match f with
  | id :: "srv" :: rest => handleSrv id rest
  | id :: "cli" :: rest => handleCli .newStartTLS id rest
  | id :: "dial" :: rest => handleCli .dialStartTLS id rest
  | id :: _ => s!"{id}\t0\tfail:bad-line\t-"
  | [] => "?\t0\tfail:bad-line\t-"

end GoImap.DriveC17
