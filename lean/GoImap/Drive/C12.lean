import GoImap.Util
import GoImap.Model.ClientSM
import GoImap.Spec.ClientSM
namespace GoImap.DriveC12
open GoImap GoImap.ClientSM GoImap.ClientSpec

/-! case line: `id  tr  <events ;-separated>  <observations ;-separated, one per event>` -/

def digits? (s : String) : Option (List Nat) :=
  if s == "-" then some [] else
  s.toList.mapM fun c => if '0' ≤ c ∧ c ≤ '9' then some (c.toNat - 48) else none

def nums? (s : String) : Option (List Nat) :=
  if s == "-" || s.isEmpty then some [] else (splitOnChar s ',').mapM parseNat?

def parseKind? (s : String) : Option Kind :=
  match splitOnChar s '.' with
  | ["noop"] | ["create"] => some .plain
  | ["login"] | ["loginlit"] => some .login
  | ["sel", m] | ["exa", m] => (parseNat? m).map .select
  | ["unsel"] | ["close"] => some .unselect
  | ["list"] => some .list
  | ["stat", m] => (parseNat? m).map .status
  | ["srch"] => some (.search false false)
  | ["usrch"] => some (.search true false)
  | ["esrch"] => some (.search false true)
  | ["uesrch"] => some (.search true true)
  | ["fetch", set] | ["store", set] | ["sstore", set] | ["cstore", set] => (nums? set).map (.fetch false)
  | ["ufetch", set] | ["ustore", set] | ["usstore", set] | ["ucstore", set] => (nums? set).map (.fetch true)
  | ["expunge"] => some .expunge
  | ["cap"] => some .capability
  | ["append", _] => some .append
  | _ => none

def parseStatus? : String → Option Status
  | "ok" => some .ok
  | "no" => some .no
  | "bad" => some .bad
  | _ => none

def parseCode? (s : String) : Option Code :=
  match s.toList with
  | ['-'] => some .none
  | 'o' :: r => (natOfDigits? r).map .other
  | 'c' :: r => (nums? (String.ofList r)).map .caps
  | 'a' :: r =>
    match splitOnChar (String.ofList r) '.' with
    | [v, u] => do pure (.appendUid (← parseNat? v) (← parseNat? u))
    | _ => none
  | _ => none

/-- (event, auto-submitted by the client itself) -/
def parseEv? (s : String) : Option (Ev × Bool) :=
  match splitOnChar s ':' with
  | ["s", k] => (parseKind? k).map fun k => (.submit k, false)
  | ["b", k] => (parseKind? k).map fun k => (.begin k, false)
  | ["a", "cap"] => some (.submit .capability, true)
  | ["g", "ok"] => some (.greet .ok false, false)
  | ["g", "ok", "c"] => some (.greet .ok true, false)
  | ["g", "preauth"] => some (.greet .preauth false, false)
  | ["g", "preauth", "c"] => some (.greet .preauth true, false)
  | ["g", "bye"] => some (.greet .bye false, false)
  | ["+"] => some (.cont, false)
  | ["t", tag, st, code] => do pure (.tagged (← parseNat? tag) (← parseStatus? st) (← parseCode? code), false)
  | ["x", n] => (parseNat? n).map fun n => (.exists_ n, false)
  | ["r", n] => (parseNat? n).map fun n => (.recent n, false)
  | ["e", n] => (parseNat? n).map fun n => (.expunge n, false)
  | ["f", fs] => (digits? fs).map fun fs => (.flags fs, false)
  | ["p", fs] => (digits? fs).map fun fs => (.permFlags fs, false)
  | ["un", n] => (parseNat? n).map fun n => (.uidNext n, false)
  | ["uv", n] => (parseNat? n).map fun n => (.uidValidity n, false)
  | ["m", sq, uid, fs] | ["m", sq, uid, fs, _] => do pure (.fetch ⟨← parseNat? sq, ← parseNat? uid, ← digits? fs⟩, false)
  | ["c"] => some (.closedCode, false)
  | ["i", _] => some (.info, false)
  | ["y"] => some (.byeClose, false)
  | ["l", m] => (parseNat? m).map fun m => (.list m, false)
  | ["st", m, n] => do pure (.status (← parseNat? m) (← parseNat? n), false)
  | ["sr", ns] => (nums? ns).map fun ns => (.search ns, false)
  | ["es", tag, uid, ns] => do pure (.esearch (← parseNat? tag) (uid == "1") (← nums? ns), false)
  | ["cp", cs] => (nums? cs).map fun cs => (.capability cs, false)
  | _ => none

/-! ### rendering observations -/

def showState : ConnState → String
  | .none => "n" | .notAuth => "u" | .auth => "a" | .selected => "s" | .logout => "l"

def showDigits (l : List Nat) : String := if l.isEmpty then "-" else String.join (l.map toString)

def showMbox : Option Mbox → String
  | none => "-"
  | some mb => s!"{mb.name}.{mb.num}.{showDigits mb.flags}.{showDigits mb.perm}"

def showItems (l : List Nat) : String := if l.isEmpty then "-" else joinWith "_" (l.map toString)

def showMsg (m : Msg) : String := s!"{m.seq}u{m.uid}f{showDigits m.flags}"

def showData (k : Kind) (d : Data) : String :=
  match k with
  | .plain | .login | .unselect => "-"
  | .select _ => s!"n{d.num}f{showDigits d.flags}p{showDigits d.perm}v{d.uidValidity}x{d.uidNext}l{boolStr d.hasList}"
  | .list | .search _ _ | .expunge | .capability => showItems d.items
  | .status _ => match d.status with | some (m, n) => s!"{m}_{n}" | none => "-"
  | .fetch _ _ => if d.msgs.isEmpty then "-" else joinWith "_" (d.msgs.map showMsg)
  | .append => match d.appendUid with | some (v, u) => s!"{v}_{u}" | none => "-"

def showStatus : Status → String
  | .ok => "ok" | .no => "no" | .bad => "bad" | .closed => "cl"

def showDone (withData : Bool) (d : Done) : String :=
  let code := match d.status with | .no | .bad => d.code | _ => 0
  s!"{d.tag}.{showStatus d.status}.{code}" ++ (if withData then "." ++ showData d.kind d.data else "")

def insertByTag (d : Done) : List Done → List Done
  | [] => [d]
  | x :: xs => if d.tag ≤ x.tag then d :: x :: xs else x :: insertByTag d xs

def sortByTag (l : List Done) : List Done := l.foldr insertByTag []

def showDones (withData : Bool) (l : List Done) : String :=
  if l.isEmpty then "-" else joinWith "," ((sortByTag l).map (showDone withData))

def showUni : Uni → String
  | .exists_ n => s!"X{n}"
  | .flags fs => s!"F{showDigits fs}"
  | .perm fs => s!"P{showDigits fs}"
  | .expunge n => s!"E{n}"
  | .fetch m => "M" ++ showMsg m

def showUnis (l : List Uni) : String := if l.isEmpty then "-" else joinWith "," (l.map showUni)

def isSubmit : Ev → Bool
  | .submit _ | .begin _ => true
  | _ => false

/-- observation after one step: state / mailbox / newly completed / new unilateral data / tag written -/
def obsOf (state : ConnState) (mbox : Option Mbox) (newDone : List Done) (newUni : List Uni)
    (ev : Ev) (tag : Nat) : List String :=
  [showState state, showMbox mbox, showDones true newDone, showUnis newUni,
   if isSubmit ev then s!"w{tag}" else "-"]

/-- commands the client issued by itself (CAPABILITY after LOGIN/greeting) have no observer -/
def visible (auto : List Nat) (l : List Done) : List Done := l.filter fun d => !auto.contains d.tag

def modelObs (auto : List Nat) (st st' : St) (ev : Ev) : List String :=
  obsOf st'.state st'.mbox (visible auto (st'.done.drop st.done.length)) (st'.uni.drop st.uni.length) ev st'.tagCtr

def refObs (auto : List Nat) (r r' : RSt) (ev : Ev) : List String :=
  obsOf r'.state r'.mbox (visible auto (r'.done.drop r.done.length)) (r'.uni.drop r.uni.length) ev r'.next

/-- which clause of the property a differing component belongs to -/
def clauseOf (want got : List String) : Option String :=
  match want, got with
  | [s, m, d, u, w], [s', m', d', u', w'] =>
    if s != s' then some "state-not-mirrored"
    else if m != m' then some "mailbox-summary-not-mirrored"
    else if d != d' then
      -- same tags/status/code but other data = routing; otherwise completion
      let strip (x : String) : String := joinWith "," ((splitOnChar x ',').map fun e => joinWith "." ((splitOnChar e '.').take 3))
      if strip d == strip d' then some "data-routed-to-wrong-command" else some "completion-status-wrong"
    else if u != u' then some "unilateral-data-misrouted"
    else if w != w' then some "tag-on-wire"
    else none
  | _, _ => some "unparsable-observation"

/-- tags completed in an observation string -/
def doneTags (ob : String) : List String :=
  match splitOnChar ob '/' with
  | [_, _, d, _, _] => if d == "-" then [] else (splitOnChar d ',').map fun e => (splitOnChar e '.').headD ""
  | _ => []

def firstDup : List String → Option String
  | [] => none
  | x :: xs => if xs.contains x then some x else firstDup xs

structure Acc where
  st : St := {}
  r : RSt := {}
  conf : Bool := true          -- still inside the conformant prefix
  nconf : Nat := 0
  agree : Bool := true
  orc : Option String := none
  out : List String := []      -- model observations, reversed
  i : Nat := 1
  auto : List Nat := []

def stepCase (a : Acc) (x : (Ev × Bool) × String) : Acc :=
  let ((ev, auto), ob) := x
  -- model
  let st' := step a.st ev
  let desync := auto != a.st.wantCap
  let autos := if auto then st'.tagCtr :: a.auto else a.auto
  let mo := joinWith "/" (modelObs autos a.st st' ev)
  let mo := if desync then "!autocap " ++ mo else mo
  -- specification, on the conformant prefix only
  let ok := a.conf && okEv a.r ev
  let r' := rstep a.r ev
  let orc := match a.orc, ok with
    | some e, _ => some e
    | none, false => none
    | none, true => (clauseOf (refObs autos a.r r' ev) (splitOnChar ob '/')).map fun c => s!"{c}@step{a.i}"
  { st := st', r := r', conf := ok, nconf := if ok then a.nconf + 1 else a.nconf,
    agree := a.agree && mo == ob, orc := orc, out := mo :: a.out, i := a.i + 1, auto := autos }

def runCase (evs : List (Ev × Bool)) (obs : List String) : String × Bool × String :=
  if evs.length != obs.length then ("-", false, "fail:observation-count") else
  let a := (evs.zip obs).foldl stepCase {}
  let orc := match a.orc with
    | some e => "fail:" ++ e
    | none =>
      -- exactly once, over the whole conformant prefix
      match firstDup ((obs.take a.nconf).flatMap doneTags) with
      | some t => s!"fail:command-completed-twice@tag{t}"
      | none => "ok"
  (s!"conf={a.nconf}/{evs.length} " ++ joinWith ";" a.out.reverse, a.agree, orc)

def handle (f : List String) : String :=
  match f with
  | [id, "tr", evs, obs] =>
    match (splitOnChar evs ';').mapM parseEv? with
    | some es =>
      let (m, agree, orc) := runCase es (splitOnChar obs ';')
      s!"{id}\t{boolStr agree}\t{orc}\t{m}"
    | none => s!"{id}\t0\tfail:bad-line\t-"
  | [id, "skipped", _] => s!"{id}\t1\tok\tskipped"   -- not run: enough confirmed hangs (see c12.go)
  | id :: _ => s!"{id}\t0\tfail:bad-line\t-"
  | [] => "?\t0\tfail:bad-line\t-"

end GoImap.DriveC12
