import GoImap.Util
import GoImap.Model.ClientConc
import GoImap.Spec.ClientConc
namespace GoImap.DriveC13
open GoImap GoImap.ClientConc

/-! ### scenario syntax:  subs|closes|observer|server   e.g.  NF/L|1|021|Ro.P.X -/

def kindChar : Kind → Char
  | .noop => 'N' | .fetch => 'F' | .login => 'L' | .append => 'A'
  | .search => 'S' | .enable => 'E' | .idle => 'I' | .login2 => 'M'

def kindOfChar? : Char → Option Kind
  | 'N' => some .noop | 'F' => some .fetch | 'L' => some .login | 'A' => some .append
  | 'S' => some .search | 'E' => some .enable | 'I' => some .idle | 'M' => some .login2 | _ => none

def kindName : Kind → String
  | .noop => "NOOP" | .fetch => "FETCH" | .login => "LOGIN" | .append => "APPEND"
  | .search => "SEARCH" | .enable => "ENABLE" | .idle => "IDLE" | .login2 => "LOGIN"

def showAct : SrvAct → String
  | .reply .ok true => "Ro" | .reply .ok false => "Rn"
  | .reply .no true => "No" | .reply .no false => "Nn"
  | .cont => "P" | .enabled => "E" | .close => "X" | .rerr => "Z"

def actOf? : String → Option SrvAct
  | "Ro" => some (.reply .ok true) | "Rn" => some (.reply .ok false)
  | "No" => some (.reply .no true) | "Nn" => some (.reply .no false)
  | "P" => some .cont | "E" => some .enabled | "X" => some .close | "Z" => some .rerr
  | _ => none

def dashIfEmpty (s : String) : String := if s.isEmpty then "-" else s

def showScenario (sc : Scenario) : String :=
  joinWith "/" (sc.subs.map fun ks => String.ofList (ks.map kindChar)) ++ "|" ++ toString sc.closes ++ "|" ++
  dashIfEmpty (String.ofList (sc.observer.map fun n => Char.ofNat (48 + n))) ++ "|" ++
  dashIfEmpty (joinWith "." (sc.server.map showAct))

def parseScenario? (s : String) : Option Scenario :=
  match splitOnChar s '|' with
  | [subs, closes, obs, srv] => do
    let subs ← (splitOnChar subs '/').mapM fun w => w.toList.mapM kindOfChar?
    let closes ← parseNat? closes
    let obs ← (if obs = "-" then some [] else obs.toList.mapM fun ch =>
      if '0' ≤ ch ∧ ch ≤ '2' then some (ch.toNat - 48) else none)
    let srv ← (if srv = "-" then some [] else (splitOnChar srv '.').mapM actOf?)
    if subs.length > 3 then none else
    pure { subs := subs, closes := closes, observer := obs, server := srv }
  | _ => none

/-! ### rendering of what the model observes -/

def wireTok (s : St) (e : Nat × WireKind) : String :=
  let r := s.cmd e.1
  match e.2 with
  | .line => s!"{e.1}:T{r.ltag}:{kindName r.kind}"
  | .head => s!"{e.1}:T{r.ltag}:{kindName r.kind}:lit"
  | .head2 => s!"{e.1}:lit2"
  | .tail => s!"{e.1}:tail"
  | .done => s!"{e.1}:DONE"

def resName : Res → String
  | .none => "ok" | .ok => "ok" | .no => "no" | .err => "err"

def resultOf (sc : Scenario) (s : St) (c : Nat) : String :=
  let r := s.cmd c
  if r.idleErrReturned then "err"
  else if r.waited then (if r.sent ≥ 1 then resName r.res else "ok")
  else if (threads sc).any fun t => (s.prog t).contains (.wait c) then "hang" else "skip"

def showResults (sc : Scenario) (s : St) : String :=
  dashIfEmpty (joinWith "," ((List.range (numCmds sc)).map fun c => s!"{c}={resultOf sc s c}"))

def showNats (l : List Nat) : String := dashIfEmpty (joinWith "," (l.map toString))

def showCloses (s : St) : String :=
  showNats (s.closeRes ++ (if (s.prog tCloser).contains .closeJoin then [9] else []))

def showWire (s : St) : String := dashIfEmpty (joinWith "." (s.wire.map (wireTok s)))

/-! ### running a schedule, collecting labels -/

def lineBytes : Line → String
  | .tagged tag .ok true => s!"T{tag} OK [CAPABILITY IMAP4rev1 IDLE] done\r\n"
  | .tagged tag .ok false => s!"T{tag} OK done\r\n"
  | .tagged tag .no _ => s!"T{tag} NO nope\r\n"
  | .cont => "+ go\r\n"
  | .enabled => "* ENABLED UTF8=ACCEPT\r\n"

/-- the harness-side description of the step thread `t` is about to take -/
def entryLabel (v : Variant) (s s' : St) (t : Nat) : String :=
  if t ≥ 100 then "Client.WaitGreeting:select#1" else
  match s.prog t with
  | [] => "?"
  | .srv a :: _ =>
    if s'.inbox.length > s.inbox.length then
      match s'.inbox.getLast? with
      | some l => "srv=" ++ hexEncode (strBytes (lineBytes l))
      | none => "srv=drop"
    else match a with
      | .close => "srv=close"
      | .rerr => "srv=rerr"
      | _ => "srv=drop"
  | i :: _ => (labelAt v s i).getD "-"

structure Trace where
  s : St
  entries : List String := []   -- reversed
  bad : Option String := none
  n : Nat := 0

def runTrace (v : Variant) (s0 : St) (tids : List Nat) : Trace :=
  tids.foldl (fun tr t =>
    let ok := enabled v tr.s t
    let s' := step v tr.s t
    { s := s', entries := s!"{t}:{entryLabel v tr.s s' t}" :: tr.entries,
      bad := match tr.bad with
        | some b => some b
        | none => if ok then none else some s!"disabled@{tr.n}:{t}",
      n := tr.n + 1 }) { s := s0 }

/-! ### the schedule generator: a biased random walk of the repaired model -/

def lcg (x : Nat) : Nat := (x * 6364136223846793005 + 1442695040888963407) % 18446744073709551616
def rnd (x n : Nat) : Nat := if n = 0 then 0 else (x / 4294967296) % n

def pickW {α} (x : Nat) (l : List (α × Nat)) : Option α :=
  let total := (l.map (·.2)).foldl (· + ·) 0
  if total = 0 then none else
  let r := rnd x total
  let rec go (l : List (α × Nat)) (r : Nat) : Option α :=
    match l with
    | [] => none
    | (a, w) :: rest => if r < w then some a else go rest (r - w)
  go l r

def kindWeights : List (Kind × Nat) :=
  [(.noop, 3), (.fetch, 2), (.login, 2), (.login2, 2), (.append, 2), (.search, 1), (.enable, 1), (.idle, 2)]

def genKinds (x : Nat) (n : Nat) : List Kind × Nat :=
  (List.range n).foldl (fun (acc : List Kind × Nat) _ =>
    let x := lcg acc.2
    ((pickW x kindWeights).getD .noop :: acc.1, x)) ([], x)

def genScenario (x : Nat) : Scenario × Nat :=
  let x := lcg x
  let nsub := 1 + rnd x 3
  let (subs, x) := (List.range nsub).foldl (fun (acc : List (List Kind) × Nat) _ =>
    let x := lcg acc.2
    let (ks, x) := genKinds x (1 + rnd x 2)
    (ks :: acc.1, x)) ([], x)
  let x := lcg x
  let closes := [0, 0, 1, 1, 2].getD (rnd x 5) 0
  let x := lcg x
  let nobs := rnd x 4
  let (obs, x) := (List.range nobs).foldl (fun (acc : List Nat × Nat) _ =>
    let x := lcg acc.2
    (rnd x 3 :: acc.1, x)) ([], x)
  ({ subs := subs, closes := closes, observer := obs, server := [] }, x)

def silentHead (s : St) (t : Nat) : Bool :=
  match s.prog t with
  | i :: _ => (match i with | .srv _ => false | _ => (labelAt fixed s i).isNone)
  | [] => false

def silentHeadV (v : Variant) (s : St) (t : Nat) : Bool :=
  match s.prog t with
  | i :: _ => (match i with | .srv _ => false | _ => (labelAt v s i).isNone)
  | [] => false

/-- a submission is under way: some thread holds encMutex or sits between registering a command
    and sending it -/
def midSubmission (s : St) : Bool := s.enc.isSome

inductive Choice | thread (t : Nat) | server (a : SrvAct)

def pushSrv (s : St) (a : SrvAct) : St := s.setProg tServer (s.prog tServer ++ [.srv a])

def srvApplicable (s : St) (a : SrvAct) : Bool :=
  !s.srvClosed && match a with
    | .reply _ _ => !(unanswered s).isEmpty
    | .cont => !(openHeads s).isEmpty
    | _ => true

structure Walk where
  v : Variant := fixed
  s : St
  sc : Scenario
  tids : List Nat := []   -- reversed
  x : Nat
  enabledSent : Nat := 0

def Walk.take (w : Walk) (c : Choice) : Walk :=
  match c with
  | .thread t => { w with s := step w.v w.s t, tids := t :: w.tids }
  | .server a =>
    let s := pushSrv w.s a
    { w with s := step w.v s tServer, tids := tServer :: w.tids,
             sc := { w.sc with server := w.sc.server ++ [a] },
             enabledSent := w.enabledSent + (if a = .enabled then 1 else 0) }

/-- one step of the random walk. `closeAt`: step count from which the connection may die;
    `how`: 0 = server closes, 1 = read error, 2 = nothing dies before the drain -/
def walkStep (w : Walk) (stepNo closeAt how : Nat) : Option Walk :=
  let ths := threads w.sc
  match ths.find? (fun t => silentHead w.s t && enabled fixed w.s t) with
  | some t => some (w.take (.thread t))
  | none =>
    let x := lcg w.x
    let w := { w with x := x }
    let mid := midSubmission w.s
    let thr : List (Choice × Nat) := (ths.filter fun t => t ≠ tServer && enabled fixed w.s t).map fun t =>
      (Choice.thread t,
       if t = tReader then 4
       else if t = tCloser then (if stepNo ≥ closeAt then (if mid then 8 else 4) else 0)
       else 3)
    let srvc : List (Choice × Nat) :=
      ([(.reply .ok true, 5), (.reply .ok false, 1), (.reply .no true, 2), (.reply .no false, 1), (.cont, 6)].filter
          fun aw => srvApplicable w.s aw.1).map (fun aw => (Choice.server aw.1, aw.2)) ++
      (if w.enabledSent < 1 && !w.s.srvClosed && (onWire w.s.wire).any (fun c => (w.s.cmd c).kind = .enable)
       then [(Choice.server .enabled, 2)] else []) ++
      (if stepNo ≥ closeAt && !w.s.srvClosed && !w.s.rerr then
         (if how = 0 then [(Choice.server .close, if mid then 8 else 3)]
          else if how = 1 then [(Choice.server .rerr, if mid then 8 else 3)] else [])
       else [])
    (pickW x (thr ++ srvc)).map w.take

/-- drive the run to quiescence: lowest enabled thread first; when nothing can move the server
    answers, continues or finally closes -/
def drainStep (w : Walk) : Option Walk :=
  let ths := threads w.sc
  match ths.find? (fun t => silentHeadV w.v w.s t && enabled w.v w.s t) with
  | some t => some (w.take (.thread t))
  | none =>
  match ths.find? (fun t => t ≠ tServer && enabled w.v w.s t) with
  | some t => some (w.take (.thread t))
  | none =>
    if quiescent w.sc w.s then none
    else if srvApplicable w.s .cont then some (w.take (.server .cont))
    else if srvApplicable w.s (.reply .ok true) then some (w.take (.server (.reply .ok true)))
    else if !w.s.srvClosed then some (w.take (.server .close))
    else none

def loopN (f : Walk → Nat → Option Walk) : Nat → Nat → Walk → Walk
  | 0, _, w => w
  | fuel + 1, i, w => match f w i with
    | none => w
    | some w' => loopN f fuel (i + 1) w'

def generate (seed : Nat) : Walk :=
  let (sc, x) := genScenario (lcg (seed + 77))
  let x := lcg x
  let closeAt := rnd x 70
  let x := lcg x
  let how := rnd x 3
  let x := lcg x
  let len := 20 + rnd x 140
  let w : Walk := { s := init fixed sc, sc := sc, x := x }
  let w := loopN (fun w i => walkStep w i closeAt how) len 0 w
  loopN (fun w _ => drainStep w) 600 0 w

/-- complete a given prefix (thread ids; server steps need their action in the scenario) to
    quiescence -/
def completePrefix (v : Variant) (sc : Scenario) (pre : List Nat) : Walk :=
  let s := run v (init v sc) pre
  -- server actions of the scenario that the prefix did not execute are dropped
  let done := sc.server.length - (s.prog tServer).length
  let sc := { sc with server := sc.server.take done }
  let s := s.setProg tServer []
  let w : Walk := { v := v, s := s, sc := sc, tids := pre.reverse, x := 1 }
  loopN (fun w _ => drainStep w) 600 0 w

def showGen (w : Walk) : String :=
  let tids := w.tids.reverse
  let tr := runTrace w.v (init w.v w.sc) tids
  let fin := if quiescent w.sc tr.s then "quiescent" else "open"
  joinWith ";" [showScenario w.sc, joinWith "," (tids.map toString), joinWith "," tr.entries.reverse,
                joinWith "," parkLabels, fin ++ (match tr.bad with | none => "" | some b => ":" ++ b)]

/-! ### verdict on one deterministic run -/

def parseEvents? (s : String) : Option (List ClientConcSpec.Ev) :=
  if s = "-" then some [] else
  (splitOnChar s '.').mapM fun e =>
    match e.toList with
    | ['p'] => some .cont
    | 'h' :: r => (natOfDigits? r).map .head
    | 'r' :: r => (natOfDigits? r).map .resumed
    | 'a' :: r => (natOfDigits? r).map .answered
    | _ => none

def tagOfTok (tok : String) : Option Nat :=
  match splitOnChar tok ':' with
  | _ :: t :: _ :: _ => (match t.toList with | 'T' :: r => natOfDigits? r | _ => none)
  | _ => none

def resCode : String → Option Nat
  | "hang" => some 0 | "ok" => some 1 | "no" => some 2 | "err" => some 3 | _ => none

def parseResults (s : String) : List (Nat × Nat) :=
  if s = "-" then [] else
  (splitOnChar s ',').filterMap fun e =>
    match splitOnChar e '=' with
    | [c, r] => do pure ((← parseNat? c), (← resCode r))
    | _ => none

def parseNats (s : String) : List Nat :=
  if s = "-" then [] else (splitOnChar s ',').filterMap parseNat?

def implObs (wire results closes crashed events : String) : Option ClientConcSpec.Obs := do
  let ev ← parseEvents? events
  let toks := if wire = "-" then [] else splitOnChar wire '.'
  pure { tags := toks.filterMap tagOfTok, results := parseResults results, closes := parseNats closes,
         crashed := crashed != "0", events := ev }

def handleDet (id sc tids run wire results closes obs crashed unmodelled events : String) : String :=
  match parseScenario? sc, (if tids = "-" then some [] else (splitOnChar tids ',').mapM parseNat?) with
  | some sc, some tids =>
    let tr := runTrace fixed (init fixed sc) tids
    let s := tr.s
    let mrun := match tr.bad with
      | some b => b
      | none =>
        -- the hypothesis of complete_exactly_once: when every thread is through, nothing is queued
        if quiescent sc s then (if s.pending.isEmpty then "done" else "done-but-pending") else "open"
    let unm := if unmodelled = "-" then [] else splitOnChar unmodelled ','
    let strange := unm.filter fun l => !passLabels.contains l && !parkLabels.contains l
    let model := joinWith " " [s!"run={mrun}", showWire s, showResults sc s, showCloses s, showNats s.obs,
                              boolStr s.crashed, "labels=" ++ joinWith "," tr.entries.reverse]
    let agree := run == "done" && mrun == "done" && wire == showWire s && results == showResults sc s &&
                 closes == showCloses s && obs == showNats s.obs && crashed == boolStr s.crashed && strange.isEmpty
    let orc := match implObs wire results closes crashed events with
      | none => "fail:bad-observation"
      | some o => match ClientConcSpec.violation o with
        | none => "ok"
        | some v => "fail:" ++ v
    let why := if strange.isEmpty then "" else " unknown-labels=" ++ joinWith "," strange
    s!"{id}\t{boolStr agree}\t{orc}\t{model}{why}"
  | _, _ => s!"{id}\t0\tfail:bad-line\t-"

def variantOf? : String → Option Variant
  | "fixed" => some fixed
  | "f21" => some Legacy.f21
  | "f26idle" => some Legacy.f26idle
  | "f26reorderOnly" => some Legacy.f26reorderOnly
  | "lateContReq" => some Legacy.lateContReq
  | "f26enabled" => some Legacy.f26enabled
  | _ => none

/-- a schedule of an unrepaired (`Legacy`) model driven against the tree: no correspondence claim
    (on the repaired tree it is expected to be infeasible or harmless); only the oracle speaks -/
def handleProbe (id vn sc tids run wire results closes _obs crashed _unmodelled events : String) : String :=
  match variantOf? vn, parseScenario? sc, (if tids = "-" then some [] else (splitOnChar tids ',').mapM parseNat?) with
  | some v, some sc, some tids =>
    let s := (runTrace v (init v sc) tids).s
    let orc := match implObs wire results closes crashed events with
      | none => "fail:bad-observation"
      | some o => match ClientConcSpec.violation o with
        | none => "ok"
        | some x => "fail:" ++ x
    s!"{id}\t1\t{orc}\tlegacy-model({vn}): {showWire s} {showResults sc s} impl-run={run}"
  | _, _, _ => s!"{id}\t0\tfail:bad-line\t-"

/-- OS-scheduled run under the race detector: the model's prediction is always the property
    itself (no race report, everything completes, Close returns) -/
def handleRace (id outcome : String) : String :=
  let orc := if outcome == "clean" then "ok" else "fail:" ++ outcome
  s!"{id}\t{boolStr (outcome == "clean")}\t{orc}\tclean"

def handle (f : List String) : String :=
  match f with
  | [id, "gen", seed] =>
    match parseNat? seed with
    | some n => s!"{id}\t1\tok\t{showGen (generate n)}"
    | none => s!"{id}\t0\tfail:bad-line\t-"
  | [id, "complete", sc, pre] =>
    match parseScenario? sc, (if pre = "-" then some [] else (splitOnChar pre ',').mapM parseNat?) with
    | some sc, some pre => s!"{id}\t1\tok\t{showGen (completePrefix fixed sc pre)}"
    | _, _ => s!"{id}\t0\tfail:bad-line\t-"
  | [id, "probegen", vn, sc, pre] =>
    match variantOf? vn, parseScenario? sc, (if pre = "-" then some [] else (splitOnChar pre ',').mapM parseNat?) with
    | some v, some sc, some pre => s!"{id}\t1\tok\t{showGen (completePrefix v sc pre)}"
    | _, _, _ => s!"{id}\t0\tfail:bad-line\t-"
  | [id, "probe", vn, sc, tids, run, wire, results, closes, obs, crashed, unmodelled, events] =>
    handleProbe id vn sc tids run wire results closes obs crashed unmodelled events
  | [id, "det", sc, tids, run, wire, results, closes, obs, crashed, unmodelled, events] =>
    handleDet id sc tids run wire results closes obs crashed unmodelled events
  | id :: "race" :: _workload :: outcome :: _ => handleRace id outcome
  | [id, "build", what, outcome] =>
    -- the instrumented / race build of the harness against the working tree: a tree that cannot be
    -- instrumented or built cannot be tied to the model (correspondence break, not a verdict)
    s!"{id}\t{boolStr (outcome == "ok")}\tok\t{what}=ok"
  | id :: _ => s!"{id}\t0\tfail:bad-line\t-"
  | [] => "?\t0\tfail:bad-line\t-"

end GoImap.DriveC13
