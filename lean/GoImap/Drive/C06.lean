import GoImap.Drive.C04
/-
  Driver for C06 (the server survives arbitrary input and disconnects).  Case lines:

    id  cut|gen|mut|junk  lit  preauth  cut  delivered(hex)  trace  end  calls  closes  panics  drained  maxArg  idleLeft
    id  gone   (same fields; the client end was closed before the greeting could be written)
    id  depth  shape  n  result  closes  panics  drained
    id  leak   goroutines-before  goroutines-with-servers  excess-after  tracked-connections

  The model is the one of C04 (`Framing.serve` on the delivered octets: the client closes where the
  stream ends).  The oracle judges what the implementation did: no panic in the server log, the
  session closed exactly once, the connection forgotten by the server, no literal over 4096 octets
  handed to a non-APPEND session call, no APPEND over the limit accepted, survival of the depth
  probes, nothing left behind at the end of the run.
-/
namespace GoImap.DriveC06
open GoImap GoImap.DriveC04

abbrev NBytes := List Nat

def stripOff (l : List String) : List String := l.map fun x => if x.startsWith "+" then "+" else x

def appendName : NBytes := [65, 80, 80, 69, 78, 68]

def frameName (f : FramingSpec.Frame) : NBytes :=
  match f.texts with
  | t :: _ => FramingSpec.nameOf t
  | [] => []

def oracle (delivered : NBytes) (w : Wire) (endi : String) (calls : List String) (closes panics drained idle : String) : String :=
  let conts := w.replies.filterMap fun (p, r) => if r == .cont then some p else none
  let fs := FramingSpec.frame (fun p => conts.contains p) delivered
  if panics != "0" then "fail:server-panicked"
  else if endi == "t" then "fail:server-neither-waiting-nor-closed"
  else if closes != "1" then s!"fail:session-closed-{closes}-times"
  else if drained != "1" then "fail:connection-still-tracked-after-close"
  else if idle != "0" then s!"fail:session-idle-still-running-after-close@{idle}"
  else
    -- a literal is buffered in memory only if it is at most 4096 octets
    let nonAppend := calls.filter fun c => !c.startsWith "Append:"
    let big := (callArgs nonAppend).filter fun v => v.length > 4096
    if big.any (fun v => fs.any fun f => f.lits.any fun l => l.sent == v) then "fail:literal-over-4096-buffered"
    else
      -- an APPEND over the limit is refused before its payload is read
      -- judged on the MESSAGE literal only (the literal after the mailbox and the optional flag list /
      -- date: not the first argument), and only in the strict domain, where the faithful client waited at
      -- that literal so that a "+" received at its offset answers it
      let strict := fs.all (·.strict)
      let isMsgLit := fun (f : FramingSpec.Frame) =>
        f.lits.length ≥ 2 ||
          (match f.texts with
           | t :: _ => ((splitOnChar (bytesAscii (t.map UInt8.ofNat)) ' ').filter (· != "")).length ≥ 4
           | [] => false)
      let over := fs.filter fun f => frameName f == appendName && isMsgLit f &&
        (match f.lits.getLast? with | some l => l.size > 104857600 | none => false)
      if strict && over.any (fun f => match f.lits.getLast? with | some l => !l.nonSync && conts.contains l.off | none => false)
      then "fail:append-over-limit-accepted"
      else
        let okAppends := (fs.filter fun f => frameName f == appendName &&
          (match f.lits.getLast? with | some l => l.size ≤ 104857600 || !isMsgLit f | none => false)).length
        let appendCalls := (calls.filter fun c => c.startsWith "Append:").length
        if fs.all (·.strict) && appendCalls > okAppends then "fail:append-over-limit-executed"
        else
          -- … and the refusal does not wait for the payload: an over-limit literal whose octets have
          -- not (all) arrived must already have its tagged reply
          let tags := w.replies.filterMap fun (_, r) => match r with | .tagged t _ => some t | _ => none
          -- (judged when the server was still waiting at the end: once it has closed the connection,
          -- later commands are simply not reached)
          if endi == "w" && fs.all (·.strict) && over.any (fun f => !f.complete &&
              (match f.tag with | some t => !tags.contains t | none => false)) then
            "fail:append-over-limit-not-refused-before-payload"
          else "ok"

def probe (shape : String) (n : Nat) : NBytes :=
  let rep (s : String) : NBytes := ((List.replicate n (Framing.strBytes s)).flatten)
  let all := Framing.strBytes "ALL"
  let body :=
    if shape == "paren" then rep "(" ++ all ++ rep ")"
    else if shape == "not" then rep "NOT " ++ all
    else if shape == "or" then rep "OR " ++ all ++ rep " ALL"
    else if shape == "notlistnot" then rep "NOT " ++ Framing.strBytes "(" ++ rep "NOT " ++ all ++ Framing.strBytes ")"
    else if shape == "orlistor" then rep "OR ALL " ++ Framing.strBytes "(" ++ rep "OR ALL " ++ all ++ Framing.strBytes ")"
    else if shape == "notlists" then
      let unit := rep "NOT " ++ Framing.strBytes "("
      unit ++ unit ++ unit ++ rep "NOT " ++ all ++ Framing.strBytes ")))"
    else rep "NOT (" ++ all ++ rep ")"
  Framing.strBytes "s SELECT m\r\n" ++ Framing.strBytes "d SEARCH " ++ body ++ [13, 10]

/-- how deeply the probe nests keys (NOT / OR operands and parenthesised lists together), from its
    shape alone -/
def probeNesting (shape : String) (n : Nat) : Nat :=
  if shape == "notparen" then 2 * n
  else if shape == "notlistnot" || shape == "orlistor" then 2 * n + 1
  else if shape == "notlists" then 4 * n + 3
  else n

/-- the server bounds NOT/OR nesting and list nesting by 1000 each; whatever the shape, a command
    nested 2000 deep or more can therefore never be accepted ("list nesting is bounded": the limits
    add up, they do not multiply) -/
def nestingBound : Nat := 2000

def handle (f : List String) : String :=
  match f with
  | [id, "depth", shape, n, res, closes, panics, drained] =>
    match parseNat? n with
    | none => s!"{id}\t0\tfail:bad-line\t-"
    | some n =>
      let evs := Framing.serve { plus := false, preauth := true } (probe shape n)
      let cls := evs.findSome? fun e => match e with
        | .tagged t c => if t == [100] then some (mClsStr c) else none
        | _ => none
      let m := cls.getD "noreply"
      let orc :=
        if res == "crash" then "fail:process-died(stack-overflow)"
        else if res == "timeout" then "fail:probe-did-not-finish"
        else if res == "noreply" then "fail:probe-not-answered"
        else if panics != "0" then "fail:server-panicked"
        else if closes != "1" then s!"fail:session-closed-{closes}-times"
        else if drained != "1" then "fail:connection-still-tracked-after-close"
        else if res == "OK" && probeNesting shape n ≥ nestingBound then
          s!"fail:nesting-not-bounded@{probeNesting shape n}"
        else "ok"
      let depth := evs.foldl (fun m e => match e with | .depthAt k => max m k | _ => m) 0
      s!"{id}\t{boolStr (m == res)}\t{orc}\t{m} depth={depth}"
  | [id, "leak", _, _, excess, conns] =>
    let orc := if conns != "0" then s!"fail:connections-still-tracked@{conns}"
               else if excess != "0" && !excess.startsWith "-" then s!"fail:goroutines-left-behind@{excess}"
               else "ok"
    s!"{id}\t1\t{orc}\t-"
  | [id, "gone", _, _, _, _, _, _, _, closes, panics, drained, _, idle] =>
    -- the client end was closed before the greeting: only the clean-up is judged (the model has
    -- no failing greeting write)
    let orc :=
      if panics != "0" then "fail:server-panicked"
      else if closes != "1" then s!"fail:session-closed-{closes}-times"
      else if drained != "1" then "fail:connection-still-tracked-after-close"
      else if idle != "0" then s!"fail:session-idle-still-running-after-close@{idle}"
      else "ok"
    s!"{id}\t1\t{orc}\t-"
  | [id, _kind, lit, preauth, _cut, delivered, trace, endi, calls, closes, panics, drained, _maxArg, idle] =>
    match hexNat? delivered, parseTrace? trace with
    | some inp, some bs =>
      let w := wireOf bs
      let implWire := stripOff (showImpl w)
      let implCalls := if calls == "-" then [] else splitOnChar calls ';'
      let m := modelOut (Framing.serve (cfgOf lit preauth) inp)
      let ag := agree { m with wire := stripOff m.wire } implWire endi implCalls
      let orc := oracle inp w endi implCalls closes panics drained idle
      s!"{id}\t{boolStr ag}\t{orc}\t{joinWith " " m.wire} end={m.endm} calls={joinWith ";" m.calls}"
    | _, _ => s!"{id}\t0\tfail:bad-line\t-"
  | id :: _ => s!"{id}\t0\tfail:bad-line\t-"
  | [] => "?\t0\tfail:bad-line\t-"

end GoImap.DriveC06
