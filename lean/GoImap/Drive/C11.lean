import GoImap.Model.ClientParse
import GoImap.Spec.ClientParse
namespace GoImap.DriveC11
open GoImap GoImap.ClientParse

/-- template: segments joined by '+':  h<hex>  |  r<count>x<hex> -/
def expandSeg (seg : String) : Option Bytes :=
  match seg.toList with
  | 'h' :: r => hexDecode? (String.ofList r)
  | 'r' :: r =>
    match splitOnChar (String.ofList r) 'x' with
    | [n, h] => do
      let n ← parseNat? n
      let b ← hexDecode? h
      pure ((List.replicate n b).flatten)
    | _ => none
  | _ => none

def expand (t : String) : Option Bytes :=
  ((splitOnChar t '+').mapM expandSeg).map List.flatten

structure Spec where
  raw : Bool
  /-- no unilateral data handler installed: unilateral data is not observed -/
  noh : Bool
  tag : String
  kind : Kind
  cmdKind : String

def stripPrefix (s pre : String) : Option String :=
  if s.startsWith pre then some (s.drop pre.length).toString else none

/-- `[raw+][noh+][sel+]name[:arg]` -/
def parseSpec (s : String) : Option Spec :=
  let (raw, s) := match stripPrefix s "raw+" with | some r => (true, r) | none => (false, s)
  let (noh, s) := match stripPrefix s "noh+" with | some r => (true, r) | none => (false, s)
  let (tag, s) := match stripPrefix s "sel+" with | some r => ("T2", r) | none => ("T1", s)
  let (name, arg) := match splitOnChar s ':' with
    | [] => ("", "")
    | n :: rest => (n, joinWith ":" rest)
  let (uid, base) := match stripPrefix name "uid" with | some b => (true, b) | none => (false, name)
  let mk (k : Kind) : Option Spec := some { raw := raw, noh := noh, tag := tag, kind := k, cmdKind := base }
  match base with
  | "search" | "esearch" => some { raw := raw, noh := noh, tag := tag, kind := .search uid, cmdKind := "search" }
  | "sort" => mk .sort
  | "thread" => mk .thread
  | "fetch" =>
    match NumSet.parseSet (if arg.isEmpty then "1:*" else arg).toList with
    | some set => mk (.fetch uid set)
    | none => none
  | "copy" => mk .copy
  | "move" => mk .move
  | "append" => mk .append
  | "expunge" => mk .expunge
  | _ => mk .other

def decStr : DecClass → String
  | .none => "none" | .err => "err" | .panic => "panic" | .unmod => "unmod" | .nofuel => "nofuel"

def handleStream (id kind spec tmpl obs : String) : String :=
  match parseSpec spec, expand tmpl with
  | some sp, some stream =>
    let tag := strB sp.tag
    -- the model
    let (modelled, mstr) :=
      if sp.raw then (false, "unmodelled:raw")
      else
        let o := clientParse {} tag sp.kind stream
        match o.dec with
        | .unmod => (false, "unmodelled")
        | .nofuel => (true, "model-out-of-fuel")
        | _ => (true, s!"{o.cmd}|{decStr o.dec}|{o.data}|{if sp.noh then "-" else o.uni}")
    if obs == "crash" then s!"{id}\t{boolStr (!modelled)}\tfail:process-fatal\t{mstr.take 300}"
    else if obs == "timeout" then s!"{id}\t{boolStr (!modelled)}\tfail:no-termination\t{mstr.take 300}"
    else
    match splitOnChar obs '|' with
    | [cmd, dec, data, uni, acc, z, dyn, dep, card, neg] =>
      match parseNat? dep, parseNat? card with
      | some dep, some card =>
        let io : ClientParseSpec.ImplObs := { cmd := cmd, dec := dec, acc := acc, zero := z == "1", dyn := dyn == "1", depth := dep, card := card, neg := neg == "1" }
        let agree := !modelled || mstr == s!"{cmd}|{dec}|{data}|{uni}"
        let orc := match ClientParseSpec.judge kind sp.cmdKind tag stream io with
          | none => "ok"
          | some e => "fail:" ++ e
        s!"{id}\t{boolStr agree}\t{orc}\t{if mstr.length > 400 then (mstr.take 400).toString ++ "…" else mstr}"
      | _, _ => s!"{id}\t0\tfail:bad-line\t-"
    | _ => s!"{id}\t0\tfail:bad-observation\t{mstr.take 200}"
  | _, _ => s!"{id}\t0\tfail:bad-line\t-"

def handleCost (id obs : String) : String :=
  if obs == "crash" then s!"{id}\t1\tfail:process-fatal\t-"
  else if obs == "timeout" then s!"{id}\t1\tfail:no-termination\t-"
  else
  match splitOnChar obs '|' with
  | [t1, t2, a1, a2, l1, l2, c1, c2] =>
    match parseNat? t1, parseNat? t2, parseNat? a1, parseNat? a2, parseNat? l1, parseNat? l2 with
    | some t1, some t2, some a1, some a2, some l1, some l2 =>
      -- the shapes are well-formed responses: the (repaired) client accepts them
      let agree := c1 == "ok/none" && c2 == "ok/none"
      let orc := match ClientParseSpec.judgeCost t1 t2 a1 a2 l1 l2 with
        | none => "ok"
        | some e => "fail:" ++ e
      s!"{id}\t{boolStr agree}\t{orc}\tok/none"
    | _, _, _, _, _, _ => s!"{id}\t0\tfail:bad-line\t-"
  | _ => s!"{id}\t0\tfail:bad-observation\t-"

def handle (f : List String) : String :=
  match f with
  | [id, "cost", _shape, _n, obs] => handleCost id obs
  | [id, kind, spec, tmpl, obs] => handleStream id kind spec tmpl obs
  | id :: _ => s!"{id}\t0\tfail:bad-line\t-"
  | [] => "?\t0\tfail:bad-line\t-"

end GoImap.DriveC11
