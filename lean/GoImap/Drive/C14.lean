import GoImap.Util
import GoImap.Model.Locks
import GoImap.Spec.Locks
/-
  Driver for C14. Case kinds (fields after the kind):
    run        mode seed sessions mailboxes commands counts(,) outcome detail(hex)
    graph      nclasses names(,) edges(a>b,...|-) acyclic-claimed(0/1) anomalies steps
    edge       from to count outer-site inner-site context(hex)
    anomaly    text(hex)
    realise    cycle(A>B>A) parties(hex) outcome(deadlock|not-realised) detail(hex)
    sweepstuck step(hex) outcome(deadlock|stuck|leak) detail(hex)
  For `run`, `realise`, `sweepstuck` nothing is computed: the line format is validated and the
  outcome is mapped to the property's verdict. For `graph` the model's `acyclicCheck` is run on the
  recorded edges and compared with what the harness claimed.
-/
namespace GoImap.DriveC14
open GoImap GoImap.Locks GoImap.LocksSpec

def parseEdges? (s : String) : Option (List (Nat × Nat)) :=
  if s = "-" then some [] else
  (splitOnChar s ',').mapM fun e =>
    match splitOnChar e '>' with
    | [a, b] => do pure ((← parseNat? a), (← parseNat? b))
    | _ => none

def isHex (s : String) : Bool := s = "-" || (hexDecode? s).isSome

def startsWithHex (s pre : String) : Bool := (hexEncode (strBytes pre)).isPrefixOf s

def handleRun (id : String) (f : List String) : String :=
  match f with
  | [mode, seed, ns, nm, nc, counts, outcome, detail] =>
    let cs := (splitOnChar counts ',').mapM parseNat?
    let okfmt := !mode.isEmpty && (parseNat? seed).isSome && (parseNat? nm).isSome && (parseNat? nc).isSome &&
      isHex detail &&
      (match parseNat? ns, cs with
       | some n, some l => l.length == n && 2 ≤ n && n ≤ 8
       | _, _ => false)
    match okfmt, runVerdict outcome with
    | true, some v =>
      -- a race report that only involves harness code is a defect of the harness, not a verdict
      if outcome = "race" && startsWithHex detail "HARNESS" then s!"{id}\t0\tok\tharness-race"
      else s!"{id}\t1\t{v}\t{outcome}"
    | _, _ => s!"{id}\t0\tfail:bad-line\t-"
  | _ => s!"{id}\t0\tfail:bad-line\t-"

def handleGraph (id : String) (f : List String) : String :=
  match f with
  | [n, names, edges, claim, anomalies, steps] =>
    match parseNat? n, parseEdges? edges, parseNat? anomalies, parseNat? steps with
    | some n, some es, some _, some st =>
      let closed := es.all fun e => e.1 < n && e.2 < n
      let model := acyclicCheck es
      let agree := closed && (splitOnChar names ',').length == n && 0 < st && claim = boolStr model
      s!"{id}\t{boolStr agree}\tok\tacyclic={boolStr model} rank={joinWith "." ((computeRank es).map toString)}"
    | _, _, _, _ => s!"{id}\t0\tfail:bad-line\t-"
  | _ => s!"{id}\t0\tfail:bad-line\t-"

def handle (f : List String) : String :=
  match f with
  | id :: "run" :: rest => handleRun id rest
  | id :: "graph" :: rest => handleGraph id rest
  | [id, "edge", a, b, cnt, _, _, ctx] =>
    if !a.isEmpty && !b.isEmpty && (parseNat? cnt).isSome && isHex ctx then s!"{id}\t1\tok\t{a}>{b}"
    else s!"{id}\t0\tfail:bad-line\t-"
  | [id, "anomaly", text] =>
    if startsWithHex text "self-deadlock" then s!"{id}\t1\tfail:deadlock@a-mutex-is-taken-again-by-its-holder\t-"
    else if isHex text then s!"{id}\t0\tok\tlock-use-outside-the-lock-program-model"
    else s!"{id}\t0\tfail:bad-line\t-"
  | [id, "realise", cycle, parties, outcome, detail] =>
    if !(isHex parties && isHex detail && !cycle.isEmpty) then s!"{id}\t0\tfail:bad-line\t-"
    else if outcome = "deadlock" then s!"{id}\t1\tfail:deadlock@{cycle}\t{outcome}"
    else if outcome = "not-realised" then s!"{id}\t1\tok\t{outcome}"
    else s!"{id}\t0\tfail:bad-line\t-"
  | [id, "sweepstuck", step, outcome, detail] =>
    if !(isHex step && isHex detail) then s!"{id}\t0\tfail:bad-line\t-"
    else if outcome = "deadlock" then s!"{id}\t1\tfail:deadlock@single-session-sweep\t{outcome}"
    else if outcome = "stuck" then s!"{id}\t1\tfail:command-never-completes@single-session-sweep\t{outcome}"
    else if outcome = "leak" then s!"{id}\t1\tfail:lock-never-released@single-session-sweep\t{outcome}"
    else s!"{id}\t0\tfail:bad-line\t-"
  | id :: _ => s!"{id}\t0\tfail:bad-line\t-"
  | [] => "?\t0\tfail:bad-line\t-"

end GoImap.DriveC14
