import GoImap.Model.Wire
import GoImap.Spec.Wire
import GoImap.Drive.C15
namespace GoImap.DriveC01
open GoImap GoImap.Wire GoImap.WireSpec

abbrev B := Wire.Bytes

def hexB? (s : String) : Option B := (hexDecode? s).map fun b => b.map UInt8.toNat
def hexN (b : B) : String := hexEnc (b.map UInt8.ofNat)

def cfg? (s : String) : Option Cfg :=
  match s.toList with
  | [sd, q, m, p] =>
    let side? : Option Side := if sd = 'c' then some .client else if sd = 's' then some .server else none
    side?.map fun side => ⟨side, q = '1', m = '1', p = '1'⟩
  | _ => none

def crlf : B := [13, 10]

def errStr : Option Err → String
  | none => "-"
  | some .expect => "expect"
  | some .eof => "eof"
  | some .fuel => "fuel"
  | some _ => "other"

def litsStr (l : List (Nat × Bool)) : String :=
  if l.isEmpty then "-" else joinWith "," (l.map fun (n, ns) => s!"{n}:{boolStr ns}")

def hexList (l : List B) : String := if l.isEmpty then "none" else joinWith "," (l.map hexN)

def hexList? (s : String) : Option (List B) :=
  if s = "none" then some [] else (splitOnChar s ',').mapM hexB?

def numSetStr : NumSetV → String
  | .searchRes => "$"
  | .set s => if s.isEmpty then "empty" else DriveC15.showRanges s

def numSet? (s : String) : Option NumSetV :=
  if s = "$" then some .searchRes
  else if s = "empty" || s = "nil" || s = "emptycap" then some (.set [])
  else (DriveC15.parseRanges? s '-').map NumSetV.set

mutual
  def showValue : Value → String
    | .str s => "s" ++ hexN s
    | .num n => "n" ++ toString n
    | .list vs => "(" ++ showValues vs ++ " )"
  def showValues : Values → String
    | .nil => ""
    | .cons v vs => " " ++ showValue v ++ showValues vs
end

def valuesOfList : List Value → Values
  | [] => .nil
  | v :: t => .cons v (valuesOfList t)

mutual
  partial def parseVal : List String → Option (Value × List String)
    | "(" :: rest => do
      let (vs, rest) ← parseVals [] rest
      pure (.list (valuesOfList vs), rest)
    | tok :: rest =>
      match tok.toList with
      | 's' :: h => (hexB? (String.ofList h)).map fun b => (.str b, rest)
      | 'n' :: d => (parseInt? (String.ofList d)).map fun n => (.num n, rest)
      | _ => none
    | [] => none
  partial def parseVals (acc : List Value) : List String → Option (List Value × List String)
    | ")" :: rest => some (acc.reverse, rest)
    | [] => none
    | toks => do
      let (v, rest) ← parseVal toks
      parseVals (v :: acc) rest
end

def value? (s : String) : Option Value :=
  match parseVal (splitOnChar s ' ') with
  | some (v, []) => some v
  | _ => none

/-- the chains of the harness: `depth` nested lists around a leaf (`e` = the innermost list is empty) -/
def chain (depth : Nat) (leaf : String) : Value :=
  let (v, d) : Value × Nat :=
    if leaf = "e" then (.list .nil, depth - 1)
    else if leaf = "n" then (.num 7, depth)
    else (.str [120], depth)
  let rec wrap : Nat → Value → Value
    | 0, v => v
    | n+1, v => wrap n (.list (.cons v .nil))
  wrap d v

def render (ok : Bool) (val : String) (rerr derr : Option Err) (s : St) : String :=
  s!"{boolStr ok}|{if ok then val else "-"}|{errStr rerr}|{errStr derr}|{s.inp.length}|{litsStr s.lits}"

/-- run one reader of the decoder model over `inp` (`none` = unmodelled; no reader is at present) -/
def runReader (side : Side) (reader : String) (inp : B) : Option String :=
  let s0 : St := { inp := inp }
  -- every nesting level spends one unit in readValue and one in readItems per byte consumed
  let fuel := 2 * inp.length + 4
  match reader with
  | "astring" => let (ok, v, s) := expectAString side s0; some (render ok (hexN v) none s.err s)
  | "string" => let (ok, v, s) := expectString side s0; some (render ok (hexN v) none s.err s)
  | "mailbox" => let (ok, v, s) := expectMailbox side s0; some (render ok (hexN v) none s.err s)
  | "flag" =>
    let (ok, v, s) := expectFlag s0; some (render ok (hexN v) (if ok then none else s.err) s.err s)
  | "attr" =>
    let (ok, v, s) := expectMailboxAttr s0; some (render ok (hexN v) (if ok then none else s.err) s.err s)
  | "flags" =>
    let (e, vs, s) := expectFlagList fuel s0; some (render e.isNone (hexList vs) e s.err s)
  | "attrs" =>
    let (e, vs, s) := expectMailboxAttrList fuel s0; some (render e.isNone (hexList vs) e s.err s)
  | "n32" => let (ok, v, s) := expectNumber s0; some (render ok (toString v) none s.err s)
  | "n64" => let (ok, v, s) := expectNumber64 s0; some (render ok (toString v) none s.err s)
  | "ms" => let (ok, v, s) := expectModSeq s0; some (render ok (toString v) none s.err s)
  | "seq" | "uid" => let (ok, v, s) := expectNumSet s0; some (render ok (numSetStr v) none s.err s)
  | "value" =>
    match readValue side fuel 0 s0 with
    | (.ok v, s) => some (render true (showValue v) none s.err s)
    | (.error e, s) => some (render false "-" (some e) s.err s)
  | "discard" => let (ok, s) := discardValue side fuel 0 s0; some (render ok "-" none s.err s)
  | _ => some "bad-reader"

/-- model of one encode→decode case: (enc, waits, dec…) rendered like the harness does -/
def runCase (cfg : Cfg) (body : Enc → Option Enc) (trailer : B) (readers : List String) : Option (List String) :=
  match body {} with
  | none => none
  | some e1 =>
    let e2 := (e1.write trailer).write crlf
    if e2.err then some (["E", "-"] ++ readers.map fun _ => "-")
    else
      let ws := if e2.waits.isEmpty then "-" else joinWith "," (e2.waits.map toString)
      match readers.mapM fun r => runReader cfg.side.peer r e2.out with
      | none => none
      | some ds => some ([hexN e2.out, ws] ++ ds)

structure Dec where
  ok : Bool
  val : String
  rerr : String
  derr : String
  left : Nat
  lits : String

def dec? (s : String) : Option Dec :=
  match splitOnChar s '|' with
  | [ok, val, rerr, derr, left, lits] => (parseNat? left).map fun l => ⟨ok = "1", val, rerr, derr, l, lits⟩
  | _ => none

def waits? (s : String) : Option (List Nat) :=
  if s = "-" then some [] else (splitOnChar s ',').mapM parseNat?

/-- the clauses every accepted value shares: the peer accepted it, nothing was flagged, and exactly
    the bytes of the value were consumed -/
def peerClauses (d : Dec) (rest : B) : Option String :=
  if !d.ok then some "peer-rejected"
  else if d.derr ≠ "-" || d.rerr ≠ "-" then some "peer-error-set"
  else if d.left ≠ rest.length then some s!"not-exact-consumption@left={d.left}"
  else none

def encStatus (enc : String) : Option String :=
  if enc = "H" then some "encoder-blocked"
  else if enc = "P" then some "encoder-panic"
  else none

def first (cs : List (Option String)) : String :=
  match cs.findSome? id with
  | some e => "fail:" ++ e
  | none => "ok"

/-- refused ⇔ not representable -/
def refusal (representable refused : Bool) : Option String :=
  if representable && refused then some "representable-refused"
  else if !representable && !refused then some "malformed-emitted"
  else none

/-- what the literal hook of the peer must have seen for this framing -/
def expectLits (cfg : Cfg) : Framing → String
  | .quoted => "-"
  | .literal n nonSync _ => s!"{n}:{boolStr (cfg.side = .client && nonSync)}"

def oracleStr (cfg : Cfg) (s trailer : B) (enc waits dec : String) : String :=
  let rest := trailer ++ crlf
  if enc = "E" then "fail:representable-refused" else
  match encStatus enc with
  | some e => "fail:" ++ e
  | none =>
  match hexB? enc, waits? waits, dec? dec with
  | some wire, some ws, some d =>
    match rString cfg.quotedUTF8 wire with
    | none => "fail:malformed-string-syntax"
    | some (v, t, fr) =>
      first [
        if v ≠ s then some "wire-denotes-other-string" else none,
        if t ≠ rest then some "wire-framing-overruns" else none,
        if !framingAllowed cfg 0 fr ws then some "literal-mode-not-negotiated" else none,
        peerClauses d rest,
        if d.val ≠ hexN s then some "roundtrip-value" else none,
        if d.lits ≠ expectLits cfg fr then some "peer-misjudges-literal" else none]
  | _, _, _ => "fail:bad-line"

def oracleMbox (cfg : Cfg) (name trailer : B) (enc waits dec : String) : String :=
  let rest := trailer ++ crlf
  if enc = "E" then "fail:representable-refused" else
  match encStatus enc with
  | some e => "fail:" ++ e
  | none =>
  match hexB? enc, waits? waits, dec? dec with
  | some wire, some ws, some d =>
    match rAString cfg.quotedUTF8 wire with
    | none => "fail:malformed-astring-syntax"
    | some (content, t, fr) =>
      first [
        if (mailboxMeaning content).all (mailboxSame name) = false || (mailboxMeaning content).isNone then some "wire-denotes-other-mailbox" else none,
        if t ≠ rest then some "wire-framing-overruns" else none,
        if !framingAllowed cfg 0 fr ws then some "literal-mode-not-negotiated" else none,
        peerClauses d rest,
        if ((hexB? d.val).map (mailboxSame name)) ≠ some true then some "roundtrip-value" else none]
  | _, _, _ => "fail:bad-line"

def oracleFlags (attr : Bool) (fs : List B) (single : Bool) (trailer : B) (enc dec : String) : String :=
  let rest := trailer ++ crlf
  let valid := fs.all fun f => if attr then ValidAttr f else ValidFlag f
  match encStatus enc with
  | some e => "fail:" ++ e
  | none =>
  -- refusal is judged against the RFC grammar for 7-bit flags only (the library lets bytes ≥ 0xA0
  -- through); an accepted flag must come back the same whatever its bytes
  match (if fs.all sevenBit then refusal valid (enc = "E") else none) with
  | some e => "fail:" ++ e
  | none =>
    if enc = "E" then "ok" else
    match dec? dec with
    | none => "fail:bad-line"
    | some d =>
      let vals := if single then (hexB? d.val).map fun v => [v] else hexList? d.val
      let same := fun (a b : B) => if attr then attrSame a b else flagSame a b
      first [
        peerClauses d rest,
        match vals with
        | none => some "bad-line"
        | some vs =>
          if vs.length ≠ fs.length then some "roundtrip-count"
          else if (fs.zip vs).all fun (a, b) => same a b then none else some "roundtrip-value"]

def oracleNum (ty : String) (v : Int) (trailer : B) (enc dec : String) : String :=
  let rest := trailer ++ crlf
  match encStatus enc with
  | some e => "fail:" ++ e
  | none =>
  match refusal (0 ≤ v) (enc = "E") with
  | some e => "fail:" ++ e
  | none =>
    if enc = "E" then "ok" else
    match hexB? enc, dec? dec with
    | some wire, some d =>
      first [
        match rNumber wire with
        | none => some "malformed-number-syntax"
        | some (n, t) => if Int.ofNat n ≠ v then some "wire-denotes-other-number"
                         else if t ≠ rest then some "wire-framing-overruns" else none,
        peerClauses d rest,
        if d.val ≠ toString v then some "roundtrip-value" else none,
        if ty = "n32" && v ≥ 4294967296 then some "bad-line" else none]
    | _, _ => "fail:bad-line"

def oracleNumSet (v : NumSetV) (trailer : B) (enc dec : String) : String :=
  let rest := trailer ++ crlf
  let representable := match v with
    | .searchRes => true
    | .set s => !s.isEmpty
  match encStatus enc with
  | some e => "fail:" ++ e
  | none =>
  match refusal representable (enc = "E") with
  | some e => "fail:" ++ e
  | none =>
    if enc = "E" then "ok" else
    match hexB? enc, dec? dec with
    | some wire, some d =>
      let text := wire.take (wire.length - rest.length)
      match v with
      | .searchRes =>
        first [if wire ≠ 36 :: rest then some "wire-not-searchres" else none, peerClauses d rest,
               if d.val ≠ "$" then some "roundtrip-value" else none]
      | .set s =>
        -- sets outside canonical form (only constructible as struct literals) are not judged
        if !NumSetSpec.canonical s then "ok" else
        first [
          if wire ≠ text ++ rest then some "wire-framing-overruns" else none,
          if (NumSetSpec.seqSetText (text.map Char.ofNat)).isNone then some "malformed-sequence-set" else none,
          peerClauses d rest,
          if d.val ≠ DriveC15.showRanges s then some "roundtrip-value" else none]
    | _, _ => "fail:bad-line"

def oracleValue (v : Value) (trailer : B) (enc dec disc : String) : String :=
  let rest := trailer ++ crlf
  match encStatus enc with
  | some e => "fail:" ++ e
  | none =>
  match refusal (Value.representable v) (enc = "E") with
  | some e => "fail:" ++ e
  | none =>
    if enc = "E" then "ok"
    else if Value.depth v ≥ maxListDepth then "ok"       -- at or above the cap: nothing is demanded
    else
    match dec? dec, dec? disc with
    | some d, some dd =>
      first [
        peerClauses d rest,
        if d.val ≠ showValue v then some "roundtrip-value" else none,
        (peerClauses dd rest).map ("discard-" ++ ·)]
    | _, _ => "fail:bad-line"

/-- decoder-side mailbox names: when the bytes are a well-formed astring (strict RFC reader, any
    8-bit byte allowed in a string) on which the library's lexer and the RFC's agree, `ExpectMailbox`
    must accept the name exactly when it is INBOX (any case) or valid modified UTF-7
    (`Utf7Spec.specDecode`), and return what it denotes -/
def oracleRawMailbox (side : Side) (wire : B) (dec : String) : String :=
  match rAString true wire, dec? dec with
  | some (content, rest, fr), some d =>
    let isStr := wire.head? = some 34 || wire.head? = some 123
    let judged :=
      if isStr then
        match fr with
        | .literal _ nonSync _ => !nonSync || side = .server
        | .quoted => true
      else
        -- atoms: the library's ATOM-CHAR differs from the RFC's on "]" and on bytes ≥ 0xA0
        !content.contains 93 && (match rest with | b :: _ => b < 128 && b ≠ 93 | [] => false)
    if !judged then "ok" else
    match mailboxMeaning content with
    | some name =>
      if !d.ok then "fail:valid-mailbox-rejected"
      else if d.val ≠ hexN name then "fail:mailbox-decoded-wrongly"
      else if d.left ≠ rest.length then s!"fail:not-exact-consumption@left={d.left}"
      else "ok"
    | none => if d.ok then "fail:malformed-mailbox-accepted" else "ok"
  | _, _ => "ok"

def short (s : String) : String := if s.length > 400 then s!"{s.take 200}…({s.length})" else s

def answer (id : String) (model : Option (List String)) (impl : List String) (orc : String) : String :=
  match model with
  | none => s!"{id}\t1\t{orc}\tunmodelled"
  | some m => s!"{id}\t{boolStr (m == impl)}\t{orc}\t{short (joinWith " " m)}"

def bad (id : String) : String := s!"{id}\t0\tfail:bad-line\t-"

def handle (f : List String) : String :=
  match f with
  | [id, "str", c, rd, sh, th, enc, waits, dec] =>
    match cfg? c, hexB? sh, hexB? th with
    | some cfg, some s, some t =>
      let reader := if rd = "a" then "astring" else "string"
      answer id (runCase cfg (fun e => some (encString cfg s e)) t [reader]) [enc, waits, dec]
        (oracleStr cfg s t enc waits dec)
    | _, _, _ => bad id
  | [id, "mbox", c, nh, th, valid, enc, waits, dec] =>
    match cfg? c, hexB? nh, hexB? th with
    | some cfg, some name, some t =>
      let isValid := (Utf7.utf8dec name).isSome
      if boolStr isValid ≠ valid then s!"{id}\t0\tok\tutf8-validity-differs"
      else if !isValid then s!"{id}\t1\tok\tunmodelled"
      else answer id (runCase cfg (encMailbox cfg name) t ["mailbox"]) [enc, waits, dec]
        (oracleMbox cfg name t enc waits dec)
    | _, _, _ => bad id
  | [id, "flag", c, which, fh, th, enc, waits, dec] =>
    match cfg? c, hexB? fh, hexB? th with
    | some cfg, some fl, some t =>
      let attr := which = "a"
      answer id (runCase cfg (fun e => some (if attr then encAttr fl e else encFlag fl e)) t [if attr then "attr" else "flag"])
        [enc, waits, dec] (oracleFlags attr [fl] true t enc dec)
    | _, _, _ => bad id
  | [id, "flags", c, which, fhs, th, enc, waits, dec] =>
    match cfg? c, hexList? fhs, hexB? th with
    | some cfg, some fls, some t =>
      let attr := which = "a"
      let body : Enc → Option Enc := fun e =>
        let rec items : Bool → List B → Enc → Enc
          | _, [], e => e
          | first, x :: r, e =>
            let e1 := if first then e else e.write [32]
            items false r (if attr then encAttr x e1 else encFlag x e1)
        some ((items true fls (e.write [40])).write [41])
      answer id (runCase cfg body t [if attr then "attrs" else "flags"]) [enc, waits, dec]
        (oracleFlags attr fls false t enc dec)
    | _, _, _ => bad id
  | [id, "num", c, ty, vs, th, enc, waits, dec] =>
    match cfg? c, parseInt? vs, hexB? th with
    | some cfg, some v, some t =>
      let body : Enc → Option Enc := fun e =>
        some (if ty = "n64" then encNumber64 v e else encNumber v.toNat e)
      answer id (runCase cfg body t [ty]) [enc, waits, dec] (oracleNum ty v t enc dec)
    | _, _, _ => bad id
  | [id, "nset", c, kind, rs, th, enc, waits, dec] =>
    match cfg? c, numSet? rs, hexB? th with
    | some cfg, some v, some t =>
      answer id (runCase cfg (fun e => some (encNumSet v e)) t [kind]) [enc, waits, dec]
        (oracleNumSet v t enc dec)
    | _, _, _ => bad id
  | [id, "val", c, _style, vs, th, enc, waits, dec, disc] =>
    match cfg? c, value? vs, hexB? th with
    | some cfg, some v, some t =>
      answer id (runCase cfg (fun e => some (encValue cfg v e)) t ["value", "discard"]) [enc, waits, dec, disc]
        (oracleValue v t enc dec disc)
    | _, _, _ => bad id
  | [id, "chain", c, _style, ds, leaf, th, enc, waits, dec, disc] =>
    match cfg? c, parseNat? ds, hexB? th with
    | some cfg, some d, some t =>
      let v := chain d leaf
      answer id (runCase cfg (fun e => some (encValue cfg v e)) t ["value", "discard"]) [enc, waits, dec, disc]
        (oracleValue v t enc dec disc)
    | _, _, _ => bad id
  | [id, "raw", sd, reader, wh, dec] =>
    match hexB? wh with
    | some w =>
      let side : Side := if sd = "c" then .client else .server
      answer id ((runReader side reader w).map fun d => [d]) [dec]
        (if reader = "mailbox" then oracleRawMailbox side w dec else "ok")
    | none => bad id
  | id :: _ => bad id
  | [] => "?\t0\tfail:bad-line\t-"

end GoImap.DriveC01
