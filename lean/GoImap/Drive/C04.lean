import GoImap.Util
import GoImap.Model.Framing
import GoImap.Spec.Framing
/-
  Driver for C04 (server command framing).  Case line (fields after the property id):

    id  kind  lit  preauth  pipeline  script  delivered(hex)  trace  end  calls  closes  panics

  kind      stream = a generated command sequence inside the model's signature table
            wild   = a stream outside the oracle's domain or the model's table (oracle clause 4 and
                     "no panic" only, plus the model comparison as far as the model goes)
  lit       minus | plus | none        (what the server advertises)
  trace     s<n> ; r<hex> ; …          client wrote n octets / octets received after that
  end       c = the server closed first, w = it was waiting for input when the client left,
            t = neither within the watchdog
  calls     Name:arg,arg;…             the stub session's call log (arguments hex)
-/
namespace GoImap.DriveC04
open GoImap

abbrev Bytes := List Nat

def hexNat? (s : String) : Option Bytes := (hexDecode? s).map fun b => b.map (·.toNat)
def hexOfNat (b : Bytes) : String := hexEnc (b.map UInt8.ofNat)

/-! ### what the implementation did -/

structure Batch where
  pos : Nat          -- octets the client had written when these were received
  out : Bytes

def parseTrace? (s : String) : Option (List Batch) :=
  let rec go (items : List String) (pos : Nat) (acc : List Batch) : Option (List Batch) :=
    match items with
    | [] => some acc.reverse
    | it :: rest =>
      match it.toList with
      | 's' :: n => match natOfDigits? n with
        | some k => go rest (pos + k) acc
        | none => none
      | 'r' :: h => match hexNat? (String.ofList h) with
        | some b => go rest pos (⟨pos, b⟩ :: acc)
        | none => none
      | _ => none
  if s == "-" then some [] else go (splitOnChar s ';') 0 []

/-- wire events of the implementation, with the client offset at which they were seen -/
structure Wire where
  replies : List (Nat × FramingSpec.Reply)
  wellFormed : Bool

def wireOf (bs : List Batch) : Wire :=
  bs.foldl (fun w b =>
    match FramingSpec.responses (b.out.length + 1) b.out [] with
    | some rs => { w with replies := w.replies ++ rs.map fun r => (b.pos, r) }
    | none => { w with wellFormed := false }) ⟨[], true⟩

def clsStr : FramingSpec.Status → String
  | .ok => "OK" | .no => "NO" | .bad => "BAD"

def mClsStr : Framing.Cls → String
  | .ok => "OK" | .no => "NO" | .bad => "BAD"

/-- canonical rendering of the observable events: T<tag>:<cls>  +<off>  B -/
def showImpl (w : Wire) : List String :=
  w.replies.filterMap fun (p, r) =>
    match r with
    | .tagged t st => some s!"T{hexOfNat t}:{clsStr st}"
    | .cont => some s!"+{p}"
    | .bye => some "B"
    | .untagged => none

/-! ### what the model does -/

def showModelEv : Framing.Event → Option String
  | .tagged t c => some s!"T{hexOfNat t}:{mClsStr c}"
  | .cont p => some s!"+{p}"
  | .bye => some "B"
  | _ => none

def argStr (fn : Framing.Fn) (args : List Bytes) : String :=
  match fn, args with
  | .select, [m, ro] => s!"{hexOfNat m},ro={if ro == [49] then "1" else "0"}"
  | .expunge, _ => "nil"
  | _, _ => joinWith "," (args.map hexOfNat)

def showCall (c : Framing.Call) : String := s!"{c.fn.name}:{argStr c.fn c.args}"

structure ModelOut where
  wire : List String      -- observable events before the end of the stream
  endm : String           -- c | w | o (opaque) | f (fuel)
  calls : List String
  gaveUp : Bool

def modelOut (evs : List Framing.Event) : ModelOut :=
  let rec go (evs : List Framing.Event) (seenEof : Bool) (wire : List String) (endm : String)
      (calls : List String) : ModelOut :=
    match evs with
    | [] => ⟨wire.reverse, endm, calls.reverse, endm == "o"⟩
    | e :: rest =>
      match e with
      | .eof => go rest true wire (if endm == "" then "w" else endm) calls
      | .close => go rest seenEof wire (if endm == "" then "c" else endm) calls
      | .opaque => ⟨wire.reverse, "o", calls.reverse, true⟩
      | .fuel _ => ⟨wire.reverse, "f", calls.reverse, false⟩
      | .exec c => go rest seenEof wire endm (if c.fn == .idle then calls else showCall c :: calls)
      | e =>
        match showModelEv e with
        | some s => if seenEof then go rest seenEof wire endm calls else go rest seenEof (s :: wire) endm calls
        | none => go rest seenEof wire endm calls
  go evs false [] "" []

def isPrefixOfStr : List String → List String → Bool
  | [], _ => true
  | _ :: _, [] => false
  | a :: as, b :: bs => a == b && isPrefixOfStr as bs

/-- lit = minus | plus | none, with the suffix "/af" when the backend's Append fails unread -/
def cfgOf (lit preauth : String) : Framing.Cfg :=
  { plus := lit.startsWith "plus", preauth := preauth == "1", appendFails := lit.endsWith "/af" }

/-- model vs implementation: observable events, end of connection, call log -/
def agree (m : ModelOut) (implWire : List String) (endi : String) (implCalls : List String) : Bool :=
  if m.gaveUp then isPrefixOfStr m.wire implWire && isPrefixOfStr m.calls implCalls
  else m.wire == implWire && m.endm == endi && m.calls == implCalls

/-! ### the oracle -/

def callArgs (calls : List String) : List Bytes :=
  calls.flatMap fun c =>
    match splitOnChar c ':' with
    | _ :: rest =>
      (splitOnChar (joinWith ":" rest) ',').filterMap fun a => hexNat? a
    | [] => []

def oracle (delivered : Bytes) (w : Wire) (endi : String) (calls : List String) (closes panics : String)
    (judgeFraming : Bool) : String :=
  let conts := w.replies.filterMap fun (p, r) => if r == .cont then some p else none
  let go : Nat → Bool := fun p => conts.contains p
  let fs := FramingSpec.frame go delivered
  let tags := w.replies.filterMap fun (_, r) => match r with | .tagged t _ => some t | _ => none
  if panics != "0" then "fail:server-panicked"
  else if endi == "t" then "fail:server-neither-waiting-nor-closed"
  else if closes != "1" then s!"fail:session-closed-{closes}-times"
  else if !w.wellFormed then "fail:output-not-whole-response-lines"
  else if !judgeFraming || !fs.all (·.strict) then "ok"
  else match (callArgs calls ++ tags).find? (fun v => !FramingSpec.originOk fs v) with
    | some v => s!"fail:payload-parsed-as-command@{hexOfNat v}"
    | none =>
      if !FramingSpec.contsOk fs conts then "fail:continuation-request-without-synchronisation-point"
      else if !FramingSpec.repliesOk fs tags (endi == "c") then
        s!"fail:replies-do-not-match-commands@frames={joinWith "," (fs.map fun f => (match f.tag with | some t => hexOfNat t | none => "none") ++ (if f.complete then "" else "~"))}"
      else "ok"

def handle (f : List String) : String :=
  match f with
  | [id, kind, lit, preauth, _pipeline, _script, delivered, trace, endi, calls, closes, panics] =>
    match hexNat? delivered, parseTrace? trace with
    | some inp, some bs =>
      let w := wireOf bs
      let implWire := showImpl w
      let implCalls := if calls == "-" then [] else splitOnChar calls ';'
      let m := modelOut (Framing.serve (cfgOf lit preauth) inp)
      -- outside the faithful-client domain the offsets of "+" are not comparable
      let strip := fun (l : List String) => if kind == "stream" then l else l.map fun x => if x.startsWith "+" then "+" else x
      let ag := agree { m with wire := strip m.wire } (strip implWire) endi implCalls
      let orc := oracle inp w endi implCalls closes panics (kind == "stream")
      s!"{id}\t{boolStr ag}\t{orc}\t{joinWith " " m.wire} end={m.endm} calls={joinWith ";" m.calls}"
    | _, _ => s!"{id}\t0\tfail:bad-line\t-"
  | id :: _ => s!"{id}\t0\tfail:bad-line\t-"
  | [] => "?\t0\tfail:bad-line\t-"

end GoImap.DriveC04
