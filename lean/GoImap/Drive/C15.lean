import GoImap.Model.NumSet
import GoImap.Spec.NumSet
namespace GoImap.DriveC15
open GoImap GoImap.NumSet GoImap.NumSetSpec

def parseRange? (s : String) (sep : Char) : Option Range :=
  match splitOnChar s sep with
  | [a, b] => do let x ← parseNat? a; let y ← parseNat? b; pure ⟨x, y⟩
  | _ => none

def parseRanges? (s : String) (sep : Char) : Option (List Range) :=
  if s.isEmpty then some [] else (splitOnChar s ',').mapM (parseRange? · sep)

def parseOp? (s : String) : Option Op :=
  match s.toList with
  | 'n' :: rest => (natOfDigits? rest).map Op.num
  | 'r' :: rest => (parseRange? (String.ofList rest) ':').map fun r => Op.range r.start r.stop
  | 's' :: rest => (parseRanges? (String.ofList rest) ':').map Op.set
  | _ => none

def applyOp (s : Set) : Op → Set
  | .num q => addNum s q
  | .range a b => addRange s a b
  | .set t => addSet s t

def showRanges (s : Set) : String :=
  joinWith "," (s.map fun r => s!"{r.start}-{r.stop}")

def bits (f : Nat → Bool) (probes : List Nat) : String :=
  String.ofList (probes.map fun q => if f q then '1' else '0')

def rtOk (s : Set) : Bool :=
  s.isEmpty || parseSet (toChars s) == some s

def modelObs (s : Set) (probes : List Nat) : String :=
  -- the last field: sets passed to AddSet earlier are unchanged (values are immutable in the model)
  s!"{showRanges s}|{toStr s}|{boolStr (dynamic s)}|{bits (contains s) probes}|{boolStr (rtOk s)}|1"

/-- oracle on one implementation observation after the first `k` ops -/
def oracleStep (opsSoFar : List Op) (probes : List Nat) (obs : String) : Option String :=
  match splitOnChar obs '|' with
  | [rs, str, dyn, bs, rt, intact] =>
    match parseRanges? rs '-' with
    | none => some "unparsable-ranges"
    | some R =>
      if intact != "1" then some "argument-of-AddSet-changed-afterwards"
      else if !canonical R then some "not-canonical"
      else if bs != bits (memOps opsSoFar) probes then some "membership-not-union"
      else if dyn != boolStr (starOps opsSoFar) then some "dynamic-iff-star"
      else if rt != "1" then some "string-does-not-parse-back"
      else
        -- the text form, read by the RFC grammar, has the same members
        match seqSetText str.toList with
        | none => if R.isEmpty && str.isEmpty then none else some "string-not-sequence-set"
        | some items =>
          if bits (memText items) probes != bs then some "string-members-differ"
          else if boolStr (starText items) != dyn then some "string-star-differs"
          else none
  | _ => some "unparsable-observation"

def runOps (ops : List Op) (probes : List Nat) (obs : List String) : String × Bool × String :=
  let rec go (s : Set) (done : List Op) (rest : List Op) (obs : List String)
      (accM : List String) (agree : Bool) (orc : Option String) : List String × Bool × Option String :=
    match rest, obs with
    | [], _ => (accM.reverse, agree, orc)
    | o :: rest', ob :: obs' =>
      let s' := applyOp s o
      let m := modelObs s' probes
      let done' := done ++ [o]
      let orc' := match orc with
        | some e => some e
        | none => (oracleStep done' probes ob).map fun e => s!"{e}@step{done'.length}"
      go s' done' rest' obs' (m :: accM) (agree && m == ob) orc'
    | _ :: _, [] => (accM.reverse, false, some "missing-observation")
  let (ms, agree, orc) := go [] [] ops obs [] true none
  (joinWith ";" ms, agree, match orc with | none => "ok" | some e => "fail:" ++ e)

def handle (f : List String) : String :=
  match f with
  | [id, "ops", _flavour, probes, ops, obs] =>
    let ps := if probes.isEmpty then some [] else (splitOnChar probes ',').mapM parseNat?
    let os := (splitOnChar ops ';').mapM parseOp?
    match ps, os with
    | some ps, some os =>
      let (m, agree, orc) := runOps os ps (splitOnChar obs ';')
      s!"{id}\t{boolStr agree}\t{orc}\t{m}"
    | _, _ => s!"{id}\t0\tfail:bad-line\t-"
  | [id, "nums", rs, impl] =>
    match parseRanges? rs '-' with
    | none => s!"{id}\t0\tfail:bad-line\t-"
    | some R =>
      -- never materialise a huge enumeration in the driver
      if (R.foldl (fun a r => a + (r.stop + 1 - r.start)) 0) > 200000 then s!"{id}\t1\tok\tskipped-large" else
      let m := match nums R with
        | none => "no"
        | some l => "ok:" ++ joinWith "," (l.map toString)
      -- oracle: a static set enumerates to exactly its members ascending; a dynamic one reports not-ok
      let expect := if dynamic R || R.any (fun r => r.start = 0 || r.stop = 0) then "no"
        else "ok:" ++ joinWith "," ((enumerate R).map toString)
      let orc := if !canonical R then "ok" else if impl == expect then "ok" else
        (if impl == "timeout" || impl == "crash" then "fail:enumeration-does-not-terminate" else "fail:enumeration-wrong")
      s!"{id}\t{boolStr (m == impl)}\t{orc}\t{if m.length > 200 then "(long)" else m}"
  | [id, "parse", hex, probes, impl] =>
    match hexDecode? hex, (if probes.isEmpty then some [] else (splitOnChar probes ',').mapM parseNat?) with
    | some b, some ps =>
      let t := b.map fun x => Char.ofNat x.toNat
      let m := match parseSet t with
        | none => "err"
        | some s => s!"ok|{showRanges s}|{bits (contains s) ps}|{boolStr (dynamic s)}"
      let orc :=
        match seqSetText t with
        | none => if impl == "err" then "ok" else "fail:invalid-text-accepted"
        | some items =>
          match splitOnChar impl '|' with
          | ["ok", rs, bs, dyn] =>
            match parseRanges? rs '-' with
            | none => "fail:unparsable-observation"
            | some R =>
              if !canonical R then "fail:parsed-set-not-canonical"
              else if bs != bits (memText items) ps then "fail:parsed-members-differ"
              else if dyn != boolStr (starText items) then "fail:parsed-star-differs"
              else "ok"
          | _ => "fail:valid-text-rejected"
      s!"{id}\t{boolStr (m == impl)}\t{orc}\t{m}"
    | _, _ => s!"{id}\t0\tfail:bad-line\t-"
  | id :: _ => s!"{id}\t0\tfail:bad-line\t-"
  | [] => "?\t0\tfail:bad-line\t-"

end GoImap.DriveC15
