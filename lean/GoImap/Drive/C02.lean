import GoImap.Model.CmdGrammar
import GoImap.Spec.CmdGrammar
import GoImap.Util
namespace GoImap.DriveC02
open GoImap GoImap.CmdGrammar GoImap.CmdSpec

/-! Line format (fields after the property id):
      id  kind  cfg  caller-side call  outcome  stub log  wire(hex)
    cfg = <capability letters>/<enable 0|1|2>/<a mailbox is selected 0|1>.
    Both the caller-side call and the stub log use the rendering of harness/cmd/verifh/stub.go. -/

def hexStr? (s : String) : Option Str := (hexDecode? s).map fun b => b.map UInt8.toNat
def showHex (s : Str) : String := hexEnc (s.map UInt8.ofNat)

/-- a mailbox name as scalar values; `none` when the bytes are not valid UTF-8 -/
def mbox? (s : String) : Option (Option (List Nat)) := (hexStr? s).map Utf7.utf8dec

def bool? (s : String) : Option Bool := if s = "1" then some true else if s = "0" then some false else none

/-- "k=v" → v -/
def kv? (k : String) (s : String) : Option String :=
  if s.startsWith (k ++ "=") then some ((s.drop (k.length + 1)).toString) else none

def cfg? (s : String) : Option Cfg :=
  match splitOnChar s '/' with
  | [letters, en, sel] => do
    let en ← parseNat? en
    let sel ← bool? sel
    let h (c : Char) : Bool := letters.toList.contains c
    pure { caps := { rev1 := h '1', rev2 := h '2', litPlus := h 'P', move := h 'M', uidPlus := h 'U', esearch := h 'E', searchRes := h 'R',
                     listExt := h 'L', listStatus := h 'S', statusSize := h 'Z', binary := h 'B', createSpecialUse := h 'C', ns := h 'N' },
           enable := en, presel := sel }
  | _ => none

/-- the text of `NumSet.String()` read back literally (no normalisation): "*", "n", "n:*", "a:b" -/
def rangeLit? (s : String) : Option NumSet.Range :=
  let num (x : String) : Option Nat := if x = "*" then some 0 else parseNat? x
  match splitOnChar s ':' with
  | [a] => (num a).map fun n => ⟨n, n⟩
  | [a, b] => do pure ⟨← num a, ← num b⟩
  | _ => none

def nsetLit? (s : String) : Option NSet :=
  if s = "$" then some .searchRes
  else if s = "" then some (.set [])
  else ((splitOnChar s ',').mapM rangeLit?).map NSet.set

/-- "seq:<text>" / "uid:<text>" -/
def kindSet? (s : String) : Option (Bool × NSet) :=
  if s.startsWith "seq:" then (nsetLit? (s.drop 4).toString).map fun n => (false, n)
  else if s.startsWith "uid:" then (nsetLit? (s.drop 4).toString).map fun n => (true, n)
  else none

/-- fmtRangesOf: "1-3,5-5,7-0", "$-$" -/
def rangesDash? (s : String) : Option NSet :=
  if s = "$-$" then some .searchRes
  else if s = "" then some (.set [])
  else ((splitOnChar s ',').mapM fun it =>
    match splitOnChar it '-' with
    | [a, b] => do pure (⟨← parseNat? a, ← parseNat? b⟩ : NumSet.Range)
    | _ => none).map NSet.set

def hexList? (s : String) : Option (List Str) :=
  if s = "" then some [] else (splitOnChar s ',').mapM hexStr?

/-- "{n=1 un=0 …}" -/
def statusOpts? (s : String) : Option StatusOpts :=
  let inner := ((s.drop 1).dropEnd 1).toString
  match inner.splitOn " " with
  | [n, un, uv, us, d, sz, al, dst, hm] => do
    pure { messages := ← (kv? "n" n).bind bool?, uidNext := ← (kv? "un" un).bind bool?, uidValidity := ← (kv? "uv" uv).bind bool?,
           unseen := ← (kv? "us" us).bind bool?, deleted := ← (kv? "d" d).bind bool?, size := ← (kv? "sz" sz).bind bool?,
           appendLimit := ← (kv? "al" al).bind bool?, deletedStorage := ← (kv? "dst" dst).bind bool?,
           highestModSeq := ← (kv? "hm" hm).bind bool? }
  | _ => none

def searchOpts? (s : String) : Option (Option SearchOpts) :=
  if s = "nil" then some none else
  let inner := ((s.drop 1).dropEnd 1).toString
  match inner.splitOn " " with
  | [mi, ma, al, co, sa] => do
    pure (some { min := ← (kv? "min" mi).bind bool?, max := ← (kv? "max" ma).bind bool?, all := ← (kv? "all" al).bind bool?,
                 count := ← (kv? "count" co).bind bool?, save := ← (kv? "save" sa).bind bool? })
  | _ => none

/-- "[1 2 3]" (Go `%v` of an int slice) -/
def intList? (s : String) : Option (List Int) :=
  let inner := ((s.drop 1).dropEnd 1).toString
  if inner = "" then some [] else (inner.splitOn " ").mapM parseInt?

def partial? (s : String) : Option Partial :=
  -- "<off.size>"
  let inner := ((s.drop 1).dropEnd 1).toString
  match splitOnChar inner '.' with
  | [a, b] => do pure ⟨← parseInt? a, ← parseInt? b⟩
  | _ => none

def cut (s sep : String) : Option (String × String) :=
  match s.splitOn sep with
  | a :: b :: rest => some (a, sep.intercalate (b :: rest))
  | _ => none

def peekTail? (s : String) : Option (Bool × Option Partial) :=
  match s.splitOn " " with
  | [p] => do pure (← bool? p, none)
  | [p, pr] => do pure (← bool? p, some (← partial? pr))
  | _ => none

def spec? (s : String) : Option Spec :=
  if s = "" then some .none else if s = "HEADER" then some .header else if s = "MIME" then some .mime
  else if s = "TEXT" then some .text else none

/-- "sec:SPEC part=[..] hf=[..] hfn=[..] peek=b[ <o.s>]" -/
def bodySec? (s : String) : Option BodySec := do
  let (sp, r1) ← cut s " part="
  let (part, r2) ← cut r1 " hf=["
  let (hf, r3) ← cut r2 "] hfn=["
  let (hfn, r4) ← cut r3 "] peek="
  let (peek, pr) ← peekTail? r4
  pure { spec := ← spec? sp, part := ← intList? part, fields := ← hexList? hf, fieldsNot := ← hexList? hfn, slice := pr, peek := peek }

def fetchItem (o : FetchOpts) (it : String) : Option FetchOpts :=
  if it = "bs" then some { o with bodyStructure := some (o.bodyStructure.getD false) }
  else if it = "bsx" then some { o with bodyStructure := some true }
  else if it = "env" then some { o with envelope := true }
  else if it = "flags" then some { o with flags := true }
  else if it = "date" then some { o with internalDate := true }
  else if it = "size" then some { o with size := true }
  else if it = "uid" then some { o with uid := true }
  else if it = "modseq" then some { o with modSeq := true }
  else if it.startsWith "sec:" then do
    let b ← bodySec? (it.drop 4).toString
    pure { o with sections := o.sections ++ [b] }
  else if it.startsWith "binsize:" then do
    let p ← intList? (it.drop 8).toString
    pure { o with binarySize := o.binarySize ++ [p] }
  else if it.startsWith "bin:" then do
    let (part, r) ← cut (it.drop 4).toString " peek="
    let (peek, pr) ← peekTail? r
    pure { o with binary := o.binary ++ [{ part := ← intList? part, slice := pr, peek := peek }] }
  else none

def fetchOpts? (s : String) : Option FetchOpts :=
  let inner := ((s.drop 1).dropEnd 1).toString
  if inner = "" then some {} else (inner.splitOn ";").foldlM fetchItem {}

def listOpts? (toks : List String) : Option ListOpts :=
  match toks with
  | ["nil"] => some {}
  | sub :: rem :: rec :: su :: rsub :: rch :: rsu :: rst0 :: more => do
    -- rst=nil, or rst={n=… hm=…} (contains spaces)
    let rstText ← kv? "rst" (" ".intercalate (rst0 :: more))
    let st : Option StatusOpts ← (if rstText = "nil" then some none else (statusOpts? rstText).map some)
    let o : ListOpts :=
      { selSubscribed := ← (kv? "sub" sub).bind bool?, selRemote := ← (kv? "rem" rem).bind bool?, selRecursive := ← (kv? "rec" rec).bind bool?,
        selSpecialUse := ← (kv? "su" su).bind bool?, retSubscribed := ← (kv? "rsub" rsub).bind bool?, retChildren := ← (kv? "rch" rch).bind bool?,
        retSpecialUse := ← (kv? "rsu" rsu).bind bool?, retStatus := st }
    pure o
  | _ => none

/-! criteria: "(item item n (…) o (…) (…))" -/

def date? (s : String) : Option Date :=
  match splitOnChar s ':' with
  | [d] => (parseInt? d).map fun d => { day := d, inst := d }
  | [d, i] => do pure { day := ← parseInt? d, inst := ← parseInt? i }
  | _ => none

def addItem (f : Flat) (tok : String) : Option Flat :=
  match tok.toList with
  | 'q' :: r => (rangesDash? (String.ofList r)).map fun s => { f with seqSets := f.seqSets ++ [s] }
  | 'u' :: r => (rangesDash? (String.ofList r)).map fun s => { f with uidSets := f.uidSets ++ [s] }
  | 's' :: r => (date? (String.ofList r)).map fun t => { f with since := t }
  | 'b' :: r => (date? (String.ofList r)).map fun t => { f with before := t }
  | 'S' :: r => (date? (String.ofList r)).map fun t => { f with sentSince := t }
  | 'B' :: r => (date? (String.ofList r)).map fun t => { f with sentBefore := t }
  | 'h' :: r =>
    match splitOnChar (String.ofList r) ':' with
    | [k, v] => do let k ← hexStr? k; let v ← hexStr? v; pure { f with header := f.header ++ [(k, v)] }
    | _ => none
  | 'y' :: r => (hexStr? (String.ofList r)).map fun x => { f with body := f.body ++ [x] }
  | 't' :: r => (hexStr? (String.ofList r)).map fun x => { f with text := f.text ++ [x] }
  | 'f' :: r => (hexStr? (String.ofList r)).map fun x => { f with flags := f.flags ++ [x] }
  | 'F' :: r => (hexStr? (String.ofList r)).map fun x => { f with notFlags := f.notFlags ++ [x] }
  | 'l' :: r => (parseInt? (String.ofList r)).map fun n => { f with larger := n }
  | 'm' :: r => (parseInt? (String.ofList r)).map fun n => { f with smaller := n }
  | _ => none

mutual
  partial def parseCrit : List String → Option (Crit × List String)
    | "(" :: rest => parseItems {} .nil .nil rest
    | _ => none
  partial def parseItems (f : Flat) (nots : CritList) (ors : OrList) : List String → Option (Crit × List String)
    | ")" :: rest => some (.mk f nots ors, rest)
    | "n" :: rest => do
      let (c, rest) ← parseCrit rest
      parseItems f (nots.snoc c) ors rest
    | "o" :: rest => do
      let (a, rest) ← parseCrit rest
      let (b, rest) ← parseCrit rest
      parseItems f nots (ors.snoc a b) rest
    | tok :: rest => do
      let f ← addItem f tok
      parseItems f nots ors rest
    | [] => none
end

def tokens (s : String) : List String :=
  ((s.replace "(" " ( ").replace ")" " ) ").splitOn " " |>.filter (· ≠ "")

/-- "<seconds as RFC 3339 in UTC>@<offset>" -/
def daysFromCivil (y m d : Int) : Int :=
  let y := if m ≤ 2 then y - 1 else y
  let era := (if y ≥ 0 then y else y - 399) / 400
  let yoe := y - era * 400
  let mp := if m > 2 then m - 3 else m + 9
  let doy := (153 * mp + 2) / 5 + d - 1
  let doe := yoe * 365 + yoe / 4 - yoe / 100 + doy
  era * 146097 + doe - 719468

def atime? (s : String) : Option (Option ATime) :=
  if s = "0" then some none else
  match splitOnChar s '@' with
  | [t, off] => do
    let off ← parseInt? off
    -- YYYY-MM-DDTHH:MM:SSZ
    let cs := t.toList
    let num (a b : Nat) : Option Int := parseInt? (String.ofList ((cs.drop a).take (b - a)))
    if cs.length ≠ 20 then none else
    let y ← num 0 4; let mo ← num 5 7; let d ← num 8 10; let h ← num 11 13; let mi ← num 14 16; let se ← num 17 19
    pure (some { secs := daysFromCivil y mo d * 86400 + h * 3600 + mi * 60 + se, off := off })
  | _ => none

inductive Parsed where
  | ok (c : Cmd)
  | notUtf8        -- a mailbox name that is not valid UTF-8: outside the model
  | bad

def withMbox (s : String) (k : List Nat → Parsed) : Parsed :=
  match mbox? s with
  | none => .bad
  | some none => .notUtf8
  | some (some m) => k m

def ofOpt (o : Option Cmd) : Parsed := match o with | some c => .ok c | none => .bad

/-- one call in the stub's rendering -/
def call? (s : String) : Parsed :=
  let s := s.trimAscii.toString
  let toks := s.splitOn " "
  match toks with
  | ["Unselect"] => .ok .unselect
  | ["Login", u, p] => ofOpt do pure (.login (← hexStr? u) (← hexStr? p))
  | ["Select", m, ro] => withMbox m fun m => ofOpt do pure (.select m (← (kv? "ro" ro).bind bool?))
  | "Create" :: m :: use => withMbox m fun m => ofOpt do pure (.create m (← use.mapM hexStr?))
  | ["Delete", m] => withMbox m fun m => .ok (.delete m)
  | ["Subscribe", m] => withMbox m fun m => .ok (.subscribe m)
  | ["Unsubscribe", m] => withMbox m fun m => .ok (.unsubscribe m)
  | ["Rename", m, n] => withMbox m fun m => withMbox n fun n => .ok (.rename m n)
  | "List" :: ref :: pats :: opts =>
    withMbox ref fun ref =>
      let inner := ((pats.drop 1).dropEnd 1).toString
      let ps : List String := if inner = "" then [] else splitOnChar inner ','
      let rec go : List String → List (List Nat) → Parsed
        | [], acc => ofOpt do pure (.list ref acc (← listOpts? opts))
        | p :: rest, acc => withMbox p fun m => go rest (acc ++ [m])
      go ps []
  | "Status" :: m :: opts => withMbox m fun m => ofOpt do pure (.status m (← statusOpts? (" ".intercalate opts)))
  | ["Append", m, flags, t, payload] =>
    withMbox m fun m => ofOpt do
      pure (.append m (← hexList? ((flags.drop 1).dropEnd 1).toString) (← atime? t) (← hexStr? payload))
  | ["Copy", ns, m] => withMbox m fun m => ofOpt do let (u, s) ← kindSet? ns; pure (.copy u s m)
  | ["Move", ns, m] => withMbox m fun m => ofOpt do let (u, s) ← kindSet? ns; pure (.move u s m)
  | ["Store", ns, op, silent, flags] => ofOpt do
    let (u, s) ← kindSet? ns
    pure (.store u s (← (kv? "op" op).bind parseNat?) (← (kv? "silent" silent).bind bool?) (← hexList? ((flags.drop 1).dropEnd 1).toString))
  | ["Expunge"] => .ok (.expunge (some (.set [])))
  | ["Expunge", u] => if u = "nil" then .ok (.expunge none) else ofOpt do pure (.expunge (some (← nsetLit? u)))
  | "Fetch" :: ns :: opts => ofOpt do
    let (u, s) ← kindSet? ns
    pure (.fetch u s (← fetchOpts? (" ".intercalate opts)))
  | "Search" :: kind :: rest =>
    -- the criteria are parenthesised; the options are the last token group
    let body := " ".intercalate rest
    let (critText, optText) : String × String :=
      if body.endsWith " nil" then ((body.dropEnd 4).toString, "nil")
      else match body.splitOn " {" with
        | [a, b] => (a, "{" ++ b)
        | _ => (body, "?")
    ofOpt do
      let uid ← (if kind = "uid" then some true else if kind = "seq" then some false else none)
      let (c, rest) ← parseCrit (tokens critText)
      if rest ≠ [] then none else
      pure (.search uid c (← searchOpts? optText))
  | _ => .bad

/-! ### rendering (for the evidence and replays; not parsed back) -/

def showNSet : NSet → String
  | .searchRes => "$"
  | .set rs => NumSet.toStr rs

def showMbox (m : List Nat) : String := showHex (m.flatMap Utf7.utf8enc)

def showDate (d : Date) : String := if d.inst = d.day then s!"{d.day}" else s!"{d.day}:{d.inst}"

partial def showCrit : Crit → String
  | .mk f nots ors =>
    let rec notsL : CritList → List Crit | .nil => [] | .cons c t => c :: notsL t
    let rec orsL : OrList → List (Crit × Crit) | .nil => [] | .cons a b t => (a, b) :: orsL t
    let items : List String :=
      f.seqSets.map (fun s => "q" ++ showNSet s) ++ f.uidSets.map (fun s => "u" ++ showNSet s) ++
      (if f.since.day ≠ 0 then ["s" ++ showDate f.since] else []) ++ (if f.before.day ≠ 0 then ["b" ++ showDate f.before] else []) ++
      (if f.sentSince.day ≠ 0 then ["S" ++ showDate f.sentSince] else []) ++ (if f.sentBefore.day ≠ 0 then ["B" ++ showDate f.sentBefore] else []) ++
      f.header.map (fun kv => s!"h{showHex kv.1}:{showHex kv.2}") ++ f.body.map (fun x => "y" ++ showHex x) ++
      f.text.map (fun x => "t" ++ showHex x) ++ f.flags.map (fun x => "f" ++ showHex x) ++ f.notFlags.map (fun x => "F" ++ showHex x) ++
      (if f.larger ≠ 0 then [s!"l{f.larger}"] else []) ++ (if f.smaller ≠ 0 then [s!"m{f.smaller}"] else []) ++
      (notsL nots).map (fun c => "n " ++ showCrit c) ++ (orsL ors).map (fun ab => "o " ++ showCrit ab.1 ++ " " ++ showCrit ab.2)
    "(" ++ joinWith " " items ++ ")"

def b (x : Bool) : String := if x then "1" else "0"

def showStatus (o : StatusOpts) : String :=
  s!"\{n={b o.messages} un={b o.uidNext} uv={b o.uidValidity} us={b o.unseen} d={b o.deleted} sz={b o.size} al={b o.appendLimit} dst={b o.deletedStorage} hm={b o.highestModSeq}}"

def showInts (l : List Int) : String := "[" ++ joinWith " " (l.map toString) ++ "]"
def showPartial : Option Partial → String
  | none => ""
  | some p => s!" <{p.offset}.{p.size}>"

def showSpec : Spec → String | .none => "" | .header => "HEADER" | .mime => "MIME" | .text => "TEXT"

def showFetch (o : FetchOpts) : String :=
  let items : List String :=
    (match o.bodyStructure with | none => [] | some false => ["bs"] | some true => ["bs", "bsx"]) ++
    (if o.envelope then ["env"] else []) ++ (if o.flags then ["flags"] else []) ++ (if o.internalDate then ["date"] else []) ++
    (if o.size then ["size"] else []) ++ (if o.uid then ["uid"] else []) ++ (if o.modSeq then ["modseq"] else []) ++
    o.sections.map (fun s => s!"sec:{showSpec s.spec} part={showInts s.part} hf=[{joinWith "," (s.fields.map showHex)}] hfn=[{joinWith "," (s.fieldsNot.map showHex)}] peek={b s.peek}{showPartial s.slice}") ++
    o.binary.map (fun s => s!"bin:{showInts s.part} peek={b s.peek}{showPartial s.slice}") ++
    o.binarySize.map (fun p => s!"binsize:{showInts p}")
  "{" ++ joinWith ";" items ++ "}"

def showCmd : Cmd → String
  | .login u p => s!"Login {showHex u} {showHex p}"
  | .select m ro => s!"Select {showMbox m} ro={b ro}"
  | .create m use => joinWith " " (["Create", showMbox m] ++ use.map showHex)
  | .delete m => s!"Delete {showMbox m}"
  | .rename m n => s!"Rename {showMbox m} {showMbox n}"
  | .subscribe m => s!"Subscribe {showMbox m}"
  | .unsubscribe m => s!"Unsubscribe {showMbox m}"
  | .list ref pats o =>
    let rst := match o.retStatus with | none => "nil" | some st => showStatus st
    s!"List {showMbox ref} [{joinWith "," (pats.map showMbox)}] sub={b o.selSubscribed} rem={b o.selRemote} rec={b o.selRecursive} su={b o.selSpecialUse} rsub={b o.retSubscribed} rch={b o.retChildren} rsu={b o.retSpecialUse} rst={rst}"
  | .status m o => s!"Status {showMbox m} {showStatus o}"
  | .append m flags t p =>
    let ts := match t with | none => "0" | some t => s!"{t.secs}@{t.off}"
    s!"Append {showMbox m} [{joinWith "," (flags.map showHex)}] {ts} #{p.length}"
  | .copy u s m => s!"Copy {if u then "uid" else "seq"}:{showNSet s} {showMbox m}"
  | .move u s m => s!"Move {if u then "uid" else "seq"}:{showNSet s} {showMbox m}"
  | .store u s op silent flags => s!"Store {if u then "uid" else "seq"}:{showNSet s} op={op} silent={b silent} [{joinWith "," (flags.map showHex)}]"
  | .expunge none => "Expunge nil"
  | .expunge (some s) => s!"Expunge {showNSet s}"
  | .fetch u s o => s!"Fetch {if u then "uid" else "seq"}:{showNSet s} {showFetch o}"
  | .search u c o =>
    let os := match o with
      | none => "nil"
      | some o => s!"\{min={b o.min} max={b o.max} all={b o.all} count={b o.count} save={b o.save}}"
    s!"Search {if u then "uid" else "seq"} {showCrit c} {os}"
  | .unselect => "Unselect"

def showCalls (cs : List Cmd) : String := if cs = [] then "-" else joinWith " | " (cs.map showCmd)

/-! ### the bytes of an item (Encoder.String / Literal; time.Format for the two date layouts) -/

def quoteBody : Str → Str
  | [] => []
  | c :: cs => if c = 34 || c = 92 then 92 :: c :: quoteBody cs else c :: quoteBody cs

def validQuoted (cfg : Cfg) (s : Str) : Bool :=
  s.length ≤ 4096 && s.all fun ch => ch ≠ 0 && ch ≠ 13 && ch ≠ 10 && (cfg.quotedUTF8 || ch ≤ 127)

def litHeader (n : Nat) (sync : Bool) : Str := [123] ++ digits n ++ (if sync then [] else [43]) ++ [125, 13, 10]

def encString (cfg : Cfg) (s : Str) : Str :=
  if validQuoted cfg s then [34] ++ quoteBody s ++ [34]
  else litHeader s.length ((!cfg.litMinus || s.length > 4096) && !cfg.litPlus) ++ s

def civil (days : Int) : Int × Int × Int :=
  -- days since 1970-01-01
  let z := days + 719468
  let era := (if z ≥ 0 then z else z - 146096) / 146097
  let doe := z - era * 146097
  let yoe := (doe - doe / 1460 + doe / 36524 - doe / 146096) / 365
  let y := yoe + era * 400
  let doy := doe - (365 * yoe + yoe / 4 - yoe / 100)
  let mp := (5 * doy + 2) / 153
  let d := doy - (153 * mp + 2) / 5 + 1
  let m := if mp < 10 then mp + 3 else mp - 9
  (if m ≤ 2 then y + 1 else y, m, d)

def monthName (m : Int) : String :=
  ["Jan", "Feb", "Mar", "Apr", "May", "Jun", "Jul", "Aug", "Sep", "Oct", "Nov", "Dec"].getD (m.toNat - 1) "???"

def pad (w : Nat) (c : Char) (n : Int) : String :=
  let s := toString n.toNat
  String.ofList (List.replicate (w - s.length) c) ++ s

/-- seconds counted from Go's zero time → days since 1970-01-01 -/
def goZeroDays : Int := 719162

/-- time.Format("2-Jan-2006") of a day given as seconds from Go's zero time -/
def dateText (day : Int) : Str :=
  let (y, m, d) := civil (day / 86400 - goZeroDays)
  str s!"{d}-{monthName m}-{pad 4 '0' y}"

/-- time.Format("_2-Jan-2006 15:04:05 -0700") -/
def dateTimeText (t : ATime) : Str :=
  let loc := t.secs + t.off
  let days := Int.fdiv loc 86400
  let tod := loc - days * 86400
  let (y, m, d) := civil days
  let sign := if t.off < 0 then "-" else "+"
  let ao := t.off.natAbs
  str s!"{pad 2 ' ' d}-{monthName m}-{pad 4 '0' y} {pad 2 '0' (tod / 3600)}:{pad 2 '0' ((tod % 3600) / 60)}:{pad 2 '0' (tod % 60)} {sign}{pad 2 '0' (ao / 3600)}{pad 2 '0' ((ao % 3600) / 60)}"

def itemBytes (cfg : Cfg) : Item → Str
  | .b c => [c]
  | .s v => encString cfg v
  | .lit v => litHeader v.length (v.length > 4096 || !cfg.litMinus) ++ v
  | .date d => encString cfg (dateText d)
  | .datetime t => encString cfg (dateTimeText t)

def wireBytes (cfg : Cfg) (w : Wire) : Str := w.flatMap (itemBytes cfg)

def splitSp (s : Str) : List Str :=
  s.foldr (fun c acc => match acc with
    | [] => [[c]]   -- unreachable: acc is never empty
    | h :: t => if c = 32 then [] :: h :: t else (c :: h) :: t) [[]]

def strLt (a b : Str) : Bool := compare a b == .lt

def sortStrs (l : List Str) : List Str := (l.toArray.qsort strLt).toList

/-- match the segments of one protocol command against the bytes the client wrote -/
def matchSegs (cfg : Cfg) : List Seg → Str → Bool
  | [], rest => rest = []
  | .fixed w :: segs, rest =>
    let bs := wireBytes cfg w
    rest.take bs.length = bs && matchSegs cfg segs (rest.drop bs.length)
  | .anyOrder items :: segs, rest =>
    let want := items.map (wireBytes cfg)
    let n := want.foldl (fun a x => a + x.length) 0 + (want.length - 1)
    if want = [] then matchSegs cfg segs rest
    else sortStrs (splitSp (rest.take n)) = sortStrs want && matchSegs cfg segs (rest.drop n)

def segsLen (cfg : Cfg) (segs : List Seg) : Nat :=
  segs.foldl (fun a s => a + match s with
    | .fixed w => (wireBytes cfg w).length
    | .anyOrder items => (items.map fun i => (wireBytes cfg i).length).foldl (· + ·) 0 + (items.length - 1)) 0

def matchCmds (cfg : Cfg) : List (List Seg) → Str → Bool
  | [], rest => rest = []
  | segs :: more, rest =>
    let n := segsLen cfg segs
    matchSegs cfg segs (rest.take n) && matchCmds cfg more (rest.drop n)

/-- the tag number the client used: "T<n> " -/
def tagOf (wire : Str) : Option Nat :=
  match wire with
  | 84 :: r =>
    let ds := r.takeWhile isDigit
    if ds = [] then none else some (valOf ds)
  | _ => none

def refusedStr : Refused → String
  | .invalidFlag => "refused" | .emptySet => "refused" | .unmodelled => "unmodelled"

def errStr : Err → String
  | .bad => "bad" | .no => "no" | .unmodelled => "unmodelled"

def famOf : Cmd → String
  | .login .. => "login" | .select .. => "select" | .create .. => "create" | .delete .. => "delete" | .rename .. => "rename"
  | .subscribe .. => "subscribe" | .unsubscribe .. => "unsubscribe" | .list .. => "list" | .status .. => "status" | .append .. => "append"
  | .copy .. => "copy" | .move .. => "move" | .store .. => "store" | .expunge .. => "expunge" | .fetch .. => "fetch" | .search .. => "search"
  | .unselect => "unselect"

def parseLog (log : String) : Option (List Cmd) × Bool :=
  -- (calls, some mailbox was not UTF-8)
  if log = "-" then (some [], false) else
  (log.splitOn " | ").foldl (fun (acc : Option (List Cmd) × Bool) s =>
    match acc.1, call? s with
    | some l, .ok c => (some (l ++ [c]), acc.2)
    | some l, .notUtf8 => (some l, true)
    | _, _ => (none, acc.2)) (some [], false)

def handle (f : List String) : String :=
  match f with
  | [id, _kind, cfgS, callS, outcome, logS, wireS] =>
    match cfg? cfgS, call? callS, parseLog logS, hexStr? wireS with
    | some _, .notUtf8, _, _ => s!"{id}\t1\tok\tunmodelled:mailbox-not-utf8"
    | some cfg, .ok c, (some log, logBadUtf8), some wire =>
      -- the oracle: the property's predicate on what the implementation did
      let want := sem cfg c
      let dom : String :=
        if !expressible c then " [outside the domain: not expressible]" else if !advertised cfg c then " [outside the domain: not advertised]"
        else if !withinLimits c then " [outside the domain: over a server limit]" else " [in domain]"
      let oracle : String :=
        if !inDomain cfg c then "ok"
        else if outcome ≠ "ok" then s!"fail:not-delivered@{famOf c}:{outcome}"
        else if logBadUtf8 then s!"fail:arguments-altered@{famOf c}"
        else if log.length ≠ want.length then s!"fail:session-calls-differ@{famOf c}"
        else if !equivCalls log want then s!"fail:arguments-altered@{famOf c}"
        else "ok"
      -- the model: print with the client mirror, read with the server mirror
      match printCmd {} cfg ((tagOf wire).getD 0) c with
      | .error .unmodelled => s!"{id}\t1\t{oracle}\tunmodelled:writer{dom}"
      | .error _ =>
        -- the client closes its connection when its encoder refuses an argument; whether the caller then sees
        -- the encoder's error or the reader goroutine's "connection closed" is a race inside the client
        let agree := (outcome = "refused" || outcome = "closed") && log = []
        s!"{id}\t{boolStr agree}\t{oracle}\trefused{dom}"
      | .ok cmds =>
        match parseCmds cfg (cmds.map linearise) with
        | .error .unmodelled => s!"{id}\t1\t{oracle}\tunmodelled:reader{dom}"
        | .error e =>
          -- a failing command makes no session call; with the COPY/STORE/EXPUNGE emulation of MOVE the
          -- failing step is the first one (same arguments)
          let agree := outcome = errStr e && log = [] && matchCmds cfg cmds wire
          s!"{id}\t{boolStr agree}\t{oracle}\t{errStr e}{dom}"
        | .ok calls =>
          let wireOk := matchCmds cfg cmds wire
          let agree := outcome = "ok" && !logBadUtf8 && decide (calls = log) && wireOk
          s!"{id}\t{boolStr agree}\t{oracle}\tok {showCalls calls}{if wireOk then "" else " WIRE-MISMATCH " ++ showHex (wireBytes cfg (cmds.flatMap linearise))}{dom}"
    | _, _, _, _ => s!"{id}\t0\tfail:bad-line\t-"
  | id :: _ => s!"{id}\t0\tfail:bad-line\t-"
  | [] => "?\t0\tfail:bad-line\t-"

end GoImap.DriveC02
