import GoImap.Util
import GoImap.Model.ClientFault
import GoImap.Spec.ClientFault
namespace GoImap.DriveC10
open GoImap GoImap.ClientFault

def parseKind? : String → Option Kind
  | "s" => some .simple | "l" => some .list | "f" => some .fetch | "e" => some .expunge
  | "g" => some .login | "a" => some .append | "d" => some .idle | "u" => some .auth
  | "t" => some .starttls | _ => none

/-- command numbers are 1-based on the line (tag numbers), 0-based in the model -/
def idx? (r : List Char) : Option Nat :=
  match natOfDigits? r with
  | some (n + 1) => some n
  | _ => none

def parseSeg? (s : String) : Option Seg :=
  match s.toList with
  | 't' :: r => (natOfDigits? r).map Seg.txt
  | 'l' :: r => (natOfDigits? r).map Seg.lit
  | _ => none

/-- "g:37", "u1:12", "c1:6", "T1+:22.6", "F1:t30.l12.t3" -/
def parseItem? (s : String) : Option Item :=
  match splitOnChar s ':' with
  | [h, v] =>
    match h.toList with
    | ['g'] => (parseNat? v).map Item.greet
    | 'u' :: _ => (parseNat? v).map Item.line
    | 'c' :: r => do pure (Item.cont (← idx? r) (← parseNat? v))
    | 'F' :: r => do pure (Item.fetch (← idx? r) (← (splitOnChar v '.').mapM parseSeg?))
    | 'T' :: r =>
      match splitOnChar v '.' with
      | [len, head] =>
        match r.reverse with
        | '+' :: c => do pure (Item.tagged (← idx? c.reverse) true (← parseNat? len) (← parseNat? head))
        | '-' :: c => do pure (Item.tagged (← idx? c.reverse) false (← parseNat? len) (← parseNat? head))
        | _ => none
      | _ => none
    | _ => none
  | _ => none

def parsePhase? (s : String) : Option Phase :=
  match s.toList with
  | k :: r =>
    if k = 'G' then some .greetWait else
    match idx? r with
    | none => none
    | some c =>
      match k with
      | 'i' => some (.issue c) | 'W' => some (.wait c) | 'C' => some (.collect c)
      | 'N' => some (.loop c) | 'X' => some (.close c) | 'J' => some (.issueCont c) | 'I' => some (.idle c)
      | 'w' => some (.appendWrite c) | 'D' => some (.idleDone c) | 'U' => some (.auth c) | 'S' => some (.starttls c)
      | _ => none
  | [] => none

/-- one call of the caller as the model sees it: usually one phase; `M<c>` = MoveCommand.Wait of a
    MOVE emulated with COPY (c), STORE (c+1), EXPUNGE (c+2): Wait, then Close, then Close, stopping
    at the first error -/
def parseGroup? (s : String) : Option (List Phase) :=
  match s.toList with
  | 'M' :: r => (idx? r).map fun c => [.wait c, .close (c + 1), .close (c + 2)]
  | _ => (parsePhase? s).map fun ph => [ph]

/-- the class of a group of phases observed as one call: the first class that is not "ok" -/
def foldCls : List String → String
  | [] => "ok"
  | c :: r => if c = "ok" && !r.isEmpty then foldCls r else c

/-- fold the per-phase classes by groups -/
def foldGroups : List (List Phase) → List String → List String
  | [], _ => []
  | g :: gs, cl => foldCls (cl.take g.length) :: foldGroups gs (cl.drop g.length)

def parseFault? : String → Option Fault
  | "none" => some .none | "eof" => some .eof | "rerr" => some .rerr | "werr" => some .werr
  | "sclose" => some .sclose | "stimeout" => some .stimeout | _ => none

def showCls : Cls → String
  | .ok => "ok" | .err => "err" | .ret => "ret" | .skipped => "-"

/-- the observation the model predicts, in the harness's format -/
def showObs (cfg : Config) (groups : List (List Phase)) (s : St) : String :=
  let rest := match s.prog with
    | [] => []
    | _ :: r => "hang" :: r.map fun _ => "-"
  let p := joinWith "," (foldGroups groups (s.out.map showCls ++ rest))
  let cut := cfg.k < totalLen cfg.items
  let a := if cfg.fault = .stimeout && cut then boolStr (armed cfg) else "-"
  let w := match s.prober with
    | .none => "-" | .wanting => "hang" | .done => "err"
  s!"p={p};c={boolStr (s.closer = .returned)};r={boolStr (s.reader = .exited)};a={a};w={w}"

/-- does the phase's result report the completion of its command? -/
def reports : Phase → Bool
  | .wait _ | .collect _ | .close _ | .auth _ | .starttls _ => true
  | _ => false

def phaseCmd : Phase → Nat
  | .greetWait => 0
  | .issue c | .wait c | .collect c | .loop c | .close c | .issueCont c | .idle c
  | .appendWrite c | .idleDone c | .auth c | .starttls c => c

def toResp : Item → ClientFaultSpec.Resp
  | .tagged c _ len _ => ⟨some c, len⟩
  | it => ⟨none, it.len⟩

def field? (obs : String) (key : String) : Option String :=
  (splitOnChar obs ';').findSome? fun kv =>
    match splitOnChar kv '=' with
    | [k, v] => if k = key then some v else none
    | _ => none

def parseObs? (groups : List (List Phase)) (obs : String) : Option ClientFaultSpec.Observation := do
  let p ← field? obs "p"
  let cl := splitOnChar p ','
  let c ← field? obs "c"
  let r ← field? obs "r"
  let w ← field? obs "w"
  -- a dead or expired worker is reported as a single class for the whole case
  let cl := if cl.length = groups.length then cl else groups.map fun _ => "hang"
  -- a call made of several phases reports the completion of each of their commands
  pure { calls := (groups.zip cl).flatMap fun (g, cls) => g.map fun ph => ⟨phaseCmd ph, reports ph, cls⟩
         closeReturned := c = "1", readerExited := r = "1", probe := w }

def cmdRefsOk (n : Nat) (items : List Item) (prog : List Phase) : Bool :=
  let okc := fun c => decide (c < n)
  items.all (fun it => match it with
    | .cont c _ | .tagged c _ _ _ | .fetch c _ => okc c
    | _ => true) &&
  prog.all (fun ph => ph = .greetWait || okc (phaseCmd ph))

def handle (f : List String) : String :=
  match f with
  | [id, "cut", _scn, _mode, kinds, items, phases, k, fault, obs] =>
    match (splitOnChar kinds ',').mapM parseKind?, (splitOnChar items ';').mapM parseItem?,
          (splitOnChar phases ',').mapM parseGroup?, parseNat? k, parseFault? fault with
    | some kinds, some items, some groups, some k, some fault =>
      let prog := groups.flatten
      if !cmdRefsOk kinds.length items prog then s!"{id}\t0\tfail:bad-line\t-" else
      let cfg : Config := { kinds := kinds, items := items, prog := prog, k := k, fault := fault }
      let m := showObs cfg groups (simulate cfg)
      let orc := match parseObs? groups obs with
        | none => "fail:unparsable-observation"
        | some o => match ClientFaultSpec.violation (items.map toResp) k o with
          | none => "ok"
          | some e => "fail:" ++ e
      s!"{id}\t{boolStr (m == obs)}\t{orc}\t{m}"
    | _, _, _, _, _ => s!"{id}\t0\tfail:bad-line\t-"
  | id :: _ => s!"{id}\t0\tfail:bad-line\t-"
  | [] => "?\t0\tfail:bad-line\t-"

end GoImap.DriveC10
