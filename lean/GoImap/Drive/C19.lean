import GoImap.Model.Search
import GoImap.Spec.Search
import GoImap.Drive.C15
namespace GoImap.DriveC19
open GoImap GoImap.Search GoImap.SearchSpec

def hexStr? (s : String) : Option Str := (hexDecode? s).map fun b => b.map UInt8.toNat
def showHex (s : Str) : String := hexEnc (s.map UInt8.ofNat)

def ranges? (s : String) : Option NumSet.Set := DriveC15.parseRanges? s '-'

def CritList.toList : CritList → List Crit
  | .nil => []
  | .cons c t => c :: CritList.toList t
def OrList.toList : OrList → List (Crit × Crit)
  | .nil => []
  | .cons a b t => (a, b) :: OrList.toList t
def critListOf : List Crit → CritList
  | [] => .nil
  | c :: t => .cons c (critListOf t)
def orListOf : List (Crit × Crit) → OrList
  | [] => .nil
  | (a, b) :: t => .cons a b (orListOf t)

/-- canonical text of a criteria value -/
partial def showCrit : Crit → String
  | .mk f nots ors =>
    let items : List String :=
      f.seqSets.map (fun s => "q" ++ DriveC15.showRanges s) ++
      f.uidSets.map (fun s => "u" ++ DriveC15.showRanges s) ++
      (if f.since ≠ 0 then [s!"s{f.since}"] else []) ++
      (if f.before ≠ 0 then [s!"b{f.before}"] else []) ++
      (if f.sentSince ≠ 0 then [s!"S{f.sentSince}"] else []) ++
      (if f.sentBefore ≠ 0 then [s!"B{f.sentBefore}"] else []) ++
      f.header.map (fun kv => s!"h{showHex kv.1}:{showHex kv.2}") ++
      f.body.map (fun x => "y" ++ showHex x) ++
      f.text.map (fun x => "t" ++ showHex x) ++
      f.flags.map (fun x => "f" ++ showHex x) ++
      f.notFlags.map (fun x => "F" ++ showHex x) ++
      (if f.larger ≠ 0 then [s!"l{f.larger}"] else []) ++
      (if f.smaller ≠ 0 then [s!"m{f.smaller}"] else []) ++
      (CritList.toList nots).map (fun c => "n " ++ showCrit c) ++
      (OrList.toList ors).map (fun ab => "o " ++ showCrit ab.1 ++ " " ++ showCrit ab.2)
    "(" ++ joinWith " " items ++ ")"

def addItem (f : Flat) (tok : String) : Option Flat :=
  match tok.toList with
  | 'q' :: r => (ranges? (String.ofList r)).map fun s => { f with seqSets := f.seqSets ++ [s] }
  | 'u' :: r => (ranges? (String.ofList r)).map fun s => { f with uidSets := f.uidSets ++ [s] }
  | 's' :: r => (parseInt? (String.ofList r)).map fun t => { f with since := t }
  | 'b' :: r => (parseInt? (String.ofList r)).map fun t => { f with before := t }
  | 'S' :: r => (parseInt? (String.ofList r)).map fun t => { f with sentSince := t }
  | 'B' :: r => (parseInt? (String.ofList r)).map fun t => { f with sentBefore := t }
  | 'h' :: r =>
    match splitOnChar (String.ofList r) ':' with
    | [k, v] => do let k ← hexStr? k; let v ← hexStr? v; pure { f with header := f.header ++ [(k, v)] }
    | _ => none
  | 'y' :: r => (hexStr? (String.ofList r)).map fun x => { f with body := f.body ++ [x] }
  | 't' :: r => (hexStr? (String.ofList r)).map fun x => { f with text := f.text ++ [x] }
  | 'f' :: r => (hexStr? (String.ofList r)).map fun x => { f with flags := f.flags ++ [x] }
  | 'F' :: r => (hexStr? (String.ofList r)).map fun x => { f with notFlags := f.notFlags ++ [x] }
  | 'l' :: r => (parseInt? (String.ofList r)).map fun n => { f with larger := n }
  | 'm' :: r => (parseInt? (String.ofList r)).map fun n => { f with smaller := n }
  | _ => none

mutual
  /-- crit := "(" item* ")" ; returns the value and the remaining tokens -/
  partial def parseCrit : List String → Option (Crit × List String)
    | "(" :: rest => parseItems {} [] [] rest
    | _ => none
  partial def parseItems (f : Flat) (nots : List Crit) (ors : List (Crit × Crit)) :
      List String → Option (Crit × List String)
    | ")" :: rest => some (.mk f (critListOf nots) (orListOf ors), rest)
    | "n" :: rest => do
      let (c, rest) ← parseCrit rest
      parseItems f (nots ++ [c]) ors rest
    | "o" :: rest => do
      let (a, rest) ← parseCrit rest
      let (b, rest) ← parseCrit rest
      parseItems f nots (ors ++ [(a, b)]) rest
    | tok :: rest => do
      let f ← addItem f tok
      parseItems f nots ors rest
    | [] => none
end

def tokens (s : String) : List String :=
  ((s.replace "(" " ( ").replace ")" " ) ").splitOn " " |>.filter (· ≠ "")

def crit? (s : String) : Option Crit :=
  match parseCrit (tokens s) with
  | some (c, []) => some c
  | _ => none

def keyListOf : List Key → KeyList
  | [] => .nil
  | k :: t => .cons k (keyListOf t)

mutual
  partial def parseKey : List String → Option (Key × List String)
    | "A" :: rest => some (.all, rest)
    | "N" :: rest => some (.new_, rest)
    | "O" :: rest => some (.old, rest)
    | "n" :: rest => do let (k, rest) ← parseKey rest; pure (.not k, rest)
    | "o" :: rest => do
      let (a, rest) ← parseKey rest
      let (b, rest) ← parseKey rest
      pure (.or a b, rest)
    | "(" :: rest => do let (ks, rest) ← parseKeys [] rest; pure (.group (keyListOf ks), rest)
    | tok :: rest =>
      let arg := String.ofList (tok.toList.drop 1)
      let k : Option Key := match tok.toList.head? with
        | some 'q' => (ranges? arg).map Key.seqSet
        | some 'u' => (ranges? arg).map Key.uid
        | some 'f' => (hexStr? arg).map Key.flag
        | some 'F' => (hexStr? arg).map Key.notFlag
        | some 'h' => match splitOnChar arg ':' with
          | [k, v] => do pure (Key.header (← hexStr? k) (← hexStr? v))
          | _ => none
        | some 's' => (parseInt? arg).map Key.since
        | some 'b' => (parseInt? arg).map Key.before
        | some 'd' => (parseInt? arg).map Key.on
        | some 'S' => (parseInt? arg).map Key.sentSince
        | some 'B' => (parseInt? arg).map Key.sentBefore
        | some 'D' => (parseInt? arg).map Key.sentOn
        | some 'y' => (hexStr? arg).map Key.body
        | some 't' => (hexStr? arg).map Key.text
        | some 'l' => (parseInt? arg).map Key.larger
        | some 'm' => (parseInt? arg).map Key.smaller
        | _ => none
      k.map fun k => (k, rest)
    | [] => none
  partial def parseKeys (acc : List Key) : List String → Option (List Key × List String)
    | ")" :: rest => some (acc, rest)
    | [] => some (acc, [])
    | toks => do
      let (k, rest) ← parseKey toks
      parseKeys (acc ++ [k]) rest
end

def keys? (s : String) : Option KeyList :=
  match parseKeys [] (tokens s) with
  | some (ks, []) => some (keyListOf ks)
  | _ => none

/-- number of atomic constraints of a criteria value (top level), in rendering order -/
def numAtoms : Crit → Nat
  | .mk f nots ors =>
    f.seqSets.length + f.uidSets.length + (if f.since ≠ 0 then 1 else 0) + (if f.before ≠ 0 then 1 else 0) +
    (if f.sentSince ≠ 0 then 1 else 0) + (if f.sentBefore ≠ 0 then 1 else 0) + f.header.length + f.body.length +
    f.text.length + f.flags.length + f.notFlags.length + (if f.larger ≠ 0 then 1 else 0) +
    (if f.smaller ≠ 0 then 1 else 0) + (CritList.toList nots).length + (OrList.toList ors).length

def firstDiff (f g : Msg → Bool) : Option Nat :=
  (msgUniverse.zipIdx.find? fun (m, _) => f m != g m).map (·.2)

def msg? (f : List String) : Option Msg :=
  match f with
  | [seq, uid, dayS, sent, sentErr, flags, size, buf, body, hdrs] => do
    let fl ← (if flags.isEmpty then some [] else (splitOnChar flags ',').mapM hexStr?)
    let hs ← (if hdrs.isEmpty then some [] else (splitOnChar hdrs ',').mapM fun kv =>
      match splitOnChar kv ':' with
      | [k, v] => do pure ((← hexStr? k), (← hexStr? v))
      | _ => none)
    pure { seq := ← parseNat? seq, uid := ← parseNat? uid, day := ← parseInt? dayS, sentDay := ← parseInt? sent,
           sentErr := sentErr == "1", flags := fl, size := ← parseInt? size, buf := ← hexStr? buf,
           body := ← hexStr? body, hdrs := hs }
  | _ => none

def handle (f : List String) : String :=
  match f with
  | [id, "and", a, b, impl] =>
    match crit? a, crit? b, crit? impl with
    | some ca, some cb, some ci =>
      let m := showCrit (ca.and cb)
      let orc := match firstDiff (fun x => matchesC x ci) (fun x => matchesC x ca && matchesC x cb) with
        | none => "ok"
        | some i => s!"fail:and-is-not-intersection@msg{i}"
      s!"{id}\t{boolStr (m == showCrit ci)}\t{orc}\t{m}"
    | _, _, _ => s!"{id}\t0\tfail:bad-line\t-"
  | id :: "msg" :: c :: rest =>
    -- rest = message fields, then "p<bits>" (the implementation's verdict on each atomic constraint
    -- of the criteria taken alone), then the implementation's verdict on the whole criteria
    match crit? c, msg? (rest.dropLast.dropLast), rest.dropLast.getLast?, rest.getLast? with
    | some c, some m, some parts, some impl =>
      let r := boolStr (matchesC m c)
      let bits := parts.toList.drop 1
      let orc :=
        if bits.length != numAtoms c then "fail:bad-line"
        else if (impl == "1") != bits.all (· == '1') then "fail:criteria-not-the-conjunction-of-its-constraints"
        else "ok"
      s!"{id}\t{boolStr (r == impl)}\t{orc}\t{r}"
    | _, _, _, _ => s!"{id}\t0\tfail:bad-line\t-"
  | [id, "keys", ks, impl] =>
    match keys? ks with
    | none => s!"{id}\t0\tfail:bad-line\t-"
    | some kl =>
      let m := showCrit (foldKeys kl)
      match crit? impl with
      | none => s!"{id}\t{boolStr (m == impl)}\tfail:valid-keys-rejected\t{m}"
      | some ci =>
        let orc := match firstDiff (fun x => matchesC x ci) (fun x => matchesKeys x kl) with
          | none => "ok"
          | some i => s!"fail:keys-are-not-a-conjunction@msg{i}"
        s!"{id}\t{boolStr (m == showCrit ci)}\t{orc}\t{m}"
  | id :: _ => s!"{id}\t0\tfail:bad-line\t-"
  | [] => "?\t0\tfail:bad-line\t-"

end GoImap.DriveC19
