import GoImap.Model.ListMatch
import GoImap.Spec.ListMatch
import GoImap.Model.Utf7
namespace GoImap.DriveC20
open GoImap GoImap.ListMatch GoImap.ListMatchSpec

def namesLen (alpha : List B) : Nat → List (List B)
  | 0 => [[]]
  | n+1 => alpha.flatMap fun a => (namesLen alpha n).map (a :: ·)

def allNames (alpha : List B) (maxLen : Nat) : List (List B) :=
  (List.range (maxLen + 1)).flatMap (namesLen alpha)

def toB (b : Bytes) : List B := b.map UInt8.toNat

/-- delimiter rune number → the delimiter as the byte-level oracle sees it (defined for an absent or
    ASCII delimiter only) -/
def delimByteOf (rune : Nat) : Option B := if rune = 0 then none else if rune < 128 then some rune else none

/-- the oracle's answer for one name: byte-level `resolveMatch` for an absent or ASCII delimiter
    (any bytes), rune-level `runeOracle` for a multi-byte delimiter when name, reference and pattern
    are valid UTF-8; `none` (no verdict, the case is compared with the model only) otherwise -/
def oracle (rune : Nat) (n r p : List B) : Option Bool :=
  if rune < 128 then some (resolveMatch n (delimByteOf rune) r p)
  else runeOracle Utf7.utf8dec n rune r p

/-- compare a bitmap of answers with the oracle, skipping the names without a verdict -/
def firstDiff (rune : Nat) (names : List (List B)) (r p : List B) (bitmap : String) : Option Nat :=
  ((names.zip bitmap.toList).findIdx? fun (n, c) =>
    match oracle rune n r p with
    | some b => (if b then '1' else '0') != c
    | none => false)

def handle (f : List String) : String :=
  match f with
  | [id, "bm", rune, dhex, rhex, phex, ahex, maxLen, bitmap] =>
    match parseNat? rune, hexDecode? dhex, hexDecode? rhex, hexDecode? phex, hexDecode? ahex, parseNat? maxLen with
    | some rune, some d, some r, some p, some a, some ml =>
      let names := allNames (toB a) ml
      let m := String.ofList (names.map fun n => if matchListTopS n (toB d) (toB r) (toB p) then '1' else '0')
      let orc := if bitmap.length != names.length then "fail:bad-line" else
        match firstDiff rune names (toB r) (toB p) bitmap with
        | none => "ok"
        | some idx => s!"fail:wildcard-semantics@name{idx}"
      s!"{id}\t{boolStr (m == bitmap)}\t{orc}\t{m}"
    | _, _, _, _, _, _ => s!"{id}\t0\tfail:bad-line\t-"
  | [id, "list", rune, dhex, rhex, phex, names, impl] =>
    match parseNat? rune, hexDecode? dhex, hexDecode? rhex, hexDecode? phex, (splitOnChar names ',').mapM hexDecode? with
    | some rune, some d, some r, some p, some ns =>
      -- an empty pattern is the special "return the delimiter" request: no mailbox is listed
      let m := if p.isEmpty then String.ofList (ns.map fun _ => '0') else
        String.ofList (ns.map fun n => if matchListTopS (toB n) (toB d) (toB r) (toB p) then '1' else '0')
      let orc := if impl.length != ns.length then "fail:bad-line"
        else if p.isEmpty then (if impl == m then "ok" else "fail:list-result-differs-from-wildcard-semantics")
        else match firstDiff rune (ns.map toB) (toB r) (toB p) impl with
          | none => "ok"
          | some _ => "fail:list-result-differs-from-wildcard-semantics"
      s!"{id}\t{boolStr (m == impl)}\t{orc}\t{m}"
    | _, _, _, _, _ => s!"{id}\t0\tfail:bad-line\t-"
  | [id, "one", rune, dhex, rhex, phex, nhex, impl] =>
    match parseNat? rune, hexDecode? dhex, hexDecode? rhex, hexDecode? phex, hexDecode? nhex with
    | some rune, some d, some r, some p, some n =>
      let m := boolStr (matchListTopS (toB n) (toB d) (toB r) (toB p))
      let orc := match oracle rune (toB n) (toB r) (toB p) with
        | some b => if boolStr b == impl then "ok" else "fail:wildcard-semantics"
        | none => "ok"
      s!"{id}\t{boolStr (m == impl)}\t{orc}\t{m}"
    | _, _, _, _, _ => s!"{id}\t0\tfail:bad-line\t-"
  | id :: _ => s!"{id}\t0\tfail:bad-line\t-"
  | [] => "?\t0\tfail:bad-line\t-"

end GoImap.DriveC20
