import GoImap.Model.ListMatch
import GoImap.Spec.ListMatch
namespace GoImap.DriveC20
open GoImap GoImap.ListMatch GoImap.ListMatchSpec

def namesLen (alpha : List B) : Nat → List (List B)
  | 0 => [[]]
  | n+1 => alpha.flatMap fun a => (namesLen alpha n).map (a :: ·)

def allNames (alpha : List B) (maxLen : Nat) : List (List B) :=
  (List.range (maxLen + 1)).flatMap (namesLen alpha)

def toB (b : Bytes) : List B := b.map UInt8.toNat

/-- delimiter rune number → the single byte it can equal in `string(name[j]) == delim` -/
def delimByteOf (rune : Nat) : Option B := if rune = 0 then none else if rune < 256 then some rune else none

def handle (f : List String) : String :=
  match f with
  | [id, "bm", rune, dhex, rhex, phex, ahex, maxLen, bitmap] =>
    match parseNat? rune, hexDecode? dhex, hexDecode? rhex, hexDecode? phex, hexDecode? ahex, parseNat? maxLen with
    | some rune, some d, some r, some p, some a, some ml =>
      let names := allNames (toB a) ml
      let db := delimByteOf rune
      let m := String.ofList (names.map fun n => if matchListTop n (toB d) db (toB r) (toB p) then '1' else '0')
      -- the oracle is defined for an absent or single-byte ASCII delimiter
      let orc := if rune < 128 then
          let s := String.ofList (names.map fun n => if resolveMatch n db (toB r) (toB p) then '1' else '0')
          if s == bitmap then "ok" else
            let idx := ((s.toList.zip bitmap.toList).findIdx? (fun (x, y) => x != y)).getD 0
            s!"fail:wildcard-semantics@name{idx}"
        else "ok"
      s!"{id}\t{boolStr (m == bitmap)}\t{orc}\t{m}"
    | _, _, _, _, _, _ => s!"{id}\t0\tfail:bad-line\t-"
  | [id, "list", rune, dhex, rhex, phex, names, impl] =>
    match parseNat? rune, hexDecode? dhex, hexDecode? rhex, hexDecode? phex, (splitOnChar names ',').mapM hexDecode? with
    | some rune, some d, some r, some p, some ns =>
      let db := delimByteOf rune
      -- an empty pattern is the special "return the delimiter" request: no mailbox is listed
      let m := if p.isEmpty then String.ofList (ns.map fun _ => '0') else
        String.ofList (ns.map fun n => if matchListTop (toB n) (toB d) db (toB r) (toB p) then '1' else '0')
      let spec := if p.isEmpty then m else
        String.ofList (ns.map fun n => if resolveMatch (toB n) db (toB r) (toB p) then '1' else '0')
      let orc := if impl == spec then "ok" else "fail:list-result-differs-from-wildcard-semantics"
      s!"{id}\t{boolStr (m == impl)}\t{orc}\t{m}"
    | _, _, _, _, _ => s!"{id}\t0\tfail:bad-line\t-"
  | [id, "one", rune, dhex, rhex, phex, nhex, impl] =>
    match parseNat? rune, hexDecode? dhex, hexDecode? rhex, hexDecode? phex, hexDecode? nhex with
    | some rune, some d, some r, some p, some n =>
      let db := delimByteOf rune
      let m := boolStr (matchListTop (toB n) (toB d) db (toB r) (toB p))
      let orc := if rune < 128 then
          (if boolStr (resolveMatch (toB n) db (toB r) (toB p)) == impl then "ok" else "fail:wildcard-semantics")
        else "ok"
      s!"{id}\t{boolStr (m == impl)}\t{orc}\t{m}"
    | _, _, _, _, _ => s!"{id}\t0\tfail:bad-line\t-"
  | id :: _ => s!"{id}\t0\tfail:bad-line\t-"
  | [] => "?\t0\tfail:bad-line\t-"

end GoImap.DriveC20
