import GoImap.Model.ServerSM
import GoImap.Spec.ServerSM
namespace GoImap.DriveC05
open GoImap GoImap.ServerSM GoImap.ServerSpec

/-! line format (fields after the property id):
    id, row|hist, cfg, target, nsetup, history, greeting, observations, tail      or      id, audit, total, bad
    observation of one step: calls|resp|bye|cont|respCaps|tls|probeCaps|probeFetch|probeEnable|probeCalls
    a call is Name@state, followed by ! when the stub refused it; kind pipe: the steps from index nsetup on were
    sent in one write, their calls are reported with the last of them and only the last is probed (~ elsewhere) -/

def bit? (c : Char) : Option Bool := if c = '1' then some true else if c = '0' then some false else none

def parseCfg? (s : String) : Option Cfg :=
  match s.toList with
  | ['t', t, 'i', i, 'p', p, 'f', f, 's', st, 'c', m] => do
    let caps ← (if m = '0' then some CapsMode.rev1 else if m = '1' then some CapsMode.both
                else if m = '2' then some CapsMode.rev2 else none)
    pure ⟨← bit? t, ← bit? i, ← bit? p, ← bit? f, ← bit? st, caps⟩
  | _ => none

def kindTable : List (String × CmdKind) :=
  [("noop", .noop), ("check", .check), ("logout", .logout), ("capability", .capability), ("starttls", .starttls),
   ("authenticate", .authenticate), ("authcont", .authCont), ("authcancel", .authCancel), ("authmech", .authMech),
   ("unauthenticate", .unauthenticate), ("login", .login), ("enable", .enable), ("create", .create),
   ("delete", .delete), ("rename", .rename), ("subscribe", .subscribe), ("unsubscribe", .unsubscribe),
   ("status", .status), ("list", .list), ("lsub", .lsub), ("namespace", .namespace), ("idle", .idle),
   ("select", .select), ("examine", .examine), ("close", .close), ("unselect", .unselect), ("append", .append),
   ("fetch", .fetch), ("uidfetch", .uidFetch), ("expunge", .expunge), ("uidexpunge", .uidExpunge),
   ("store", .store), ("uidstore", .uidStore), ("copy", .copy), ("uidcopy", .uidCopy), ("move", .move),
   ("uidmove", .uidMove), ("search", .search), ("uidsearch", .uidSearch), ("unknown", .unknown),
   ("uidunknown", .uidUnknown)]

def outcomeTable : List (String × Outcome) :=
  [("parse", .parseErr), ("ok", .backendOk), ("berr", .backendErr), ("aux", .auxErr), ("poll", .pollErr)]

def callTable : List (String × SessionCall) :=
  [("Login", .login), ("Unauthenticate", .unauthenticate), ("Select", .select), ("Create", .create),
   ("Delete", .delete), ("Rename", .rename), ("Subscribe", .subscribe), ("Unsubscribe", .unsubscribe),
   ("List", .list), ("Status", .status), ("Append", .append), ("Poll", .poll), ("Idle", .idle),
   ("Namespace", .namespace), ("Unselect", .unselect), ("Expunge", .expunge), ("Search", .search),
   ("Fetch", .fetch), ("Store", .store), ("Copy", .copy), ("Move", .move), ("Close", .close)]

def callName (c : SessionCall) : String :=
  match callTable.find? (·.2 = c) with
  | some (n, _) => n
  | none => "?"

def kindName (k : CmdKind) : String :=
  match kindTable.find? (·.2 = k) with
  | some (n, _) => n
  | none => "?"

def outcomeName (o : Outcome) : String :=
  match outcomeTable.find? (·.2 = o) with
  | some (n, _) => n
  | none => "?"

def stLetter : St → String
  | .notAuth => "n" | .auth => "a" | .selected => "s" | .logout => "l"

def stOfLetter? : String → Option St
  | "n" => some .notAuth | "a" => some .auth | "s" => some .selected | "l" => some .logout
  | _ => none

def parseHist? (s : String) : Option Hist :=
  if s = "-" then some [] else
  (splitOnChar s ';').mapM fun t =>
    match splitOnChar t ':' with
    | [k, o] => do pure ((← kindTable.lookup k), (← outcomeTable.lookup o))
    | _ => none

def showCalls (l : List Call) : String :=
  if l.isEmpty then "-" else joinWith "+" (l.map fun (c, s) => callName c ++ "@" ++ stLetter s)

/-- calls as observed: (call, state seen inside it, refused by the stub) -/
def parseCalls? (s : String) : Option (List (Call × Bool)) :=
  if s = "-" then some [] else
  (splitOnChar s '+').mapM fun t =>
    let failed := t.endsWith "!"
    let t := if failed then (t.dropEnd 1).toString else t
    match splitOnChar t '@' with
    | [c, st] => do pure (((← callTable.lookup c), (← stOfLetter? st)), failed)
    | _ => none

def insertSorted (x : String) : List String → List String
  | [] => [x]
  | y :: ys => if x < y then x :: y :: ys else y :: insertSorted x ys

def sortStrings (l : List String) : List String := l.foldr insertSorted []

def showCaps (l : List Cap) : String :=
  if l.isEmpty then "-" else joinWith "," (sortStrings (l.map Cap.name))

def showResp : Resp → String
  | .ok => "OK" | .no => "NO" | .bad => "BAD" | .none => "EOF"

/-- the model's prediction of one step's observation (including the probe that follows it) -/
def modelObs (cfg : Cfg) (r : Out) : String :=
  let c := r.conn
  let p1 := step cfg c .capability .backendOk
  let p2 := step cfg p1.conn .fetch .backendOk
  let p3 := step cfg p2.conn .enable .backendOk
  joinWith "|" [showCalls r.calls, showResp r.resp, boolStr r.bye, toString r.cont,
    (if r.caps then showCaps (availableCaps cfg c) else "-"), boolStr c.tls,
    (if c.closed then "-" else showCaps (availableCaps cfg c)),
    showResp p2.resp, showResp p3.resp, showCalls (p1.calls ++ p2.calls ++ p3.calls)]

def modelGreet (cfg : Cfg) : String :=
  (if cfg.pre then "PREAUTH" else "OK") ++ "|" ++ showCaps (availableCaps cfg (greet cfg))

def lastConn (cfg : Cfg) (outs : List Out) : Conn :=
  match outs.getLast? with
  | some r => r.conn
  | none => greet cfg

def modelTail (cfg : Cfg) (outs : List Out) : String :=
  s!"closes=1@{stLetter (lastConn cfg outs).st} extra=0"

/-! ### the oracle, evaluated on what the implementation did -/

structure StepObs where
  calls : List (Call × Bool)
  resp : String
  bye : Bool
  respCaps : String
  tls : Bool
  probed : Bool
  probeCaps : String
  pf : String
  pe : String
  probeCalls : List (Call × Bool)

def parseObs? (s : String) : Option StepObs :=
  match splitOnChar s '|' with
  | [calls, resp, bye, _cont, rcaps, tls, pcaps, pf, pe, pcalls] =>
    if pcaps = "~" then do
      pure ⟨← parseCalls? calls, resp, bye = "1", rcaps, tls = "1", false, "-", "-", "-", []⟩
    else do
      pure ⟨← parseCalls? calls, resp, bye = "1", rcaps, tls = "1", true, pcaps, pf, pe, ← parseCalls? pcalls⟩
  | _ => none

/-- the state a client finds after the step -/
def observedSt (o : StepObs) : St :=
  if o.probeCaps = "-" && o.pf = "EOF" then .logout
  else if o.pf = "OK" then .selected
  else if o.pe = "OK" then .auth
  else .notAuth

def capList (s : String) : List String := if s = "-" then [] else splitOnChar s ','

def checkCalls (cfg : Cfg) (rc : RConn) (l : List (Call × Bool)) : Option String :=
  l.findSome? fun ((c, s), _) =>
    if !Permitted s c then some s!"call-not-permitted({callName c}@{stLetter s})"
    else if c = .login && !credsAllowed cfg rc.tls then some "credentials-without-tls"
    else none

/-- what the oracle carries along a history: the RFC's view of the connection and the backend's own
    view of whether it has a mailbox open -/
structure OSt where
  rc : RConn
  bopen : Bool

def oracleStep (cfg : Cfg) (os : OSt) (k : CmdKind) (o : Outcome) (ob : StepObs) : OSt × Option String :=
  let rc := os.rc
  -- a step that was not probed (pipelined before the last command of a write) is taken to have moved as the
  -- RFC says; the probe after the last command of the write judges the whole group
  let next := if ob.probed then observedSt ob else (rfcStep cfg rc k o).st
  let rc' : RConn := ⟨next, (rfcStep cfg rc k o).tls⟩
  let tag := s!"{kindName k}:{outcomeName o}@{stLetter rc.st}"
  let allCalls := (ob.calls ++ ob.probeCalls).map fun ((c, _), failed) => (c, failed)
  let (bopen', bv) := bviewCheck os.bopen allCalls
  let err : Option String :=
    if rc.st == .logout then
      (if !ob.calls.isEmpty || !ob.probeCalls.isEmpty || ob.resp != "EOF" then
         some s!"processed-after-termination({tag};calls={ob.calls.length + ob.probeCalls.length},reply={ob.resp})"
       else none)
    else
      match checkCalls cfg rc ob.calls with
      | some e => some e
      | none =>
      -- the probe runs in the state after the step, with the TLS status after the step
      match checkCalls cfg rc' ob.probeCalls with
      | some e => some e
      | none =>
        match bv with
        | some c => some s!"backend-view-mismatch({callName c} reaches a backend with no mailbox;{tag})"
        | none =>
        if !ob.probed then
          (if (k == .logout && o != .parseErr || (k == .unknown || k == .uidUnknown) && rc.st == .notAuth) && !ob.bye then
             some s!"ended-without-bye({tag})" else none)
        else if !rfcAllowed cfg rc k o next then
          some s!"state-after({tag})={stLetter next},rfc={stLetter (rfcStep cfg rc k o).st}"
        else if next != .logout && ob.tls != rc'.tls then some s!"tls-state({tag})"
        else if (k == .logout && o != .parseErr || (k == .unknown || k == .uidUnknown) && rc.st == .notAuth) && !ob.bye then
          some s!"ended-without-bye({tag})"
        else if next != .logout then
          match capsRule cfg rc' (capList ob.probeCaps) with
          | some c => some s!"caps-advert({c})@{stLetter next}"
          | none =>
            if ob.respCaps != "-" then
              (capsRule cfg rc' (capList ob.respCaps)).map fun c => s!"caps-advert-in-completion({c})@{stLetter next}"
            else none
        else none
  (⟨rc', bopen'⟩, err)

def oracleHist (cfg : Cfg) (h : Hist) (greetS : String) (obs : List String) (tail : String) : String :=
  match splitOnChar greetS '|' with
  | [typ, gcaps] =>
    if typ != "OK" && typ != "PREAUTH" then "fail:no-greeting"
    else if (typ == "PREAUTH") != cfg.pre then "fail:greeting-type"
    else
      let rc0 := rfcInit cfg
      match capsRule cfg rc0 (capList gcaps) with
      | some c => s!"fail:caps-advert-in-greeting({c})"
      | none =>
        let rec go (os : OSt) (h : Hist) (obs : List String) (i : Nat) : Option String :=
          match h, obs with
          | [], _ => none
          | _ :: _, [] => some "missing-observation"
          | (k, o) :: h', ob :: obs' =>
            match parseObs? ob with
            | none => some s!"unparsable-observation@step{i}"
            | some so =>
              match oracleStep cfg os k o so with
              | (_, some e) => some s!"{e}@step{i}"
              | (os', none) => go os' h' obs' (i + 1)
        match go ⟨rc0, false⟩ h obs 1 with
        | some e => "fail:" ++ e
        | none =>
          if !tail.startsWith "closes=1@" then s!"fail:session-close-calls({tail})"
          else if !tail.endsWith "extra=0" then s!"fail:call-after-hangup({tail})"
          else "ok"
  | _ => "fail:no-greeting"

/-- model observations of a case; `pipeFrom = some p`: the steps from index p on went out in one write -/
def modelObsAll (cfg : Cfg) (outs : List Out) (pipeFrom : Option Nat) : List String :=
  match pipeFrom with
  | none => outs.map (modelObs cfg)
  | some p =>
    let pre := outs.take p
    let g := outs.drop p
    let n := g.length
    let anyBye := g.any (·.bye)
    let agg := g.flatMap (·.calls)
    pre.map (modelObs cfg) ++
      (g.zipIdx.map fun (r, i) =>
        let byeHere := anyBye && i == 0
        if i + 1 < n then
          joinWith "|" [showCalls [], showResp r.resp, boolStr byeHere, toString r.cont,
            (if r.caps then showCaps (availableCaps cfg r.conn) else "-"), boolStr r.conn.tls, "~", "~", "~", "~"]
        else modelObs cfg { r with calls := agg, bye := byeHere })

def targetOk (cfg : Cfg) (outs : List Out) (nsetup : Nat) (target : String) : Bool :=
  if target = "-" then true else
  let c := lastConn cfg (outs.take nsetup)
  target == stLetter c.st ++ boolStr c.tls && !c.closed

def handle (f : List String) : String :=
  match f with
  | [id, "audit", _total, bad] =>
    if bad = "0" then s!"{id}\t1\tok\t0" else s!"{id}\t1\tfail:session-not-closed-exactly-once({bad})\t0"
  | [id, kind, cfgS, target, nsetup, histS, greetS, obsS, tail] =>
    match parseCfg? cfgS, parseNat? nsetup, parseHist? histS with
    | some cfg, some ns, some h =>
      let outs := run cfg h
      let pipeFrom := if kind = "pipe" then some ns else none
      let mObs := if outs.isEmpty then "-" else joinWith ";" (modelObsAll cfg outs pipeFrom)
      let model := joinWith "#" [modelGreet cfg, mObs, modelTail cfg outs]
      -- the refusal marks (!) are the stub's, not the server's: they feed the oracle only
      let agree := modelGreet cfg == greetS && mObs == obsS.replace "!" "" && modelTail cfg outs == tail
        && targetOk cfg outs ns target
      let orc := oracleHist cfg h greetS (if obsS = "-" then [] else splitOnChar obsS ';') tail
      s!"{id}\t{boolStr agree}\t{orc}\t{model}"
    | _, _, _ => s!"{id}\t0\tfail:bad-line\t-"
  | id :: _ => s!"{id}\t0\tfail:bad-line\t-"
  | [] => "?\t0\tfail:bad-line\t-"

end GoImap.DriveC05
