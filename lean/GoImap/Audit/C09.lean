import GoImap.Props.C09
#print axioms GoImap.C09.section_total
#print axioms GoImap.C09.section_partial_spec
#print axioms GoImap.C09.legacy_section_counterexample
