import GoImap.Props.C11
#print axioms GoImap.C11.search_zero_is_error
#print axioms GoImap.C11.legacy_search_zero_counterexample
#print axioms GoImap.C11.enter_ok_lt
