import GoImap.Props.C01
#print axioms GoImap.C01.quoted_rt
#print axioms GoImap.C01.number64_refuse
#print axioms GoImap.C01.numset_refuse
#print axioms GoImap.C01.legacy_number64_counterexample
#print axioms GoImap.C01.legacy_flag_counterexample
