import GoImap.Props.C02
#print axioms GoImap.C02.legacy_list_pattern_counterexample
#print axioms GoImap.C02.list_pattern_repaired
#print axioms GoImap.C02.legacy_save_counterexample
#print axioms GoImap.C02.save_repaired
#print axioms GoImap.C02.legacy_on_counterexample
#print axioms GoImap.C02.on_repaired
