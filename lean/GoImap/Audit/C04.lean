import GoImap.Props.C04
#print axioms GoImap.C04.accept_only_small
#print axioms GoImap.C04.cont_only_when_accepting
#print axioms GoImap.C04.legacy_discard_counterexample
#print axioms GoImap.C04.discard_repaired
