import GoImap.Props.SourceFacts
#print axioms GoImap.SourceFactsProps.limits_match_models
#print axioms GoImap.SourceFactsProps.literal_thresholds
#print axioms GoImap.SourceFactsProps.every_session_call_guarded
#print axioms GoImap.SourceFactsProps.session_methods_covered
#print axioms GoImap.SourceFactsProps.cmd_grammar_limits
