import GoImap.Props.C14
#print axioms GoImap.C14.ordered_no_deadlock
#print axioms GoImap.C14.step_consumes
#print axioms GoImap.C14.ordered_all_complete
#print axioms GoImap.C14.acyclicCheck_sound
#print axioms GoImap.C14.acyclicCheck_self_loop
#print axioms GoImap.C14.graph_no_deadlock
#print axioms GoImap.C14.copy_move_no_deadlock
#print axioms GoImap.C14.legacy_copy_deadlock_counterexample
#print axioms GoImap.C14.legacy_copy_not_ordered
#print axioms GoImap.C14.legacy_graph_rejected
