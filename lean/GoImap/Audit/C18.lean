import GoImap.Props.C18
#print axioms GoImap.C18.conforms
#print axioms GoImap.C18.payload_after_cont
#print axioms GoImap.C18.nothing_after_refusal
#print axioms GoImap.C18.session_state
#print axioms GoImap.C18.session_conforms
#print axioms GoImap.C18.no_hang
#print axioms GoImap.C18.no_stale_request
#print axioms GoImap.C18.caps_has
#print axioms GoImap.C18.caps_has_table
#print axioms GoImap.C18.nonsync_legal
#print axioms GoImap.C18.append_nonsync_legal
#print axioms GoImap.C18.quoted_legal
#print axioms GoImap.C18.charset_rule
#print axioms GoImap.C18.charset_parts
#print axioms GoImap.C18.legacy_modseq_counterexample
#print axioms GoImap.C18.legacy_leak_counterexample
#print axioms GoImap.C18.legacy_stale_request_counterexample
