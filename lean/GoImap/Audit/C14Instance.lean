import GoImap.Props.C14Instance
#print axioms GoImap.C14.observed_graph_ordered
#print axioms GoImap.C14.observed_graph_closed
#print axioms GoImap.C14.observed_no_deadlock
#print axioms GoImap.C14.observed_all_complete
