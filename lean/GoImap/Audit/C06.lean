import GoImap.Props.C06
#print axioms GoImap.C06.literal_buffers_at_most_4096
#print axioms GoImap.C06.raw_line_within_input
