import GoImap.Props.C06
#print axioms GoImap.C06.total_and_closed
#print axioms GoImap.C06.no_fuel_event
#print axioms GoImap.C06.buffered_literal_cap
#print axioms GoImap.C06.append_cap
#print axioms GoImap.C06.append_refused_unread
#print axioms GoImap.C06.depth_bounded
#print axioms GoImap.C06.legacy_depth_unbounded
#print axioms GoImap.C06.legacy_depth_run_example
#print axioms GoImap.C06.literal_buffers_at_most_4096
#print axioms GoImap.C06.raw_line_within_input
