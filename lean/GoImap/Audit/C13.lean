import GoImap.Props.C13
#print axioms GoImap.C13.f21_counterexample
#print axioms GoImap.C13.f21_repaired_on_that_schedule
#print axioms GoImap.C13.f26_idle_counterexample
#print axioms GoImap.C13.tags_unique
#print axioms GoImap.C13.complete_at_most_once
#print axioms GoImap.C13.guarded_fields
#print axioms GoImap.C13.f21_lockset_counterexample
#print axioms GoImap.C13.f26_enabled_lockset_counterexample
#print axioms GoImap.C13.no_completion_lost
#print axioms GoImap.C13.complete_exactly_once
#print axioms GoImap.C13.f26_reorder_only_counterexample
#print axioms GoImap.C13.f26_repaired_on_that_schedule
#print axioms GoImap.C13.completion_never_blocks
