import GoImap.Props.C13
#print axioms GoImap.C13.f21_counterexample
#print axioms GoImap.C13.f21_repaired_on_that_schedule
#print axioms GoImap.C13.f26_idle_counterexample
