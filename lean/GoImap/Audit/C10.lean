import GoImap.Props.C10
#print axioms GoImap.C10.step_decreases
#print axioms GoImap.C10.inv_reachable
#print axioms GoImap.C10.postFault_inject
#print axioms GoImap.C10.postFault_fired
#print axioms GoImap.C10.stuck_is_terminal
#print axioms GoImap.C10.fault_drains
#print axioms GoImap.C10.fault_drains_inv
#print axioms GoImap.C10.incomplete_is_error
#print axioms GoImap.C10.wait_reports_result
#print axioms GoImap.C10.lit_cut_drains
#print axioms GoImap.C10.legacy_lit_cut_counterexample
#print axioms GoImap.C10.legacy_tag_counterexample
#print axioms GoImap.C10.eager_auth_drains
#print axioms GoImap.C10.contract_example
