import GoImap.Props.C10
#print axioms GoImap.C10.failAll_no_pending
#print axioms GoImap.C10.lit_cut_drains
#print axioms GoImap.C10.legacy_lit_cut_counterexample
