import GoImap.Props.C15
#print axioms GoImap.C15.less_excludes_contains
#print axioms GoImap.C15.contains_star_iff
#print axioms GoImap.C15.merge_union
#print axioms GoImap.C15.merge_fail
#print axioms GoImap.C15.canon_iff_canonical
#print axioms GoImap.C15.search_first
#print axioms GoImap.C15.nums_spec
#print axioms GoImap.C15.nums_dynamic
