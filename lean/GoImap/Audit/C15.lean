import GoImap.Props.C15
#print axioms GoImap.C15.less_excludes_contains
#print axioms GoImap.C15.contains_star_iff
#print axioms GoImap.C15.merge_union
#print axioms GoImap.C15.merge_fail
#print axioms GoImap.C15.canon_iff_canonical
#print axioms GoImap.C15.search_first
#print axioms GoImap.C15.nums_spec
#print axioms GoImap.C15.nums_dynamic
#print axioms GoImap.C15.insert_canonical
#print axioms GoImap.C15.addNum_canonical
#print axioms GoImap.C15.addRange_canonical
#print axioms GoImap.C15.addSet_canonical
#print axioms GoImap.C15.canonical_run
#print axioms GoImap.C15.insert_mem
#print axioms GoImap.C15.mem_union
#print axioms GoImap.C15.dynamic_iff
