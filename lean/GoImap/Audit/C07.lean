import GoImap.Props.C07
#print axioms GoImap.C07.decode_zero
#print axioms GoImap.C07.encode_zero
#print axioms GoImap.C07.poll_no_expunge
#print axioms GoImap.C07.poll_all
#print axioms GoImap.C07.legacy_encode_counterexample
