import GoImap.Props.C08
#print axioms GoImap.C08.no_expunge_in_poll
#print axioms GoImap.C08.oracle_accepts
#print axioms GoImap.C08.reach_inv
#print axioms GoImap.C08.no_panic
#print axioms GoImap.C08.response_accepted
#print axioms GoImap.C08.in_range
#print axioms GoImap.C08.no_expunge_in
#print axioms GoImap.C08.shrink_only_by_expunge
#print axioms GoImap.C08.noop_sync
#print axioms GoImap.C08.check_point_sync
#print axioms GoImap.C08.each_removed_once
#print axioms GoImap.C08.legacy_move_counterexample
#print axioms GoImap.C08.legacy_fetch_counterexample
