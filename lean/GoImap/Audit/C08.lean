import GoImap.Props.C08
#print axioms GoImap.C08.no_expunge_in_poll
#print axioms GoImap.C08.legacy_move_counterexample
#print axioms GoImap.C08.legacy_fetch_counterexample
