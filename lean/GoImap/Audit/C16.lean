import GoImap.Props.C16
#print axioms GoImap.C16.b64_roundtrip
#print axioms GoImap.C16.decode_encode
#print axioms GoImap.C16.encode_printable
