import GoImap.Props.C16
#print axioms GoImap.C16.b64_roundtrip
