import GoImap.Props.C17
#print axioms GoImap.C17.route_segmentation_independent
#print axioms GoImap.C17.server_switch
#print axioms GoImap.C17.server_switch_no_exec
#print axioms GoImap.C17.client_switch
#print axioms GoImap.C17.no_plain_creds_table
#print axioms GoImap.C17.no_plain_creds
#print axioms GoImap.C17.preauth_refused
#print axioms GoImap.C17.preauth_refused_new
#print axioms GoImap.C17.preauth_refused_dial
#print axioms GoImap.C17.dial_without_check_counterexample
#print axioms GoImap.C17.keep_counterexample
#print axioms GoImap.C17.keep_client_counterexample
