import GoImap.Props.C17
#print axioms GoImap.C17.no_plain_creds_table
#print axioms GoImap.C17.keep_counterexample
