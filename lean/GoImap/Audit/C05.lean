import GoImap.Props.C05
#print axioms GoImap.C05.gate
#print axioms GoImap.C05.creds_need_tls
#print axioms GoImap.C05.runPre_is_run
#print axioms GoImap.C05.transitions
#print axioms GoImap.C05.transitions_fun
#print axioms GoImap.C05.failed_select_deselects
#print axioms GoImap.C05.logout_final
#print axioms GoImap.C05.unknown_before_auth_closes
#print axioms GoImap.C05.caps_advert
#print axioms GoImap.C05.cap_names
#print axioms GoImap.C05.step_same_input
#print axioms GoImap.C05.backend_view
#print axioms GoImap.C05.legacy_select_counterexample
