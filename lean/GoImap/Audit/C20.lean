import GoImap.Props.C20
#print axioms GoImap.C20.matchList_iff
