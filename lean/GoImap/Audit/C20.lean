import GoImap.Props.C20
#print axioms GoImap.C20.matchList_iff
#print axioms GoImap.C20.matchNFA_iff
#print axioms GoImap.C20.matchList_eq_matchNFA
#print axioms GoImap.C20.MatchList_iff_delim
#print axioms GoImap.C20.MatchList_iff_nodelim
#print axioms GoImap.C20.MatchList_iff
#print axioms GoImap.C20.MatchList_resolved
#print axioms GoImap.C20.star_matches_all
#print axioms GoImap.C20.pct_no_delim
#print axioms GoImap.C20.literal_only
