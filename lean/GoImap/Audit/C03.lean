import GoImap.Props.C03
#print axioms GoImap.C03.quoted_fidelity
#print axioms GoImap.C03.binsize_repaired
#print axioms GoImap.C03.binsize_legacy_counterexample
#print axioms GoImap.C03.inbox_case_repaired
#print axioms GoImap.C03.inbox_case_legacy_counterexample
#print axioms GoImap.C03.resp_fidelity_expunge
