import GoImap.Props.C12
#print axioms GoImap.C12.legacy_flags_counterexample
#print axioms GoImap.C12.legacy_select_counterexample
