import GoImap.Props.C12
#print axioms GoImap.C12.refines
#print axioms GoImap.C12.mirror
#print axioms GoImap.C12.routing
#print axioms GoImap.C12.complete_once
#print axioms GoImap.C12.reply_status
#print axioms GoImap.C12.isolation
#print axioms GoImap.C12.usable
#print axioms GoImap.C12.selected_has_mailbox
#print axioms GoImap.C12.legacy_flags_counterexample
#print axioms GoImap.C12.legacy_flush_counterexample
#print axioms GoImap.C12.legacy_select_counterexample
#print axioms GoImap.C12.legacy_close_counterexample
