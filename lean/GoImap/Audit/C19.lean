import GoImap.Props.C19
#print axioms GoImap.C19.flat_and
#print axioms GoImap.C19.matches_and
#print axioms GoImap.C19.legacy_and_counterexample
#print axioms GoImap.C19.fold_keys
#print axioms GoImap.C19.perm_invariant
#print axioms GoImap.C19.smaller_zero_counterexample
#print axioms GoImap.C19.larger_zero_counterexample
#print axioms GoImap.C19.zero_date_counterexample
