import GoImap.Props.C19
#print axioms GoImap.C19.flat_and
#print axioms GoImap.C19.matches_and
#print axioms GoImap.C19.legacy_and_counterexample
