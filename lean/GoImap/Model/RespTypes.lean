/-
  Data types of C03: what a backend can hand to the imapserver writer API and what the
  imapclient API delivers (the two sides use the same Go types, so one set of Lean types serves
  both). Strings are byte lists (`List Nat`, every element < 256); Go `nil` vs empty slices/maps are
  kept apart (`Option (List _)`) because the server writers distinguish them (`NIL` vs `()`).

  Go types mirrored: imap.Address, imap.Envelope, imap.BodyStructure{SinglePart,MultiPart,…},
  imap.FetchItemBodySection/BinarySection, imap.ListData, imap.StatusData/StatusOptions,
  imap.SelectData, imap.SearchData/SearchOptions, imap.AppendData, imap.CopyData,
  imap.NamespaceData (/repo/{fetch,list,status,select,search,append,copy,namespace}.go).
-/
import GoImap.Model.NumSet
namespace GoImap.Resp

abbrev Str := List Nat

/-- a `time.Time`: the instant (`unix` seconds, `ns` nanoseconds), the zone offset in seconds, and the
    broken-down civil fields as Go's `time` package reports them (trusted, not recomputed) -/
structure DateTime where
  unix : Int
  off : Int
  ns : Nat
  year : Int
  month : Nat
  day : Nat
  hour : Nat
  min : Nat
  sec : Nat
  wd : Nat
deriving Repr, DecidableEq

structure Address where
  name : Str
  mailbox : Str
  host : Str
deriving Repr, DecidableEq

structure Envelope where
  date : Option DateTime
  subject : Str
  from_ : Option (List Address)
  sender : Option (List Address)
  replyTo : Option (List Address)
  to : Option (List Address)
  cc : Option (List Address)
  bcc : Option (List Address)
  inReplyTo : Option (List Str)
  messageID : Str
deriving Repr, DecidableEq

abbrev Params := Option (List (Str × Str))

structure Disposition where
  value : Str
  params : Params
deriving Repr, DecidableEq

structure SingleExt where
  disp : Option Disposition
  lang : Option (List Str)
  loc : Str
deriving Repr, DecidableEq

structure MultiExt where
  params : Params
  disp : Option Disposition
  lang : Option (List Str)
  loc : Str
deriving Repr, DecidableEq

/-- the scalar fields of imap.BodyStructureSinglePart -/
structure SingleHdr where
  type : Str
  subtype : Str
  params : Params
  id : Str
  desc : Str
  enc : Str
  size : Nat
deriving Repr, DecidableEq

mutual
  /-- imap.BodyStructure -/
  inductive Body where
    | single (h : SingleHdr) (msg : MsgOpt) (text : Option Int) (ext : Option SingleExt)
    | multi (children : BodyList) (subtype : Str) (ext : Option MultiExt)
  /-- BodyStructureSinglePart.MessageRFC822 -/
  inductive MsgOpt where
    | none
    | some (env : Option Envelope) (body : Body) (lines : Int)
  inductive BodyList where
    | nil
    | cons (b : Body) (t : BodyList)
end

def BodyList.toList : BodyList → List Body
  | .nil => []
  | .cons b t => b :: t.toList

def BodyList.ofList : List Body → BodyList
  | [] => .nil
  | b :: t => .cons b (BodyList.ofList t)

def BodyList.length : BodyList → Nat
  | .nil => 0
  | .cons _ t => t.length + 1

structure Partial where
  offset : Int
  size : Int
deriving Repr, DecidableEq

/-- imap.FetchItemBodySection -/
structure Section where
  spec : Str
  part : List Int
  fields : List Str
  fieldsNot : List Str
  partial_ : Option Partial
  peek : Bool
deriving Repr, DecidableEq

/-- imap.FetchItemBinarySection -/
structure BinSection where
  part : List Int
  partial_ : Option Partial
  peek : Bool
deriving Repr, DecidableEq

/-- one message data item handed to a FetchResponseWriter / delivered by FetchMessageData.Next -/
inductive Item where
  | uid (n : Nat)
  | flags (l : List Str)
  | date (t : Option DateTime)
  | size (n : Int)
  | env (e : Option Envelope)
  | bs (ext : Bool) (b : Body)
  | sec (s : Section) (data : Str)
  | bin (s : BinSection) (data : Str)
  | binsize (part : List Int) (n : Nat)
  | other (name : String)

structure Msg where
  seq : Nat
  items : List Item

structure StatusOpts where
  messages : Bool
  uidNext : Bool
  uidValidity : Bool
  unseen : Bool
  deleted : Bool
  size : Bool
  appendLimit : Bool
  deletedStorage : Bool
deriving Repr, DecidableEq

structure StatusData where
  mailbox : Str
  messages : Option Nat
  uidNext : Nat
  uidValidity : Nat
  unseen : Option Nat
  deleted : Option Nat
  size : Option Int
  appendLimit : Option Nat
  deletedStorage : Option Int
deriving Repr, DecidableEq

structure ListData where
  attrs : List Str
  delim : Int
  mailbox : Str
  childInfo : Option Bool
  oldName : Str
  status : Option StatusData
deriving Repr, DecidableEq

structure SelectData where
  flags : List Str
  permFlags : List Str
  num : Nat
  uidNext : Nat
  uidValidity : Nat
  list : Option ListData
deriving Repr, DecidableEq

structure SearchOpts where
  min : Bool
  max : Bool
  all : Bool
  count : Bool
deriving Repr, DecidableEq

/-- imap.SearchData; `all = none` is a nil `NumSet` interface, `some (isUID, ranges)` otherwise -/
structure SearchData where
  all : Option (Bool × NumSet.Set)
  uid : Bool
  min : Nat
  max : Nat
  count : Nat

structure CopyData where
  uidValidity : Nat
  src : NumSet.Set
  dst : NumSet.Set

structure AppendData where
  uidValidity : Nat
  uid : Nat
deriving Repr, DecidableEq

structure NsDescr where
  prefix_ : Str
  delim : Int
deriving Repr, DecidableEq

structure NamespaceData where
  personal : Option (List NsDescr)
  other : Option (List NsDescr)
  shared : Option (List NsDescr)
deriving Repr, DecidableEq

/-- connection configuration that changes the wire form: which extension the client enabled -/
inductive Cfg where
  | plain | utf8 | rev2
deriving Repr, DecidableEq

def Cfg.quotedUTF8 : Cfg → Bool
  | .plain => false
  | _ => true

end GoImap.Resp
