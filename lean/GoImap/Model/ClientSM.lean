/-
  M9 — mirror of the response dispatch and state bookkeeping of /repo/imapclient:
  client.go (beginCommand, commandEncoder.flush, readResponse*, readResponseTagged,
  readResponseData, completeCommand, closeWithError, registerContReq/readContinueReq),
  select.go (handleFlags, handleExists), expunge.go (handleExpunge) and the routing predicates of
  fetch.go / list.go / status.go / search.go / capability.go / append.go.

  Abstraction: a response is a structured value (parsing is C03/C11's business); mailbox names,
  flags, capabilities and response codes are numbers (the harness maps them). What the Go code
  keeps in `Client` is kept here field by field; a command is its tag, its Go type (`Kind`) and
  the data accumulated in the command struct so far. Everything that makes the reader goroutine
  return an error (unknown tag, unmatched continuation request, BYE greeting, EOF) ends in
  `closeAll` = closeWithError. Core Lean only.
-/
namespace GoImap.ClientSM

/-- imap.ConnState -/
inductive ConnState where
  | none | notAuth | auth | selected | logout
deriving DecidableEq, Repr

/-- the Go type of a pending command, with the fields the routing predicates look at -/
inductive Kind where
  | plain                                  -- *Command (NOOP, CREATE, ...)
  | login                                  -- *loginCommand
  | select (mbox : Nat)                    -- *SelectCommand{mailbox} (SELECT and EXAMINE)
  | unselect                               -- *unselectCommand (UNSELECT and CLOSE)
  | list                                   -- *ListCommand, returnStatus = false
  | status (mbox : Nat)                    -- *StatusCommand{mailbox}
  | search (uid : Bool) (ret : Bool)       -- *SearchCommand; data.All starts as SeqSet / UIDSet; ret: RETURN (ALL) was asked
  | fetch (uid : Bool) (set : List Nat)    -- *FetchCommand{numSet} (FETCH and STORE, UID or not)
  | expunge                                -- *ExpungeCommand
  | capability                             -- *CapabilityCommand
  | append                                 -- *AppendCommand
deriving DecidableEq, Repr

/-- one FETCH response: sequence number, UID item (0 = absent), FLAGS item -/
structure Msg where
  seq : Nat
  uid : Nat
  flags : List Nat
deriving DecidableEq, Repr

/-- what a command struct has accumulated (one flat record for all command types) -/
structure Data where
  num : Nat := 0                           -- SelectData.NumMessages
  flags : List Nat := []                   -- SelectData.Flags
  perm : List Nat := []                    -- SelectData.PermanentFlags
  uidNext : Nat := 0
  uidValidity : Nat := 0
  hasList : Bool := false                  -- SelectData.List != nil
  items : List Nat := []                   -- LIST names / SEARCH numbers (a set, ascending) / EXPUNGE numbers / capabilities
  msgs : List Msg := []                    -- FETCH messages, in order of arrival
  status : Option (Nat × Nat) := none      -- StatusData (mailbox, MESSAGES)
  appendUid : Option (Nat × Nat) := none   -- AppendData (UIDVALIDITY, UID)
deriving DecidableEq, Repr

structure Cmd where
  tag : Nat
  kind : Kind
  data : Data := {}
  got : List Nat := []                     -- FetchCommand.recvSeqSet / recvUIDSet
deriving DecidableEq, Repr

/-- Client.mailbox -/
structure Mbox where
  name : Nat
  num : Nat
  flags : List Nat
  perm : List Nat
deriving DecidableEq, Repr

/-- result class of Wait(): nil, *imap.Error NO / BAD, any other error -/
inductive Status where
  | ok | no | bad | closed
deriving DecidableEq, Repr

/-- response code of a tagged reply -/
inductive Code where
  | none
  | other (id : Nat)                       -- any code without special handling
  | caps (l : List Nat)                    -- [CAPABILITY ...]
  | appendUid (v u : Nat)                  -- [APPENDUID v u]
deriving DecidableEq, Repr

/-- imap.Error.Code as a number (0 = empty) -/
def Code.id : Code → Nat
  | .none => 0
  | .other id => id
  | .caps _ => 100
  | .appendUid _ _ => 101

structure Done where
  tag : Nat
  status : Status
  code : Nat                               -- meaningful for no / bad only
  kind : Kind
  data : Data
deriving DecidableEq, Repr

/-- calls of Options.UnilateralDataHandler -/
inductive Uni where
  | exists_ (n : Nat)
  | flags (fs : List Nat)
  | perm (fs : List Nat)
  | expunge (n : Nat)
  | fetch (m : Msg)
deriving DecidableEq, Repr

inductive Greeting where
  | ok | preauth | bye
deriving DecidableEq, Repr

/-- one step of a transcript: something the application did on the client, or one server response -/
inductive Ev where
  | submit (k : Kind)                      -- a command method ran to completion (line flushed)
  | begin (k : Kind)                       -- a command method wrote "{n}" and waits for the continuation request
  | greet (g : Greeting) (capCode : Bool)  -- "* OK/PREAUTH/BYE [CAPABILITY ..]? text"
  | cont                                   -- "+ text"
  | tagged (tag : Nat) (st : Status) (code : Code)
  | exists_ (n : Nat)
  | recent (n : Nat)
  | expunge (n : Nat)
  | flags (fs : List Nat)
  | permFlags (fs : List Nat)              -- "* OK [PERMANENTFLAGS (..)]"
  | uidNext (n : Nat)
  | uidValidity (n : Nat)
  | fetch (m : Msg)
  | closedCode                             -- "* OK [CLOSED]"
  | info                                   -- "* OK/NO/BAD [other code]? text"
  | byeClose                               -- "* BYE text" and the server closes the connection
  | list (mbox : Nat)
  | status (mbox n : Nat)
  | search (nums : List Nat)
  | esearch (tag : Nat) (uid : Bool) (nums : List Nat)   -- tag 0 = no correlator
  | capability (caps : List Nat)
deriving DecidableEq, Repr

/-- the three repairs made to the client; `true` = behaviour of the tree before the repair -/
structure Cfg where
  legacyFlags : Bool := false              -- F18 handleFlags assigned PermanentFlags
  legacyFlush : Bool := false              -- F19 flush closed the client on the command's own refusal
  legacySelect : Bool := false             -- F20 a SELECT answered NO kept the selection
  legacyClose : Bool := false              -- F29 closeWithError kept Client.mailbox
deriving DecidableEq, Repr

structure St where
  state : ConnState := .none
  mbox : Option Mbox := none
  tagCtr : Nat := 0                        -- Client.cmdTag
  pending : List Cmd := []                 -- Client.pendingCmds
  blocked : Option Nat := none             -- Client.contReqs: tag of the command waiting for "+"
  greeted : Bool := false                  -- greetingRecv
  wantCap : Bool := false                  -- setCaps(nil) ran: a CAPABILITY command is being issued by the client itself
  closed : Bool := false                   -- closeWithError ran (connection closed)
  done : List Done := []                   -- completeCommand calls, in order
  uni : List Uni := []                     -- unilateral data handler calls, in order
deriving DecidableEq, Repr

def init : St := {}

/-! ### pendingCmds helpers -/

/-- findPendingCmdFunc / findPendingCmdByType followed by an update of the command found -/
def updFirst (p : Cmd → Bool) (f : Cmd → Cmd) : List Cmd → Option (List Cmd)
  | [] => none
  | c :: cs => if p c then some (f c :: cs) else (updFirst p f cs).map (c :: ·)

/-- deletePendingCmdByTag -/
def removeTag (tag : Nat) : List Cmd → Option (Cmd × List Cmd)
  | [] => none
  | c :: cs => if c.tag = tag then some (c, cs) else (removeTag tag cs).map fun (d, r) => (d, c :: r)

/-- imapnum Set.AddNum on a set of single numbers: sorted insert without duplicates -/
def addNum (n : Nat) : List Nat → List Nat
  | [] => [n]
  | x :: xs => if n < x then n :: x :: xs else if n = x then x :: xs else x :: addNum n xs

def isSelect (c : Cmd) : Bool := match c.kind with | .select _ => true | _ => false
def isExpunge (c : Cmd) : Bool := match c.kind with | .expunge => true | _ => false
def isSearch (c : Cmd) : Bool := match c.kind with | .search _ _ => true | _ => false
def isCapability (c : Cmd) : Bool := match c.kind with | .capability => true | _ => false
def isStatusOf (m : Nat) (c : Cmd) : Bool := match c.kind with | .status m' => m' == m | _ => false

/-- handleList predicate: any LIST command, or a SELECT of that mailbox without LIST data yet -/
def wantsList (m : Nat) (c : Cmd) : Bool :=
  match c.kind with
  | .list => true
  | .select m' => m' == m && !c.data.hasList
  | _ => false

/-- handleFetch predicate: FetchCommand.recvUID / recvSeqNum -/
def wantsFetch (m : Msg) (c : Cmd) : Bool :=
  match c.kind with
  | .fetch true set => m.uid != 0 && set.contains m.uid && !c.got.contains m.uid
  | .fetch false set => m.seq != 0 && set.contains m.seq && !c.got.contains m.seq
  | _ => false

def esearchFor (tag : Nat) (c : Cmd) : Bool :=
  match c.kind with
  | .search _ _ => tag == 0 || c.tag == tag
  | _ => false

def recvFetch (m : Msg) (c : Cmd) : Cmd :=
  match c.kind with
  | .fetch true _ => { c with got := m.uid :: c.got, data := { c.data with msgs := c.data.msgs ++ [m] } }
  | _ => { c with got := m.seq :: c.got, data := { c.data with msgs := c.data.msgs ++ [m] } }

def recvList (c : Cmd) (m : Nat) : Cmd :=
  match c.kind with
  | .list => { c with data := { c.data with items := c.data.items ++ [m] } }
  | _ => { c with data := { c.data with hasList := true } }

def setData (f : Data → Data) (c : Cmd) : Cmd := { c with data := f c.data }

/-! ### completion -/

def finish (c : Cmd) (s : Status) (code : Nat) : Done := ⟨c.tag, s, code, c.kind, c.data⟩

/-- closeWithError: close the connection, state logout, complete every pending command with the
    error (completeCommand's state switch does nothing for an error that is not an *imap.Error) -/
def closeAll (cfg : Cfg) (st : St) : St :=
  { st with
    state := .logout
    mbox := if cfg.legacyClose then st.mbox else none
    closed := true
    blocked := none
    pending := []
    done := st.done ++ st.pending.map fun c => finish c .closed 0 }

/-- the `switch cmd.(type)` of completeCommand -/
def completeState (cfg : Cfg) (st : St) (c : Cmd) (s : Status) : St :=
  match c.kind with
  | .login => if s = .ok then { st with state := .auth, mbox := none } else st
  | .unselect => if s = .ok then { st with state := .auth, mbox := none } else st
  | .select m =>
    if s = .ok then
      { st with state := .selected, mbox := some ⟨m, c.data.num, c.data.flags, c.data.perm⟩ }
    else if s = .no && !cfg.legacySelect && st.state = .selected then
      { st with state := .auth, mbox := none }
    else st
  | _ => st

/-- resp-text-code of a tagged reply that is stored in the command: APPENDUID -/
def applyCode (code : Code) (c : Cmd) : Cmd :=
  match code, c.kind with
  | .appendUid v u, .append => setData (fun d => { d with appendUid := some (v, u) }) c
  | _, _ => c

/-- LOGIN ok without [CAPABILITY]: "these commands invalidate the capabilities" → setCaps(nil) -/
def noteCaps (st : St) (s : Status) (code : Code) (k : Kind) : St :=
  match s, code, k with
  | .ok, .caps _, _ => st
  | .ok, _, .login => { st with wantCap := true }
  | _, _, _ => st

/-- readResponseTagged -/
def stepTagged (cfg : Cfg) (st : St) (tag : Nat) (s : Status) (code : Code) : St :=
  match removeTag tag st.pending with
  | none => closeAll cfg st                 -- "received tagged response with unknown tag"
  | some (c, rest) =>
    let c := applyCode code c
    -- completeCommand: done channel, cancel the continuation request, state switch
    let wasBlocked := decide (st.blocked = some tag)
    let st1 : St := { st with pending := rest, done := st.done ++ [finish c s code.id],
                              blocked := if st.blocked = some tag then none else st.blocked }
    let st2 := noteCaps (completeState cfg st1 c s) s code c.kind
    -- the command method, woken by the cancelled continuation request, reaches flush():
    -- the encoder error is the command's *imap.Error (NO/BAD) or "cancelled" (OK)
    if wasBlocked && (s = .ok || cfg.legacyFlush) then closeAll cfg st2 else st2

/-- beginCommand ... end / flush for a command without synchronising literal -/
def stepSubmit (cfg : Cfg) (st : St) (k : Kind) (blocks : Bool) : St :=
  let tag := st.tagCtr + 1
  let st := { st with tagCtr := tag, pending := st.pending ++ [{ tag := tag, kind := k }],
                      wantCap := if k = .capability then false else st.wantCap }
  if st.closed then closeAll cfg st          -- the write fails: flush → closeWithError
  else if blocks then { st with blocked := some tag }
  else st

def setPending (st : St) (p : List Cmd) : St := { st with pending := p }

def addUni (st : St) (u : Uni) : St := { st with uni := st.uni ++ [u] }

/-- `if c.state == selected { c.mailbox = c.mailbox.copy(); c.mailbox.X = ... }`. (The Go code
    dereferences c.mailbox: state == selected implies mailbox != nil — setState and the SELECT
    case of completeCommand keep that; theorem `selected_has_mailbox`.) -/
def updMbox (st : St) (f : Mbox → Mbox) : St :=
  if st.state = .selected then { st with mbox := st.mbox.map f } else st

/-- readResponseData and the handle* functions; readContinueReq -/
def stepOpen (cfg : Cfg) (st : St) : Ev → St
  | .submit k => stepSubmit cfg st k false
  | .begin k => stepSubmit cfg st k true
  | .greet g capCode =>
    if st.greeted then st else
    let st := { st with greeted := true }
    match g with
    | .ok => { st with state := .notAuth, mbox := none, wantCap := !capCode }
    | .preauth => { st with state := .auth, mbox := none, wantCap := !capCode }
    | .bye => closeAll cfg { st with state := .logout, mbox := none }   -- greetingErr: read() returns
  | .cont =>
    match st.blocked with
    | some _ => { st with blocked := none }
    | none => closeAll cfg st               -- "received unmatched continuation request"
  | .tagged tag s code => stepTagged cfg st tag s code
  | .exists_ n =>
    match updFirst isSelect (setData fun d => { d with num := n }) st.pending with
    | some p => setPending st p
    | none => addUni (updMbox st fun mb => { mb with num := n }) (.exists_ n)
  | .recent _ => st
  | .expunge n =>
    let st := updMbox st fun mb => { mb with num := mb.num - 1 }   -- guarded by NumMessages > 0
    match updFirst isExpunge (setData fun d => { d with items := d.items ++ [n] }) st.pending with
    | some p => setPending st p
    | none => addUni st (.expunge n)
  | .flags fs =>
    let st := updMbox st fun mb => if cfg.legacyFlags then { mb with perm := fs } else { mb with flags := fs }
    match updFirst isSelect (setData fun d => { d with flags := fs }) st.pending with
    | some p => setPending st p
    | none => addUni st (.flags fs)
  | .permFlags fs =>
    let st := updMbox st fun mb => { mb with perm := fs }
    match updFirst isSelect (setData fun d => { d with perm := fs }) st.pending with
    | some p => setPending st p
    | none => addUni st (.perm fs)
  | .uidNext n =>
    match updFirst isSelect (setData fun d => { d with uidNext := n }) st.pending with
    | some p => setPending st p
    | none => st
  | .uidValidity n =>
    match updFirst isSelect (setData fun d => { d with uidValidity := n }) st.pending with
    | some p => setPending st p
    | none => st
  | .fetch m =>
    match updFirst (wantsFetch m) (recvFetch m) st.pending with
    | some p => setPending st p
    | none => addUni st (.fetch m)
  | .closedCode => { st with state := .auth, mbox := none }
  | .info => st
  | .byeClose => closeAll cfg st            -- BYE itself changes nothing; EOF → closeWithError
  | .list m =>
    match updFirst (wantsList m) (fun c => recvList c m) st.pending with
    | some p => setPending st p
    | none => st
  | .status m n =>
    match updFirst (isStatusOf m) (setData fun d => { d with status := some (m, n) }) st.pending with
    | some p => setPending st p
    | none => st
  | .search nums =>
    match updFirst isSearch (setData fun d => { d with items := nums.foldl (fun acc n => addNum n acc) d.items }) st.pending with
    | some p => setPending st p
    | none => st
  | .esearch tag _ nums =>
    match updFirst (esearchFor tag) (setData fun d => { d with items := nums }) st.pending with
    | some p => setPending st p
    | none => st
  | .capability caps =>
    match updFirst isCapability (setData fun d => { d with items := caps }) st.pending with
    | some p => setPending st p
    | none => st

/-- after closeWithError nothing is read any more; command methods still run (and fail) -/
def stepWith (cfg : Cfg) (st : St) (ev : Ev) : St :=
  if st.closed then
    match ev with
    | .submit k => stepSubmit cfg st k false
    | .begin k => stepSubmit cfg st k true
    | _ => st
  else stepOpen cfg st ev

/-- the client as repaired -/
def step : St → Ev → St := stepWith {}

def run (tr : List Ev) : St := tr.foldl step init

/-- the client as shipped (before F18, F19, F20, F29 were repaired) -/
def Legacy.cfg : Cfg := { legacyFlags := true, legacyFlush := true, legacySelect := true, legacyClose := true }
def Legacy.step : St → Ev → St := stepWith Legacy.cfg
def Legacy.run (tr : List Ev) : St := tr.foldl Legacy.step init

end GoImap.ClientSM
