/-
  M2 — mirror of /repo/internal/utf7/{encoder,decoder}.go.
  Bytes and code points are `Nat`s. The one-shot functions (`encode`, `decode`) work on scalar
  values: the UTF-8 layer (`unicode/utf8`) is below the modelled interface; `utf8enc`/`utf8dec`
  are used only by the streaming `Transform` mirrors, whose buffer capacities count bytes.
-/
import GoImap.Util
namespace GoImap.Utf7

abbrev BytesN := List Nat

def alphabet : List Nat :=
  [65,66,67,68,69,70,71,72,73,74,75,76,77,78,79,80,81,82,83,84,85,86,87,88,89,90,
   97,98,99,100,101,102,103,104,105,106,107,108,109,110,111,112,113,114,115,116,117,118,119,120,121,122,
   48,49,50,51,52,53,54,55,56,57,43,44]

def b64char (s : Nat) : Nat := alphabet.getD s 0
def b64val (c : Nat) : Option Nat := let i := alphabet.idxOf c; if i < 64 then some i else none

/-- UTF-16BE bytes of a scalar value (encoder.go `encode`, utf16.EncodeRune) -/
def utf16be (c : Nat) : BytesN :=
  if c < 65536 then [c / 256, c % 256]
  else
    let h := 55296 + (c - 65536) / 1024
    let l := 56320 + (c - 65536) % 1024
    [h / 256, h % 256, l / 256, l % 256]

/-- base64 with the padding stripped (encoder.go `encode`) -/
def b64enc : BytesN → BytesN
  | b0 :: b1 :: b2 :: r =>
    b64char (b0 / 4) :: b64char ((b0 % 4) * 16 + b1 / 16) :: b64char ((b1 % 16) * 4 + b2 / 64) ::
      b64char (b2 % 64) :: b64enc r
  | [b0, b1] => [b64char (b0 / 4), b64char ((b0 % 4) * 16 + b1 / 16), b64char ((b1 % 16) * 4)]
  | [b0] => [b64char (b0 / 4), b64char ((b0 % 4) * 16)]
  | [] => []

def printable (c : Nat) : Bool := 32 ≤ c && c ≤ 126

/-- `encode(src[start:i])` for a run of code points, with the shifts -/
def encRun (run : List Nat) : BytesN := 38 :: b64enc (run.flatMap utf16be) ++ [45]

def flush (acc : List Nat) : BytesN := if acc.isEmpty then [] else encRun acc

/-- encoder.Transform with atEOF over the whole input, on scalar values; `acc` is the pending run
    of non-printable scalars (Go finds the run by scanning ahead; same output) -/
def enc (acc : List Nat) : List Nat → BytesN
  | [] => flush acc
  | c :: cs =>
    if printable c then
      flush acc ++ (if c = 38 then [38, 45] else [c]) ++ enc [] cs
    else enc (acc ++ [c]) cs

def encode (s : List Nat) : BytesN := enc [] s

/-- base64 decoding of an unpadded run as decoder.go `decode` does it (pad with '=', std decoder,
    non-strict trailing bits): none on a bad character or an impossible length -/
def b64dec : BytesN → Option BytesN
  | c0 :: c1 :: c2 :: c3 :: r => do
    let s0 ← b64val c0; let s1 ← b64val c1; let s2 ← b64val c2; let s3 ← b64val c3
    let t ← b64dec r
    pure ((s0 * 4 + s1 / 16) :: ((s1 % 16) * 16 + s2 / 4) :: ((s2 % 4) * 64 + s3) :: t)
  | [c0, c1, c2] => do
    let s0 ← b64val c0; let s1 ← b64val c1; let s2 ← b64val c2
    pure [s0 * 4 + s1 / 16, (s1 % 16) * 16 + s2 / 4]
  | [c0, c1] => do
    let s0 ← b64val c0; let s1 ← b64val c1
    pure [s0 * 4 + s1 / 16]
  | [_] => none
  | [] => some []

/-- UTF-16BE bytes to scalars (decoder.go `decode`, second half) -/
def utf16dec : BytesN → Option (List Nat)
  | [] => some []
  | [_] => none
  | h :: l :: r =>
    let u := h * 256 + l
    if 55296 ≤ u ∧ u < 57344 then
      match r with
      | h2 :: l2 :: r' =>
        let u2 := h2 * 256 + l2
        if u < 56320 ∧ 56320 ≤ u2 ∧ u2 < 57344 then
          (utf16dec r').map (((u - 55296) * 1024 + (u2 - 56320) + 65536) :: ·)
        else none
      | _ => none
    else if printable u then none
    else (utf16dec r).map (u :: ·)

/-- decoder.go `decode` on a non-empty segment: none = nil slice -/
def decodeSeg (seg : BytesN) : Option (List Nat) :=
  if seg.getLast? = some 61 then none
  else do
    let b ← b64dec seg
    let us ← utf16dec b
    if us.isEmpty then none else some us

/-- one shifted segment in decoder.Transform -/
def decSeg (ascii : Bool) (seg : BytesN) : Option (List Nat) :=
  if seg.isEmpty then some [38]
  else if !ascii then none
  else decodeSeg seg

/-- decoder.Transform with atEOF over the whole input. `ascii` is the carried flag;
    `seg = some acc` means we are inside "&…" collecting up to '-' -/
def dec (ascii : Bool) (seg : Option BytesN) : BytesN → Option (List Nat)
  | [] => match seg with | none => some [] | some _ => none          -- unterminated shift
  | c :: cs =>
    match seg with
    | none =>
      if !printable c then none
      else if c ≠ 38 then (dec true none cs).map (c :: ·)
      else dec ascii (some []) cs
    | some acc =>
      if c = 45 then
        match decSeg ascii acc with
        | none => none
        | some out => (dec acc.isEmpty none cs).map (out ++ ·)
      else if c = 13 ∨ c = 10 then none
      else dec ascii (some (acc ++ [c])) cs

def decode (b : BytesN) : Option (List Nat) := dec true none b

/-! ### UTF-8 (unicode/utf8, below the interface; used by the streaming mirrors only) -/

def utf8enc (c : Nat) : BytesN :=
  if c < 128 then [c]
  else if c < 2048 then [192 + c / 64, 128 + c % 64]
  else if c < 65536 then [224 + c / 4096, 128 + (c / 64) % 64, 128 + c % 64]
  else [240 + c / 262144, 128 + (c / 4096) % 64, 128 + (c / 64) % 64, 128 + c % 64]

def isCont (b : Nat) : Bool := 128 ≤ b && b < 192

/-- strict UTF-8 decoding; none on any ill-formed sequence (the model does not cover Go's
    replacement of invalid bytes by U+FFFD — the property is about valid UTF-8) -/
def utf8dec : BytesN → Option (List Nat)
  | [] => some []
  | b0 :: r =>
    if b0 < 128 then (utf8dec r).map (b0 :: ·)
    else if 194 ≤ b0 ∧ b0 < 224 then
      match r with
      | b1 :: r' => if isCont b1 then (utf8dec r').map (((b0 - 192) * 64 + (b1 - 128)) :: ·) else none
      | _ => none
    else if 224 ≤ b0 ∧ b0 < 240 then
      match r with
      | b1 :: b2 :: r' =>
        let c := (b0 - 224) * 4096 + (b1 - 128) * 64 + (b2 - 128)
        if isCont b1 ∧ isCont b2 ∧ 2048 ≤ c ∧ ¬ (55296 ≤ c ∧ c < 57344) then (utf8dec r').map (c :: ·) else none
      | _ => none
    else if 240 ≤ b0 ∧ b0 < 245 then
      match r with
      | b1 :: b2 :: b3 :: r' =>
        let c := (b0 - 240) * 262144 + (b1 - 128) * 4096 + (b2 - 128) * 64 + (b3 - 128)
        if isCont b1 ∧ isCont b2 ∧ isCont b3 ∧ 65536 ≤ c ∧ c < 1114112 then (utf8dec r').map (c :: ·) else none
      | _ => none
    else none

/-! ### streaming `Transform` mirrors -/

inductive TErr where
  | ok | shortDst | shortSrc | invalid | unmodelled
deriving Repr, DecidableEq, BEq

structure TRes where
  nDst : Nat
  nSrc : Nat
  err : TErr
  out : BytesN
  ascii : Bool
deriving Repr, BEq

/-- decoder.Transform(dst[:cap], src, atEOF) with the decoder's `ascii` field.
    `nDst/nSrc/out` are the values committed so far, `seg` the segment being scanned. -/
def decT (cap : Nat) (atEOF : Bool) (ascii : Bool) (seg : Option BytesN) (nDst nSrc : Nat) (out : BytesN) :
    BytesN → TRes
  | [] =>
    match seg with
    | none => ⟨nDst, nSrc, .ok, out, if atEOF then true else ascii⟩
    | some _ => ⟨nDst, nSrc, if atEOF then .invalid else .shortSrc, out, ascii⟩
  | c :: cs =>
    match seg with
    | none =>
      if !printable c then ⟨nDst, nSrc, .invalid, out, ascii⟩
      else if c ≠ 38 then
        if nDst + 1 > cap then ⟨nDst, nSrc, .shortDst, out, ascii⟩
        else decT cap atEOF true none (nDst + 1) (nSrc + 1) (out ++ [c]) cs
      else decT cap atEOF ascii (some []) nDst nSrc out cs
    | some acc =>
      if c = 45 then
        if acc.isEmpty then
          -- "&-": d.ascii = true is set before the capacity test
          if nDst + 1 > cap then ⟨nDst, nSrc, .shortDst, out, true⟩
          else decT cap atEOF true none (nDst + 1) (nSrc + 2) (out ++ [38]) cs
        else if !ascii then ⟨nDst, nSrc, .invalid, out, ascii⟩
        else
          match decodeSeg acc with
          | none => ⟨nDst, nSrc, .invalid, out, false⟩
          | some us =>
            let b := us.flatMap utf8enc
            if nDst + b.length > cap then ⟨nDst, nSrc, .shortDst, out, true⟩
            else decT cap atEOF false none (nDst + b.length) (nSrc + acc.length + 2) (out ++ b) cs
      else if c = 13 ∨ c = 10 then ⟨nDst, nSrc, .invalid, out, ascii⟩
      else decT cap atEOF ascii (some (acc ++ [c])) nDst nSrc out cs

def decTransform (cap : Nat) (atEOF ascii : Bool) (src : BytesN) : TRes :=
  decT cap atEOF ascii none 0 0 [] src

/-- encoder.Transform(dst[:cap], src, atEOF) on UTF-8 bytes; `run` is the pending run of
    non-printable bytes (reversed accumulation is avoided: appended). -/
def encT (cap : Nat) (atEOF : Bool) (run : BytesN) (nDst nSrc : Nat) (out : BytesN) : BytesN → TRes
  | [] =>
    if run.isEmpty then ⟨nDst, nSrc, .ok, out, true⟩
    else if !atEOF then ⟨nDst, nSrc, .shortSrc, out, true⟩
    else
      match utf8dec run with
      | none => ⟨nDst, nSrc, .unmodelled, out, true⟩
      | some cps =>
        let b := encRun cps
        if nDst + b.length > cap then ⟨nDst, nSrc, .shortDst, out, true⟩
        else ⟨nDst + b.length, nSrc + run.length, .ok, out ++ b, true⟩
  | c :: cs =>
    if printable c then
      if run.isEmpty then
        let b := if c = 38 then [38, 45] else [c]
        if nDst + b.length > cap then ⟨nDst, nSrc, .shortDst, out, true⟩
        else encT cap atEOF [] (nDst + b.length) (nSrc + 1) (out ++ b) cs
      else
        match utf8dec run with
        | none => ⟨nDst, nSrc, .unmodelled, out, true⟩
        | some cps =>
          let b := encRun cps
          if nDst + b.length > cap then ⟨nDst, nSrc, .shortDst, out, true⟩
          else
            -- the run is committed, then the printable byte is handled by the next iteration
            let b2 := if c = 38 then [38, 45] else [c]
            if nDst + b.length + b2.length > cap then
              ⟨nDst + b.length, nSrc + run.length, .shortDst, out ++ b, true⟩
            else encT cap atEOF [] (nDst + b.length + b2.length) (nSrc + run.length + 1) (out ++ b ++ b2) cs
    else encT cap atEOF (run ++ [c]) nDst nSrc out cs

def encTransform (cap : Nat) (atEOF : Bool) (src : BytesN) : TRes :=
  encT cap atEOF [] 0 0 [] src

end GoImap.Utf7
