/-
  M5 — mirror of /repo/search.go (`SearchCriteria.And`, `intersectSince/Before`),
  /repo/imapserver/search.go (`readSearchKeyWithAtom`: which criteria a key adds) and
  /repo/imapserver/imapmemserver/message.go (`message.search`, `matchDate`, `matchBytes`).

  Times are `Int` seconds counted from Go's zero `time.Time`, so `0` is `IsZero()` (= unset).
  Strings are ASCII byte lists (`List Nat`); `SearchCriteria.ModSeq` is not modelled (no matcher in
  the repository gives it a meaning and `And` ignores it).
-/
import GoImap.Model.NumSet
namespace GoImap.Search

abbrev Str := List Nat

def lowerByte (c : Nat) : Nat := if 65 ≤ c ∧ c ≤ 90 then c + 32 else c
def lower (s : Str) : Str := s.map lowerByte

/-- the non-recursive fields of imap.SearchCriteria -/
structure Flat where
  seqSets : List NumSet.Set := []
  uidSets : List NumSet.Set := []
  since : Int := 0
  before : Int := 0
  sentSince : Int := 0
  sentBefore : Int := 0
  header : List (Str × Str) := []
  body : List Str := []
  text : List Str := []
  flags : List Str := []
  notFlags : List Str := []
  larger : Int := 0
  smaller : Int := 0
deriving Repr, BEq

mutual
  inductive Crit where
    | mk (f : Flat) (nots : CritList) (ors : OrList)
  inductive CritList where
    | nil
    | cons (c : Crit) (t : CritList)
  inductive OrList where
    | nil
    | cons (a b : Crit) (t : OrList)
end

def CritList.append : CritList → CritList → CritList
  | .nil, l => l
  | .cons c t, l => .cons c (t.append l)

def OrList.append : OrList → OrList → OrList
  | .nil, l => l
  | .cons a b t, l => .cons a b (t.append l)

def Crit.flat : Crit → Flat | .mk f _ _ => f
def Crit.nots : Crit → CritList | .mk _ n _ => n
def Crit.ors : Crit → OrList | .mk _ _ o => o

def Crit.empty : Crit := .mk {} .nil .nil

/-- search.go intersectSince -/
def intersectSince (t1 t2 : Int) : Int :=
  if t1 = 0 then t2 else if t2 = 0 then t1 else if t1 > t2 then t1 else t2

/-- search.go intersectBefore -/
def intersectBefore (t1 t2 : Int) : Int :=
  if t1 = 0 then t2 else if t2 = 0 then t1 else if t1 < t2 then t1 else t2

/-- `if criteria.Larger == 0 || other.Larger > criteria.Larger { criteria.Larger = other.Larger }` -/
def andLarger (al bl : Int) : Int := if al = 0 || bl > al then bl else al

/-- repaired: `if other.Smaller != 0 && (criteria.Smaller == 0 || other.Smaller < criteria.Smaller)` -/
def andSmaller (as bs : Int) : Int := if bs ≠ 0 && (as = 0 || bs < as) then bs else as

/-- as shipped before the repair: an unset `other.Smaller` (0) compares below any bound and erases it -/
def Legacy.andSmaller (as bs : Int) : Int := if as = 0 || bs < as then bs else as

def Flat.and (a b : Flat) : Flat :=
  { seqSets := a.seqSets ++ b.seqSets
    uidSets := a.uidSets ++ b.uidSets
    since := intersectSince a.since b.since
    before := intersectBefore a.before b.before
    sentSince := intersectSince a.sentSince b.sentSince
    sentBefore := intersectBefore a.sentBefore b.sentBefore
    header := a.header ++ b.header
    body := a.body ++ b.body
    text := a.text ++ b.text
    flags := a.flags ++ b.flags
    notFlags := a.notFlags ++ b.notFlags
    larger := andLarger a.larger b.larger
    smaller := andSmaller a.smaller b.smaller }

def Legacy.flatAnd (a b : Flat) : Flat := { a.and b with smaller := Legacy.andSmaller a.smaller b.smaller }

/-- search.go SearchCriteria.And -/
def Crit.and : Crit → Crit → Crit
  | .mk fa na oa, .mk fb nb ob => .mk (fa.and fb) (na.append nb) (oa.append ob)

def Legacy.and : Crit → Crit → Crit
  | .mk fa na oa, .mk fb nb ob => .mk (Legacy.flatAnd fa fb) (na.append nb) (oa.append ob)

/-! ### messages and matching (imapmemserver message.search) -/

structure Msg where
  seq : Nat
  uid : Nat
  day : Int                 -- internal date, truncated to its calendar day, as UTC midnight
  sentDay : Int             -- Date header likewise; 0 when the header is absent
  sentErr : Bool            -- the Date header does not parse
  flags : List Str          -- canonical (lower-cased)
  size : Int
  buf : Str                 -- whole message, lower-cased
  body : Str                -- bytes after the header, lower-cased
  hdrs : List (Str × Str)   -- (lower-cased key, lower-cased value)
deriving Repr

/-- message.go matchDate (the message time is already truncated) -/
def matchDate (t since before : Int) : Bool :=
  !(since ≠ 0 && t < since) && !(before ≠ 0 && !(t < before))

def okLarger (l sz : Int) : Bool := !(l ≠ 0 && sz ≤ l)
def okSmaller (s sz : Int) : Bool := !(s ≠ 0 && sz ≥ s)

def isPrefixOf : Str → Str → Bool
  | [], _ => true
  | _ :: _, [] => false
  | p :: ps, x :: xs => p = x && isPrefixOf ps xs

/-- bytes.Contains -/
def containsSub (s : Str) (pat : Str) : Bool :=
  match s with
  | [] => pat.isEmpty
  | x :: xs => isPrefixOf pat (x :: xs) || containsSub xs pat

/-- message.go matchBytes (buffer already lower-cased) -/
def matchBytes (buf : Str) (pats : List Str) : Bool := pats.all fun p => containsSub buf (lower p)

/-- the header loop of message.search -/
def hdrMatch (m : Msg) (kv : Str × Str) : Bool :=
  let vals := (m.hdrs.filter fun h => h.1 == lower kv.1).map (·.2)
  !vals.isEmpty && (kv.2.isEmpty || vals.any fun v => containsSub v (lower kv.2))

/-- the SENTSINCE/SENTBEFORE clause of message.search: the Date header is only consulted (and must
    parse) when one of the two bounds is set -/
def sentOk (m : Msg) (s b : Int) : Bool :=
  if s ≠ 0 || b ≠ 0 then !m.sentErr && matchDate m.sentDay s b else true

def flatMatches (m : Msg) (f : Flat) : Bool :=
  f.seqSets.all (fun s => m.seq ≠ 0 && NumSet.contains s m.seq)
  && f.uidSets.all (fun s => NumSet.contains s m.uid)
  && matchDate m.day f.since f.before
  && f.flags.all (fun fl => m.flags.contains (lower fl))
  && f.notFlags.all (fun fl => !m.flags.contains (lower fl))
  && okLarger f.larger m.size
  && okSmaller f.smaller m.size
  && matchBytes m.buf f.text
  && f.header.all (hdrMatch m)
  && sentOk m f.sentSince f.sentBefore
  && matchBytes m.body f.body

mutual
  /-- message.go message.search -/
  def matchesC (m : Msg) : Crit → Bool
    | .mk f nots ors => flatMatches m f && noneMatch m nots && allOr m ors
  def noneMatch (m : Msg) : CritList → Bool
    | .nil => true
    | .cons c t => !matchesC m c && noneMatch m t
  def allOr (m : Msg) : OrList → Bool
    | .nil => true
    | .cons a b t => (matchesC m a || matchesC m b) && allOr m t
end

/-! ### search keys (imapserver/search.go readSearchKeyWithAtom) -/

mutual
  inductive Key where
    | all
    | seqSet (s : NumSet.Set)
    | uid (s : NumSet.Set)
    | flag (name : Str)          -- ANSWERED … SEEN, KEYWORD f: criteria.Flag += f
    | notFlag (name : Str)       -- UNANSWERED …, UNKEYWORD f
    | new_
    | old
    | header (k v : Str)         -- HEADER k v; BCC/CC/FROM/SUBJECT/TO arrive as Title-cased key
    | since (t : Int) | before (t : Int) | on (t : Int)
    | sentSince (t : Int) | sentBefore (t : Int) | sentOn (t : Int)
    | body (s : Str) | text (s : Str)
    | larger (n : Int) | smaller (n : Int)
    | not (k : Key)
    | or (a b : Key)
    | group (ks : KeyList)       -- parenthesised list of keys
  inductive KeyList where
    | nil
    | cons (k : Key) (t : KeyList)
end

def recentFlag : Str := [92, 82, 101, 99, 101, 110, 116]   -- \Recent
def seenFlag : Str := [92, 83, 101, 101, 110]               -- \Seen

def Crit.withFlat (c : Crit) (g : Flat → Flat) : Crit := .mk (g c.flat) c.nots c.ors

def day : Int := 86400

mutual
  /-- the effect of one key on the criteria being accumulated -/
  def addKey (c : Crit) : Key → Crit
    | .all => c
    | .seqSet s => c.withFlat fun f => { f with seqSets := f.seqSets ++ [s] }
    | .uid s => c.withFlat fun f => { f with uidSets := f.uidSets ++ [s] }
    | .flag n => c.withFlat fun f => { f with flags := f.flags ++ [n] }
    | .notFlag n => c.withFlat fun f => { f with notFlags := f.notFlags ++ [n] }
    | .new_ => c.withFlat fun f =>
        { f with flags := f.flags ++ [recentFlag], notFlags := f.notFlags ++ [seenFlag] }
    | .old => c.withFlat fun f => { f with notFlags := f.notFlags ++ [recentFlag] }
    | .header k v => c.withFlat fun f => { f with header := f.header ++ [(k, v)] }
    | .since t => c.and (.mk { since := t } .nil .nil)
    | .before t => c.and (.mk { before := t } .nil .nil)
    | .on t => c.and (.mk { since := t, before := t + day } .nil .nil)
    | .sentSince t => c.and (.mk { sentSince := t } .nil .nil)
    | .sentBefore t => c.and (.mk { sentBefore := t } .nil .nil)
    | .sentOn t => c.and (.mk { sentSince := t, sentBefore := t + day } .nil .nil)
    | .body s => c.withFlat fun f => { f with body := f.body ++ [s] }
    | .text s => c.withFlat fun f => { f with text := f.text ++ [s] }
    | .larger n => c.and (.mk { larger := n } .nil .nil)
    | .smaller n => c.and (.mk { smaller := n } .nil .nil)
    | .not k => .mk c.flat (c.nots.append (.cons (addKey Crit.empty k) .nil)) c.ors
    | .or a b => .mk c.flat c.nots (c.ors.append (.cons (addKey Crit.empty a) (addKey Crit.empty b) .nil))
    | .group ks => addKeys c ks
  /-- the `for` loop of handleSearch / ExpectList of readSearchKey -/
  def addKeys (c : Crit) : KeyList → Crit
    | .nil => c
    | .cons k t => addKeys (addKey c k) t
end

def foldKeys (ks : KeyList) : Crit := addKeys Crit.empty ks

end GoImap.Search
