/-
  M3 — executable mirror of /repo/internal/imapwire/{encoder,decoder}.go and of the flag /
  mailbox-attribute readers of /repo/internal/internal.go.

  Bytes are `Nat`s (< 256).  The encoder model threads an `Enc` (bytes flushed so far, the offsets
  at which the real encoder blocked on a continuation request, the sticky error); the decoder model
  threads an `St` (unread input, the sticky first error `dec.err`, the log of what
  `CheckBufferedLiteralFunc` was told).  Every function follows the Go function named in its
  doc comment, case split by case split.  Recursion is structural (fuel where Go recurses on the
  input); running out of fuel is the explicit error `Err.fuel`, never a default.

  Below the modelled interface: `bufio` (the model sees the byte sequence), `strconv` (own decimal
  functions, tied on every run), `strings.EqualFold` on ASCII, `unicode.IsControl` on single bytes.
  Flags are lower-cased in ASCII only (after the repair of the Unicode `strings.ToLower` lookup, kept
  as `Legacy.canonicalFlag`), so flags with bytes ≥ 0x80 are modelled like any other.
-/
import GoImap.Util
import GoImap.Model.NumSet
import GoImap.Model.Utf7
namespace GoImap.Wire

abbrev Bytes := List Nat

inductive Side where
  | client | server
deriving DecidableEq, Repr

def Side.peer : Side → Side
  | .client => .server
  | .server => .client

/-- the negotiated encoder mode (encoder.go:20-40) -/
structure Cfg where
  side : Side
  quotedUTF8 : Bool
  literalMinus : Bool
  literalPlus : Bool
deriving DecidableEq, Repr

/-! ## decimal (strconv.FormatUint / FormatInt / ParseUint / ParseInt, base 10) -/

def digitsAux : Nat → Nat → List Nat → List Nat
  | 0, _, acc => acc
  | fuel+1, n, acc =>
    if n < 10 then (48 + n) :: acc else digitsAux fuel (n / 10) ((48 + n % 10) :: acc)

/-- strconv.FormatUint(n, 10) -/
def digits (n : Nat) : Bytes := digitsAux (n + 1) n []

/-- strconv.FormatInt(v, 10) -/
def intDigits (v : Int) : Bytes :=
  if v < 0 then 45 :: digits v.natAbs else digits v.natAbs

def isDigit (c : Nat) : Bool := 48 ≤ c && c ≤ 57

/-- value of a digit string (ParseUint without the range check) -/
def valOf (ds : Bytes) : Nat := ds.foldl (fun a d => a * 10 + (d - 48)) 0

/-! ## character classes -/

/-- unicode.IsControl(rune(ch)) for a single byte: C0, DEL and C1 -/
def isControl (ch : Nat) : Bool := ch < 32 || (127 ≤ ch && ch < 160)

/-- decoder.go IsAtomChar -/
def isAtomChar (ch : Nat) : Bool :=
  if ch = 40 || ch = 41 || ch = 123 || ch = 32 || ch = 37 || ch = 42 || ch = 34 || ch = 92 || ch = 93 then false
  else !isControl ch

/-- decoder.go isNumSetChar -/
def isNumSetChar (ch : Nat) : Bool := ch = 42 || isAtomChar ch

def toLowerAscii (c : Nat) : Nat := if 65 ≤ c && c ≤ 90 then c + 32 else c

def lowerAscii (s : Bytes) : Bytes := s.map toLowerAscii

def inboxBytes : Bytes := [73, 78, 66, 79, 88]

/-- strings.EqualFold(name, "INBOX") (no non-ASCII rune folds to one of i,n,b,o,x) -/
def equalFoldInbox (s : Bytes) : Bool := lowerAscii s = [105, 110, 98, 111, 120]

/-! ## encoder -/

structure Enc where
  out : Bytes := []
  /-- offsets (into `out`) at which the encoder flushed and waited for a continuation request -/
  waits : List Nat := []
  /-- `enc.err != nil` (sticky: later writes are no-ops, `CRLF` returns it without flushing) -/
  err : Bool := false
deriving DecidableEq, Repr

/-- Encoder.writeString -/
def Enc.write (e : Enc) (b : Bytes) : Enc := if e.err then e else { e with out := e.out ++ b }

/-- Encoder.setErr -/
def Enc.setErr (e : Enc) : Enc := { e with err := true }

/-- Encoder.Quoted body (encoder.go:91-97) -/
def quoteBody : Bytes → Bytes
  | [] => []
  | c :: cs => if c = 34 || c = 92 then 92 :: c :: quoteBody cs else c :: quoteBody cs

/-- Encoder.Quoted -/
def encQuoted (s : Bytes) : Bytes := 34 :: quoteBody s ++ [34]

/-- Encoder.validQuoted -/
def validQuoted (cfg : Cfg) (s : Bytes) : Bool :=
  s.length ≤ 4096 &&
    s.all fun ch => ch ≠ 0 && ch ≠ 13 && ch ≠ 10 && (cfg.quotedUTF8 || ch ≤ 127)

/-- the test at the top of Encoder.stringLiteral: must the literal be synchronising? -/
def needSync (cfg : Cfg) (n : Nat) : Bool :=
  cfg.side = .client && (!cfg.literalMinus || n > 4096) && !cfg.literalPlus

/-- header of a literal as written by Encoder.Literal -/
def litHeader (cfg : Cfg) (n : Nat) (sync : Bool) : Bytes :=
  [123] ++ digits n ++ (if !sync && cfg.side = .client then [43] else []) ++ [125, 13, 10]

/-- Encoder.stringLiteral + Encoder.Literal + literalWriter (a continuation request is always
    available and granted; with the error already set nothing is flushed and `Wait` is not reached) -/
def encLiteral (cfg : Cfg) (s : Bytes) (e : Enc) : Enc :=
  if e.err then e
  else if needSync cfg s.length then
    let hdr := e.out ++ litHeader cfg s.length true
    { e with out := hdr ++ s, waits := e.waits ++ [hdr.length] }
  else e.write (litHeader cfg s.length false ++ s)

/-- Encoder.String -/
def encString (cfg : Cfg) (s : Bytes) (e : Enc) : Enc :=
  if !validQuoted cfg s then encLiteral cfg s e else e.write (encQuoted s)

/-- Encoder.Mailbox; `none` = the name is not valid UTF-8 (outside the property, unmodelled) -/
def encMailbox (cfg : Cfg) (name : Bytes) (e : Enc) : Option Enc :=
  if equalFoldInbox name then some (e.write inboxBytes)
  else match Utf7.utf8dec name with
    | none => none
    | some cps => some (encString cfg (Utf7.encode cps) e)

/-- a number set as the encoder sees it: the SEARCHRES marker or a list of ranges -/
inductive NumSetV where
  | searchRes
  | set (s : NumSet.Set)
deriving DecidableEq, Repr

/-- imap.UIDSet.String / SeqSet.String -/
def NumSetV.text : NumSetV → Bytes
  | .searchRes => [36]
  | .set s => (NumSet.toChars s).map Char.toNat

/-- Encoder.NumSet -/
def encNumSet (v : NumSetV) (e : Enc) : Enc :=
  if v.text = [] then e.setErr else e.write v.text

/-- the loop of isValidFlag: a backslash is only allowed at index 0, everything else is an ATOM-CHAR -/
def flagCharsOk : Bool → Bytes → Bool
  | _, [] => true
  | first, ch :: r =>
    if ch = 92 then (if first then flagCharsOk false r else false)
    else if isAtomChar ch then flagCharsOk false r else false

/-- encoder.go isValidFlag (after the repair: a lone backslash is not a flag) -/
def isValidFlag (s : Bytes) : Bool := flagCharsOk true s && s.length > 0 && s ≠ [92]

/-- Encoder.Flag -/
def encFlag (f : Bytes) (e : Enc) : Enc :=
  if f ≠ [92, 42] && !isValidFlag f then e.setErr else e.write f

/-- Encoder.MailboxAttr -/
def encAttr (f : Bytes) (e : Enc) : Enc :=
  if f.head? ≠ some 92 || !isValidFlag f then e.setErr else e.write f

/-- Encoder.Number (uint32) and Encoder.ModSeq (uint64): the Go types exclude anything else -/
def encNumber (v : Nat) (e : Enc) : Enc := e.write (digits v)

/-- Encoder.Number64 (after the repair: negative values are refused) -/
def encNumber64 (v : Int) (e : Enc) : Enc :=
  if v < 0 then e.setErr else e.write (intDigits v)

namespace Legacy

/-- isValidFlag as shipped: accepted a lone backslash -/
def isValidFlag (s : Bytes) : Bool := flagCharsOk true s && s.length > 0

def encFlag (f : Bytes) (e : Enc) : Enc :=
  if f ≠ [92, 42] && !Legacy.isValidFlag f then e.setErr else e.write f

def encAttr (f : Bytes) (e : Enc) : Enc :=
  if f.head? ≠ some 92 || !Legacy.isValidFlag f then e.setErr else e.write f

/-- Number64 as shipped: `strconv.FormatInt` of any value, "-5" included -/
def encNumber64 (v : Int) (e : Enc) : Enc := e.write (intDigits v)

end Legacy

/-! a small tree of IMAP data values: strings, numbers (`Number64`) and parenthesised lists -/
mutual
  inductive Value where
    | str (s : Bytes)
    | num (n : Int)
    | list (vs : Values)
  inductive Values where
    | nil
    | cons (v : Value) (vs : Values)
end

mutual
  /-- Encoder.List / BeginList…End with one `String` / `Number64` / nested list per item -/
  def encValue (cfg : Cfg) : Value → Enc → Enc
    | .str s, e => encString cfg s e
    | .num n, e => encNumber64 n e
    | .list vs, e => (encItems cfg true vs (e.write [40])).write [41]
  def encItems (cfg : Cfg) : Bool → Values → Enc → Enc
    | _, .nil, e => e
    | first, .cons v vs, e => encItems cfg false vs (encValue cfg v (if first then e else e.write [32]))
end

mutual
  /-- nesting depth as the decoder counts it: an empty list `()` does not open a level -/
  def Value.depth : Value → Nat
    | .str _ => 0
    | .num _ => 0
    | .list .nil => 0
    | .list (.cons v vs) => 1 + Values.depth (.cons v vs)
  def Values.depth : Values → Nat
    | .nil => 0
    | .cons v vs => max (Value.depth v) (Values.depth vs)
end

/-! ## decoder -/

/-- error classes (`dec.err` / returned `error`); `fuel` = the model ran out of fuel -/
inductive Err where
  | expect | eof | depth | parse | utf7 | fuel
deriving DecidableEq, Repr

structure St where
  inp : Bytes
  /-- `dec.err`: the first error wins (Decoder.returnErr) -/
  err : Option Err := none
  /-- the calls of `CheckBufferedLiteralFunc(size, nonSync)` -/
  lits : List (Nat × Bool) := []
deriving DecidableEq, Repr

/-- Decoder.returnErr with a non-nil error -/
def St.setErr (s : St) (e : Err) : St :=
  match s.err with
  | none => { s with err := some e }
  | some _ => s

/-- Decoder.acceptByte (readByte + mustUnreadByte); end of input sets io.ErrUnexpectedEOF -/
def acceptByte (want : Nat) (s : St) : Bool × St :=
  match s.inp with
  | [] => (false, s.setErr .eof)
  | b :: r => if b = want then (true, { s with inp := r }) else (false, s)

/-- Decoder.Expect -/
def expect (ok : Bool) (s : St) : Bool × St :=
  if ok then (true, s) else (false, s.setErr .expect)

/-- Decoder.ExpectSpecial -/
def expectSpecial (b : Nat) (s : St) : Bool × St :=
  let (ok, s1) := acceptByte b s
  expect ok s1

/-- the loop of Decoder.Func / numberStr: `none` = the input ended inside the token -/
def spanValid (valid : Nat → Bool) : Bytes → Option (Bytes × Bytes)
  | [] => none
  | b :: r =>
    if valid b then (spanValid valid r).map fun (t, rest) => (b :: t, rest)
    else some ([], b :: r)

/-- Decoder.Func (also numberStr): false without consuming on an empty token; false with the EOF
    error — everything consumed — when the input ends before a terminator -/
def decFunc (valid : Nat → Bool) (s : St) : Bool × Bytes × St :=
  match spanValid valid s.inp with
  | none => (false, [], { s with inp := [] }.setErr .eof)
  | some (t, rest) => if t.isEmpty then (false, [], s) else (true, t, { s with inp := rest })

/-- Decoder.Atom / ExpectAtom -/
def decAtom (s : St) : Bool × Bytes × St := decFunc isAtomChar s

def expectAtom (s : St) : Bool × Bytes × St :=
  let (ok, t, s1) := decAtom s
  let (ok', s2) := expect ok s1
  (ok', t, s2)

/-- Decoder.Number / Number64 / ModSeq: digits, then `strconv.Parse…` fails on overflow
    (`lim` = 2^32, 2^63, 2^64) -/
def decNumberLim (lim : Nat) (s : St) : Bool × Nat × St :=
  let (ok, t, s1) := decFunc isDigit s
  if !ok then (false, 0, s1)
  else if valOf t < lim then (true, valOf t, s1) else (false, 0, s1)

def expectNumberLim (lim : Nat) (s : St) : Bool × Nat × St :=
  let (ok, v, s1) := decNumberLim lim s
  let (ok', s2) := expect ok s1
  (ok', v, s2)

def lim32 : Nat := 4294967296
def lim63 : Nat := 9223372036854775808
def lim64 : Nat := 18446744073709551616

def expectNumber := expectNumberLim lim32
def expectNumber64 := expectNumberLim lim63
def expectModSeq := expectNumberLim lim64

/-- Decoder.Quoted loop (decoder.go:372-390); `esc` = the previous byte was a backslash;
    `none` = ran out of input -/
def unq : Bool → Bytes → Option (Bytes × Bytes)
  | _, [] => none
  | true, c :: cs => (unq false cs).map fun (v, r) => (c :: v, r)
  | false, c :: cs =>
    if c = 34 then some ([], cs)
    else if c = 92 then unq true cs
    else (unq false cs).map fun (v, r) => (c :: v, r)

/-- Decoder.Quoted -/
def decQuoted (s : St) : Bool × Bytes × St :=
  let (ok, s1) := acceptByte 34 s
  if !ok then (false, [], s1)
  else match unq false s1.inp with
    | none => (false, [], { s1 with inp := [] }.setErr .eof)
    | some (v, rest) => (true, v, { s1 with inp := rest })

/-- Decoder.CRLF (optional SP, optional CR, then LF) -/
def decCRLF (s : St) : Bool × St :=
  let (_, s1) := acceptByte 32 s
  let (_, s2) := acceptByte 13 s1
  acceptByte 10 s2

def expectCRLF (s : St) : Bool × St :=
  let (ok, s1) := decCRLF s
  expect ok s1

/-- Decoder.LiteralReader + Decoder.Literal (the hook accepts; `io.Copy` takes what is there) -/
def decLiteral (side : Side) (s : St) : Bool × Bytes × St :=
  let (ok, s1) := acceptByte 123 s
  if !ok then (false, [], s1) else
  let (okn, size, s2) := expectNumber64 s1
  if !okn then (false, [], s2) else
  let (nonSync, s3) := if side = .server then acceptByte 43 s2 else (false, s2)
  let (okb, s4) := expectSpecial 125 s3
  if !okb then (false, [], s4) else
  let (okc, s5) := expectCRLF s4
  if !okc then (false, [], s5) else
  (true, s5.inp.take size, { s5 with inp := s5.inp.drop size, lits := s5.lits ++ [(size, nonSync)] })

/-- Decoder.String -/
def decString (side : Side) (s : St) : Bool × Bytes × St :=
  let (ok, v, s1) := decQuoted s
  if ok then (true, v, s1) else decLiteral side s1

/-- Decoder.ExpectString -/
def expectString (side : Side) (s : St) : Bool × Bytes × St :=
  let (ok, v, s1) := decString side s
  let (ok', s2) := expect ok s1
  (ok', v, s2)

/-- Decoder.ExpectAString: Quoted, else Literal, else — unless an error is recorded, i.e. the
    opening brace of a malformed literal has been consumed — ExpectAtom (each tried on what the
    previous one left, with the sticky error) -/
def expectAString (side : Side) (s : St) : Bool × Bytes × St :=
  let (ok, v, s1) := decQuoted s
  if ok then (true, v, s1) else
  let (ok2, v2, s2) := decLiteral side s1
  if ok2 then (true, v2, s2) else
  if s2.err.isSome then (false, [], s2) else expectAtom s2

/-- ExpectAString as shipped: after a malformed literal header (`{` consumed, error recorded) it
    still went on to read an atom from what followed and reported success -/
def Legacy.expectAString (side : Side) (s : St) : Bool × Bytes × St :=
  let (ok, v, s1) := decQuoted s
  if ok then (true, v, s1) else
  let (ok2, v2, s2) := decLiteral side s1
  if ok2 then (true, v2, s2) else expectAtom s2

/-- Decoder.ExpectMailbox -/
def expectMailbox (side : Side) (s : St) : Bool × Bytes × St :=
  let (ok, name, s1) := expectAString side s
  if !ok then (false, [], s1)
  else if equalFoldInbox name then (true, inboxBytes, s1)
  else match Utf7.decode name with
    | none => (false, [], s1.setErr .utf7)
    | some cps => (true, cps.flatMap Utf7.utf8enc, s1)

/-- Decoder.ExpectNumSet (both kinds; ExpectUIDSet is a type assertion on top) -/
def expectNumSet (s : St) : Bool × NumSetV × St :=
  let (d, s1) := acceptByte 36 s
  if d then (true, .searchRes, s1) else
  let (ok, t, s2) := decFunc isNumSetChar s1
  let (ok', s3) := expect ok s2
  if !ok' then (false, .set [], s3)
  else match NumSet.parseSet (t.map Char.ofNat) with
    | none => (false, .set [], s3.setErr .parse)
    | some set => (true, .set set, s3)

/-- Decoder.SP: a space not followed by CR/LF — or nothing at all when a `(` follows -/
def decSP (s : St) : Bool × St :=
  let (sp, s1) := acceptByte 32 s
  match s1.inp with
  | [] => (false, s1.setErr .eof)
  | b :: _ => if sp then (b ≠ 13 && b ≠ 10, s1) else (b = 40, s1)

def expectSP (s : St) : Bool × St :=
  let (ok, s1) := decSP s
  expect ok s1

/-- the `for` loop of Decoder.List (decoder.go:470-480): `item` is the callback (its Go `error`,
    the values it appended, the state) -/
def listLoop {α : Type} (item : St → Option Err × List α × St) :
    Nat → St → Option Err × List α × St
  | 0, s => (some .fuel, [], s)
  | fuel+1, s =>
    match item s with
    | (some e, as, s1) => (some e, as, s1)
    | (none, as, s1) =>
      let (close, s2) := acceptByte 41 s1
      if close then (none, as, s2) else
      let (sp, s3) := expectSP s2
      if !sp then (s3.err, as, s3)          -- `return true, dec.Err()`
      else
        let (e, bs, s4) := listLoop item fuel s3
        (e, as ++ bs, s4)

def maxListDepth : Nat := 1000

/-- Decoder.List with `dec.listDepth = depth` on entry: (isList, err, items, state) -/
def decList {α : Type} (item : St → Option Err × List α × St) (fuel depth : Nat) (s : St) :
    Bool × Option Err × List α × St :=
  let (op, s1) := acceptByte 40 s
  if !op then (false, none, [], s1) else
  let (close, s2) := acceptByte 41 s1
  if close then (true, none, [], s2) else
  if depth + 1 ≥ maxListDepth then (false, some .depth, [], s2) else
  let (e, items, s3) := listLoop item fuel s2
  (true, e, items, s3)

/-- Decoder.ExpectList: the returned Go `error` -/
def expectList {α : Type} (item : St → Option Err × List α × St) (fuel depth : Nat) (s : St) :
    Option Err × List α × St :=
  let (isList, e, items, s1) := decList item fuel depth s
  match e with
  | some e => (some e, items, s1)
  | none =>
    let (ok, s2) := expect isList s1
    if !ok then (s2.err, items, s2) else (none, items, s2)

/-! ### flags and mailbox attributes (internal/internal.go) -/

def wellKnownFlags : List Bytes :=
  ["\\Seen", "\\Answered", "\\Flagged", "\\Deleted", "\\Draft", "$Forwarded", "$MDNSent", "$Junk",
   "$NotJunk", "$Phishing", "$Important"].map fun s => s.toList.map Char.toNat

def wellKnownAttrs : List Bytes :=
  ["\\NonExistent", "\\Noinferiors", "\\Noselect", "\\HasChildren", "\\HasNoChildren", "\\Marked",
   "\\Unmarked", "\\Subscribed", "\\Remote", "\\All", "\\Archive", "\\Drafts", "\\Flagged", "\\Junk",
   "\\Sent", "\\Trash", "\\Important"].map fun s => s.toList.map Char.toNat

/-- the map lookup `table[strings.ToLower(s)]` (ASCII only) -/
def canonIn (table : List Bytes) (s : Bytes) : Bytes :=
  match table.find? fun t => lowerAscii t = lowerAscii s with
  | some t => t
  | none => s

/-- internal.go canonicalFlag / canonicalMailboxAttr -/
def canonicalFlag (s : Bytes) : Bytes := canonIn wellKnownFlags s
def canonicalMailboxAttr (s : Bytes) : Bytes := canonIn wellKnownAttrs s

/-- the lookup key as shipped: `strings.ToLower`, whose Unicode mapping turns U+0130 (bytes C4 B0)
    into "i" and U+212A (E2 84 AA) into "k" — the only non-ASCII characters that lower-case into
    ASCII; anything else non-ASCII stays non-ASCII and cannot match a key -/
def Legacy.lowerGo : Bytes → Bytes
  | 196 :: 176 :: r => 105 :: Legacy.lowerGo r
  | 226 :: 132 :: 170 :: r => 107 :: Legacy.lowerGo r
  | c :: r => toLowerAscii c :: Legacy.lowerGo r
  | [] => []

/-- canonicalFlag / canonicalMailboxAttr as shipped -/
def Legacy.canonIn (table : List Bytes) (s : Bytes) : Bytes :=
  match table.find? fun t => lowerAscii t = Legacy.lowerGo s with
  | some t => t
  | none => s

def Legacy.canonicalFlag (s : Bytes) : Bytes := Legacy.canonIn wellKnownFlags s
def Legacy.canonicalMailboxAttr (s : Bytes) : Bytes := Legacy.canonIn wellKnownAttrs s

/-- internal.go ExpectFlag: (err == nil, flag, state) -/
def expectFlag (s : St) : Bool × Bytes × St :=
  let (isSystem, s1) := acceptByte 92 s
  let (star, s2) := if isSystem then acceptByte 42 s1 else (false, s1)
  if isSystem && star then (true, [92, 42], s2) else
  let (ok, name, s3) := expectAtom s2
  if !ok then (false, [], s3)
  else (true, canonicalFlag (if isSystem then 92 :: name else name), s3)

/-- internal.go ExpectMailboxAttr (the attribute value is computed even when err != nil) -/
def expectMailboxAttr (s : St) : Bool × Bytes × St :=
  let (ok, f, s1) := expectFlag s
  (ok, canonicalMailboxAttr f, s1)

/-- the callback of ExpectFlagList / ExpectMailboxAttrList -/
def flagItem (rd : St → Bool × Bytes × St) (s : St) : Option Err × List Bytes × St :=
  let (ok, f, s1) := rd s
  if ok then (none, [f], s1) else (s1.err, [], s1)

def expectFlagList (fuel : Nat) (s : St) : Option Err × List Bytes × St :=
  expectList (flagItem expectFlag) fuel 0 s

def expectMailboxAttrList (fuel : Nat) (s : St) : Option Err × List Bytes × St :=
  expectList (flagItem expectMailboxAttr) fuel 0 s

/-! ### generic values -/

/-- the error a reader reports when a `dec.Expect…` call failed -/
def St.errOrExpect (s : St) : Err :=
  match s.err with
  | some e => e
  | none => .expect

mutual
  /-- a value reader assembled from the decoder's primitives in the order of Decoder.DiscardValue:
      `String`, else `List` (recursively), else `ExpectNumber64`.  `depth` = `dec.listDepth`. -/
  def readValue (side : Side) : Nat → Nat → St → Except Err Value × St
    | 0, _, s => (.error .fuel, s)
    | fuel+1, depth, s =>
      let (isStr, v, s1) := decString side s
      if isStr then (.ok (.str v), s1) else
      let (op, s2) := acceptByte 40 s1
      if op then
        let (close, s3) := acceptByte 41 s2
        if close then (.ok (.list .nil), s3) else
        if depth + 1 ≥ maxListDepth then (.error .depth, s3) else
        match readItems side fuel (depth + 1) s3 with
        | (.error e, s4) => (.error e, s4)
        | (.ok vs, s4) => (.ok (.list vs), s4)
      else
        let (ok, n, s3) := expectNumber64 s2
        if ok then (.ok (.num (Int.ofNat n)), s3) else (.error s3.errOrExpect, s3)
  /-- the loop of Decoder.List with `readValue` as the callback -/
  def readItems (side : Side) : Nat → Nat → St → Except Err Values × St
    | 0, _, s => (.error .fuel, s)
    | fuel+1, depth, s =>
      match readValue side fuel depth s with
      | (.error e, s1) => (.error e, s1)
      | (.ok v, s1) =>
        let (close, s2) := acceptByte 41 s1
        if close then (.ok (.cons v .nil), s2) else
        let (sp, s3) := expectSP s2
        if !sp then (.error s3.errOrExpect, s3)
        else match readItems side fuel depth s3 with
          | (.error e, s4) => (.error e, s4)
          | (.ok vs, s4) => (.ok (.cons v vs), s4)
end

/-- Decoder.DiscardValue.  The callback returns `dec.Err()`, which is nil after a depth error:
    the loop then goes on (mirrored as it is). -/
def discardValue (side : Side) : Nat → Nat → St → Bool × St
  | 0, _, s => (false, s.setErr .fuel)
  | fuel+1, depth, s =>
    let (isStr, _, s1) := decString side s
    if isStr then (true, s1) else
    if s1.err.isSome then (false, s1) else      -- malformed literal
    let item : St → Option Err × List Unit × St := fun st =>
      let (ok, st1) := discardValue side fuel (depth + 1) st
      if ok then (none, [], st1) else (st1.err, [], st1)
    let (isList, e, _, s2) := decList item fuel depth s1
    match e with
    | some _ => (false, s2)
    | none =>
      if isList then (true, s2) else
      let (ok, _, s3) := decAtom s2
      if ok then (true, s3) else
      let (_, s4) := expect false s3
      (false, s4)

end GoImap.Wire
