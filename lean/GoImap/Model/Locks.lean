/-
  M11 — lock programs (property C14).

  The Go code is not mirrored function by function here: what C14 needs from it is only WHICH lock
  is taken while which other lock is held. A goroutine is modelled by its lock program (the
  sequence of `mutex.Lock()` / `mutex.Unlock()` it executes on lock INSTANCES, natural numbers),
  a system is any number of such threads, and a scheduler picks an enabled thread at every step.
  The class graph the instance theorem speaks about (`GoImap/Gen/LockGraph.lean`) is regenerated from
  the tree being checked on every run of `./check C14`.

  Core Lean only (linked into the driver).
-/
namespace GoImap.Locks

/-- one lock operation on a lock instance -/
inductive Act where
  | acq (l : Nat)
  | rel (l : Nat)
deriving DecidableEq, Repr

/-- a thread: the rest of its lock program and the instances it holds -/
structure Thr where
  prog : List Act
  held : List Nat
deriving DecidableEq, Repr

abbrev State := List Thr

/-- some thread of the system holds `l` -/
def heldBy (s : State) (l : Nat) : Prop := ∃ t ∈ s, l ∈ t.held

instance (s : State) (l : Nat) : Decidable (heldBy s l) := by unfold heldBy; exact inferInstance

/-- `sync.Mutex`: an acquisition can proceed iff nobody (the thread itself included) holds the
    instance; a release can always proceed; a finished thread takes no step -/
def enabled (s : State) (t : Thr) : Prop :=
  match t.prog with
  | [] => False
  | .rel _ :: _ => True
  | .acq l :: _ => ¬ heldBy s l

instance (s : State) (t : Thr) : Decidable (enabled s t) := by
  unfold enabled; split <;> exact inferInstance

def stepThr (t : Thr) : Thr :=
  match t.prog with
  | [] => t
  | .rel l :: p => ⟨p, t.held.erase l⟩
  | .acq l :: p => ⟨p, l :: t.held⟩

/-- one scheduler step: any enabled thread executes its next operation -/
inductive Step : State → State → Prop
  | mk (pre : List Thr) (t : Thr) (post : List Thr) :
      enabled (pre ++ t :: post) t → Step (pre ++ t :: post) (pre ++ stepThr t :: post)

/-- reachability under all schedules -/
inductive Reachable (s0 : State) : State → Prop
  | refl : Reachable s0 s0
  | step {s s' : State} : Reachable s0 s → Step s s' → Reachable s0 s'

/-- the program only releases what it holds and ends holding nothing (in the Go code: every
    `Lock()` is paired with an `Unlock()` / `defer Unlock()` on the same goroutine) -/
def WellNested : List Nat → List Act → Prop
  | held, [] => held = []
  | held, .acq l :: p => WellNested (l :: held) p
  | held, .rel l :: p => l ∈ held ∧ WellNested (held.erase l) p

/-- every pair (a, b) such that the program acquires instance `b` while holding instance `a` -/
def nestings : List Nat → List Act → List (Nat × Nat)
  | _, [] => []
  | held, .acq l :: p => held.map (fun h => (h, l)) ++ nestings (l :: held) p
  | held, .rel l :: p => nestings (held.erase l) p

/-- the rank discipline on a single thread (`rank` is on instances) -/
def Ordered (rank : Nat → Nat) : List Nat → List Act → Prop
  | held, [] => held = []
  | held, .acq l :: p => (∀ h ∈ held, rank h < rank l) ∧ Ordered rank (l :: held) p
  | held, .rel l :: p => l ∈ held ∧ Ordered rank (held.erase l) p

/-- number of operations still to be executed by the whole system -/
def remaining : State → Nat
  | [] => 0
  | t :: s => t.prog.length + remaining s

/-! ### the class graph check (executed by `decide` on the recorded graph, and by the driver) -/

/-- rank of a class in a rank table; classes outside the table have rank 0 (the check below
    compares ranks of both ends of every edge, so a table that is too short makes it fail) -/
def rankOf (r : List Nat) (c : Nat) : Nat :=
  match r[c]? with
  | some x => x
  | none => 0

/-- longest-path relaxation of one edge `a → b`: make `rank b > rank a` -/
def relaxEdge (r : List Nat) (e : Nat × Nat) : List Nat :=
  if rankOf r e.1 < rankOf r e.2 then r else r.set e.2 (rankOf r e.1 + 1)

def relaxRound (es : List (Nat × Nat)) (r : List Nat) : List Nat := es.foldl relaxEdge r

def relaxN : Nat → List (Nat × Nat) → List Nat → List Nat
  | 0, _, r => r
  | n + 1, es, r => relaxN n es (relaxRound es r)

/-- one more than the largest class index mentioned -/
def graphSize (es : List (Nat × Nat)) : Nat :=
  es.foldl (fun m e => max m (max e.1 e.2 + 1)) 0

/-- ranks after `graphSize` rounds of relaxation (enough for every acyclic graph) -/
def computeRank (es : List (Nat × Nat)) : List Nat :=
  relaxN (graphSize es) es (List.replicate (graphSize es) 0)

def orderedBy (r : List Nat) (es : List (Nat × Nat)) : Bool :=
  es.all fun e => decide (rankOf r e.1 < rankOf r e.2)

/-- the graph admits a strict rank (⇔ it has no cycle, self-loops included); the answer is the
    CHECK of the computed ranks against every edge, so `true` never relies on the relaxation -/
def acyclicCheck (es : List (Nat × Nat)) : Bool := orderedBy (computeRank es) es

/-! ### lock programs of COPY / MOVE in imapmemserver (`session.go`), Mailbox.mutex only -/

/-- `UserSession.Copy` after the repair: snapshot under the source lock, release, append under
    the destination lock -/
def copyProg (src dst : Nat) : List Act := [.acq src, .rel src, .acq dst, .rel dst]

/-- `UserSession.Move` after the repair: a third critical section (source) for the expunge -/
def moveProg (src dst : Nat) : List Act :=
  [.acq src, .rel src, .acq dst, .rel dst, .acq src, .rel src]

namespace Legacy

/-- `UserSession.Copy`/`Move` as shipped: `copyMsg` took the destination's `Mailbox.mutex` from
    inside the critical section of the source's (session.go:68-72, 97-105 at eab4aad) -/
def copyProg (src dst : Nat) : List Act := [.acq src, .acq dst, .rel dst, .rel src]

end Legacy

end GoImap.Locks
