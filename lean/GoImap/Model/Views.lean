/-
  C08 — several connections looking at shared in-memory mailboxes.

  Mirror of the parts of /repo/imapserver/imapmemserver/{mailbox,session}.go and
  /repo/imapserver/{conn,select,expunge,move,copy,append,idle}.go that decide WHICH NUMBERS are put
  on the wire of each connection: one `Tracker` session (Model/Tracker.lean, the mirror of
  tracker.go) per selected connection, the message list of each mailbox, and for every command
  the Go control flow: numbers of the command are resolved against the server's list
  (`staticNumSet`), every number sent is `EncodeSeqNum` of a server position (skipped when 0),
  then `Conn.poll` with the command's allowExpunge policy.

  Deliberately small mailbox state (uids and three flags); message bodies, dates, LIST/STATUS,
  CREATE/DELETE/RENAME are the C09 model's business (Model/Mailbox.lean).
-/
import GoImap.Model.Tracker
namespace GoImap.Views
open GoImap.Tracker

/-- a message: its UID and a flag set as a bit mask (1 = \Deleted, 2 = \Seen, 4 = \Flagged) -/
structure Msg where
  uid : Nat
  flags : Nat
deriving Repr, DecidableEq

/-- imapmemserver.Mailbox: `l`, `uidNext`, `tracker` -/
structure MBox where
  msgs : List Msg
  uidNext : Nat
  tr : Tracker.St
deriving Repr

/-- one connection: the selected mailbox (index), whether it sits in IDLE, and the (uid, flags)
    payloads of the `.fetch` updates waiting in its tracker queue, in queue order (tracker.go
    stores them inside the update; Model/Tracker.lean keeps the numbers only) -/
structure Conn where
  sel : Option Nat
  idle : Bool
  pay : List (Nat × Nat)
deriving Repr

structure St where
  mb : List MBox
  conns : List Conn
deriving Repr

def init (nmb nconn : Nat) : St :=
  ⟨List.replicate nmb ⟨[], 1, Tracker.init 0⟩, List.replicate nconn ⟨none, false, []⟩⟩

/-- what a connection receives (the tokens of the harness's response tokenizer) -/
inductive Ev where
  | exists_ (n : Nat)
  | expunge (k : Nat)
  | fetch (k uid : Nat) (flags : Option Nat)
  | search (ks : List Nat)
  | esearch (all : List Nat) (min max count : Nat)
  | copyuid (src dst : List Nat)
  | uidnext (n : Nat)
deriving Repr, DecidableEq

inductive Status where
  | ok | no | bad | cont | skip | crash
deriving Repr, DecidableEq

structure Resp where
  evs : List Ev
  status : Status
  appendUid : Option Nat := none
  copyUid : Option (List Nat × List Nat) := none
deriving Repr

/-- a number set as parsed by imapnum.ParseSet: ranges (start, stop), 0 = "*" -/
abbrev NSet := List (Nat × Nat)

inductive StoreOp where
  | set | add | del
deriving Repr, DecidableEq

/-- SEARCH criteria used here: optional sequence set, optional UID set, flags required / forbidden -/
structure Key where
  seq : Option NSet
  uid : Option NSet
  has : Nat
  hasNot : Nat
deriving Repr

inductive Cmd where
  | append (m flags : Nat)
  | select (m : Nat)
  | close
  | unselect
  | store (uid : Bool) (set : NSet) (op : StoreOp) (flags : Nat) (silent : Bool)
  | expunge
  | uidExpunge (set : NSet)
  | copy (uid : Bool) (set : NSet) (m : Nat)
  | move (uid : Bool) (set : NSet) (m : Nat)
  | fetch (uid : Bool) (set : NSet) (withFlags markSeen : Bool)
  | search (uid : Bool) (key : Key) (ext : Bool)
  | noop
  | idle
  | done
deriving Repr

/-- which shipped behaviour is modelled: the repaired code (both false) or the code before the
    repairs ff6340e (MOVE wrote its EXPUNGEs itself, re-encoded, and queued them too) and eb5339c
    (FETCH did not skip a message whose client number is 0) -/
structure Variant where
  legacyMove : Bool := false
  legacyFetch : Bool := false
deriving Repr

/-! ### numbers -/

/-- staticNumRange (mailbox.go): "*" becomes `max`; a dynamic range is put in order -/
def staticRange (max : Nat) (r : Nat × Nat) : Nat × Nat :=
  let s := if r.1 = 0 then max else r.1
  let e := if r.2 = 0 then max else r.2
  if (r.1 = 0 || r.2 = 0) && s > e then (e, s) else (s, e)

/-- `staticNumSet(set).Contains(x)` for `x ≠ 0` (membership in the union of the static ranges; the
    merging done by `AddRange` is C15's business) -/
def inSet (max : Nat) (set : NSet) (x : Nat) : Bool :=
  set.any fun r => (staticRange max r).1 ≤ x && x ≤ (staticRange max r).2

/-- list elements with their 1-based positions starting at `i` -/
def indexed : List α → Nat → List (Nat × α)
  | [], _ => []
  | a :: l, i => (i, a) :: indexed l (i + 1)

/-- sorted insertion without duplicates (`NumSet.AddNum` followed by enumeration) -/
def insertNum (x : Nat) : List Nat → List Nat
  | [] => [x]
  | y :: l => if x < y then x :: y :: l else if x = y then y :: l else y :: insertNum x l

def setOf (l : List Nat) : List Nat := l.foldl (fun acc x => insertNum x acc) []

/-- message.store -/
def storeFlags (op : StoreOp) (fl cur : Nat) : Nat :=
  match op with
  | .set => fl
  | .add => cur ||| fl
  | .del => cur &&& (7 ^^^ fl)

/-! ### tracker plumbing -/

/-- one MailboxTracker / SessionTracker call on a mailbox; `none` = the Go code panics -/
def MBox.tstep (b : MBox) (op : Op) : Option (MBox × List Upd) :=
  match step b.tr op with
  | none => none
  | some (t, out) => some ({ b with tr := t }, out)

/-- `mbox.tracker.EncodeSeqNum(k)` for the view of connection `c` (a selected connection always
    has a session; 0 stands for the missing one, which no reachable state has) -/
def MBox.enc (b : MBox) (c k : Nat) : Nat :=
  match b.tr.sess.find? (·.id = c) with
  | some s => encode s.queue b.tr.n k
  | none => 0

/-- payload of a flags update for every session of mailbox `m` but the source -/
def pushPay (conns : List Conn) (m : Nat) (src : Option Nat) (p : Nat × Nat) : List Conn :=
  conns.mapIdx fun i cn =>
    if cn.sel = some m && src != some i then { cn with pay := cn.pay ++ [p] } else cn

/-- UpdateWriter: the updates a poll dequeued, as wire events; flag updates take their payload -/
def render : List Upd → List (Nat × Nat) → List Ev × List (Nat × Nat)
  | [], p => ([], p)
  | .expunge k :: us, p => ((Ev.expunge k) :: (render us p).1, (render us p).2)
  | .exists_ _ n :: us, p => ((Ev.exists_ n) :: (render us p).1, (render us p).2)
  | .mflags :: us, p => render us p            -- never queued by the in-memory backend
  | .fetch k :: us, (u, f) :: p => ((Ev.fetch k u (some f)) :: (render us p).1, (render us p).2)
  | .fetch k :: us, [] => ((Ev.fetch k 0 none) :: (render us []).1, [])   -- payloads are aligned with `.fetch` entries

def getMb (st : St) (m : Nat) : Option MBox := st.mb[m]?
def setMb (st : St) (m : Nat) (b : MBox) : St := { st with mb := st.mb.set m b }
def getConn (st : St) (c : Nat) : Option Conn := st.conns[c]?
def setConn (st : St) (c : Nat) (cn : Conn) : St := { st with conns := st.conns.set c cn }

/-- Conn.poll → UserSession.Poll → SessionTracker.Poll for connection `c` -/
def pollConn (st : St) (c : Nat) (allow : Bool) : Option (St × List Ev) :=
  match getConn st c with
  | none => some (st, [])
  | some cn =>
    match cn.sel with
    | none => some (st, [])                     -- sess.mailbox == nil
    | some m =>
      match getMb st m with
      | none => none
      | some b =>
        match b.tstep (.poll c allow) with
        | none => none
        | some (b', out) =>
          let r := render out cn.pay
          some (setConn (setMb st m b') c { cn with pay := r.2 }, r.1)

/-! ### mailbox operations -/

/-- Mailbox.appendBytes: new UID, message appended, QueueNumMessages(len) -/
def MBox.append (b : MBox) (flags : Nat) : Option (MBox × Nat) :=
  let msgs := b.msgs ++ [⟨b.uidNext, flags⟩]
  match ({ b with msgs := msgs, uidNext := b.uidNext + 1 } : MBox).tstep (.numMessages msgs.length) with
  | none => none
  | some (b', _) => some (b', b.uidNext)

/-- the QueueExpunge calls of expungeLocked, highest position first -/
def expungeLoop (b : MBox) : List Nat → Option MBox
  | [] => some b
  | i :: is =>
    match b.tstep (.expunge i) with
    | none => none
    | some (b', _) => expungeLoop b' is

/-- Mailbox.expungeLocked for the messages at the (ascending) positions `pos` -/
def MBox.expungeAt (b : MBox) (pos : List Nat) : Option MBox :=
  match expungeLoop b pos.reverse with
  | none => none
  | some b' =>
    some { b' with msgs := (indexed b.msgs 1).filterMap fun im => if pos.contains im.1 then none else some im.2 }

/-- MailboxView.forEachLocked: the server positions and messages the set selects. The set is made
    static against the SERVER's list (`len(mbox.l)` / `uidNext-1`), then each message is tested:
    a sequence set against `EncodeSeqNum(position)` (never when that is 0), a UID set against the
    UID. (The callback only queues flag updates, which EncodeSeqNum ignores, so the selection can
    be computed before the callbacks run.) -/
def selectMsgs (b : MBox) (c : Nat) (uid : Bool) (set : NSet) : List (Nat × Msg) :=
  (indexed b.msgs 1).filter fun im =>
    if uid then inSet (b.uidNext - 1) set im.2.uid
    else b.enc c im.1 != 0 && inSet b.msgs.length set (b.enc c im.1)

/-- QueueMessageFlags for each (position, message) in order; `none` never happens -/
def queueFlags (st : St) (m : Nat) (src : Option Nat) : List (Nat × Msg) → Option St
  | [] => some st
  | (i, msg) :: rest =>
    match getMb st m with
    | none => none
    | some b =>
      match b.tstep (.messageFlags i src) with
      | none => none
      | some (b', _) =>
        queueFlags { setMb st m b' with conns := pushPay st.conns m src (msg.uid, msg.flags) } m src rest

/-- MailboxView.Fetch: one response per selected message the client knows (client number ≠ 0);
    a non-PEEK body section sets \Seen and queues a flags update for every session -/
def fetchLoop (v : Variant) (st : St) (m c : Nat) (withFlags markSeen : Bool) :
    List (Nat × Msg) → Option (St × List Ev)
  | [] => some (st, [])
  | (i, msg) :: rest =>
    match getMb st m with
    | none => none
    | some b =>
      let e := b.enc c i
      if e = 0 && !v.legacyFetch then fetchLoop v st m c withFlags markSeen rest
      else
        let msg' : Msg := if markSeen then ⟨msg.uid, msg.flags ||| 2⟩ else msg
        let st1? : Option St :=
          if markSeen then
            queueFlags (setMb st m { b with msgs := (indexed b.msgs 1).map fun im => if im.1 = i then msg' else im.2 })
              m none [(i, msg')]
          else some st
        match st1? with
        | none => none
        | some st1 =>
          match fetchLoop v st1 m c withFlags markSeen rest with
          | none => none
          | some (st2, evs) => some (st2, Ev.fetch e msg'.uid (if withFlags then some msg'.flags else none) :: evs)

/-- MailboxView.Search's loop: (matching UIDs or client numbers) -/
def searchLoop (b : MBox) (c : Nat) (uid : Bool) (key : Key) : List (Nat × Msg) → List Nat
  | [] => []
  | (i, msg) :: rest =>
    let e := b.enc c i
    let ok := (key.seq.all fun s => e != 0 && inSet b.msgs.length s e) &&
      (key.uid.all fun s => inSet (b.uidNext - 1) s msg.uid) &&
      (msg.flags &&& key.has == key.has) && (msg.flags &&& key.hasNot == 0)
    if !ok then searchLoop b c uid key rest
    else if uid then msg.uid :: searchLoop b c uid key rest
    else if e = 0 then searchLoop b c uid key rest
    else e :: searchLoop b c uid key rest

def minOf : List Nat → Nat
  | [] => 0
  | x :: l => l.foldl Nat.min x
def maxOf : List Nat → Nat
  | [] => 0
  | x :: l => l.foldl Nat.max x

/-- appends of COPY/MOVE into the destination, in order; returns the new UIDs -/
def appendAll (b : MBox) : List Msg → Option (MBox × List Nat)
  | [] => some (b, [])
  | msg :: rest =>
    match b.append msg.flags with
    | none => none
    | some (b', u) =>
      match appendAll b' rest with
      | none => none
      | some (b'', us) => some (b'', u :: us)

/-- the stored messages put back at their positions -/
def replaceAt (upd : List (Nat × Msg)) : List (Nat × Msg) → List Msg
  | [] => []
  | im :: rest =>
    (match upd.find? (fun x => x.1 = im.1) with
     | some x => x.2
     | none => im.2) :: replaceAt upd rest

/-! ### commands -/

def bad : Resp := ⟨[], .bad, none, none⟩
def no : Resp := ⟨[], .no, none, none⟩
def ok (evs : List Ev) : Resp := ⟨evs, .ok, none, none⟩

/-- handleSelect's first half / handleUnselect: the session's tracker is closed -/
def unselectConn (st : St) (c : Nat) (cn : Conn) : Option St :=
  match cn.sel with
  | none => some st
  | some m =>
    match getMb st m with
    | none => none
    | some b =>
      match b.tstep (.close c) with
      | none => none
      | some (b', _) => some (setConn (setMb st m b') c { cn with sel := none, pay := [] })

/-- commands that need the selected state, with the connection's mailbox at hand -/
def execSelected (v : Variant) (st : St) (c : Nat) (cn : Conn) (m : Nat) (b : MBox) :
    Cmd → Option (St × Resp)
  | .close =>
    -- Expunge(nil) without responses, then Unselect; the poll that follows finds no mailbox
    let pos := ((indexed b.msgs 1).filter fun im => im.2.flags &&& 1 == 1).map (·.1)
    match b.expungeAt pos with
    | none => none
    | some b' =>
      match unselectConn (setMb st m b') c cn with
      | none => none
      | some st' => some (st', ok [])
  | .unselect =>
    match unselectConn st c cn with
    | none => none
    | some st' => some (st', ok [])
  | .store uid set op fl silent =>
    let sel := selectMsgs b c uid set
    let upd : List (Nat × Msg) := sel.map fun im => (im.1, ⟨im.2.uid, storeFlags op fl im.2.flags⟩)
    let b1 : MBox := { b with msgs := replaceAt upd (indexed b.msgs 1) }
    match queueFlags (setMb st m b1) m (some c) upd with
    | none => none
    | some st1 =>
      -- Store ends with mbox.Fetch(w, numSet, {Flags}) unless .SILENT
      let r? : Option (St × List Ev) :=
        if silent then some (st1, [])
        else match getMb st1 m with
          | none => none
          | some b2 => fetchLoop v st1 m c true false (selectMsgs b2 c uid set)
      match r? with
      | none => none
      | some (st2, evs) =>
        match pollConn st2 c uid with              -- "STORE": no expunge; "UID STORE": allowed
        | none => none
        | some (st3, pevs) => some (st3, ok (evs ++ pevs))
  | .expunge =>
    let pos := ((indexed b.msgs 1).filter fun im => im.2.flags &&& 1 == 1).map (·.1)
    match b.expungeAt pos with
    | none => none
    | some b' =>
      match pollConn (setMb st m b') c true with
      | none => none
      | some (st', pevs) => some (st', ok pevs)
  | .uidExpunge set =>
    let pos := ((indexed b.msgs 1).filter fun im =>
      inSet (b.uidNext - 1) set im.2.uid && im.2.flags &&& 1 == 1).map (·.1)
    match b.expungeAt pos with
    | none => none
    | some b' =>
      match pollConn (setMb st m b') c true with
      | none => none
      | some (st', pevs) => some (st', ok pevs)
  | .copy uid set d =>
    match getMb st d with
    | none => some (st, no)                      -- TRYCREATE
    | some dest =>
      if d = m then some (st, no) else
      let sel := selectMsgs b c uid set
      match appendAll dest (sel.map (·.2)) with
      | none => none
      | some (dest', us) =>
        match pollConn (setMb st d dest') c true with
        | none => none
        | some (st', pevs) =>
          some (st', ⟨pevs, .ok, none, if sel.isEmpty then none else some (sel.map (·.2.uid), us)⟩)
  | .move uid set d =>
    match getMb st d with
    | none => some (st, no)
    | some dest =>
      if d = m then some (st, no) else
      let sel := selectMsgs b c uid set
      match appendAll dest (sel.map (·.2)) with
      | none => none
      | some (dest', us) =>
        match b.expungeAt (sel.map (·.1)) with
        | none => none
        | some b' =>
          let st1 := setMb (setMb st d dest') m b'
          let cu : List Ev := if sel.isEmpty then [] else [Ev.copyuid (sel.map (·.2.uid)) us]
          -- before ff6340e: WriteExpunge(EncodeSeqNum(seqNum)) for every expunged position, highest first
          let own : List Ev := if v.legacyMove then (sel.map (·.1)).reverse.map fun i => Ev.expunge (b'.enc c i) else []
          match pollConn st1 c true with
          | none => none
          | some (st', pevs) => some (st', ok (cu ++ own ++ pevs))
  | .fetch uid set withFlags markSeen =>
    match fetchLoop v st m c withFlags markSeen (selectMsgs b c uid set) with
    | none => none
    | some (st1, evs) =>
      match pollConn st1 c uid with                -- "FETCH": no expunge; "UID FETCH": allowed
      | none => none
      | some (st2, pevs) => some (st2, ok (evs ++ pevs))
  | .search uid key ext =>
    let nums := searchLoop b c uid key (indexed b.msgs 1)
    let ev : Ev := if ext then Ev.esearch (setOf nums) (minOf nums) (maxOf nums) nums.length
      else Ev.search (setOf nums)
    match pollConn st c uid with                   -- "SEARCH": no expunge; "UID SEARCH": allowed
    | none => none
    | some (st', pevs) => some (st', ok (ev :: pevs))
  | _ => none                                      -- not a selected-state command (handled by `exec?`)

def needsSelected : Cmd → Bool
  | .close | .unselect | .store .. | .expunge | .uidExpunge _ | .copy .. | .move .. | .fetch .. | .search .. => true
  | _ => false

def exec? (v : Variant) (st : St) (c : Nat) (cmd : Cmd) : Option (St × Resp) :=
  match getConn st c with
  | none => some (st, ⟨[], .skip, none, none⟩)
  | some cn =>
    -- the harness sends nothing but DONE to an idling connection, and DONE only to an idling one
    match cn.idle, cmd with
    | true, .done =>
      match pollConn st c true with                -- what the Idle goroutine and the final poll send, in order
      | none => none
      | some (st', pevs) =>
        match getConn st' c with
        | none => none
        | some cn' => some (setConn st' c { cn' with idle := false }, ok pevs)
    | true, _ => some (st, ⟨[], .skip, none, none⟩)
    | false, .done => some (st, ⟨[], .skip, none, none⟩)
    | false, .idle => some (setConn st c { cn with idle := true }, ⟨[], .cont, none, none⟩)
    | false, .noop =>
      match pollConn st c true with
      | none => none
      | some (st', pevs) => some (st', ok pevs)
    | false, .append m fl =>
      match getMb st m with
      | none => some (st, no)                      -- TRYCREATE
      | some b =>
        match b.append fl with
        | none => none
        | some (b', u) =>
          match pollConn (setMb st m b') c true with
          | none => none
          | some (st', pevs) => some (st', ⟨pevs, .ok, some u, none⟩)
    | false, .select m =>
      match unselectConn st c cn with
      | none => none
      | some st1 =>
        match getMb st1 m with
        | none => some (st1, no)
        | some b =>
          match b.tstep (.newSession c) with
          | none => none
          | some (b', _) =>
            some (setConn (setMb st1 m b') c ⟨some m, false, []⟩,
              ok [Ev.exists_ b.msgs.length, Ev.uidnext b.uidNext])
    | false, cmd =>
      if needsSelected cmd then
        match cn.sel with
        | none => some (st, bad)
        | some m =>
          match getMb st m with
          | none => none
          | some b => execSelected v st c cn m b cmd
      else none

/-- one command of connection `c`; a Go panic closes the connection (`crash`) -/
def exec (v : Variant) (st : St) (c : Nat) (cmd : Cmd) : St × Resp :=
  match exec? v st c cmd with
  | some r => r
  | none => (st, ⟨[], .crash, none, none⟩)

/-- the actual message list of the mailbox connection `c` has selected -/
def actual (st : St) (c : Nat) : Option (List Msg) :=
  match getConn st c with
  | none => none
  | some cn =>
    match cn.sel with
    | none => none
    | some m => (getMb st m).map (·.msgs)

end GoImap.Views
