/-
  M7 — mirror of the connection state machine of /repo/imapserver:
  conn.go (serve, readCommand and its switch, checkState, canAuth, poll), every handle* function at
  the level "does it parse / which state does it require / which Session methods does it call and in
  which connection state / how does the outcome change c.state / which tagged status is written /
  does the connection close", capability.go (availableCaps), starttls.go (canStartTLS).

  Finite. Not modelled: command arguments (one representative well-formed and one malformed instance
  per command), SASL mechanisms other than PLAIN, the ENABLE set, literals/framing (C04), TLS itself.
-/
import GoImap.Util
namespace GoImap.ServerSM

/-- imap.ConnState (conn.go:45) -/
inductive St where
  | notAuth | auth | selected | logout
deriving DecidableEq, Repr, Inhabited

/-- Options.Caps as used by the harness: nil (IMAP4rev1 only), rev1+rev2+extensions, rev2 only -/
inductive CapsMode where
  | rev1 | both | rev2
deriving DecidableEq, Repr, Inhabited

structure Cfg where
  tls : Bool           -- the accepted net.Conn is a *tls.Conn (implicit TLS)
  ins : Bool           -- Options.InsecureAuth
  pre : Bool           -- GreetingData.PreAuth
  full : Bool          -- session implements SessionMove, SessionNamespace, SessionUnauthenticate
  stls : Bool          -- Options.TLSConfig != nil
  caps : CapsMode
deriving DecidableEq, Repr, Inhabited

/-- the names of the readCommand switch (UID forms separately), the two unknown forms, and three
    further shapes of AUTHENTICATE (credentials on a continuation line, cancelled, other mechanism) -/
inductive CmdKind where
  | noop | check | logout | capability | starttls
  | authenticate | authCont | authCancel | authMech
  | unauthenticate | login | enable
  | create | delete | rename | subscribe | unsubscribe | status | list | lsub | namespace | idle
  | select | examine | close | unselect | append
  | fetch | uidFetch | expunge | uidExpunge | store | uidStore | copy | uidCopy | move | uidMove
  | search | uidSearch
  | unknown | uidUnknown
deriving DecidableEq, Repr, Inhabited

/-- parseErr: a malformed instance; backendOk: every session method succeeds; backendErr: the
    command's principal session method fails; auxErr: the method called before the principal one
    fails (Unselect of SELECT/EXAMINE in selected state, Expunge of CLOSE); pollErr: Session.Poll fails -/
inductive Outcome where
  | parseErr | backendOk | backendErr | auxErr | pollErr
deriving DecidableEq, Repr, Inhabited

/-- methods of imapserver.Session (+ the optional interfaces) -/
inductive SessionCall where
  | login | unauthenticate | select | create | delete | rename | subscribe | unsubscribe
  | list | status | append | poll | idle | namespace
  | unselect | expunge | search | fetch | store | copy | move
  | close
deriving DecidableEq, Repr, Inhabited

/-- class of the tagged completion; `none`: the connection ended without one -/
inductive Resp where
  | ok | no | bad | none
deriving DecidableEq, Repr, Inhabited

structure Conn where
  st : St
  tls : Bool       -- c.conn is a *tls.Conn
  closed : Bool    -- serve() has left its loop
deriving DecidableEq, Repr, Inhabited

abbrev Call := SessionCall × St

/-- what one command did -/
structure Out where
  conn : Conn
  calls : List Call      -- session calls, each with c.state at the time of the call
  resp : Resp
  bye : Bool             -- an untagged BYE was written
  cont : Nat             -- continuation requests written
  caps : Bool            -- the tagged OK carries a CAPABILITY code (LOGIN / AUTHENTICATE)
deriving DecidableEq, Repr, Inhabited

/-! Equality tests are written as pattern matches (one `casesOn` each): the one-step theorems are
    checked by kernel evaluation of the whole table, where instance-based `==` is two orders of
    magnitude slower. -/
def St.isNotAuth : St → Bool | .notAuth => true | _ => false
def St.isAuth : St → Bool | .auth => true | _ => false
def St.isSelected : St → Bool | .selected => true | _ => false
def St.isLogout : St → Bool | .logout => true | _ => false
def St.same : St → St → Bool
  | .notAuth, .notAuth | .auth, .auth | .selected, .selected | .logout, .logout => true
  | _, _ => false
def Outcome.isParseErr : Outcome → Bool | .parseErr => true | _ => false
def Outcome.isBackendErr : Outcome → Bool | .backendErr => true | _ => false
def Outcome.isAuxErr : Outcome → Bool | .auxErr => true | _ => false
def Outcome.isPollErr : Outcome → Bool | .pollErr => true | _ => false
def SessionCall.isLogin : SessionCall → Bool | .login => true | _ => false

/-- serve(), conn.go:148-153 -/
def greet (cfg : Cfg) : Conn := ⟨if cfg.pre then .auth else .notAuth, cfg.tls, false⟩

/-- checkState, conn.go:433-441 -/
def checkState (need cur : St) : Bool := (need.isAuth && cur.isSelected) || cur.same need

/-- canAuth, conn.go:407-413 -/
def canAuth (cfg : Cfg) (c : Conn) : Bool := c.st.isNotAuth && (c.tls || cfg.ins)

/-- canStartTLS, starttls.go:13-16 -/
def canStartTLS (cfg : Cfg) (c : Conn) : Bool := cfg.stls && c.st.isNotAuth && !c.tls

/-- poll, conn.go: only in authenticated / selected state -/
def polls (s : St) : Bool := s.isAuth || s.isSelected

/-- result of a handle* function -/
structure H where
  conn : Conn
  calls : List Call := []
  err : Option Resp := none     -- the status the returned error is mapped to; none = nil error
  cont : Nat := 0
  bye : Bool := false
  caps : Bool := false

/-- handlers of the shape: parse; checkState(need); return c.session.X(...) -/
def simple (c : Conn) (need : St) (call : SessionCall) (fails : Bool) : H :=
  if !checkState need c.st then { conn := c, err := some .bad }
  else if fails then { conn := c, calls := [(call, c.st)], err := some .no }
  else { conn := c, calls := [(call, c.st)] }

/-- the same for methods of an optional interface (MOVE, NAMESPACE) -/
def optional (cfg : Cfg) (c : Conn) (need : St) (call : SessionCall) (fails : Bool) : H :=
  if !checkState need c.st then { conn := c, err := some .bad }
  else if !cfg.full then { conn := c, err := some .bad }
  else if fails then { conn := c, calls := [(call, c.st)], err := some .no }
  else { conn := c, calls := [(call, c.st)] }

/-- handleAppend / handleCopy poll themselves; a failing Poll is returned like any other error of
    the handler ("Internal server error", NO) and the connection goes on -/
def ownPoll (h : H) (pollFails : Bool) : H :=
  match h.err with
  | some _ => h
  | none =>
    if polls h.conn.st then
      if pollFails then { h with calls := h.calls ++ [(.poll, h.conn.st)], err := some .no }
      else { h with calls := h.calls ++ [(.poll, h.conn.st)] }
    else h

/-- handleLogin (login.go) and the PLAIN path of handleAuthenticate (authenticate.go) -/
def loginLike (cfg : Cfg) (c : Conn) (fails : Bool) (cont : Nat) : H :=
  if !checkState .notAuth c.st then { conn := c, err := some .bad }
  else if !canAuth cfg c then { conn := c, err := some .no }
  else if fails then { conn := c, calls := [(.login, c.st)], err := some .no, cont := cont }
  else { conn := { c with st := .auth }, calls := [(.login, c.st)], cont := cont, caps := true }

/-- handleSelect (select.go), repaired: the previous mailbox counts as deselected whether or not
    the backend's Unselect succeeds (RFC 9051 6.3.2) -/
def handleSelect (c : Conn) (selFails unselFails : Bool) : H :=
  if !checkState .auth c.st then { conn := c, err := some .bad }
  else
    let pre : List Call := if c.st.isSelected then [(.unselect, .selected)] else []
    if c.st.isSelected && unselFails then { conn := { c with st := .auth }, calls := pre, err := some .no }
    else if selFails then { conn := { c with st := .auth }, calls := pre ++ [(.select, .auth)], err := some .no }
    else { conn := { c with st := .selected }, calls := pre ++ [(.select, .auth)] }

/-- handleUnselect (select.go); expunge = CLOSE -/
def handleUnselect (c : Conn) (expunge : Bool) (unselFails expFails : Bool) : H :=
  if !checkState .selected c.st then { conn := c, err := some .bad }
  else
    let pre : List Call := if expunge then [(.expunge, .selected)] else []
    if expunge && expFails then { conn := c, calls := pre, err := some .no }
    else if unselFails then { conn := c, calls := pre ++ [(.unselect, .selected)], err := some .no }
    else { conn := { c with st := .auth }, calls := pre ++ [(.unselect, .selected)] }

/-- which commands are answered by the common tail of readCommand (sendOK) -/
def sendOK : CmdKind → Bool
  | .starttls | .authenticate | .authCont | .authCancel | .authMech | .login
  | .select | .examine | .append | .copy | .uidCopy => false
  | _ => true

def isUnknown : CmdKind → Bool
  | .unknown | .uidUnknown => true
  | _ => false

/-- the handler proper, for a well-formed instance -/
def handle (cfg : Cfg) (c : Conn) (k : CmdKind) (berr aerr perr : Bool) : H :=
  match k with
  | .noop | .check | .capability => { conn := c }
  | .logout => { conn := { c with st := .logout }, bye := true }
  | .starttls =>
    if !cfg.stls then { conn := c, err := some .no }
    else if !canStartTLS cfg c then { conn := c, err := some .bad }
    else { conn := { c with tls := true } }
  | .authenticate => loginLike cfg c berr 0
  | .authCont => loginLike cfg c berr 1
  | .authCancel =>
    if !checkState .notAuth c.st then { conn := c, err := some .bad }
    else if !canAuth cfg c then { conn := c, err := some .no }
    else { conn := c, err := some .bad, cont := 1 }
  | .authMech =>
    if !checkState .notAuth c.st then { conn := c, err := some .bad }
    else { conn := c, err := some .no }
  | .login => loginLike cfg c berr 0
  | .unauthenticate =>
    if !checkState .auth c.st then { conn := c, err := some .bad }
    else if !cfg.full then { conn := c, err := some .bad }
    else if berr then { conn := c, calls := [(.unauthenticate, c.st)], err := some .no }
    else { conn := { c with st := .notAuth }, calls := [(.unauthenticate, c.st)] }
  | .enable => if !checkState .auth c.st then { conn := c, err := some .bad } else { conn := c }
  | .create => simple c .auth .create berr
  | .delete => simple c .auth .delete berr
  | .rename => simple c .auth .rename berr
  | .subscribe => simple c .auth .subscribe berr
  | .unsubscribe => simple c .auth .unsubscribe berr
  | .status => simple c .auth .status berr
  | .list | .lsub => simple c .auth .list berr
  | .namespace => optional cfg c .auth .namespace berr
  | .idle =>
    if !checkState .auth c.st then { conn := c, err := some .bad }
    else if berr then { conn := c, calls := [(.idle, c.st)], err := some .no, cont := 1 }
    else { conn := c, calls := [(.idle, c.st)], cont := 1 }
  | .select | .examine => handleSelect c berr aerr
  | .close => handleUnselect c true berr aerr
  | .unselect => handleUnselect c false berr aerr
  | .append => ownPoll (simple c .auth .append berr) perr
  | .fetch | .uidFetch => simple c .selected .fetch berr
  | .expunge | .uidExpunge => simple c .selected .expunge berr
  | .store | .uidStore => simple c .selected .store berr
  | .copy | .uidCopy => ownPoll (simple c .selected .copy berr) perr
  | .move | .uidMove => optional cfg c .selected .move berr
  | .search | .uidSearch => simple c .selected .search berr
  | .unknown | .uidUnknown =>
    if c.st.isNotAuth then { conn := { c with st := .logout }, err := some .bad, bye := true }
    else { conn := c, err := some .bad }

/-- the tail of readCommand (conn.go:283-321) and the loop condition of serve (conn.go:172-174) -/
def complete (k : CmdKind) (perr : Bool) (h : H) : Out :=
  let fin (c : Conn) : Conn := if c.st.isLogout then { c with closed := true } else c
  match h.err with
  | some r => ⟨fin h.conn, h.calls, r, h.bye, h.cont, false⟩
  | none =>
    if !sendOK k then ⟨fin h.conn, h.calls, .ok, h.bye, h.cont, h.caps⟩
    else if polls h.conn.st then
      if perr then ⟨{ h.conn with closed := true }, h.calls ++ [(.poll, h.conn.st)], .none, h.bye, h.cont, false⟩
      else ⟨fin h.conn, h.calls ++ [(.poll, h.conn.st)], .ok, h.bye, h.cont, false⟩
    else ⟨fin h.conn, h.calls, .ok, h.bye, h.cont, false⟩

/-- one command on a connection. A closed connection processes nothing. -/
def step (cfg : Cfg) (c : Conn) (k : CmdKind) (o : Outcome) : Out :=
  if c.closed then ⟨c, [], .none, false, 0, false⟩
  else if o.isParseErr && !isUnknown k then ⟨c, [], .bad, false, 0, false⟩
  else complete k o.isPollErr (handle cfg c k o.isBackendErr o.isAuxErr o.isPollErr)

abbrev Hist := List (CmdKind × Outcome)

/-- the outputs of a history from a given connection state -/
def runFrom (cfg : Cfg) : Conn → Hist → List Out
  | _, [] => []
  | c, (k, o) :: h => let r := step cfg c k o; r :: runFrom cfg r.conn h

def run (cfg : Cfg) (h : Hist) : List Out := runFrom cfg (greet cfg) h

/-- the state a client can observe: a closed connection is in the logout state -/
def obsSt (c : Conn) : St := if c.closed then .logout else c.st

def stateTrace (outs : List Out) : List St := outs.map fun r => obsSt r.conn

def callsWithState (outs : List Out) : List Call := outs.flatMap (·.calls)

/-! ### capability advertisement (capability.go: availableCaps) -/

inductive Cap where
  | imap4rev2 | imap4rev1 | saslIR | literalMinus | startTLS | authPlain | loginDisabled
  | unselect | enable | idle | utf8Accept
  | namespace | uidPlus | eSearch | searchRes | listExtended | listStatus | move | statusSize | binary
  | createSpecialUse | literalPlus | unauthenticate
deriving DecidableEq, Repr, Inhabited

def Cap.name : Cap → String
  | .imap4rev2 => "IMAP4rev2" | .imap4rev1 => "IMAP4rev1" | .saslIR => "SASL-IR" | .literalMinus => "LITERAL-"
  | .startTLS => "STARTTLS" | .authPlain => "AUTH=PLAIN" | .loginDisabled => "LOGINDISABLED"
  | .unselect => "UNSELECT" | .enable => "ENABLE" | .idle => "IDLE" | .utf8Accept => "UTF8=ACCEPT"
  | .namespace => "NAMESPACE" | .uidPlus => "UIDPLUS" | .eSearch => "ESEARCH" | .searchRes => "SEARCHRES"
  | .listExtended => "LIST-EXTENDED" | .listStatus => "LIST-STATUS" | .move => "MOVE" | .statusSize => "STATUS=SIZE"
  | .binary => "BINARY" | .createSpecialUse => "CREATE-SPECIAL-USE" | .literalPlus => "LITERAL+"
  | .unauthenticate => "UNAUTHENTICATE"

def Cap.isAuthPlain : Cap → Bool | .authPlain => true | _ => false
def Cap.isLoginDisabled : Cap → Bool | .loginDisabled => true | _ => false
def Cap.isStartTLS : Cap → Bool | .startTLS => true | _ => false

/-- Options.caps() for the three capability sets the harness configures -/
def configured : CapsMode → Cap → Bool
  | .rev1, .imap4rev1 => true
  | .both, .imap4rev1 | .both, .imap4rev2 | .both, .namespace | .both, .uidPlus | .both, .eSearch | .both, .searchRes
  | .both, .listExtended | .both, .listStatus | .both, .move | .both, .statusSize | .both, .binary
  | .both, .createSpecialUse | .both, .literalPlus | .both, .unauthenticate => true
  | .rev2, .imap4rev2 | .rev2, .createSpecialUse | .rev2, .literalPlus | .rev2, .unauthenticate => true
  | _, _ => false

def addAvailable (m : CapsMode) (l : List Cap) : List Cap := l.filter (configured m)

/-- availableCaps, capability.go:29-93, in the order of the Go code -/
def availableCaps (cfg : Cfg) (c : Conn) : List Cap :=
  let has1 := configured cfg.caps .imap4rev1
  addAvailable cfg.caps [.imap4rev2, .imap4rev1]
  ++ (if has1 then [.saslIR, .literalMinus] else [])
  ++ (if canStartTLS cfg c then [.startTLS] else [])
  ++ (if canAuth cfg c then [.authPlain] else if c.st.isNotAuth then [.loginDisabled] else [])
  ++ (if c.st.isAuth || c.st.isSelected then
        (if has1 then
           [.unselect, .enable, .idle, .utf8Accept]
           ++ addAvailable cfg.caps [.namespace, .uidPlus, .eSearch, .searchRes, .listExtended, .listStatus, .move,
                                     .statusSize, .binary]
         else [])
        ++ addAvailable cfg.caps [.createSpecialUse, .literalPlus, .unauthenticate]
      else [])

/-! ### the behaviour before the repair, kept on record -/
namespace Legacy

/-- handleSelect as shipped: a failing Unselect left the connection in the selected state although
    the SELECT was answered NO -/
def handleSelect (c : Conn) (selFails unselFails : Bool) : H :=
  if !checkState .auth c.st then { conn := c, err := some .bad }
  else
    let pre : List Call := if c.st.isSelected then [(.unselect, .selected)] else []
    if c.st.isSelected && unselFails then { conn := c, calls := pre, err := some .no }
    else if selFails then { conn := { c with st := .auth }, calls := pre ++ [(.select, .auth)], err := some .no }
    else { conn := { c with st := .selected }, calls := pre ++ [(.select, .auth)] }

def step (cfg : Cfg) (c : Conn) (k : CmdKind) (o : Outcome) : Out :=
  match k with
  | .select | .examine =>
    if c.closed then ⟨c, [], .none, false, 0, false⟩
    else if o.isParseErr then ⟨c, [], .bad, false, 0, false⟩
    else complete k o.isPollErr (handleSelect c o.isBackendErr o.isAuxErr)
  | _ => ServerSM.step cfg c k o

end Legacy

end GoImap.ServerSM
