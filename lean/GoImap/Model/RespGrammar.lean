/-
  M12 (responses) — mirror of the imapserver response writers and the imapclient response readers.

  * `print…`  — the bytes the server writes for data handed to its writer API
      (imapserver/{fetch,list,status,select,search,append,copy,move,namespace,expunge}.go).
      `none` = outside the model: the writer reports an encoder error / panics (invalid flag, nil
      pointer for a requested STATUS item, empty COPYUID set, …) or the value contains an item kind
      that is not modelled yet (ENVELOPE, BODY/BODYSTRUCTURE).
  * `readResponse` — one response line as imapclient/client.go `readResponse` decodes it, giving an
      `Event`; `parseResponses` reads a whole byte stream.
  * `deliver…` — the routing of events to the command that is waiting (imapclient `handle*`
      functions and `readResponseTagged`), giving what `Wait/Collect/Next` return.

  The model follows the repaired code; the unrepaired behaviour is kept as `Legacy.*`.
-/
import GoImap.Model.RespWire
namespace GoImap.Resp

/-! ## Dates (internal.DateTimeLayout = "_2-Jan-2006 15:04:05 -0700"; package `time` is below the interface) -/

def monthNames : List String := ["Jan", "Feb", "Mar", "Apr", "May", "Jun", "Jul", "Aug", "Sep", "Oct", "Nov", "Dec"]

def pad2 (n : Nat) : Str := if n < 10 then 48 :: encNumber n else encNumber n

def pad4 (n : Nat) : Str :=
  if n < 10 then 48 :: 48 :: 48 :: encNumber n
  else if n < 100 then 48 :: 48 :: encNumber n
  else if n < 1000 then 48 :: encNumber n
  else encNumber n

def zoneText (off : Int) : Str :=
  let a := off.natAbs / 60
  (if off ≤ -60 then 45 else 43) :: (pad2 (a / 60) ++ pad2 (a % 60))   -- the sign is that of the offset in whole minutes

/-- `t.Format(internal.DateTimeLayout)` for years 0..9999 -/
def dateTimeText (t : DateTime) : Str :=
  (if t.day < 10 then 32 :: encNumber t.day else encNumber t.day) ++ [45] ++ asc (monthNames.getD (t.month - 1) "???") ++ [45] ++
  pad4 t.year.toNat ++ [32] ++ pad2 t.hour ++ [58] ++ pad2 t.min ++ [58] ++ pad2 t.sec ++ [32] ++ zoneText t.off

/-- days since 1970-01-01 of a proleptic Gregorian date (year ≥ 1) -/
def daysFromCivil (y : Int) (m d : Nat) : Int :=
  let y' : Int := if m ≤ 2 then y - 1 else y
  let era : Int := y' / 400
  let yoe : Int := y' - era * 400
  let mp : Int := ((m + 9) % 12 : Nat)
  let doy : Int := (153 * mp + 2) / 5 + d - 1
  let doe : Int := yoe * 365 + yoe / 4 - yoe / 100 + doy
  era * 146097 + doe - 719468

def unixOfCivil (y : Int) (mo d h mi s : Nat) (off : Int) : Int :=
  daysFromCivil y mo d * 86400 + h * 3600 + mi * 60 + s - off

def weekdayOf (y : Int) (mo d : Nat) : Nat := ((daysFromCivil y mo d + 4) % 7).toNat

/-- the broken-down fields agree with the instant (checked on every case: it is Go's `time`
    package that computed them) -/
def civilOK (t : DateTime) : Bool :=
  t.unix == unixOfCivil t.year t.month t.day t.hour t.min t.sec t.off && t.wd == weekdayOf t.year t.month t.day

def isLeap (y : Nat) : Bool := y % 4 = 0 && (y % 100 ≠ 0 || y % 400 = 0)

def daysIn (y m : Nat) : Nat :=
  if m = 2 then (if isLeap y then 29 else 28)
  else if m = 4 || m = 6 || m = 9 || m = 11 then 30 else 31

def monthIdx (name : Str) : Option Nat :=
  let i := monthNames.findIdx (fun n => eqFold (asc n) name)
  if i < 12 then some (i + 1) else none

def num2 : Str → Option (Nat × Str)
  | a :: b :: r => if isDigitB a && isDigitB b then some ((a - 48) * 10 + (b - 48), r) else none
  | _ => none

/-- one or two digits (time.getnum with fixed = false) -/
def num12 : Str → Option (Nat × Str)
  | a :: b :: r => if isDigitB a && isDigitB b then some ((a - 48) * 10 + (b - 48), r)
                   else if isDigitB a then some (a - 48, b :: r) else none
  | [a] => if isDigitB a then some (a - 48, []) else none
  | [] => none

def num4 : Str → Option (Nat × Str)
  | a :: b :: c :: d :: r =>
    if isDigitB a && isDigitB b && isDigitB c && isDigitB d then
      some ((a - 48) * 1000 + (b - 48) * 100 + (c - 48) * 10 + (d - 48), r) else none
  | _ => none

/-- `time.Parse(internal.DateTimeLayout, s)` on the text forms the layout admits -/
def parseDateTime (s : Str) : Option DateTime :=
  let s := match s with | 32 :: r => r | s => s
  match num12 s with
  | some (d, 45 :: a :: b :: c :: 45 :: r) =>
    match monthIdx [a, b, c], num4 r with
    | some mo, some (y, 32 :: r) =>
      match num12 r with
      | some (h, 58 :: r) =>
        match num2 r with
        | some (mi, 58 :: r) =>
          match num2 r with
          | some (sec, 32 :: sg :: r) =>
            match num2 r with
            | some (zh, r) =>
              match num2 r with
              | some (zm, []) =>
                if (sg = 43 || sg = 45) && 1 ≤ d && d ≤ daysIn y mo && h < 24 && mi < 60 && sec < 60 && zh ≤ 24 && zm ≤ 60 then
                  let off : Int := (if sg = 45 then -1 else 1) * ((zh * 60 + zm) * 60 : Nat)
                  some { unix := unixOfCivil y mo d h mi sec off, off := off, ns := 0, year := y, month := mo, day := d,
                         hour := h, min := mi, sec := sec, wd := weekdayOf y mo d }
                else none
              | _ => none
            | none => none
          | _ => none
        | _ => none
      | _ => none
    | _, _ => none
  | _ => none

/-! ## Flag / attribute canonicalisation (internal/internal.go canonInit, canonicalFlag, canonicalMailboxAttr) -/

def canonFlagTable : List Str :=
  ["\\Seen", "\\Answered", "\\Flagged", "\\Deleted", "\\Draft", "$Forwarded", "$MDNSent", "$Junk", "$NotJunk", "$Phishing",
   "$Important"].map asc

def canonAttrTable : List Str :=
  ["\\NonExistent", "\\Noinferiors", "\\Noselect", "\\HasChildren", "\\HasNoChildren", "\\Marked", "\\Unmarked", "\\Subscribed",
   "\\Remote", "\\All", "\\Archive", "\\Drafts", "\\Flagged", "\\Junk", "\\Sent", "\\Trash", "\\Important"].map asc

def lookupFold (table : List Str) (s : Str) : Str :=
  match table.find? (fun k => eqFold k s) with
  | some k => k
  | none => s

def canonicalFlag (s : Str) : Str := lookupFold canonFlagTable s
def canonicalMailboxAttr (s : Str) : Str := lookupFold canonAttrTable s

/-! ## Server side: printing -/

def star : Str := [42]

/-- fetch.go writeSectionPart: numbers joined by "." -/
def partText : List Int → Str
  | [] => []
  | [n] => fmtInt n
  | n :: r => fmtInt n ++ 46 :: partText r

/-- fetch.go writeItemBodySection -/
def sectionText (utf8 : Bool) (s : Section) : Str :=
  let hdr : Str :=
    if s.spec.isEmpty then [] else
      s.spec ++
      (if !s.fields.isEmpty then asc ".FIELDS" ++ [32] ++ encList (s.fields.map (encString utf8))
       else if !s.fieldsNot.isEmpty then asc ".FIELDS.NOT" ++ [32] ++ encList (s.fieldsNot.map (encString utf8))
       else [])
  asc "BODY[" ++ partText s.part ++ (if !s.part.isEmpty && !s.spec.isEmpty then [46] else []) ++ hdr ++ [93] ++
  (match s.partial_ with
   | some p => 60 :: (encNumber (p.offset % 4294967296).toNat ++ [62])     -- Number(uint32(partial.Offset))
   | none => [])

def flagListText (l : List Str) : Option Str := (optAll (l.map encFlag)).map encList

/-- one message data item as FetchResponseWriter.Write* writes it -/
def printItem (utf8 : Bool) : Item → Option Str
  | .uid n => some (asc "UID " ++ encNumber n)
  | .flags l => (flagListText l).map fun t => asc "FLAGS " ++ t
  | .date (some t) => some (asc "INTERNALDATE " ++ encString utf8 (dateTimeText t))
  | .date none => none
  | .size n => (encNumber64 n).map fun t => asc "RFC822.SIZE " ++ t
  | .sec s d => some (sectionText utf8 s ++ [32] ++ encLiteral d)
  | .bin s d => some (asc "BINARY[" ++ partText s.part ++ asc "] ~" ++ encLiteral d)
  | .binsize p n => some (asc "BINARY.SIZE[" ++ partText p ++ asc "] " ++ encNumber n)
  | .env _ => none
  | .bs _ _ => none
  | .other _ => none

/-- FetchWriter.CreateMessage … Close: `* n FETCH (items)` -/
def printMsg (utf8 : Bool) (m : Msg) : Option Str :=
  (optAll (m.items.map (printItem utf8))).map fun its =>
    star ++ [32] ++ encNumber m.seq ++ asc " FETCH (" ++ joinSP its ++ [41, 13, 10]

def concatOpt : List (Option Str) → Option Str
  | [] => some []
  | none :: _ => none
  | some x :: r => (concatOpt r).map (x ++ ·)

def printFetch (cfg : Cfg) (ms : List Msg) : Option Str := concatOpt (ms.map (printMsg cfg.quotedUTF8))

/-- `enc.Quoted(string(delim))` / NIL -/
def delimText (d : Int) : Option Str :=
  if d = 0 then some NILb
  else if 0 < d && d < 1114112 && !(55296 ≤ d && d < 57344) then some (encQuoted (Utf7.utf8enc d.toNat))
  else none

/-- status.go writeStatus (the RECENT item is only written when the client asked for it; the Go
    client never does) -/
def printStatus (utf8 : Bool) (o : StatusOpts) (d : StatusData) : Option Str := do
  let mb ← encMailbox utf8 d.mailbox
  let item (b : Bool) (name : String) (v : Option Str) : Option (List Str) :=
    if b then v.map fun t => [asc name ++ [32] ++ t] else some []
  let i1 ← item o.messages "MESSAGES" (d.messages.map encNumber)
  let i2 ← item o.uidNext "UIDNEXT" (some (encNumber d.uidNext))
  let i3 ← item o.uidValidity "UIDVALIDITY" (some (encNumber d.uidValidity))
  let i4 ← item o.unseen "UNSEEN" (d.unseen.map encNumber)
  let i5 ← item o.deleted "DELETED" (d.deleted.map encNumber)
  let i6 ← item o.size "SIZE" (d.size.bind encNumber64)
  let i7 ← item o.appendLimit "APPENDLIMIT" (some (match d.appendLimit with | some n => encNumber n | none => NILb))
  let i8 ← item o.deletedStorage "DELETED-STORAGE" (d.deletedStorage.bind encNumber64)
  pure (star ++ asc " STATUS " ++ mb ++ [32] ++ encList (i1 ++ i2 ++ i3 ++ i4 ++ i5 ++ i6 ++ i7 ++ i8) ++ CRLFb)

/-- list.go writeList -/
def printListLine (utf8 : Bool) (d : ListData) : Option Str := do
  let attrs ← optAll (d.attrs.map encAttr)
  let dl ← delimText d.delim
  let mb ← encMailbox utf8 d.mailbox
  let ci : List Str := match d.childInfo with
    | some sub => [asc "CHILDINFO (" ++ (if sub then encQuoted (asc "SUBSCRIBED") else []) ++ [41]]
    | none => []
  let on ← if d.oldName.isEmpty then some [] else (encMailbox utf8 d.oldName).map fun m => [asc "OLDNAME (" ++ m ++ [41]]
  let ext := ci ++ on
  pure (star ++ asc " LIST " ++ encList attrs ++ [32] ++ dl ++ [32] ++ mb ++ (if ext.isEmpty then [] else 32 :: encList ext) ++ CRLFb)

/-- ListWriter.WriteList: the LIST line, then STATUS when requested and supplied -/
def printListEntry (utf8 : Bool) (so : Option StatusOpts) (d : ListData) : Option Str := do
  let l ← printListLine utf8 d
  match so, d.status with
  | some o, some s => (printStatus utf8 o s).map (l ++ ·)
  | _, _ => pure l

def printList (cfg : Cfg) (so : Option StatusOpts) (ds : List ListData) : Option Str :=
  concatOpt (ds.map (printListEntry cfg.quotedUTF8 so))

/-- select.go handleSelect (a mailbox was selected before: the [CLOSED] line comes first) -/
def printSelect (cfg : Cfg) (d : SelectData) : Option Str := do
  let fl ← flagListText d.flags
  let pf ← flagListText d.permFlags
  let li ← match d.list with
    | some l => printListLine cfg.quotedUTF8 l
    | none => some []
  pure (asc "* OK [CLOSED] Previous mailbox is now closed\r\n" ++
        star ++ [32] ++ encNumber d.num ++ asc " EXISTS\r\n" ++
        (if cfg = .rev2 then [] else asc "* 0 RECENT\r\n") ++
        asc "* OK [UIDVALIDITY " ++ encNumber d.uidValidity ++ asc "] UIDs valid\r\n" ++
        asc "* OK [UIDNEXT " ++ encNumber d.uidNext ++ asc "] Predicted next UID\r\n" ++
        asc "* FLAGS " ++ fl ++ CRLFb ++
        asc "* OK [PERMANENTFLAGS " ++ pf ++ asc "] Permanent flags\r\n" ++ li)

def isESearch (cfg : Cfg) (o : Option SearchOpts) : Bool :=
  cfg = .rev2 || (match o with | some o => o.min || o.max || o.all || o.count | none => false)

/-- search.go handleSearch tail: "If no return option is specified, ALL is assumed" -/
def searchOpts (o : Option SearchOpts) : SearchOpts :=
  match o with
  | some o => if !o.min && !o.max && !o.all && !o.count then { o with all := true } else o
  | none => { min := false, max := false, all := true, count := false }

/-- search.go writeESearch / writeSearch -/
def printSearch (cfg : Cfg) (tag : Str) (o : Option SearchOpts) (d : SearchData) : Option Str :=
  match d.all with
  | none => none                     -- isNumSetEmpty / the type switch panic on a nil interface
  | some (_, set) =>
    if isESearch cfg o then
      let e := searchOpts o
      let allT : Option Str := if e.all && !set.isEmpty then (encNumSet set).map (asc " ALL " ++ ·) else some []
      allT.map fun a =>
        asc "* ESEARCH (TAG " ++ tag ++ [41] ++ (if d.uid then asc " UID" else []) ++ a ++
        (if e.min && d.min > 0 then asc " MIN " ++ encNumber d.min else []) ++
        (if e.max && d.max > 0 then asc " MAX " ++ encNumber d.max else []) ++
        (if e.count then asc " COUNT " ++ encNumber d.count else []) ++ CRLFb
    else
      (NumSet.nums set).map fun ns => asc "* SEARCH" ++ ns.flatMap (fun n => 32 :: encNumber n) ++ CRLFb

/-- copy.go writeCopyOK / append.go writeAppendOK: the response code with its brackets and the space after it -/
def copyCodeText : Option CopyData → Option Str
  | none => some []
  | some d => do
    let s ← encNumSet d.src
    let t ← encNumSet d.dst
    pure (asc "[COPYUID " ++ encNumber d.uidValidity ++ [32] ++ s ++ [32] ++ t ++ asc "] ")

def appendCodeText : Option AppendData → Str
  | none => []
  | some d => asc "[APPENDUID " ++ encNumber d.uidValidity ++ [32] ++ encNumber d.uid ++ asc "] "

def printExpunges (l : List Nat) : Str := l.flatMap fun n => star ++ [32] ++ encNumber n ++ asc " EXPUNGE\r\n"

/-- move.go: WriteCopyData (an untagged OK) then WriteExpunge… -/
def printMove (d : Option CopyData) (ex : List Nat) : Option Str :=
  (copyCodeText d).map fun c => asc "* OK " ++ c ++ asc "COPY completed\r\n" ++ printExpunges ex

/-- namespace.go writeNamespace -/
def nsListText (utf8 : Bool) : Option (List NsDescr) → Option Str
  | none => some NILb
  | some l => (optAll (l.map fun x => (delimText x.delim).map fun dl => 40 :: (encString utf8 x.prefix_ ++ [32] ++ dl ++ [41]))).map encList

def printNamespace (cfg : Cfg) (d : NamespaceData) : Option Str := do
  let a ← nsListText cfg.quotedUTF8 d.personal
  let b ← nsListText cfg.quotedUTF8 d.other
  let c ← nsListText cfg.quotedUTF8 d.shared
  pure (asc "* NAMESPACE " ++ a ++ [32] ++ b ++ [32] ++ c ++ CRLFb)

/-! ## Client side: reading one response -/

inductive Code where
  | none
  | permFlags (l : List Str)
  | uidNext (n : Nat)
  | uidValidity (n : Nat)
  | copyUID (v : Nat) (src dst : NumSet.Set)
  | appendUID (v u : Nat)
  | other (name : Str)

inductive Event where
  | fetch (m : Msg)
  | list (d : ListData)
  | status (d : StatusData)
  | search (nums : List Nat)
  | esearch (tag : Str) (d : SearchData)
  | expunge (n : Nat)
  | exists_ (n : Nat)
  | recent (n : Nat)
  | flags (l : List Str)
  | namespace_ (d : NamespaceData)
  | caps (l : List Str)
  | cond (typ : Str) (code : Code)
  | done (tag typ : Str) (code : Code)

def upperB (c : Nat) : Nat := if 97 ≤ c ∧ c ≤ 122 then c - 32 else c
def toUpper (s : Str) : Str := s.map upperB

def decFlag (s : Str) : Option (Str × Str) := (decFlagRaw s).map fun (f, r) => (if f = [92, 42] then f else canonicalFlag f, r)
/-- internal.ExpectMailboxAttr: ExpectFlag (which canonicalises as a flag) and then canonicalMailboxAttr -/
def decAttr (s : Str) : Option (Str × Str) := (decFlag s).map fun (f, r) => (canonicalMailboxAttr f, r)

/-- fetch.go readSectionPart: numbers separated by dots; `dot` = a trailing dot was consumed -/
def readSectionPart : Nat → List Int → Str → List Int × Bool × Str
  | 0, part, s => (part, false, s)
  | fuel + 1, part, s =>
    if !part.isEmpty then
      match s with
      | 46 :: r =>
        match decNumber r with
        | some (n, r') => readSectionPart fuel (part ++ [(n : Int)]) r'
        | none => (part, true, (spanB isDigitB r).2)       -- Decoder.Number consumes the digits even when it fails (overflow)
      | _ => (part, false, s)
    else
      match decNumber s with
      | some (n, r') => readSectionPart fuel (part ++ [(n : Int)]) r'
      | none => (part, false, (spanB isDigitB s).2)

/-- fetch.go readPartialOffset -/
def readPartialOffset (s : Str) : Option (Option Partial × Str) :=
  match s with
  | 60 :: r =>
    match decNumber r with
    | some (n, 62 :: r') => some (some { offset := n, size := 0 }, r')
    | _ => none
  | _ => some (none, s)

/-- fetch.go readSectionSpec (after the opening bracket) -/
def readSectionSpec (s : Str) : Option (Section × Str) :=
  let (part, dot, r) := readSectionPart (s.length + 1) [] s
  let afterSpec : Option (Str × List Str × List Str × Str) :=
    if dot || part.isEmpty then
      match tryAtom r with
      | none => if dot then none else some ([], [], [], r)
      | some (a, r') =>
        let sp := toUpper a
        if sp = asc "HEADER.FIELDS" || sp = asc "HEADER.FIELDS.NOT" then
          match expectSP r' with
          | none => none
          | some r'' =>
            match decList decAString r'' with
            | none => none
            | some (hl, r3) => if sp = asc "HEADER.FIELDS" then some (asc "HEADER", hl, [], r3) else some (asc "HEADER", [], hl, r3)
        else some (sp, [], [], r')
    else some ([], [], [], r)
  match afterSpec with
  | none => none
  | some (sp, hf, hfn, r) =>
    match r with
    | 93 :: r' =>
      (readPartialOffset r').map fun (p, r'') =>
        ({ spec := sp, part := part, fields := hf, fieldsNot := hfn, partial_ := p, peek := false }, r'')
    | _ => none

/-- Decoder.ExpectNStringReader + reading the literal to the end -/
def decNStringData (s : Str) : Option (Str × Str) :=
  match tryAtom s with
  | some (a, r) => if a = NILb then some ([], r) else none
  | none => decString s

def isMsgAttNameChar (c : Nat) : Bool := c ≠ 91 && isAtomChar c

/-- one msg-att inside handleFetch's ExpectList callback; `none` also for ENVELOPE / BODY / BODYSTRUCTURE
    (not modelled yet) -/
def readItem (s : Str) : Option (Item × Str) :=
  match spanB isMsgAttNameChar s with
  | ([], _) => none
  | (name, r) =>
    let n := toUpper name
    if n = asc "FLAGS" then
      (expectSP r).bind fun r => (decList decFlag r).map fun (l, r') => (Item.flags l, r')
    else if n = asc "INTERNALDATE" then
      (expectSP r).bind fun r => (decQuoted r).bind fun (t, r') => (parseDateTime t).map fun dt => (Item.date (some dt), r')
    else if n = asc "RFC822.SIZE" then
      (expectSP r).bind fun r => (decNumber64 r).map fun (v, r') => (Item.size v, r')
    else if n = asc "UID" then
      (expectSP r).bind fun r => (decNumber r).map fun (v, r') => (Item.uid v, r')
    else if n = asc "BODY" then
      match r with
      | 91 :: r =>
        (readSectionSpec r).bind fun (sec, r') => (expectSP r').bind fun r'' =>
          (decNStringData r'').map fun (d, r3) => (Item.sec sec d, r3)
      | _ => none
    else if n = asc "BINARY" then
      match r with
      | 91 :: r =>
        let (part, dot, r') := readSectionPart (r.length + 1) [] r
        if dot then none else
        match r' with
        | 93 :: r'' =>
          (expectSP r'').bind fun r3 =>
            let r4 := match r3 with | 126 :: x => x | x => x
            (decNStringData r4).map fun (d, r5) => (Item.bin { part := part, partial_ := none, peek := false } d, r5)
        | _ => none
      | _ => none
    else if n = asc "BINARY.SIZE" then
      match r with
      | 91 :: r =>
        let (part, dot, r') := readSectionPart (r.length + 1) [] r
        if dot then none else
        match r' with
        | 93 :: r'' => (expectSP r'').bind fun r3 => (decNumber r3).map fun (v, r4) => (Item.binsize part v, r4)
        | _ => none
      | _ => none
    else none

namespace Legacy
/-- fetch.go before the repair: the BINARY.SIZE branch read the section part without consuming `[` -/
def readBinarySize (r : Str) : Option (Item × Str) :=
  let (part, dot, r') := readSectionPart (r.length + 1) [] r
  if dot then none else
  match r' with
  | 93 :: r'' => (expectSP r'').bind fun r3 => (decNumber r3).map fun (v, r4) => (Item.binsize part v, r4)
  | _ => none
end Legacy

/-- list.go readDelim -/
def readDelim (s : Str) : Option (Int × Str) :=
  match s with
  | 34 :: _ =>
    match decQuoted s with
    | some (q, r) =>
      match Utf7.utf8dec q with
      | some [c] => if c = 65533 then none else some ((c : Int), r)
      | _ => none
    | none => none
  | _ =>
    match tryAtom s with
    | some (a, r) => if a = NILb then some (0, r) else none
    | none => none

/-- Decoder.DiscardValue is not modelled: the server never sends unknown extended items -/
def readListExtItem (acc : Option Bool × Str) (s : Str) : Option ((Option Bool × Str) × Str) :=
  match decAString s with
  | none => none
  | some (tag, r) =>
    match expectSP r with
    | none => none
    | some r =>
      let t := toUpper tag
      if t = asc "CHILDINFO" then
        (decList decAString r).map fun (opts, r') => ((some (opts.any fun o => toUpper o = asc "SUBSCRIBED"), acc.2), r')
      else if t = asc "OLDNAME" then
        match r with
        | 40 :: r1 =>
          match decMailbox r1 with
          | some (m, 41 :: r2) => some ((acc.1, m), r2)
          | _ => none
        | _ => none
      else none

def readListExt : Nat → Option Bool × Str → Str → Option ((Option Bool × Str) × Str)
  | 0, _, _ => none
  | fuel + 1, acc, s =>
    match readListExtItem acc s with
    | none => none
    | some (acc', r) =>
      match r with
      | 41 :: r' => some (acc', r')
      | _ => (expectSP r).bind fun r' => readListExt fuel acc' r'

/-- list.go readList -/
def readList (s : Str) : Option (ListData × Str) := do
  let (attrs, r) ← decList decAttr s
  let r ← expectSP r
  let (dl, r) ← readDelim r
  let r ← expectSP r
  let (mb, r) ← decMailbox r
  match decSP r with
  | (true, 40 :: 41 :: r') => pure ({ attrs, delim := dl, mailbox := mb, childInfo := none, oldName := [], status := none }, r')
  | (true, 40 :: r') =>
    let ((ci, on), r'') ← readListExt (r'.length + 1) (none, []) r'
    pure ({ attrs, delim := dl, mailbox := mb, childInfo := ci, oldName := on, status := none }, r'')
  | (true, _) => none
  | (false, r') => pure ({ attrs, delim := dl, mailbox := mb, childInfo := none, oldName := [], status := none }, r')

/-- status.go readStatusAttVal: one `name SP value` -/
def readStatusItem (d : StatusData) (s : Str) : Option (StatusData × Str) :=
  match tryAtom s with
  | none => none
  | some (name, r) =>
    match expectSP r with
    | none => none
    | some r =>
      let n := toUpper name
      if n = asc "MESSAGES" then (decNumber r).map fun (v, r') => ({ d with messages := some v }, r')
      else if n = asc "UIDNEXT" then (decNumber r).map fun (v, r') => ({ d with uidNext := v }, r')
      else if n = asc "UIDVALIDITY" then (decNumber r).map fun (v, r') => ({ d with uidValidity := v }, r')
      else if n = asc "UNSEEN" then (decNumber r).map fun (v, r') => ({ d with unseen := some v }, r')
      else if n = asc "DELETED" then (decNumber r).map fun (v, r') => ({ d with deleted := some v }, r')
      else if n = asc "SIZE" then (decNumber64 r).map fun (v, r') => ({ d with size := some (v : Int) }, r')
      else if n = asc "APPENDLIMIT" then
        match decNumber r with
        | some (v, r') => some ({ d with appendLimit := some v }, r')
        | none =>
          match tryAtom r with
          | some (a, r') => if a = NILb then some ({ d with appendLimit := some 4294967295 }, r') else none
          | none => none
      else if n = asc "DELETED-STORAGE" then (decNumber64 r).map fun (v, r') => ({ d with deletedStorage := some (v : Int) }, r')
      else none

def readStatusItems : Nat → StatusData → Str → Option (StatusData × Str)
  | 0, _, _ => none
  | fuel + 1, d, s =>
    match readStatusItem d s with
    | none => none
    | some (d', r) =>
      match r with
      | 41 :: r' => some (d', r')
      | _ => (expectSP r).bind fun r' => readStatusItems fuel d' r'

/-- status.go readStatus -/
def readStatus (s : Str) : Option (StatusData × Str) := do
  let (mb, r) ← decMailbox s
  let r ← expectSP r
  let d0 : StatusData := { mailbox := mb, messages := none, uidNext := 0, uidValidity := 0, unseen := none, deleted := none,
                           size := none, appendLimit := none, deletedStorage := none }
  match r with
  | 40 :: 41 :: r' => pure (d0, r')
  | 40 :: r' => readStatusItems (r'.length + 1) d0 r'
  | _ => none

/-- search.go handleSearch: `for dec.SP() { ExpectNumber }` (the MODSEQ form is not modelled) -/
def readSearchNums : Nat → Str → Option (List Nat × Str)
  | 0, _ => none
  | fuel + 1, s =>
    match decSP s with
    | (false, r) => some ([], r)
    | (true, r) =>
      match decNumber r with
      | none => none
      | some (n, r') => (readSearchNums fuel r').map fun (l, r'') => (n :: l, r'')

/-- Decoder.ExpectNumSet: a maximal run of atom characters or `*`, parsed by imapnum.ParseSet -/
def decNumSetText (s : Str) : Option (NumSet.Set × Str) :=
  match spanB (fun c => c = 42 || isAtomChar c) s with
  | ([], _) => none
  | (t, r) => (NumSet.parseSet (t.map Char.ofNat)).map fun set => (set, r)

/-- search.go readESearchResponse: the loop over `name SP value` pairs -/
def readESearchItems : Nat → SearchData → Str → Str → Option (SearchData × Str)
  | 0, _, _, _ => none
  | fuel + 1, d, name, s =>
    match expectSP s with
    | none => none
    | some r =>
      let n := toUpper name
      let step : Option (SearchData × Str) :=
        if n = asc "MIN" then (decNumber r).map fun (v, r') => ({ d with min := v }, r')
        else if n = asc "MAX" then (decNumber r).map fun (v, r') => ({ d with max := v }, r')
        else if n = asc "COUNT" then (decNumber r).map fun (v, r') => ({ d with count := v }, r')
        else if n = asc "ALL" then
          (decNumSetText r).bind fun (set, r') => if NumSet.dynamic set then none else some ({ d with all := some (d.uid, set) }, r')
        else none
      match step with
      | none => none
      | some (d', r') =>
        match decSP r' with
        | (false, r'') => some (d', r'')
        | (true, r'') => (tryAtom r'').bind fun (name', r3) => readESearchItems fuel d' name' r3

def readESearch (s : Str) : Option (Str × SearchData × Str) := do
  let d0 : SearchData := { all := none, uid := false, min := 0, max := 0, count := 0 }
  let (tag, r) ← match s with
    | 40 :: r =>
      match tryAtom r with
      | some (corr, r1) =>
        match expectSP r1 with
        | some r2 =>
          match decAString r2 with
          | some (tag, 41 :: r3) => if corr = asc "TAG" then some (tag, r3) else none
          | _ => none
        | none => none
      | none => none
    | _ => some ([], s)
  match decSP r with
  | (false, r') => pure (tag, d0, r')
  | (true, r') =>
    let (name, r') ← tryAtom r'
    if name = asc "UID" then
      let d1 := { d0 with uid := true }
      match decSP r' with
      | (false, r'') => pure (tag, d1, r'')
      | (true, r'') =>
        let (name', r3) ← tryAtom r''
        let (d, r4) ← readESearchItems (r3.length + 1) d1 name' r3
        pure (tag, d, r4)
    else
      let (d, r4) ← readESearchItems (r'.length + 1) d0 name r'
      pure (tag, d, r4)

/-- namespace.go readNamespaceDescr / readNamespace -/
def readNsDescr (s : Str) : Option (NsDescr × Str) :=
  match s with
  | 40 :: r => do
    let (p, r) ← decString r
    let r ← expectSP r
    let (dl, r) ← readDelim r
    match r with
    | 41 :: r' => pure ({ prefix_ := p, delim := dl }, r')
    | _ => none
  | _ => none

/-- a Go slice that nothing was appended to stays nil -/
def nilIfEmpty {α : Type} : Option (List α) → Option (List α)
  | some [] => none
  | x => x

def readNamespace (s : Str) : Option (NamespaceData × Str) := do
  let (a, r) ← decNList readNsDescr s
  let r ← expectSP r
  let (b, r) ← decNList readNsDescr r
  let r ← expectSP r
  let (c, r) ← decNList readNsDescr r
  pure ({ personal := nilIfEmpty a, other := nilIfEmpty b, shared := nilIfEmpty c }, r)

/-- capability.go readCapabilities -/
def readCaps : Nat → Str → Option (List Str × Str)
  | 0, _ => none
  | fuel + 1, s =>
    match decSP s with
    | (false, r) => some ([], r)
    | (true, r) => (tryAtom r).bind fun (a, r') => (readCaps fuel r').map fun (l, r'') => (a :: l, r'')

/-- Decoder.Text: up to CR or LF, non-empty -/
def decText (s : Str) : Option Str :=
  match spanB (fun c => c ≠ 13 && c ≠ 10) s with
  | ([], _) => none
  | (_, r) => some r

def discardUntil (b : Nat) : Str → Str
  | [] => []
  | c :: r => if c = b then c :: r else discardUntil b r

/-- copy.go readRespCodeCopyUID -/
def readCopyUID (s : Str) : Option (Code × Str) := do
  let (v, r) ← decNumber s
  let r ← expectSP r
  let (src, r) ← decNumSetText r
  let r ← expectSP r
  let (dst, r) ← decNumSetText r
  if NumSet.dynamic src || NumSet.dynamic dst then none else pure (Code.copyUID v src dst, r)

/-- the resp-text part shared by readResponseTagged and the resp-cond branch of readResponseData;
    `tagged` selects which codes are interpreted -/
def readRespText (tagged : Bool) (s : Str) : Option (Code × Str) :=
  match decSP s with
  | (false, r) => some (Code.none, r)
  | (true, 91 :: r) =>
    match tryAtom r with
    | none => none
    | some (code, r) =>
      let body : Option (Code × Str) :=
        if code = asc "CAPABILITY" then (readCaps (r.length + 1) r).map fun (_, r') => (Code.other code, r')
        else if tagged && code = asc "APPENDUID" then do
          let r ← expectSP r
          let (v, r) ← decNumber r
          let r ← expectSP r
          let (u, r) ← decNumber r
          if u = 0 then none else pure (Code.appendUID v u, r)      -- "server returned UID 0"
        else if code = asc "COPYUID" then (expectSP r).bind readCopyUID
        else if !tagged && code = asc "PERMANENTFLAGS" then
          (expectSP r).bind fun r => (decList decFlag r).map fun (l, r') => (Code.permFlags l, r')
        else if !tagged && code = asc "UIDNEXT" then (expectSP r).bind fun r => (decNumber r).map fun (v, r') => (Code.uidNext v, r')
        else if !tagged && code = asc "UIDVALIDITY" then
          (expectSP r).bind fun r => (decNumber r).map fun (v, r') => (Code.uidValidity v, r')
        else
          match decSP r with
          | (true, r') => some (Code.other code, discardUntil 93 r')
          | (false, r') => some (Code.other code, r')
      match body with
      | some (c, 93 :: r') =>
        match decSP r' with
        | (false, r'') => some (c, r'')
        | (true, r'') => (decText r'').map fun r3 => (c, r3)
      | _ => none
  | (true, r) => (decText r).map fun r' => (Code.none, r')

/-- Decoder.ExpectList over msg-att items -/
def readItems (s : Str) : Option (List Item × Str) := decList readItem s

/-- client.go readResponseData after the (optional) number: the switch on the response name -/
def dispatchData (num : Nat) (typ : Str) (r : Str) : Option (Event × Str) :=
  if typ = asc "OK" || typ = asc "PREAUTH" || typ = asc "NO" || typ = asc "BAD" || typ = asc "BYE" then
    (readRespText false r).map fun (c, r') => (Event.cond typ c, r')
  else if typ = asc "CAPABILITY" then (readCaps (r.length + 1) r).map fun (l, r') => (Event.caps l, r')
  else if typ = asc "NAMESPACE" then (expectSP r).bind fun r => (readNamespace r).map fun (d, r') => (Event.namespace_ d, r')
  else if typ = asc "FLAGS" then (expectSP r).bind fun r => (decList decFlag r).map fun (l, r') => (Event.flags l, r')
  else if typ = asc "EXISTS" then some (Event.exists_ num, r)
  else if typ = asc "RECENT" then some (Event.recent num, r)
  else if typ = asc "LIST" then (expectSP r).bind fun r => (readList r).map fun (d, r') => (Event.list d, r')
  else if typ = asc "STATUS" then (expectSP r).bind fun r => (readStatus r).map fun (d, r') => (Event.status d, r')
  else if typ = asc "FETCH" then
    if num = 0 then none          -- "server returned sequence number 0 in FETCH response"
    else (expectSP r).bind fun r => (readItems r).map fun (its, r') => (Event.fetch { seq := num, items := its }, r')
  else if typ = asc "EXPUNGE" then
    if num = 0 then none          -- ExpungeCommand.Next uses 0 to signal the end of the stream
    else some (Event.expunge num, r)
  else if typ = asc "SEARCH" then (readSearchNums (r.length + 1) r).map fun (l, r') => (Event.search l, r')
  else if typ = asc "ESEARCH" then
    (expectSP r).bind fun r => (readESearch r).map fun (tag, d, r') => (Event.esearch tag d, r')
  else none

/-- readResponse's tail: the response must end with CRLF -/
def finishLine (x : Option (Event × Str)) : Option (Event × Str) :=
  x.bind fun (e, r) => (decCRLF r).map fun r' => (e, r')

/-- readResponseData: `number SP ("EXISTS" / "RECENT" / "FETCH" / "EXPUNGE")` or a response name -/
def readNumbered (typ0 r : Str) : Option (Nat × Str × Str) :=
  match typ0 with
  | c :: _ =>
    if isDigitB c then
      if typ0.all isDigitB && valB typ0 < 4294967296 then
        (expectSP r).bind fun r' => (tryAtom r').map fun (t, r'') => (valB typ0, t, r'')
      else none
    else some (0, typ0, r)
  | [] => none

/-- an untagged response after `* ` -/
def readUntagged (r : Str) : Option (Event × Str) :=
  match tryAtom r with
  | none => none
  | some (typ0, r) =>
    match readNumbered typ0 r with
    | none => none
    | some (num, typ, r) => finishLine (dispatchData num typ r)

/-- a tagged response (readResponseTagged): OK / NO / BAD with an optional response code -/
def readTagged (s : Str) : Option (Event × Str) :=
  match tryAtom s with
  | none => none
  | some (tag, r) =>
    match expectSP r with
    | none => none
    | some r =>
      match tryAtom r with
      | none => none
      | some (typ, r) =>
        if typ = asc "OK" || typ = asc "NO" || typ = asc "BAD" then
          finishLine ((readRespText true r).map fun (c, r') => (Event.done tag typ c, r'))
        else none

/-- client.go readResponse: one response, CRLF included -/
def readResponse (s : Str) : Option (Event × Str) :=
  match s with
  | 43 :: _ => none                                   -- continuation request: not part of a response to these commands
  | 42 :: r =>
    match expectSP r with
    | none => none
    | some r => readUntagged r
  | _ => readTagged s

/-- the client's read loop over a byte stream -/
def parseResponses : Nat → Str → Option (List Event)
  | 0, _ => none
  | _ + 1, [] => some []
  | fuel + 1, s =>
    match readResponse s with
    | none => none
    | some (e, r) => (parseResponses fuel r).map (e :: ·)

def parseAll (s : Str) : Option (List Event) := parseResponses (s.length + 1) s

/-! ## Client side: routing of events to the waiting command -/

/-- the UID the client knows when it must decide whom the message belongs to: the last UID item
    before the first literal (handleFetch calls handleMsg at the first literal, else at the end) -/
def uidBeforeLiteral : List Item → Nat → Nat
  | [], u => u
  | .uid n :: r, _ => uidBeforeLiteral r n
  | .sec _ _ :: _, u => u
  | .bin _ _ :: _, u => u
  | _ :: r, u => uidBeforeLiteral r u

/-- FetchCommand.recvSeqNum / recvUID: a FETCH response is handed to the command when its number
    (FETCH) or its UID (UID FETCH) is non-zero and was not received before; the harness asks for
    exactly the numbers the backend sends. Anything else goes to the unilateral data handler. -/
def deliverFetchAux (uidMode : Bool) : List Nat → List Event → List Msg
  | _, [] => []
  | seen, .fetch m :: rest =>
    let key := if uidMode then uidBeforeLiteral m.items 0 else m.seq
    if key ≠ 0 && !seen.contains key then m :: deliverFetchAux uidMode (key :: seen) rest
    else deliverFetchAux uidMode seen rest
  | seen, _ :: rest => deliverFetchAux uidMode seen rest

def deliverFetch (uidMode : Bool) (evs : List Event) : List Msg := deliverFetchAux uidMode [] evs

/-- list.go sameMailbox (after the repair): INBOX in any case matches the canonical name -/
def sameMailbox (requested received : Str) : Bool :=
  if eqFold requested (asc "INBOX") then received = asc "INBOX" else requested = received

namespace Legacy
/-- before the repair the two names were compared byte for byte -/
def sameMailbox (requested received : Str) : Bool := requested = received
end Legacy

/-- handleList / handleStatus for a ListCommand: with RETURN (STATUS …) a LIST entry is held back
    until its STATUS (same mailbox) or the next LIST / the completion arrives -/
def deliverList (returnStatus : Bool) : Option ListData → List Event → List ListData
  | pend, [] => pend.toList
  | pend, .list d :: rest =>
    if returnStatus then pend.toList ++ deliverList returnStatus (some d) rest
    else d :: deliverList returnStatus pend rest
  | pend, .status s :: rest =>
    match pend with
    | some p =>
      if returnStatus && p.mailbox = s.mailbox then { p with status := some s } :: deliverList returnStatus none rest
      else deliverList returnStatus pend rest
    | none => deliverList returnStatus pend rest
  | pend, _ :: rest => deliverList returnStatus pend rest

def emptyStatus : StatusData :=
  { mailbox := [], messages := none, uidNext := 0, uidValidity := 0, unseen := none, deleted := none, size := none,
    appendLimit := none, deletedStorage := none }

/-- handleStatus for a StatusCommand: the (last) STATUS response naming the requested mailbox -/
def deliverStatus (same : Str → Str → Bool) (mailbox : Str) (evs : List Event) : StatusData :=
  evs.foldl (fun acc e => match e with
    | .status d => if same mailbox d.mailbox then d else acc
    | _ => acc) emptyStatus

/-- SELECT: EXISTS, FLAGS, the three response codes and a LIST naming the mailbox -/
def deliverSelect (same : Str → Str → Bool) (mailbox : Str) (evs : List Event) : SelectData :=
  evs.foldl (fun acc e => match e with
    | .exists_ n => { acc with num := n }
    | .flags l => { acc with flags := l }
    | .cond _ (.permFlags l) => { acc with permFlags := l }
    | .cond _ (.uidNext n) => { acc with uidNext := n }
    | .cond _ (.uidValidity n) => { acc with uidValidity := n }
    | .list d => if same mailbox d.mailbox && acc.list.isNone then { acc with list := some d } else acc
    | _ => acc)
    { flags := [], permFlags := [], num := 0, uidNext := 0, uidValidity := 0, list := none }

/-- handleSearch adds each number to the command's set (AddNum); handleESearch replaces the data when the tag matches -/
def deliverSearch (uidMode : Bool) (evs : List Event) : SearchData :=
  evs.foldl (fun acc e => match e with
    | .search nums =>
      let set := match acc.all with | some (_, s) => s | none => []
      { acc with all := some (uidMode, nums.foldl NumSet.addNum set) }
    | .esearch _ d => d
    | _ => acc)
    { all := some (uidMode, []), uid := false, min := 0, max := 0, count := 0 }

def deliverAppend (evs : List Event) : AppendData :=
  evs.foldl (fun acc e => match e with
    | .done _ _ (.appendUID v u) => { uidValidity := v, uid := u }
    | _ => acc) { uidValidity := 0, uid := 0 }

def deliverCopy (evs : List Event) : CopyData :=
  evs.foldl (fun acc e => match e with
    | .done _ _ (.copyUID v s d) => { uidValidity := v, src := s, dst := d }
    | _ => acc) { uidValidity := 0, src := [], dst := [] }

/-- the numbers of the EXPUNGE responses, in order -/
def expungeNums (evs : List Event) : List Nat :=
  evs.filterMap fun e => match e with | .expunge n => some n | _ => none

/-- MOVE: the COPYUID code of an untagged OK; EXPUNGE goes to the unilateral data handler -/
def deliverMove (evs : List Event) : CopyData × List Nat :=
  (evs.foldl (fun acc e => match e with
    | .cond _ (.copyUID v s d) => { uidValidity := v, src := s, dst := d }
    | _ => acc) { uidValidity := 0, src := [], dst := [] },
   expungeNums evs)

def deliverNamespace (evs : List Event) : NamespaceData :=
  evs.foldl (fun acc e => match e with | .namespace_ d => d | _ => acc) { personal := none, other := none, shared := none }

/-- ExpungeCommand.Collect stops at the first zero -/
def deliverExpunge (evs : List Event) : List Nat := (expungeNums evs).takeWhile (· ≠ 0)

end GoImap.Resp
