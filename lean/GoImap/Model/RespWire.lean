/-
  Wire layer used by the response grammar model (C03): mirrors of the parts of
  /repo/internal/imapwire/encoder.go (server side) and /repo/internal/imapwire/decoder.go (client
  side) that the response writers/readers use. Bytes are `Nat`s < 256.

  Encoder functions return the bytes written. Decoder functions take the unread input and return
  the value together with the remaining input; `none` is "the decoder's error is set" (the response
  is abandoned), except for the "try" variants (`decSP`, `tryAtom`, …) whose Go counterparts return
  false without setting an error.
-/
import GoImap.Model.RespTypes
import GoImap.Model.Utf7
namespace GoImap.Resp

def asc (s : String) : Str := s.toList.map Char.toNat

def SPb : Nat := 32
def CRLFb : Str := [13, 10]
def NILb : Str := [78, 73, 76]

/-! ## Encoder (encoder.go) -/

/-- strconv.FormatUint(v, 10) -/
def encNumber (n : Nat) : Str := (NumSet.digits n).map Char.toNat

/-- fmt.Sprintf("%v", n) for an int -/
def fmtInt (n : Int) : Str :=
  if n < 0 then 45 :: encNumber n.natAbs else encNumber n.toNat

/-- Encoder.Number64: a negative value is an encoder error (none) -/
def encNumber64 (n : Int) : Option Str :=
  if n < 0 then none else some (encNumber n.toNat)

namespace Legacy
/-- before the repair (C01) Number64 wrote negative values with their sign -/
def encNumber64 (n : Int) : Str := fmtInt n
end Legacy

def escQuoted : Str → Str
  | [] => []
  | c :: r => if c = 34 ∨ c = 92 then 92 :: c :: escQuoted r else c :: escQuoted r

/-- Encoder.Quoted -/
def encQuoted (s : Str) : Str := 34 :: (escQuoted s ++ [34])

/-- Encoder.validQuoted: at most 4096 bytes, no NUL/CR/LF, 8-bit only when QuotedUTF8 -/
def validQuoted (utf8 : Bool) (s : Str) : Bool :=
  s.length ≤ 4096 && s.all fun c => c ≠ 0 && c ≠ 13 && c ≠ 10 && (utf8 || c ≤ 127)

/-- Encoder.Literal on the server side (never synchronising): `{n}CRLF` then the payload -/
def encLiteralHdr (n : Nat) : Str := 123 :: (encNumber n ++ [125, 13, 10])
def encLiteral (s : Str) : Str := encLiteralHdr s.length ++ s

/-- Encoder.String -/
def encString (utf8 : Bool) (s : Str) : Str :=
  if validQuoted utf8 s then encQuoted s else encLiteral s

/-- fetch.go writeNString -/
def encNString (utf8 : Bool) (s : Str) : Str :=
  if s.isEmpty then NILb else encString utf8 s

def joinSP : List Str → Str
  | [] => []
  | [x] => x
  | x :: rest => x ++ SPb :: joinSP rest

/-- Encoder.List: `(` items separated by SP `)` -/
def encList (items : List Str) : Str := 40 :: (joinSP items ++ [41])

def lowerB (c : Nat) : Nat := if 65 ≤ c ∧ c ≤ 90 then c + 32 else c
def eqFold (a b : Str) : Bool := a.map lowerB == b.map lowerB

/-- Encoder.Mailbox: INBOX (any case) as the atom INBOX, otherwise modified UTF-7 in a string.
    `none`: the name is not valid UTF-8 (Go substitutes U+FFFD; outside the model). -/
def encMailbox (utf8 : Bool) (name : Str) : Option Str :=
  if eqFold name (asc "INBOX") then some (asc "INBOX")
  else (Utf7.utf8dec name).map fun cps => encString utf8 (Utf7.encode cps)

/-- imapwire.IsAtomChar: not one of `( ) { SP % * " \ ]`, not a control character as
    `unicode.IsControl(rune(ch))` sees the byte (0–31, 127–159) -/
def isAtomChar (c : Nat) : Bool :=
  !(c = 40 || c = 41 || c = 123 || c = 32 || c = 37 || c = 42 || c = 34 || c = 92 || c = 93) &&
  !(c < 32 || (127 ≤ c && c < 160))

/-- encoder.go isValidFlag -/
def isValidFlagTail : Str → Bool
  | [] => true
  | c :: r => c ≠ 92 && isAtomChar c && isValidFlagTail r

def isValidFlag (s : Str) : Bool :=
  match s with
  | [] => false
  | [92] => false           -- a lone backslash is neither a flag-keyword nor a flag-extension
  | c :: r => (c = 92 || isAtomChar c) && isValidFlagTail r

/-- Encoder.Flag: none = encoder error -/
def encFlag (f : Str) : Option Str :=
  if f = [92, 42] || isValidFlag f then some f else none

/-- Encoder.MailboxAttr -/
def encAttr (f : Str) : Option Str :=
  if f.head? = some 92 && isValidFlag f then some f else none

def optAll {α : Type} : List (Option α) → Option (List α)
  | [] => some []
  | none :: _ => none
  | some x :: r => (optAll r).map (x :: ·)

/-- Encoder.NumSet: the set's String() (the empty set is an encoder error) -/
def encNumSet (s : NumSet.Set) : Option Str :=
  if s.isEmpty then none else some ((NumSet.toChars s).map Char.toNat)

/-! ## Decoder (decoder.go) -/

/-- Decoder.SP: a space not followed by CR/LF; or no space at all when the next byte is `(` -/
def decSP : Str → Bool × Str
  | 32 :: c :: r => (c ≠ 13 && c ≠ 10, c :: r)
  | [32] => (false, [])
  | 40 :: r => (true, 40 :: r)
  | s => (false, s)

def expectSP (s : Str) : Option Str :=
  match decSP s with
  | (true, r) => some r
  | (false, _) => none

def special (b : Nat) : Str → Option Str
  | c :: r => if c = b then some r else none
  | [] => none

/-- the longest prefix satisfying `p` (Decoder.Func) -/
def spanB (p : Nat → Bool) : Str → Str × Str
  | [] => ([], [])
  | c :: r => if p c then let (a, b) := spanB p r; (c :: a, b) else ([], c :: r)

/-- Decoder.Atom: none when empty (nothing consumed) -/
def tryAtom (s : Str) : Option (Str × Str) :=
  match spanB isAtomChar s with
  | ([], _) => none
  | (a, r) => some (a, r)

def isDigitB (c : Nat) : Bool := 48 ≤ c && c ≤ 57

def valB (d : Str) : Nat := d.foldl (fun n c => n * 10 + (c - 48)) 0

/-- Decoder.Number: digits, value below 2^32 (ParseUint 32 bit; an overflow is a failure) -/
def decNumber (s : Str) : Option (Nat × Str) :=
  match spanB isDigitB s with
  | ([], _) => none
  | (d, r) => if valB d < 4294967296 then some (valB d, r) else none

/-- Decoder.Number64: ParseInt 64 bit -/
def decNumber64 (s : Str) : Option (Nat × Str) :=
  match spanB isDigitB s with
  | ([], _) => none
  | (d, r) => if valB d < 9223372036854775808 then some (valB d, r) else none

/-- Decoder.Quoted after the opening quote: a backslash takes the next byte literally -/
def decQuotedTail : Str → Option (Str × Str)
  | [] => none
  | 34 :: r => some ([], r)
  | 92 :: c :: r => (decQuotedTail r).map fun (a, b) => (c :: a, b)
  | [92] => none
  | c :: r => (decQuotedTail r).map fun (a, b) => (c :: a, b)

def decQuoted : Str → Option (Str × Str)
  | 34 :: r => decQuotedTail r
  | _ => none

/-- Decoder.CRLF: optional space, optional CR, LF -/
def decCRLF (s : Str) : Option Str :=
  let s := match s with | 32 :: r => r | s => s
  let s := match s with | 13 :: r => r | s => s
  match s with
  | 10 :: r => some r
  | _ => none

/-- Decoder.LiteralReader + reading the payload: `{` number64 `}` CRLF, then that many bytes -/
def decLiteral : Str → Option (Str × Str)
  | 123 :: r =>
    match decNumber64 r with
    | some (n, 125 :: r') =>
      match decCRLF r' with
      | some r'' => if n ≤ r''.length then some (r''.take n, r''.drop n) else none
      | none => none
    | _ => none
  | _ => none

/-- Decoder.String / ExpectString -/
def decString (s : Str) : Option (Str × Str) :=
  match s with
  | 34 :: _ => decQuoted s
  | _ => decLiteral s

/-- Decoder.ExpectNString: the atom NIL is the empty string -/
def decNString (s : Str) : Option (Str × Str) :=
  match tryAtom s with
  | some (a, r) => if a = NILb then some ([], r) else none
  | none => decString s

/-- Decoder.ExpectAString: quoted, literal or atom -/
def decAString (s : Str) : Option (Str × Str) :=
  match s with
  | 34 :: _ => decQuoted s
  | 123 :: _ => decLiteral s
  | _ => tryAtom s

/-- Decoder.ExpectMailbox -/
def decMailbox (s : Str) : Option (Str × Str) :=
  match decAString s with
  | none => none
  | some (name, r) =>
    if eqFold name (asc "INBOX") then some (asc "INBOX", r)
    else (Utf7.decode name).map fun cps => (cps.flatMap Utf7.utf8enc, r)

/-- Decoder.List / ExpectList with an item reader; `fuel` bounds the number of items.
    `( )` is the empty list; items are separated by `decSP`. -/
def decListItems {α : Type} (item : Str → Option (α × Str)) : Nat → Str → Option (List α × Str)
  | 0, _ => none
  | fuel + 1, s =>
    match item s with
    | none => none
    | some (x, r) =>
      match r with
      | 41 :: r' => some ([x], r')
      | _ =>
        match expectSP r with
        | none => none
        | some r' => (decListItems item fuel r').map fun (xs, r'') => (x :: xs, r'')

def decList {α : Type} (item : Str → Option (α × Str)) (s : Str) : Option (List α × Str) :=
  match s with
  | 40 :: 41 :: r => some ([], r)
  | 40 :: r => decListItems item (r.length + 1) r
  | _ => none

/-- Decoder.ExpectNList: NIL or a list -/
def decNList {α : Type} (item : Str → Option (α × Str)) (s : Str) : Option (Option (List α) × Str) :=
  match tryAtom s with
  | some (a, r) => if a = NILb then some (none, r) else none
  | none => (decList item s).map fun (l, r) => (some l, r)

/-- internal.ExpectFlag: optional backslash, `\*`, else an atom; the value is canonicalised by the caller -/
def decFlagRaw (s : Str) : Option (Str × Str) :=
  match s with
  | 92 :: 42 :: r => some ([92, 42], r)
  | 92 :: r => (tryAtom r).map fun (a, r') => (92 :: a, r')
  | _ => tryAtom s

end GoImap.Resp
