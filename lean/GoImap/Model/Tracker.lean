/-
  M6 — mirror of /repo/imapserver/tracker.go (MailboxTracker / SessionTracker).
  Concrete: counts and queues of numeric updates, exactly what the Go code stores.
-/
import GoImap.Util
namespace GoImap.Tracker

inductive Upd where
  | expunge (k : Nat)            -- trackerUpdate.expunge
  | exists_ (prev n : Nat)       -- numMessages with prevMessages
  | mflags                       -- mailboxFlags
  | fetch (k : Nat)              -- fetch.seqNum
deriving Repr, DecidableEq, BEq

structure Sess where
  id : Nat
  queue : List Upd
deriving Repr

structure St where
  n : Nat                        -- MailboxTracker.numMessages
  sess : List Sess               -- registered sessions
deriving Repr

def init (n : Nat) : St := ⟨n, []⟩

/-- MailboxTracker.queueUpdate dispatch (source is skipped) -/
def dispatch (st : St) (u : Upd) (src : Option Nat) : List Sess :=
  st.sess.map fun s => if src = some s.id then s else { s with queue := s.queue ++ [u] }

inductive Op where
  | newSession (id : Nat)
  | close (id : Nat)
  | numMessages (n : Nat)        -- QueueNumMessages(n), absolute
  | expunge (k : Nat)
  | mailboxFlags
  | messageFlags (k : Nat) (src : Option Nat)
  | poll (id : Nat) (allow : Bool)
deriving Repr

/-- Poll's queue split: emitted updates and what stays queued -/
def pollSplit (q : List Upd) (allow : Bool) : List Upd × List Upd :=
  if allow then (q, [])
  else
    let pre := q.takeWhile fun u => match u with | .expunge _ => false | _ => true
    (pre, q.drop pre.length)

/-- one API call; `none` = the Go code panics (queueUpdate's range checks) -/
def step (st : St) : Op → Option (St × List Upd)
  | .newSession id => some ({ st with sess := st.sess ++ [⟨id, []⟩] }, [])
  | .close id => some ({ st with sess := st.sess.filter (·.id ≠ id) }, [])
  | .numMessages n =>
    if n ≠ 0 && n < st.n then none
    else if n = 0 then some ({ st with sess := dispatch st (.exists_ st.n 0) none }, [])   -- all-zero update
    else some (⟨n, dispatch st (.exists_ st.n n) none⟩, [])
  | .expunge k =>
    if k = 0 || k > st.n then none
    else some (⟨st.n - 1, dispatch st (.expunge k) none⟩, [])
  | .mailboxFlags => some ({ st with sess := dispatch st .mflags none }, [])
  | .messageFlags k src => some ({ st with sess := dispatch st (.fetch k) src }, [])
  | .poll id allow =>
    match st.sess.find? (·.id = id) with
    | none => some (st, [])
    | some s =>
      let (out, rest) := pollSplit s.queue allow
      some ({ st with sess := st.sess.map fun x => if x.id = id then { x with queue := rest } else x }, out)

/-- DecodeSeqNum's loop: `none` = the early `return 0` -/
def decLoop : List Upd → Nat → Option Nat
  | [], c => some c
  | .expunge e :: q, c => if c = e then none else if c > e then decLoop q (c - 1) else decLoop q c
  | _ :: q, c => decLoop q c

/-- SessionTracker.DecodeSeqNum -/
def decode (q : List Upd) (numMessages c : Nat) : Nat :=
  if c = 0 then 0 else
  match decLoop q c with
  | none => 0
  | some r => if r > numMessages then 0 else r

/-- EncodeSeqNum's loop over the reversed queue (after the repair: `seqNum > prevMessages`) -/
def encLoop : List Upd → Nat → Option Nat
  | [], s => some s
  | .exists_ prev n :: q, s => if n ≠ 0 && s > prev then none else encLoop q s
  | .expunge e :: q, s => if s ≥ e then encLoop q (s + 1) else encLoop q s
  | _ :: q, s => encLoop q s

/-- SessionTracker.EncodeSeqNum -/
def encode (q : List Upd) (numMessages s : Nat) : Nat :=
  if s = 0 then 0 else if s > numMessages then 0 else
  match encLoop q.reverse s with
  | none => 0
  | some r => r

/-- the loop as shipped before the repair (`seqNum == update.numMessages`) -/
def Legacy.encLoop : List Upd → Nat → Option Nat
  | [], s => some s
  | .exists_ _ n :: q, s => if n ≠ 0 && s = n then none else Legacy.encLoop q s
  | .expunge e :: q, s => if s ≥ e then Legacy.encLoop q (s + 1) else Legacy.encLoop q s
  | _ :: q, s => Legacy.encLoop q s

def Legacy.encode (q : List Upd) (numMessages s : Nat) : Nat :=
  if s = 0 then 0 else if s > numMessages then 0 else
  match Legacy.encLoop q.reverse s with
  | none => 0
  | some r => r

end GoImap.Tracker
