/-
  M12 (responses), second part — ENVELOPE and BODY / BODYSTRUCTURE: mirror of
  imapserver/fetch.go writeEnvelope, writeAddressList, writeBodyStructure, writeBodyType1part,
  writeBodyTypeMpart, writeBodyFldParam/Dsp/Lang and of imapclient/fetch.go readEnvelope,
  readAddressList, readAddress, readBody, readBodyType1part, readBodyTypeMpart, readBodyExt1part,
  readBodyExtMpart, readBodyFldDsp, readBodyFldParam, readBodyFldLang.

  Below the modelled interface (given to the model as tables computed by the real Go code for the
  strings of the case): `mime.QEncoding.Encode("utf-8", s)` for strings that need encoding, and
  `mime.WordDecoder.DecodeHeader(w)` for strings that contain "=?". `net/mail.ParseDate` and
  go-message's Message-ID parsing are mirrored only on the forms the server writes.

  No theorem is proved about this file yet: it serves the byte-for-byte / delivery correspondence.
-/
import GoImap.Model.RespGrammar
namespace GoImap.Resp

abbrev QTab := List (Str × Str)

def lookupQ (tab : QTab) (s : Str) : Option Str := (tab.find? fun kv => kv.1 == s).map (·.2)

/-- mime.needsEncoding: a byte outside printable ASCII other than TAB -/
def needsEncoding (s : Str) : Bool := s.any fun b => (b < 32 || b > 126) && b ≠ 9

def hasEqQ : Str → Bool
  | 61 :: 63 :: _ => true
  | _ :: r => hasEqQ r
  | [] => false

/-- mime.QEncoding.Encode("utf-8", s) -/
def qenc (enc : QTab) (s : Str) : Option Str := if needsEncoding s then lookupQ enc s else some s

/-- Options.decodeText: DecodeHeader, the input itself when it has no "=?" (or on error) -/
def qdec (dec : QTab) (w : Str) : Option Str := if hasEqQ w then lookupQ dec w else some w

def dayNames : List String := ["Sun", "Mon", "Tue", "Wed", "Thu", "Fri", "Sat"]

/-- t.Format("Mon, 02 Jan 2006 15:04:05 -0700") -/
def envDateText (t : DateTime) : Str :=
  asc (dayNames.getD t.wd "???") ++ asc ", " ++ pad2 t.day ++ [32] ++ asc (monthNames.getD (t.month - 1) "???") ++ [32] ++
  pad4 t.year.toNat ++ [32] ++ pad2 t.hour ++ [58] ++ pad2 t.min ++ [58] ++ pad2 t.sec ++ [32] ++ zoneText t.off

/-! ## printing -/

def printAddress (utf8 : Bool) (enc : QTab) (a : Address) : Option Str :=
  (qenc enc a.name).map fun n =>
    40 :: (encNString utf8 n ++ asc " NIL " ++ encNString utf8 a.mailbox ++ [32] ++ encNString utf8 a.host ++ [41])

def printAddrList (utf8 : Bool) (enc : QTab) : Option (List Address) → Option Str
  | none => some NILb
  | some l => (optAll (l.map (printAddress utf8 enc))).map encList

def intercalateStr (sep : Str) : List Str → Str
  | [] => []
  | [x] => x
  | x :: r => x ++ sep ++ intercalateStr sep r

/-- writeEnvelope (a nil envelope is written as the empty one) -/
def printEnvelope (utf8 : Bool) (enc : QTab) (e : Option Envelope) : Option Str := do
  let e : Envelope := match e with
    | some e => e
    | none => { date := none, subject := [], from_ := none, sender := none, replyTo := none, to := none, cc := none, bcc := none,
                inReplyTo := none, messageID := [] }
  let sender := match e.sender with | none => e.from_ | some l => some l
  let replyTo := match e.replyTo with | none => e.from_ | some l => some l
  let subj ← qenc enc e.subject
  let a1 ← printAddrList utf8 enc e.from_
  let a2 ← printAddrList utf8 enc sender
  let a3 ← printAddrList utf8 enc replyTo
  let a4 ← printAddrList utf8 enc e.to
  let a5 ← printAddrList utf8 enc e.cc
  let a6 ← printAddrList utf8 enc e.bcc
  let date := match e.date with | none => NILb | some t => encString utf8 (envDateText t)
  let irt := match e.inReplyTo with
    | some (x :: xs) => encString utf8 (60 :: (intercalateStr (asc "> <") (x :: xs) ++ [62]))
    | _ => NILb
  let mid := if e.messageID.isEmpty then NILb else encString utf8 (60 :: (e.messageID ++ [62]))
  pure (40 :: (date ++ [32] ++ encNString utf8 subj ++ [32] ++ a1 ++ [32] ++ a2 ++ [32] ++ a3 ++ [32] ++ a4 ++ [32] ++ a5 ++ [32] ++ a6 ++
        [32] ++ irt ++ [32] ++ mid ++ [41]))

/-- writeBodyFldParam (the map's keys sorted: the case supplies them sorted) -/
def printParams (utf8 : Bool) : Params → Str
  | none => NILb
  | some l => encList (l.map fun kv => encString utf8 kv.1 ++ [32] ++ encString utf8 kv.2)

def printDisp (utf8 : Bool) : Option Disposition → Str
  | none => NILb
  | some d => 40 :: (encString utf8 d.value ++ [32] ++ printParams utf8 d.params ++ [41])

def printLang (utf8 : Bool) : Option (List Str) → Str
  | none => NILb
  | some l => encList (l.map (encString utf8))

def isASCIIStr (s : Str) : Bool := s.all (· < 128)

mutual
  /-- writeBodyStructure; `none`: the writer panics (no child, extension data missing) or the value is outside the model -/
  def printBody (utf8 : Bool) (enc : QTab) (ext : Bool) : Body → Option Str
    | .single h msg text x => do
      if !isASCIIStr h.enc then none else
      let encT := if h.enc.isEmpty then asc "7BIT" else toUpper h.enc
      let head := encString utf8 h.type ++ [32] ++ encString utf8 h.subtype ++ [32] ++ printParams utf8 h.params ++ [32] ++
        encNString utf8 h.id ++ [32] ++ encNString utf8 h.desc ++ [32] ++ encString utf8 encT ++ [32] ++ encNumber h.size
      let mid ← match msg with
        | .some e b n => do
          let et ← printEnvelope utf8 enc e
          let bt ← printBody utf8 enc ext b
          let nt ← encNumber64 n
          pure ([32] ++ et ++ [32] ++ bt ++ [32] ++ nt)
        | .none => match text with
          | some n => (encNumber64 n).map fun t => 32 :: t
          | none => some []
      let tail ← if ext then
          match x with
          | some x => some (asc " NIL " ++ printDisp utf8 x.disp ++ [32] ++ printLang utf8 x.lang ++ [32] ++ encNString utf8 x.loc)
          | none => none
        else some []
      pure (40 :: (head ++ mid ++ tail ++ [41]))
    | .multi ch st x => do
      let cs ← printBodies utf8 enc ext ch
      if cs.isEmpty then none else
      let tail ← if ext then
          match x with
          | some x => some ([32] ++ printParams utf8 x.params ++ [32] ++ printDisp utf8 x.disp ++ [32] ++ printLang utf8 x.lang ++ [32] ++
                            encNString utf8 x.loc)
          | none => none
        else some []
      pure (40 :: (joinSP cs ++ [32] ++ encString utf8 st ++ tail ++ [41]))
  def printBodies (utf8 : Bool) (enc : QTab) (ext : Bool) : BodyList → Option (List Str)
    | .nil => some []
    | .cons b t => do
      let x ← printBody utf8 enc ext b
      let r ← printBodies utf8 enc ext t
      pure (x :: r)
end

/-- printItem extended with ENVELOPE and BODY / BODYSTRUCTURE -/
def printItemQ (utf8 : Bool) (enc : QTab) : Item → Option Str
  | .env e => (printEnvelope utf8 enc e).map fun t => asc "ENVELOPE " ++ t
  | .bs ext b => (printBody utf8 enc ext b).map fun t => asc (if ext then "BODYSTRUCTURE " else "BODY ") ++ t
  | it => printItem utf8 it

def printMsgQ (utf8 : Bool) (enc : QTab) (m : Msg) : Option Str :=
  (optAll (m.items.map (printItemQ utf8 enc))).map fun its =>
    star ++ [32] ++ encNumber m.seq ++ asc " FETCH (" ++ joinSP its ++ [41, 13, 10]

def printFetchQ (cfg : Cfg) (enc : QTab) (ms : List Msg) : Option Str := concatOpt (ms.map (printMsgQ cfg.quotedUTF8 enc))

/-! ## reading -/

def dayIdx (name : Str) : Option Nat :=
  let i := dayNames.findIdx (fun n => eqFold (asc n) name)
  if i < 7 then some i else none

/-- net/mail.ParseDate on the layout the server writes; anything else (NIL included) is "no date" -/
def parseEnvDate (s : Str) : Option DateTime :=
  match s with
  | a :: b :: c :: 44 :: 32 :: r =>
    match dayIdx [a, b, c], num12 r with
    | some _, some (d, 32 :: m1 :: m2 :: m3 :: 32 :: r) =>
      match monthIdx [m1, m2, m3], num4 r with
      | some mo, some (y, 32 :: r) =>
        match num2 r with
        | some (h, 58 :: r) =>
          match num2 r with
          | some (mi, 58 :: r) =>
            match num2 r with
            | some (sec, 32 :: sg :: r) =>
              match num2 r with
              | some (zh, r) =>
                match num2 r with
                | some (zm, []) =>
                  if (sg = 43 || sg = 45) && 1 ≤ d && d ≤ daysIn y mo && h < 24 && mi < 60 && sec < 60 && zm < 60 then
                    let off : Int := (if sg = 45 then -1 else 1) * ((zh * 60 + zm) * 60 : Nat)
                    some { unix := unixOfCivil y mo d h mi sec off, off := off, ns := 0, year := y, month := mo, day := d,
                           hour := h, min := mi, sec := sec, wd := weekdayOf y mo d }
                  else none
                | _ => none
              | none => none
            | _ => none
          | _ => none
        | _ => none
      | _, _ => none
    | _, _ => none
  | _ => none

/-- RFC 5322 atext -/
def atextB (c : Nat) : Bool :=
  (65 ≤ c && c ≤ 90) || (97 ≤ c && c ≤ 122) || (48 ≤ c && c ≤ 57) ||
  [33, 35, 36, 37, 38, 39, 42, 43, 45, 47, 61, 63, 94, 95, 96, 123, 124, 125, 126].contains c

/-- RFC 5322 dtext: printable ASCII except `[`, `]`, `\` -/
def dtextB (c : Nat) : Bool := (33 ≤ c && c ≤ 90) || (94 ≤ c && c ≤ 126)

/-- go-message mail.headerParser.parseMsgID: `<` dot-atom-text `@` (dot-atom-text | `[` dtext* `]`) `>`
    (comments and folding white space around it do not occur in what the server writes) -/
def takeMsgID : Str → Option (Str × Str)
  | 60 :: r =>
    match spanB (fun c => atextB c || c = 46) r with
    | ([], _) => none
    | (left, 64 :: 91 :: r2) =>
      match spanB dtextB r2 with
      | (lit, 93 :: 62 :: r') => some (left ++ 64 :: 91 :: (lit ++ [93]), r')
      | _ => none
    | (left, 64 :: r2) =>
      match spanB (fun c => atextB c || c = 46) r2 with
      | ([], _) => none
      | (right, 62 :: r') => some (left ++ 64 :: right, r')
      | _ => none
    | _ => none
  | _ => none

def parseMsgIDs : Nat → Str → Option (List Str)
  | 0, _ => none
  | fuel + 1, s =>
    let s := (spanB (· = 32) s).2
    match s with
    | [] => some []
    | _ => (takeMsgID s).bind fun (id, r) => (parseMsgIDs fuel r).map (id :: ·)

def readAddress (dec : QTab) (s : Str) : Option (Address × Str) :=
  match s with
  | 40 :: r => do
    let (name, r) ← decNString r
    let r ← expectSP r
    let (_, r) ← decNString r
    let r ← expectSP r
    let (mb, r) ← decNString r
    let r ← expectSP r
    let (host, r) ← decNString r
    match r with
    | 41 :: r' => (qdec dec name).map fun n => ({ name := n, mailbox := mb, host := host }, r')
    | _ => none
  | _ => none

/-- readAddressList: NIL and `()` both give a nil slice -/
def readAddrList (dec : QTab) (s : Str) : Option (Option (List Address) × Str) :=
  (decNList (readAddress dec) s).map fun (l, r) => (nilIfEmpty l, r)

def readEnvelope (dec : QTab) (s : Str) : Option (Envelope × Str) :=
  match s with
  | 40 :: r => do
    let (date, r) ← decNString r
    let r ← expectSP r
    let (subj, r) ← decNString r
    let r ← expectSP r
    let (a1, r) ← readAddrList dec r
    let r ← expectSP r
    let (a2, r) ← readAddrList dec r
    let r ← expectSP r
    let (a3, r) ← readAddrList dec r
    let r ← expectSP r
    let (a4, r) ← readAddrList dec r
    let r ← expectSP r
    let (a5, r) ← readAddrList dec r
    let r ← expectSP r
    let (a6, r) ← readAddrList dec r
    let r ← expectSP r
    let (irt, r) ← decNString r
    let r ← expectSP r
    let (mid, r) ← decNString r
    match r with
    | 41 :: r' =>
      let subj' ← qdec dec subj
      let ids ← parseMsgIDs (irt.length + 1) irt
      let mid' ← if mid.isEmpty then some [] else
        match takeMsgID mid with
        | some (id, []) => some id
        | _ => none
      pure ({ date := parseEnvDate date, subject := subj', from_ := a1, sender := a2, replyTo := a3, to := a4, cc := a5, bcc := a6,
              inReplyTo := if ids.isEmpty then none else some ids, messageID := mid' }, r')
    | _ => none
  | _ => none

def ltStrM : Str → Str → Bool
  | [], [] => false
  | [], _ :: _ => true
  | _ :: _, [] => false
  | a :: as, b :: bs => a < b || (a == b && ltStrM as bs)

/-- assignment into a Go map, kept as a list sorted by key -/
def mapSet (k v : Str) : List (Str × Str) → List (Str × Str)
  | [] => [(k, v)]
  | h :: t => if h.1 == k then (k, v) :: t else if ltStrM k h.1 then (k, v) :: h :: t else h :: mapSet k v t

/-- readBodyFldParam's callback state: the pending key ("" = none) and the map -/
def pairUp (dec : QTab) : Str → List (Str × Str) → List Str → Option (List (Str × Str))
  | k, m, [] => if k.isEmpty then some m else none
  | k, m, s :: r =>
    if k.isEmpty then pairUp dec s m r
    else (qdec dec s).bind fun v => pairUp dec [] (mapSet (k.map lowerB) v m) r

def readParams (dec : QTab) (s : Str) : Option (Params × Str) :=
  (decNList decString s).bind fun (l, r) =>
    match l with
    | none => some (none, r)
    | some strs => (pairUp dec [] [] strs).map fun m => (if m.isEmpty then none else some m, r)

def expectNIL (s : Str) : Option Str :=
  match tryAtom s with
  | some (a, r) => if a = NILb then some r else none
  | none => none

def readDisp (dec : QTab) (s : Str) : Option (Option Disposition × Str) :=
  match s with
  | 40 :: r => do
    let (v, r) ← decString r
    let r ← expectSP r
    let (p, r) ← readParams dec r
    match r with
    | 41 :: r' => pure (some { value := v, params := p }, r')
    | _ => none
  | _ => (expectNIL s).map fun r => (none, r)

def readLang (s : Str) : Option (Option (List Str) × Str) :=
  match s with
  | 40 :: _ => (decList decString s).map fun (l, r) => (if l.isEmpty then none else some l, r)
  | _ => (decNString s).map fun (x, r) => (if x.isEmpty then none else some [x], r)

/-- readBodyExt1part after the SP: md5, then optional disposition, language, location -/
def readExt1 (dec : QTab) (s : Str) : Option (SingleExt × Str) := do
  let (_, r) ← decNString s
  match decSP r with
  | (false, r) => pure ({ disp := none, lang := none, loc := [] }, r)
  | (true, r) =>
    let (d, r) ← readDisp dec r
    match decSP r with
    | (false, r) => pure ({ disp := d, lang := none, loc := [] }, r)
    | (true, r) =>
      let (l, r) ← readLang r
      match decSP r with
      | (false, r) => pure ({ disp := d, lang := l, loc := [] }, r)
      | (true, r) =>
        let (loc, r) ← decNString r
        pure ({ disp := d, lang := l, loc := loc }, r)

def readExtM (dec : QTab) (s : Str) : Option (MultiExt × Str) := do
  let (p, r) ← readParams dec s
  match decSP r with
  | (false, r) => pure ({ params := p, disp := none, lang := none, loc := [] }, r)
  | (true, r) =>
    let (d, r) ← readDisp dec r
    match decSP r with
    | (false, r) => pure ({ params := p, disp := d, lang := none, loc := [] }, r)
    | (true, r) =>
      let (l, r) ← readLang r
      match decSP r with
      | (false, r) => pure ({ params := p, disp := d, lang := l, loc := [] }, r)
      | (true, r) =>
        let (loc, r) ← decNString r
        pure ({ params := p, disp := d, lang := l, loc := loc }, r)

/-- Decoder.ExpectBodyFldOctets: a number, or the "-1" some servers send -/
def decOctets (s : Str) : Option (Nat × Str) :=
  match s with
  | 45 :: 49 :: r => some (0, r)
  | 45 :: _ => none
  | _ => decNumber s

def snocBody : BodyList → Body → BodyList
  | .nil, b => .cons b .nil
  | .cons x t, b => .cons x (snocBody t b)

mutual
  /-- readBody: `(` body-type-1part / body-type-mpart `)`; fuel bounds the nesting and the number of children -/
  def readBody (dec : QTab) : Nat → Str → Option (Body × Str)
    | 0, _ => none
    | fuel + 1, s =>
      match s with
      | 40 :: r =>
        let inner : Option (Body × Str) :=
          match r with
          | 40 :: _ => readMpart dec fuel .nil r
          | _ =>
            match decString r with
            | none => none
            | some (typ, r) => readOnePart dec fuel typ r
        match inner with
        | some (b, 41 :: r') => some (b, r')
        | _ => none
      | _ => none
  /-- readBodyTypeMpart: children until a subtype string follows -/
  def readMpart (dec : QTab) : Nat → BodyList → Str → Option (Body × Str)
    | 0, _, _ => none
    | fuel + 1, acc, s =>
      match readBody dec fuel s with
      | none => none
      | some (child, r) =>
        let acc' := snocBody acc child
        match decSP r with
        | (true, r') =>
          match r' with
          | 40 :: _ => readMpart dec fuel acc' r'
          | _ =>
            match decString r' with
            | none => none
            | some (st, r'') =>
              match decSP r'' with
              | (true, r3) => (readExtM dec r3).map fun (x, r4) => (Body.multi acc' st (some x), r4)
              | (false, r3) => some (Body.multi acc' st none, r3)
        | (false, _) => none
  /-- readBodyType1part after the media type -/
  def readOnePart (dec : QTab) : Nat → Str → Str → Option (Body × Str)
    | 0, _, _ => none
    | fuel + 1, typ, s => do
      let r ← expectSP s
      let (sub, r) ← decString r
      let r ← expectSP r
      let (params, r) ← readParams dec r
      let r ← expectSP r
      let (id, r) ← decNString r
      let r ← expectSP r
      let (desc, r) ← decNString r
      let r ← expectSP r
      let (enc, r) ← decNString r
      let r ← expectSP r
      let (size, r) ← decOctets r
      let desc' ← qdec dec desc
      let h : SingleHdr := { type := typ, subtype := sub, params := params, id := id, desc := desc',
                             enc := if enc.isEmpty then asc "7BIT" else enc, size := size }
      match decSP r with
      | (false, r) => pure (Body.single h .none none none, r)
      | (true, r) =>
        if eqFold typ (asc "message") && (eqFold sub (asc "rfc822") || eqFold sub (asc "global")) then do
          let (env, r) ← readEnvelope dec r
          let r ← expectSP r
          let (b, r) ← readBody dec fuel r
          let r ← expectSP r
          let (n, r) ← decNumber64 r
          match decSP r with
          | (false, r) => pure (Body.single h (.some (some env) b n) none none, r)
          | (true, r) =>
            let (x, r) ← readExt1 dec r
            pure (Body.single h (.some (some env) b n) none (some x), r)
        else if eqFold typ (asc "text") then do
          let (n, r) ← decNumber64 r
          match decSP r with
          | (false, r) => pure (Body.single h .none (some (n : Int)) none, r)
          | (true, r) =>
            let (x, r) ← readExt1 dec r
            pure (Body.single h .none (some (n : Int)) (some x), r)
        else do
          let (x, r) ← readExt1 dec r
          pure (Body.single h .none none (some x), r)
end

/-- readItem extended with ENVELOPE and BODY / BODYSTRUCTURE -/
def readItemQ (dec : QTab) (s : Str) : Option (Item × Str) :=
  match spanB isMsgAttNameChar s with
  | ([], _) => none
  | (name, r) =>
    let n := toUpper name
    if n = asc "ENVELOPE" then
      (expectSP r).bind fun r => (readEnvelope dec r).map fun (e, r') => (Item.env (some e), r')
    else if n = asc "BODYSTRUCTURE" then
      (expectSP r).bind fun r => (readBody dec (r.length + 1) r).map fun (b, r') => (Item.bs true b, r')
    else if n = asc "BODY" then
      match r with
      | 91 :: _ => readItem s
      | _ => (expectSP r).bind fun r => (readBody dec (r.length + 1) r).map fun (b, r') => (Item.bs false b, r')
    else readItem s

/-- the `* n FETCH (…)` lines of a FETCH command's response, then the tagged completion -/
def parseFetchQ (dec : QTab) : Nat → Str → Option (List Event)
  | 0, _ => none
  | _ + 1, [] => some []
  | fuel + 1, s =>
    let line : Option (Event × Str) :=
      match s with
      | 42 :: 32 :: r =>
        match decNumber r with
        | some (n, 32 :: 70 :: 69 :: 84 :: 67 :: 72 :: 32 :: r') =>
          if n = 0 then none else
          match decList (readItemQ dec) r' with
          | some (its, 13 :: 10 :: r'') => some (Event.fetch { seq := n, items := its }, r'')
          | _ => none
        | _ => readResponse s
      | _ => readResponse s
    match line with
    | none => none
    | some (e, r) => (parseFetchQ dec fuel r).map (e :: ·)

end GoImap.Resp
